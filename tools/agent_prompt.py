#!/usr/bin/env python3
"""usage: tools/agent_prompt.py <PROP> <worktree-name> [<extra hint>]
Creates a scratch worktree of /repo at /tmp/mut/<worktree-name> and prints the prompt for a fresh sub-agent
that is to write a property-breaking change there.  The prompt contains the property text and one-line
summaries of the changes already kept for that property (so that the new one differs) - nothing about /verif."""
import json, sys, glob, os, subprocess
prop, wt = sys.argv[1], sys.argv[2]
hint = sys.argv[3] if len(sys.argv) > 3 else ""
P = None
for l in open('/verif/properties.jsonl'):
    p = json.loads(l)
    if p['id'] == prop:
        P = p
d = f"/tmp/mut/{wt}"
os.makedirs("/tmp/mut", exist_ok=True)
if not os.path.exists(d):
    subprocess.check_call(["git", "-C", "/repo", "worktree", "add", "-q", "--detach", d, "HEAD"])
os.makedirs(d + "-out", exist_ok=True)
prev = []
for m in sorted(glob.glob(f"/verif/seeded/{prop}/m*/meta.json")):
    prev.append("- " + json.load(open(m))['summary'][:400].replace("\n", " "))
prop_txt = json.dumps({k: P[k] for k in ("id", "title", "statement", "quantifier", "why_tests_cant", "anchors") if k in P}, indent=1)
print(f"""You are working in a scratch git worktree of the Rust crate `futures-concurrency` at {d} (a sealed sandbox with no network: always pass `--offline` to cargo, and `export CARGO_TARGET_DIR={d}/target` first). Work ONLY inside {d} and {d}-out. Do not read or write /repo, /verif or any other directory; do not commit.

The crate is supposed to satisfy this semantic property:

{prop_txt}

YOUR TASK: write a change to the crate's source (files under src/ only) that BREAKS this property, while
 (a) the crate still compiles in all three configurations: `cargo build --offline`, `cargo build --offline --no-default-features`, `cargo build --offline --no-default-features --features alloc`;
 (b) the existing test suite, unedited, still passes: `cargo test --offline` (unit tests, tests/*.rs, doc tests);
 (c) it reads like something a maintainer could plausibly merge (a refactor, an optimisation, a "simplification", a clean-up with a reasonable-sounding comment) - not sabotage;
 (d) it NEEDS SOMETHING SPECIFIC TO MANIFEST: a particular interleaving of wake-ups and polls, a panic or drop at a particular point, a multi-step sequence of operations, an unusual input (a boundary size, an empty or one-element container, a particular arity), a particular feature configuration, or two cooperating edits at different sites that each look fine alone. A change that ordinary use would expose at once is not wanted.
{hint}
Changes that were already written for this property (yours must be different in mechanism and place):
{os.linesep.join(prev) if prev else '- (none)'}

Also write a DEMONSTRATION: one self-contained integration-test file (it will be placed at tests/seeded_demo.rs; use only the crate's public API, std, and the existing dev-dependencies such as futures-lite / futures-core - look at Cargo.toml) with hand-written futures/streams, wakers and a manual poll loop as needed, that FAILS with your change and PASSES on the unchanged source. If it needs a non-default feature configuration, put the exact cargo flags (e.g. `--no-default-features --features alloc`) in a comment on the first line. Verify all of this yourself: build in the three configurations, run the full existing suite with the change, run the demo with the change (must fail), save your change with `git diff -- src > {d}-out/patch.diff`, revert it with `git apply -R {d}-out/patch.diff`, run the demo (must pass), re-apply with `git apply {d}-out/patch.diff`. NEVER use `git stash`: the stash is shared between all worktrees of this repository and other people are working in sibling worktrees.

DELIVERABLES, in {d}-out/ :
  patch.diff   - `git diff -- src` against HEAD (must apply with `git apply` to a clean checkout)
  demo.rs      - the demonstration test file
  meta.json    - {{"property": "{prop}", "summary": "<what was changed, where, and the cover story>", "needs": "<exactly what is needed for the violation to manifest>", "files": [...], "configs": "<which feature configurations are affected>", "ran": ["<each command you ran and its outcome>"]}}
Do not leave tests/seeded_demo.rs or other stray files in the worktree's src when you finish (the patch must contain src changes only). Your final message should be a three-line summary: what you changed, what it needs to manifest, and whether all verifications succeeded.""")
