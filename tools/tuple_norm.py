#!/usr/bin/env python3
"""
tuple_norm.py — front end of tools/rs2lean.py for the MACRO-GENERATED tuple containers.

The tuple impls (`impl_join_tuple! { join3 Join3 A B C }` …) exist as Rust only after macro expansion, once per arity
1..12.  This script
  1. takes rustc's own expansion of the CURRENT source (`cargo +nightly rustc --lib -- -Zunpretty=expanded`, the same
     command the C18 translator uses; own target directory, /repo is not written to),
  2. for every arity k = 1..12 cuts out the struct, `Future::poll`, the `PinnedDrop` destructor and the constructor,
  3. NORMALISES each of them into container-style Rust over a const generic `N` (rules below), and
  4. checks that the twelve normalised texts are IDENTICAL; only then it hands that one text to rs2lean.py as the source
     of the unit (`@tuple/<family>.rs`).  If an arity deviates (or a rule does not apply) the unit is reported as
     untranslatable with the reason — the tie is then `unavailable`, never silently wrong.

Normalisation rules (each has semantic content and is part of the trusted base of the tuple ties; every rule checks the
shape it rewrites and refuses anything else):
  R1  `const LEN: usize = <mod>::LEN;` is dropped and `LEN` becomes the const generic `N`, after checking that
      `<mod>::LEN` is `[Indexes::A, …].len()` with exactly k entries and that the struct has exactly k children.
  R2  the expansion of `assert!(c, "…")`  (`if !c { { ::core::panicking::panic_fmt(format_args!("…")); } };`) is
      folded back to `assert!(c);`.
  R3  index dispatch:  `if 0 == index { B0 } if 1 == index { B1 } … if k-1 == index { Bk-1 }`  where every `Bj` is the
      SAME token sequence up to the substitution (child field `F_j`, output component `.j`, literal `j`) becomes
      `if index < N { let mut fut = get_pin_mut(this.futures.as_mut(), index).unwrap(); B }` with `futures.F_j` → `fut`,
      `this.outputs.j.write(v)` → `this.outputs.write(index, v)`, `[j]` → `[index]`.  (For `index < k` exactly the arm
      `j == index` runs; for `index ≥ k` none does.)
  R4  per-slot sequences in the destructor: `if S[0].p() { X0 } … if S[k-1].p() { Xk-1 }` with uniform bodies become
      `for i in 0..N { if S[i].p() { X } }` (the slots are visited in increasing order, as written).
  R5  moving the outputs out: `{ let mut out = (MaybeUninit::<A::Output>::uninit(), …); core::mem::swap(&mut out,
      this.outputs); let (A, …) = out; unsafe { (A.assume_init(), …) } }` is `unsafe { this.outputs.take() }` (all k
      components, in order).
  R6  the struct: `futures: <mod>::Futures<A, …>` → `FutureArray<Fut, N>`, the tuple of `MaybeUninit<F::Output>` →
      `OutputArray<Fut::Output, N>`, `PollArray<{ <mod>::LEN }>` → `PollArray<N>`, `WakerArray<{ <mod>::LEN }>` →
      `WakerArray<N>`; the constructor's struct literal is read field by field in the same way.
"""
import os, re, subprocess, sys, tempfile, json

sys.path.insert(0, os.path.dirname(os.path.abspath(__file__)))

class NormError(Exception):
    pass

_TOK = re.compile(r"""
    (?P<ws>\s+|//[^\n]*|/\*.*?\*/)
  | (?P<str>b?"(?:[^"\\]|\\.)*")
  | (?P<chr>'(?:[^'\\]|\\.)')
  | (?P<life>'[A-Za-z_][A-Za-z0-9_]*)
  | (?P<num>\d[\d_]*(?:usize|u8|u32|u64|i32)?)
  | (?P<id>[A-Za-z_][A-Za-z0-9_]*)
  | (?P<op>::|->|=>|==|!=|<=|>=|&&|\|\||\+=|-=|\.\.=|\.\.|[{}()\[\]<>;:,.=!&|*+\-/#?@$%^~])
""", re.X | re.S)

def toks(src):
    out, pos = [], 0
    while pos < len(src):
        m = _TOK.match(src, pos)
        if not m:
            raise NormError(f"cannot tokenize at {src[pos:pos+40]!r}")
        pos = m.end()
        if m.lastgroup != 'ws':
            out.append(m.group(m.lastgroup))
    return out

def expand(repo, features='std'):
    tgt = os.path.join(tempfile.gettempdir(), "fc-expand-target")
    env = dict(os.environ, CARGO_TARGET_DIR=tgt, CARGO_NET_OFFLINE="true")
    cmd = ["cargo", "+nightly", "rustc", "--offline", "--lib"]
    if features == "alloc":
        cmd += ["--no-default-features", "--features", "alloc"]
    cmd += ["--", "-Zunpretty=expanded"]
    p = subprocess.run(cmd, cwd=repo, env=env, capture_output=True, text=True)
    if p.returncode != 0:
        raise NormError("macro expansion failed: " + p.stderr[-400:])
    return p.stdout

def close(t, i):
    """index of the bracket matching the opening bracket t[i]"""
    op = t[i]
    cl = {'{': '}', '(': ')', '[': ']'}[op]
    d = 0
    for j in range(i, len(t)):
        if t[j] == op: d += 1
        elif t[j] == cl:
            d -= 1
            if d == 0:
                return j
    raise NormError("unbalanced " + op)

def find(t, pat, start=0, end=None):
    end = len(t) if end is None else end
    n = len(pat)
    for i in range(start, end - n + 1):
        if t[i:i + n] == pat:
            return i
    return -1

def replace_all(t, pat, rep):
    out, i, n = [], 0, len(pat)
    while i < len(t):
        if t[i:i + n] == pat:
            out += rep; i += n
        else:
            out.append(t[i]); i += 1
    return out

def strip_attrs(t):
    """drop `#[...]` attributes"""
    out, i = [], 0
    while i < len(t):
        if t[i] == '#' and i + 1 < len(t) and t[i + 1] == '[':
            i = close(t, i + 1) + 1
        else:
            out.append(t[i]); i += 1
    return out

FAMILIES = {
    # family: struct prefix, helper-module prefix, trait whose impl holds the constructor, constructor fn, polled trait + fn
    'join': dict(struct='Join', mod='join', ctor_trait='JoinTrait', ctor='join', trait='Future', poll='poll',
                 out=lambda F: [F, '::', 'Output'], elem='Fut::Output', output='[Fut::Output; N]', generics='Fut, const N: usize', gargs='Fut, N'),
    'try_join': dict(struct='TryJoin', mod='try_join_', ctor_trait='TryJoinTrait', ctor='try_join', trait='Future', poll='poll',
                     out=lambda F: ['Res' + F], elem='T', output='Result<[T; N], E>', generics='Fut, T, E, const N: usize', gargs='Fut, T, E, N'),
}

def names_of(t, i):
    """generic parameter names of `struct X < A : Future , B : Future >` starting at the `<` at t[i]"""
    assert t[i] == '<'
    names, d, j = [], 0, i
    expect = True
    while True:
        x = t[j]
        if x == '<': d += 1
        elif x == '>':
            d -= 1
            if d == 0: break
        elif d == 1 and expect and re.match(r'[A-Za-z_]\w*$', x):
            names.append(x); expect = False
        elif d == 1 and x == ',':
            expect = True
        j += 1
    return names, j

def fold_assert(t):
    # R2
    out, i = [], 0
    while i < len(t):
        if t[i] == 'if' and t[i + 1] == '!':
            j = i + 2
            while j < len(t) and t[j] not in ('{', ';'):
                j += 1
            if j < len(t) and t[j] == '{' and t[j + 1] == '{' and t[j + 2:j + 8] == ['::', 'core', '::', 'panicking', '::', 'panic_fmt']:
                c = t[i + 2:j]
                e = close(t, j)
                inner = t[j + 1:e]
                if not (close(inner, 0) == len(inner) - 1 and inner[-2] == ';' and inner[7] == '(' and close(inner, 7) == len(inner) - 3):
                    raise NormError("R2: unexpected shape of an expanded assert!")
                out += ['assert', '!', '('] + c + [')', ';']
                i = e + 1
                if i < len(t) and t[i] == ';':
                    i += 1
                continue
        out.append(t[i]); i += 1
    return out

def fold_dispatch(t, names, var='index'):
    # R3
    k = len(names)
    i = find(t, ['if', '0', '==', var, '{'])
    if i < 0:
        raise NormError("R3: no index dispatch found")
    bodies, j = [], i
    for idx in range(k):
        if t[j:j + 5] != ['if', str(idx), '==', var, '{']:
            raise NormError(f"R3: arm {idx} of the index dispatch is missing or out of order")
        e = close(t, j + 4)
        b = t[j + 5:e]
        F = names[idx]
        b = replace_all(b, ['this', '.', 'outputs', '.', str(idx), '.', 'write', '('], ['this', '.', 'outputs', '.', 'write', '(', var, ','])
        b = replace_all(b, ['futures', '.', F, '.', 'as_mut', '(', ')', '.', 'get_unchecked_mut', '(', ')'], ['fut', '.', 'get_unchecked_mut', '(', ')'])
        b = replace_all(b, ['futures', '.', F], ['fut'])
        b = replace_all(b, ['[', str(idx), ']'], ['[', var, ']'])
        if str(idx) in b and idx > 1 or F in [x for x in b]:
            raise NormError(f"R3: arm {idx} mentions its position or child in a way the rule does not cover")
        bodies.append(b)
        j = e + 1
    if t[j:j + 5][:1] == ['if'] and t[j + 2:j + 4] == ['==', var]:
        raise NormError("R3: more arms than children")
    if any(b != bodies[0] for b in bodies):
        raise NormError("R3: the arms of the index dispatch differ between children")
    if j < len(t) and t[j] == ';':
        j += 1
    rep = ['if', var, '<', 'N', '{', 'let', 'mut', 'fut', '=', 'get_pin_mut', '(', 'this', '.', 'futures', '.', 'as_mut', '(', ')', ',', var, ')', '.', 'unwrap', '(', ')', ';'] + bodies[0] + ['}']
    return t[:i] + rep + t[j:]

def fold_slots(t, names, head, subst):
    """R4: a run `if S[0].p() { X0 } … if S[k-1].p() { Xk-1 }` starting with the token pattern head(0)"""
    k = len(names)
    i = find(t, head(0))
    if i < 0:
        raise NormError("R4: per-slot sequence not found: " + ' '.join(head(0)))
    bodies, j = [], i
    for idx in range(k):
        h = head(idx)
        if t[j:j + len(h)] != h:
            raise NormError(f"R4: slot {idx} of a per-slot sequence is missing or out of order")
        e = close(t, j + len(h) - 1)
        b = subst(t[j + len(h):e], idx, names[idx])
        if names[idx] in b:
            raise NormError(f"R4: slot {idx} mentions its child in a way the rule does not cover")
        bodies.append(b)
        j = e + 1
    if t[j:j + 2] == head(k)[:2] and t[j:j + len(head(k))] == head(k):
        raise NormError("R4: more slots than children")
    if any(b != bodies[0] for b in bodies):
        raise NormError("R4: the per-slot bodies differ between children")
    if j < len(t) and t[j] == ';':
        j += 1
    h = head('i')
    rep = ['for', 'i', 'in', '0', '..', 'N', '{'] + h + bodies[0] + ['}', '}']
    return t[:i] + rep + t[j:]

def fold_take(t, names, fam):
    # R5
    i = find(t, ['{', 'let', 'mut', 'out', '=', '('])
    if i < 0:
        raise NormError("R5: the block that moves the outputs out was not found")
    e = close(t, i)
    exp = ['{', 'let', 'mut', 'out', '=', '(']
    for n_ in names:
        exp += ['MaybeUninit', '::', '<'] + fam['out'](n_) + ['>', '::', 'uninit', '(', ')', ',']
    if len(names) > 1:
        exp.pop()
    exp += [')', ';', 'core', '::', 'mem', '::', 'swap', '(', '&', 'mut', 'out', ',', 'this', '.', 'outputs', ')', ';', 'let', '(']
    for n_ in names:
        exp += [n_, ',']
    if len(names) > 1:
        exp.pop()
    exp += [')', '=', 'out', ';', 'unsafe', '{', '(']
    for n_ in names:
        exp += [n_, '.', 'assume_init', '(', ')', ',']
    if len(names) > 1:
        exp.pop()
    exp += [')', '}', '}']
    if t[i:e + 1] != exp:
        raise NormError("R5: the block that moves the outputs out has an unexpected shape")
    return t[:i] + ['unsafe', '{', 'this', '.', 'outputs', '.', 'take', '(', ')', '}'] + t[e + 1:]

def norm_family(family, t, k, repo):
    fam = FAMILIES[family]
    S, M = fam['struct'] + str(k), fam['mod'] + str(k)
    # ---- helper module: children and LEN (R1)
    mi = find(t, ['mod', M, '{'])
    if mi < 0:
        raise NormError(f"module {M} not found")
    me = close(t, mi + 2)
    fi = find(t, ['struct', 'Futures', '<'], mi, me)
    if fi < 0:
        raise NormError(f"{M}::Futures not found")
    names, ge = names_of(t, fi + 2)
    if len(names) != k:
        raise NormError(f"{M}::Futures has {len(names)} type parameters, expected {k}")
    fb = t.index('{', ge)
    fbody = strip_attrs(t[fb + 1:close(t, fb)])
    expf = []
    for n_ in names:
        expf += ['pub', '(', 'super', ')', n_, ':', 'ManuallyDrop', '<', n_, '>', ',']
    if fbody != expf:
        raise NormError(f"{M}::Futures is not one `ManuallyDrop` child per type parameter")
    li = find(t, ['const', 'LEN', ':', 'usize', '='], mi, me)
    explen = ['const', 'LEN', ':', 'usize', '=', '[']
    for n_ in names:
        explen += ['Indexes', '::', n_, ',']
    explen.pop()
    explen += [']', '.', 'len', '(', ')', ';']
    if li < 0 or t[li:li + len(explen)] != explen:
        raise NormError(f"R1: {M}::LEN is not the number of children")
    # ---- the struct (R6)
    si = find(t, ['struct', S, '<'])
    if si < 0:
        raise NormError(f"struct {S} not found")
    gn, ge = names_of(t, si + 2)
    if [x for x in gn if x in names] != names:
        raise NormError(f"struct {S}: unexpected generics")
    sb = t.index('{', ge)
    sbody = strip_attrs(t[sb + 1:close(t, sb)])
    fields, i = [], 0
    while i < len(sbody):
        nm = sbody[i]
        if sbody[i + 1] != ':':
            raise NormError(f"struct {S}: cannot read field list")
        j, d = i + 2, 0
        while j < len(sbody) and not (sbody[j] == ',' and d == 0):
            d += sbody[j] in '<({[' and 1 or 0
            d -= sbody[j] in '>)}]' and 1 or 0
            j += 1
        ty = sbody[i + 2:j]
        outs = ['(']
        for n_ in names:
            outs += ['MaybeUninit', '<'] + fam['out'](n_) + ['>', ',']
        if len(names) > 1:
            outs.pop()
        outs += [')']
        if ty == [M, '::', 'Futures', '<'] + sum(([n_, ','] for n_ in names), [])[:-1] + ['>']:
            ty2 = 'FutureArray<Fut, N>'
        elif ty == outs:
            ty2 = 'OutputArray<%s, N>' % fam['elem']
        elif ty == ['PollArray', '<', '{', M, '::', 'LEN', '}', '>']:
            ty2 = 'PollArray<N>'
        elif ty == ['WakerArray', '<', '{', M, '::', 'LEN', '}', '>']:
            ty2 = 'WakerArray<N>'
        elif ty in (['usize'], ['bool']):
            ty2 = ty[0]
        elif ty[:2] == ['PhantomData', '<']:
            ty2 = None
        else:
            raise NormError(f"R6: struct {S}: field `{nm}` has a type the rule does not cover: {' '.join(ty)}")
        if ty2 is not None:
            fields.append((nm, ty2))
        i = j + 1
    struct_txt = "pub struct %s<%s> {\n%s}\n" % (fam['struct'], fam['generics'], ''.join(f"    {n_}: {ty},\n" for n_, ty in fields))
    # ---- poll
    pi = find(t, [fam['trait'], 'for', S, '<'], si)
    if pi < 0:
        raise NormError(f"impl {fam['trait']} for {S} not found")
    pf = find(t, ['fn', fam['poll'], '('], pi)
    pb = t.index('{', close(t, pf + 2))
    body = strip_attrs(t[pb + 1:close(t, pb)])
    c0 = ['const', 'LEN', ':', 'usize', '=', M, '::', 'LEN', ';']
    if find(body, c0) < 0:
        raise NormError("R1: `const LEN: usize = <mod>::LEN;` not found in poll")
    body = replace_all(body, c0, [])
    body = ['N' if x == 'LEN' else x for x in body]
    body = fold_assert(body)
    body = replace_all(body, ['let', 'mut', 'futures', '=', 'this', '.', 'futures', '.', 'project', '(', ')', ';'], [])
    body = fold_dispatch(body, names)
    body = fold_take(body, names, fam)
    if 'futures' in [x for n_, x in enumerate(body) if body[n_ - 1] != '.'] or any(n_ in body for n_ in names if len(n_) == 1 and n_ != 'N'):
        raise NormError("poll mentions a child outside the index dispatch")
    # ---- destructor
    di = find(t, ['PinnedDrop', 'for', S, '<'], si)
    if di < 0:
        raise NormError(f"PinnedDrop for {S} not found")
    df = find(t, ['fn', '__drop_inner', '<'], di)
    db = t.index('{', close(t, t.index('(', df)))
    dbody = strip_attrs(t[db + 1:close(t, db)])
    dbody = replace_all(dbody, ['fn', '__drop_inner', '(', ')', '{', '}'], [])
    dbody = replace_all(dbody, ['__self', '.', 'project', '(', ')'], ['self', '.', 'project', '(', ')'])
    bind = ['let', '('] + sum((['ref', 'mut', n_, ','] for n_ in names), [])
    if len(names) > 1:
        bind.pop()
    bind += [')', '=', 'this', '.', 'outputs', ';']
    if find(dbody, bind) < 0:
        raise NormError("destructor: the outputs are not bound component by component")
    dbody = replace_all(dbody, bind, [])
    dbody = fold_slots(dbody, names,
                       lambda j: ['if', 'states', '[', str(j), ']', '.', 'is_ready', '(', ')', '{'],
                       lambda b, j, F: replace_all(replace_all(b, [F, '.', 'assume_init_drop', '(', ')'], ['this', '.', 'outputs', '.', 'drop', '(', 'i', ')']),
                                                   ['[', str(j), ']'], ['[', 'i', ']']))
    dbody = fold_slots(dbody, names,
                       lambda j: ['if', 'states', '[', str(j), ']', '.', 'is_pending', '(', ')', '{'],
                       lambda b, j, F: replace_all(b, ['let', 'futures', '=', 'unsafe', '{', 'futures', '.', 'as_mut', '(', ')', '.', 'get_unchecked_mut', '(', ')', '}', ';',
                                                       'unsafe', '{', 'ManuallyDrop', '::', 'drop', '(', '&', 'mut', 'futures', '.', F, ')', '}', ';'],
                                                   ['unsafe', '{', 'futures', '.', 'as_mut', '(', ')', '.', 'drop', '(', 'i', ')', '}', ';']))
    # ---- constructor (R6)
    if len(names) == 1:
        ci = find(t, [fam['ctor_trait'], 'for', '(', names[0], ',', ')'], si)
    else:
        ci = find(t, [fam['ctor_trait'], 'for', '('] + sum(([n_, ','] for n_ in names), [])[:-1] + [')'], si)
    if ci < 0:
        raise NormError("constructor impl not found")
    cf = find(t, ['fn', fam['ctor'], '(', 'self', ')'], ci)
    cb = t.index('{', cf)
    cbody = t[cb + 1:close(t, cb)]
    li_ = find(cbody, [S, '{'])
    if li_ < 0:
        raise NormError("constructor: struct literal not found")
    lit = cbody[li_ + 2:close(cbody, li_ + 1)]
    inits, i = [], 0
    while i < len(lit):
        nm = lit[i]
        j, d = i + 2, 0
        while j < len(lit) and not (lit[j] == ',' and d == 0):
            d += lit[j] in '({[' and 1 or 0
            d -= lit[j] in ')}]' and 1 or 0
            j += 1
        v = lit[i + 2:j]
        kids = [M, '::', 'Futures', '{'] + sum(([n_, ':', 'ManuallyDrop', '::', 'new', '(', n_, '.', 'into_future', '(', ')', ')', ','] for n_ in names), []) + ['}']
        outs = ['('] + sum((['MaybeUninit', '::', '<'] + fam['out'](n_) + ['>', '::', 'uninit', '(', ')', ','] for n_ in names), [])
        if len(names) > 1:
            outs.pop()
        outs += [')']
        if v == kids:
            v2 = 'FutureArray::new(futures)'
        elif v == outs:
            v2 = 'OutputArray::uninit()'
        elif v in (['PollArray', '::', 'new_pending', '(', ')'], ['WakerArray', '::', 'new', '(', ')'], ['PollArray', '::', 'new', '(', ')']):
            v2 = ''.join(v)
        elif len(v) == 1 and re.match(r'\d+$|true$|false$', v[0]):
            v2 = v[0]
        elif v == ['PhantomData']:
            v2 = None
        else:
            raise NormError(f"R6: constructor: field `{nm}` is initialised in a way the rule does not cover: {' '.join(v)}")
        if v2 is not None:
            inits.append((nm, v2))
        i = j + 1
    G, GA = fam['generics'], fam['gargs']
    ctor_txt = ("impl<%s> %s<%s> {\n    pub(crate) fn new(futures: [Fut; N]) -> Self {\n        %s {\n%s        }\n    }\n}\n"
                % (G, fam['struct'], GA, fam['struct'], ''.join(f"            {n_}: {v},\n" for n_, v in inits)))
    poll_txt = ("impl<%s> Future for %s<%s> {\n    type Output = %s;\n"
                "    fn poll(self: Pin<&mut Self>, cx: &mut Context<'_>) -> Poll<Self::Output> {\n        %s\n    }\n}\n" % (G, fam['struct'], GA, fam['output'], ' '.join(body)))
    drop_txt = ("impl<%s> PinnedDrop for %s<%s> {\n    fn drop(self: Pin<&mut Self>) {\n        %s\n    }\n}\n" % (G, fam['struct'], GA, ' '.join(dbody)))
    return struct_txt + "\n" + ctor_txt + "\n" + poll_txt + "\n" + drop_txt

_CACHE = {}

def normalised(repo, family, features='std'):
    """the container-style Rust text of a tuple family, or NormError"""
    key = (repo, features)
    if key not in _CACHE:
        _CACHE[key] = toks(expand(repo, features))
    t = _CACHE[key]
    texts = {}
    for k in range(1, 13):
        texts[k] = norm_family(family, t, k, repo)
    for k in range(2, 13):
        if texts[k] != texts[1]:
            a, b = texts[1].split(), texts[k].split()
            d = next((i for i in range(min(len(a), len(b))) if a[i] != b[i]), min(len(a), len(b)))
            raise NormError(f"arity {k} differs from arity 1 after normalisation, near: {' '.join(b[max(0, d - 8):d + 8])}")
    texts[1] = re.sub(r'\b(assert|debug_assert|matches) ! \(', r'\1!(', texts[1])
    hdr = (f"// NORMALISED by tools/tuple_norm.py from rustc's macro expansion of the tuple `{family}` (arities 1..12 agree)\n")
    return hdr + texts[1]

if __name__ == '__main__':
    repo = sys.argv[2] if len(sys.argv) > 2 else '/repo'
    fam = sys.argv[1] if len(sys.argv) > 1 else 'join'
    try:
        print(normalised(repo, fam))
    except NormError as ex:
        print("NormError:", ex)
        sys.exit(1)
