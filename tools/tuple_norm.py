#!/usr/bin/env python3
"""
tuple_norm.py — front end of tools/rs2lean.py for the MACRO-GENERATED tuple containers.

The tuple impls (`impl_join_tuple! { join3 Join3 A B C }` …) exist as Rust only after macro expansion, once per arity
1..12.  This script
  1. takes rustc's own expansion of the CURRENT source (`cargo +nightly rustc --lib -- -Zunpretty=expanded`, the same
     command the C18 translator uses; own target directory, /repo is not written to),
  2. for every arity k = 1..12 cuts out the struct, `Future::poll`, the `PinnedDrop` destructor and the constructor,
  3. NORMALISES each of them into container-style Rust over a const generic `N` (rules below), and
  4. checks that the twelve normalised texts are IDENTICAL; only then it hands that one text to rs2lean.py as the source
     of the unit (`@tuple/<family>.rs`).  If an arity deviates (or a rule does not apply) the unit is reported as
     untranslatable with the reason — the tie is then `unavailable`, never silently wrong.

Normalisation rules (each has semantic content and is part of the trusted base of the tuple ties; every rule checks the
shape it rewrites and refuses anything else):
  R1  `const LEN: usize = <mod>::LEN;` is dropped and `LEN` becomes the const generic `N`, after checking that
      `<mod>::LEN` is `[Indexes::A, …].len()` with exactly k entries and that the struct has exactly k children.
  R2  the expansion of `assert!(c, "…")`  (`if !c { { ::core::panicking::panic_fmt(format_args!("…")); } };`) is
      folded back to `assert!(c);`.
  R3  index dispatch:  `if 0 == index { B0 } if 1 == index { B1 } … if k-1 == index { Bk-1 }`  where every `Bj` is the
      SAME token sequence up to the substitution (child field `F_j`, output component `.j`, literal `j`) becomes
      `if index < N { let mut fut = get_pin_mut(this.futures.as_mut(), index).unwrap(); B }` with `futures.F_j` → `fut`,
      `this.outputs.j.write(v)` → `this.outputs.write(index, v)`, `[j]` → `[index]`.  (For `index < k` exactly the arm
      `j == index` runs; for `index ≥ k` none does.)
  R4  per-slot sequences in the destructor: `if S[0].p() { X0 } … if S[k-1].p() { Xk-1 }` with uniform bodies become
      `for i in 0..N { if S[i].p() { X } }` (the slots are visited in increasing order, as written).
  R5  moving the outputs out: `{ let mut out = (MaybeUninit::<A::Output>::uninit(), …); core::mem::swap(&mut out,
      this.outputs); let (A, …) = out; unsafe { (A.assume_init(), …) } }` is `unsafe { this.outputs.take() }` (all k
      components, in order).
  R6  the struct: `futures: <mod>::Futures<A, …>` → `FutureArray<Fut, N>`, the tuple of `MaybeUninit<F::Output>` →
      `OutputArray<Fut::Output, N>`, `PollArray<{ <mod>::LEN }>` → `PollArray<N>`, `WakerArray<{ <mod>::LEN }>` →
      `WakerArray<N>`; the constructor's struct literal is read field by field in the same way.  In merge / zip / race / chain /
      race_ok the children are fields of a helper struct or of the struct itself and become ONE array field; `completed: u8`
      is read as a number; `Indexer::new(0 + 1 + … + 1)` (k ones) is `Indexer::new(N)`.
  R8  `#[repr(usize)] enum Indexes { A, B, … }` lists the children in their order (checked), so `Indexes::F as usize` — and the
      constants `<mod>::F` defined as that — is F's position; the dispatches `let stream_index = <mod>::Indexes::F as usize;
      if stream_index == index { … }` (merge), `match index { <mod>::F => { … } … _ => unreachable!() }` (zip, chain: folded
      behind `assert!(index < N)`) and `if i == Indexes::F as usize { … }` (race, race_ok) are folded as in R3.
  R9  `v @ (Poll::Pending | Poll::Ready(Some(_))) => return v` (chain) is written as the two arms it stands for.
  R10 `<iter>.filter(f).for_each(|(st, err)| { B })` (race_ok's destructor) is written as `for (st, err) in <iter>.filter(f) { B }`.
  The arity of race_ok is the constant `RaceOk<k>: usize = 0 + 1 + … + 1` (checked, read as `N`).
"""
import os, re, subprocess, sys, tempfile, json

sys.path.insert(0, os.path.dirname(os.path.abspath(__file__)))

class NormError(Exception):
    pass

_TOK = re.compile(r"""
    (?P<ws>\s+|//[^\n]*|/\*.*?\*/)
  | (?P<str>b?"(?:[^"\\]|\\.)*")
  | (?P<chr>'(?:[^'\\]|\\.)')
  | (?P<life>'[A-Za-z_][A-Za-z0-9_]*)
  | (?P<num>\d[\d_]*(?:usize|u8|u32|u64|i32)?)
  | (?P<id>[A-Za-z_][A-Za-z0-9_]*)
  | (?P<op>::|->|=>|==|!=|<=|>=|&&|\|\||\+=|-=|\.\.=|\.\.|[{}()\[\]<>;:,.=!&|*+\-/#?@$%^~])
""", re.X | re.S)

def toks(src):
    out, pos = [], 0
    while pos < len(src):
        m = _TOK.match(src, pos)
        if not m:
            raise NormError(f"cannot tokenize at {src[pos:pos+40]!r}")
        pos = m.end()
        if m.lastgroup != 'ws':
            out.append(m.group(m.lastgroup))
    return out

def expand(repo, features='std'):
    tgt = os.path.join(tempfile.gettempdir(), "fc-expand-target")
    env = dict(os.environ, CARGO_TARGET_DIR=tgt, CARGO_NET_OFFLINE="true")
    cmd = ["cargo", "+nightly", "rustc", "--offline", "--lib"]
    if features == "alloc":
        cmd += ["--no-default-features", "--features", "alloc"]
    cmd += ["--", "-Zunpretty=expanded"]
    p = subprocess.run(cmd, cwd=repo, env=env, capture_output=True, text=True)
    if p.returncode != 0:
        raise NormError("macro expansion failed: " + p.stderr[-400:])
    return p.stdout

def close(t, i):
    """index of the bracket matching the opening bracket t[i]"""
    op = t[i]
    cl = {'{': '}', '(': ')', '[': ']'}[op]
    d = 0
    for j in range(i, len(t)):
        if t[j] == op: d += 1
        elif t[j] == cl:
            d -= 1
            if d == 0:
                return j
    raise NormError("unbalanced " + op)

def find(t, pat, start=0, end=None):
    end = len(t) if end is None else end
    n = len(pat)
    for i in range(start, end - n + 1):
        if t[i:i + n] == pat:
            return i
    return -1

def replace_all(t, pat, rep):
    out, i, n = [], 0, len(pat)
    while i < len(t):
        if t[i:i + n] == pat:
            out += rep; i += n
        else:
            out.append(t[i]); i += 1
    return out

def strip_attrs(t):
    """drop `#[...]` attributes"""
    out, i = [], 0
    while i < len(t):
        if t[i] == '#' and i + 1 < len(t) and t[i + 1] == '[':
            i = close(t, i + 1) + 1
        else:
            out.append(t[i]); i += 1
    return out

FAMILIES = {
    # family: struct prefix, helper-module prefix, trait whose impl holds the constructor, constructor fn, polled trait + fn
    'join': dict(struct='Join', mod='join', ctor_trait='JoinTrait', ctor='join', trait='Future', poll='poll',
                 out=lambda F: [F, '::', 'Output'], elem='Fut::Output', output='[Fut::Output; N]', generics='Fut, const N: usize', gargs='Fut, N'),
    'try_join': dict(struct='TryJoin', mod='try_join_', ctor_trait='TryJoinTrait', ctor='try_join', trait='Future', poll='poll',
                     out=lambda F: ['Res' + F], elem='T', output='Result<[T; N], E>', generics='Fut, T, E, const N: usize', gargs='Fut, T, E, N'),
}

def names_of(t, i):
    """generic parameter names of `struct X < A : Future , B : Future >` starting at the `<` at t[i]"""
    assert t[i] == '<'
    names, d, j = [], 0, i
    expect = True
    while True:
        x = t[j]
        if x == '<': d += 1
        elif x == '>':
            d -= 1
            if d == 0: break
        elif d == 1 and expect and re.match(r'[A-Za-z_]\w*$', x):
            names.append(x); expect = False
        elif d == 1 and x == ',':
            expect = True
        j += 1
    return names, j

def fold_assert(t):
    # R2
    out, i = [], 0
    while i < len(t):
        if t[i] == 'if' and t[i + 1] == '!':
            j = i + 2
            while j < len(t) and t[j] not in ('{', ';'):
                j += 1
            if j < len(t) and t[j] == '{' and t[j + 1] == '{' and t[j + 2:j + 8] == ['::', 'core', '::', 'panicking', '::', 'panic_fmt']:
                c = t[i + 2:j]
                e = close(t, j)
                inner = t[j + 1:e]
                if not (close(inner, 0) == len(inner) - 1 and inner[-2] == ';' and inner[7] == '(' and close(inner, 7) == len(inner) - 3):
                    raise NormError("R2: unexpected shape of an expanded assert!")
                out += ['assert', '!', '('] + c + [')', ';']
                i = e + 1
                if i < len(t) and t[i] == ';':
                    i += 1
                continue
        out.append(t[i]); i += 1
    return out

def fold_dispatch(t, names, var='index'):
    # R3
    k = len(names)
    i = find(t, ['if', '0', '==', var, '{'])
    if i < 0:
        raise NormError("R3: no index dispatch found")
    bodies, j = [], i
    for idx in range(k):
        if t[j:j + 5] != ['if', str(idx), '==', var, '{']:
            raise NormError(f"R3: arm {idx} of the index dispatch is missing or out of order")
        e = close(t, j + 4)
        b = t[j + 5:e]
        F = names[idx]
        b = replace_all(b, ['this', '.', 'outputs', '.', str(idx), '.', 'write', '('], ['this', '.', 'outputs', '.', 'write', '(', var, ','])
        b = replace_all(b, ['futures', '.', F, '.', 'as_mut', '(', ')', '.', 'get_unchecked_mut', '(', ')'], ['fut', '.', 'get_unchecked_mut', '(', ')'])
        b = replace_all(b, ['futures', '.', F], ['fut'])
        b = replace_all(b, ['[', str(idx), ']'], ['[', var, ']'])
        if str(idx) in b and idx > 1 or F in [x for x in b]:
            raise NormError(f"R3: arm {idx} mentions its position or child in a way the rule does not cover")
        bodies.append(b)
        j = e + 1
    if t[j:j + 5][:1] == ['if'] and t[j + 2:j + 4] == ['==', var]:
        raise NormError("R3: more arms than children")
    if any(b != bodies[0] for b in bodies):
        raise NormError("R3: the arms of the index dispatch differ between children")
    if j < len(t) and t[j] == ';':
        j += 1
    rep = ['if', var, '<', 'N', '{', 'let', 'mut', 'fut', '=', 'get_pin_mut', '(', 'this', '.', 'futures', '.', 'as_mut', '(', ')', ',', var, ')', '.', 'unwrap', '(', ')', ';'] + bodies[0] + ['}']
    return t[:i] + rep + t[j:]

def fold_slots(t, names, head, subst):
    """R4: a run `if S[0].p() { X0 } … if S[k-1].p() { Xk-1 }` starting with the token pattern head(0)"""
    k = len(names)
    i = find(t, head(0))
    if i < 0:
        raise NormError("R4: per-slot sequence not found: " + ' '.join(head(0)))
    bodies, j = [], i
    for idx in range(k):
        h = head(idx)
        if t[j:j + len(h)] != h:
            raise NormError(f"R4: slot {idx} of a per-slot sequence is missing or out of order")
        e = close(t, j + len(h) - 1)
        b = subst(t[j + len(h):e], idx, names[idx])
        if names[idx] in b:
            raise NormError(f"R4: slot {idx} mentions its child in a way the rule does not cover")
        bodies.append(b)
        j = e + 1
    if t[j:j + 2] == head(k)[:2] and t[j:j + len(head(k))] == head(k):
        raise NormError("R4: more slots than children")
    if any(b != bodies[0] for b in bodies):
        raise NormError("R4: the per-slot bodies differ between children")
    if j < len(t) and t[j] == ';':
        j += 1
    h = head('i')
    rep = ['for', 'i', 'in', '0', '..', 'N', '{'] + h + bodies[0] + ['}', '}']
    return t[:i] + rep + t[j:]

def fold_take(t, names, fam):
    # R5
    i = find(t, ['{', 'let', 'mut', 'out', '=', '('])
    if i < 0:
        raise NormError("R5: the block that moves the outputs out was not found")
    e = close(t, i)
    exp = ['{', 'let', 'mut', 'out', '=', '(']
    for n_ in names:
        exp += ['MaybeUninit', '::', '<'] + fam['out'](n_) + ['>', '::', 'uninit', '(', ')', ',']
    if len(names) > 1:
        exp.pop()
    exp += [')', ';', 'core', '::', 'mem', '::', 'swap', '(', '&', 'mut', 'out', ',', 'this', '.', 'outputs', ')', ';', 'let', '(']
    for n_ in names:
        exp += [n_, ',']
    if len(names) > 1:
        exp.pop()
    exp += [')', '=', 'out', ';', 'unsafe', '{', '(']
    for n_ in names:
        exp += [n_, '.', 'assume_init', '(', ')', ',']
    if len(names) > 1:
        exp.pop()
    exp += [')', '}', '}']
    if t[i:e + 1] != exp:
        raise NormError("R5: the block that moves the outputs out has an unexpected shape")
    return t[:i] + ['unsafe', '{', 'this', '.', 'outputs', '.', 'take', '(', ')', '}'] + t[e + 1:]

def norm_family(family, t, k, repo):
    fam = FAMILIES[family]
    S, M = fam['struct'] + str(k), fam['mod'] + str(k)
    # ---- helper module: children and LEN (R1)
    mi = find(t, ['mod', M, '{'])
    if mi < 0:
        raise NormError(f"module {M} not found")
    me = close(t, mi + 2)
    fi = find(t, ['struct', 'Futures', '<'], mi, me)
    if fi < 0:
        raise NormError(f"{M}::Futures not found")
    names, ge = names_of(t, fi + 2)
    if len(names) != k:
        raise NormError(f"{M}::Futures has {len(names)} type parameters, expected {k}")
    fb = t.index('{', ge)
    fbody = strip_attrs(t[fb + 1:close(t, fb)])
    expf = []
    for n_ in names:
        expf += ['pub', '(', 'super', ')', n_, ':', 'ManuallyDrop', '<', n_, '>', ',']
    if fbody != expf:
        raise NormError(f"{M}::Futures is not one `ManuallyDrop` child per type parameter")
    li = find(t, ['const', 'LEN', ':', 'usize', '='], mi, me)
    explen = ['const', 'LEN', ':', 'usize', '=', '[']
    for n_ in names:
        explen += ['Indexes', '::', n_, ',']
    explen.pop()
    explen += [']', '.', 'len', '(', ')', ';']
    if li < 0 or t[li:li + len(explen)] != explen:
        raise NormError(f"R1: {M}::LEN is not the number of children")
    # ---- the struct (R6)
    si = find(t, ['struct', S, '<'])
    if si < 0:
        raise NormError(f"struct {S} not found")
    gn, ge = names_of(t, si + 2)
    if [x for x in gn if x in names] != names:
        raise NormError(f"struct {S}: unexpected generics")
    sb = t.index('{', ge)
    sbody = strip_attrs(t[sb + 1:close(t, sb)])
    fields, i = [], 0
    while i < len(sbody):
        nm = sbody[i]
        if sbody[i + 1] != ':':
            raise NormError(f"struct {S}: cannot read field list")
        j, d = i + 2, 0
        while j < len(sbody) and not (sbody[j] == ',' and d == 0):
            d += sbody[j] in '<({[' and 1 or 0
            d -= sbody[j] in '>)}]' and 1 or 0
            j += 1
        ty = sbody[i + 2:j]
        outs = ['(']
        for n_ in names:
            outs += ['MaybeUninit', '<'] + fam['out'](n_) + ['>', ',']
        if len(names) > 1:
            outs.pop()
        outs += [')']
        if ty == [M, '::', 'Futures', '<'] + sum(([n_, ','] for n_ in names), [])[:-1] + ['>']:
            ty2 = 'FutureArray<Fut, N>'
        elif ty == outs:
            ty2 = 'OutputArray<%s, N>' % fam['elem']
        elif ty == ['PollArray', '<', '{', M, '::', 'LEN', '}', '>']:
            ty2 = 'PollArray<N>'
        elif ty == ['WakerArray', '<', '{', M, '::', 'LEN', '}', '>']:
            ty2 = 'WakerArray<N>'
        elif ty in (['usize'], ['bool']):
            ty2 = ty[0]
        elif ty[:2] == ['PhantomData', '<']:
            ty2 = None
        else:
            raise NormError(f"R6: struct {S}: field `{nm}` has a type the rule does not cover: {' '.join(ty)}")
        if ty2 is not None:
            fields.append((nm, ty2))
        i = j + 1
    struct_txt = "pub struct %s<%s> {\n%s}\n" % (fam['struct'], fam['generics'], ''.join(f"    {n_}: {ty},\n" for n_, ty in fields))
    # ---- poll
    pi = find(t, [fam['trait'], 'for', S, '<'], si)
    if pi < 0:
        raise NormError(f"impl {fam['trait']} for {S} not found")
    pf = find(t, ['fn', fam['poll'], '('], pi)
    pb = t.index('{', close(t, pf + 2))
    body = strip_attrs(t[pb + 1:close(t, pb)])
    c0 = ['const', 'LEN', ':', 'usize', '=', M, '::', 'LEN', ';']
    if find(body, c0) < 0:
        raise NormError("R1: `const LEN: usize = <mod>::LEN;` not found in poll")
    body = replace_all(body, c0, [])
    body = ['N' if x == 'LEN' else x for x in body]
    body = fold_assert(body)
    body = replace_all(body, ['let', 'mut', 'futures', '=', 'this', '.', 'futures', '.', 'project', '(', ')', ';'], [])
    body = fold_dispatch(body, names)
    body = fold_take(body, names, fam)
    if 'futures' in [x for n_, x in enumerate(body) if body[n_ - 1] != '.'] or any(n_ in body for n_ in names if len(n_) == 1 and n_ != 'N'):
        raise NormError("poll mentions a child outside the index dispatch")
    # ---- destructor
    di = find(t, ['PinnedDrop', 'for', S, '<'], si)
    if di < 0:
        raise NormError(f"PinnedDrop for {S} not found")
    df = find(t, ['fn', '__drop_inner', '<'], di)
    db = t.index('{', close(t, t.index('(', df)))
    dbody = strip_attrs(t[db + 1:close(t, db)])
    dbody = replace_all(dbody, ['fn', '__drop_inner', '(', ')', '{', '}'], [])
    dbody = replace_all(dbody, ['__self', '.', 'project', '(', ')'], ['self', '.', 'project', '(', ')'])
    bind = ['let', '('] + sum((['ref', 'mut', n_, ','] for n_ in names), [])
    if len(names) > 1:
        bind.pop()
    bind += [')', '=', 'this', '.', 'outputs', ';']
    if find(dbody, bind) < 0:
        raise NormError("destructor: the outputs are not bound component by component")
    dbody = replace_all(dbody, bind, [])
    dbody = fold_slots(dbody, names,
                       lambda j: ['if', 'states', '[', str(j), ']', '.', 'is_ready', '(', ')', '{'],
                       lambda b, j, F: replace_all(replace_all(b, [F, '.', 'assume_init_drop', '(', ')'], ['this', '.', 'outputs', '.', 'drop', '(', 'i', ')']),
                                                   ['[', str(j), ']'], ['[', 'i', ']']))
    dbody = fold_slots(dbody, names,
                       lambda j: ['if', 'states', '[', str(j), ']', '.', 'is_pending', '(', ')', '{'],
                       lambda b, j, F: replace_all(b, ['let', 'futures', '=', 'unsafe', '{', 'futures', '.', 'as_mut', '(', ')', '.', 'get_unchecked_mut', '(', ')', '}', ';',
                                                       'unsafe', '{', 'ManuallyDrop', '::', 'drop', '(', '&', 'mut', 'futures', '.', F, ')', '}', ';'],
                                                   ['unsafe', '{', 'futures', '.', 'as_mut', '(', ')', '.', 'drop', '(', 'i', ')', '}', ';']))
    # ---- constructor (R6)
    if len(names) == 1:
        ci = find(t, [fam['ctor_trait'], 'for', '(', names[0], ',', ')'], si)
    else:
        ci = find(t, [fam['ctor_trait'], 'for', '('] + sum(([n_, ','] for n_ in names), [])[:-1] + [')'], si)
    if ci < 0:
        raise NormError("constructor impl not found")
    cf = find(t, ['fn', fam['ctor'], '(', 'self', ')'], ci)
    cb = t.index('{', cf)
    cbody = t[cb + 1:close(t, cb)]
    li_ = find(cbody, [S, '{'])
    if li_ < 0:
        raise NormError("constructor: struct literal not found")
    lit = cbody[li_ + 2:close(cbody, li_ + 1)]
    inits, i = [], 0
    while i < len(lit):
        nm = lit[i]
        j, d = i + 2, 0
        while j < len(lit) and not (lit[j] == ',' and d == 0):
            d += lit[j] in '({[' and 1 or 0
            d -= lit[j] in ')}]' and 1 or 0
            j += 1
        v = lit[i + 2:j]
        kids = [M, '::', 'Futures', '{'] + sum(([n_, ':', 'ManuallyDrop', '::', 'new', '(', n_, '.', 'into_future', '(', ')', ')', ','] for n_ in names), [])[:-1] + ['}']
        v = replace_all(v, [',', '}'], ['}'])
        outs = ['('] + sum((['MaybeUninit', '::', '<'] + fam['out'](n_) + ['>', '::', 'uninit', '(', ')', ','] for n_ in names), [])
        if len(names) > 1:
            outs.pop()
        outs += [')']
        if v == kids:
            v2 = 'FutureArray::new(futures)'
        elif v == outs:
            v2 = 'OutputArray::uninit()'
        elif v in (['PollArray', '::', 'new_pending', '(', ')'], ['WakerArray', '::', 'new', '(', ')'], ['PollArray', '::', 'new', '(', ')']):
            v2 = ''.join(v)
        elif len(v) == 1 and re.match(r'\d+$|true$|false$', v[0]):
            v2 = v[0]
        elif v == ['PhantomData']:
            v2 = None
        else:
            raise NormError(f"R6: constructor: field `{nm}` is initialised in a way the rule does not cover: {' '.join(v)}")
        if v2 is not None:
            inits.append((nm, v2))
        i = j + 1
    G, GA = fam['generics'], fam['gargs']
    ctor_txt = ("impl<%s> %s<%s> {\n    pub(crate) fn new(futures: [Fut; N]) -> Self {\n        %s {\n%s        }\n    }\n}\n"
                % (G, fam['struct'], GA, fam['struct'], ''.join(f"            {n_}: {v},\n" for n_, v in inits)))
    poll_txt = ("impl<%s> Future for %s<%s> {\n    type Output = %s;\n"
                "    fn poll(self: Pin<&mut Self>, cx: &mut Context<'_>) -> Poll<Self::Output> {\n        %s\n    }\n}\n" % (G, fam['struct'], GA, fam['output'], ' '.join(body)))
    drop_txt = ("impl<%s> PinnedDrop for %s<%s> {\n    fn drop(self: Pin<&mut Self>) {\n        %s\n    }\n}\n" % (G, fam['struct'], GA, ' '.join(dbody)))
    return struct_txt + "\n" + ctor_txt + "\n" + poll_txt + "\n" + drop_txt


def fold_enum_dispatch(t, names, M, var='index', kids='streams'):
    """R3 for the stream families: `let stream_index = <mod>::Indexes::F as usize; if stream_index == index { B };` per child"""
    k = len(names)
    head = lambda F: ['let', 'stream_index', '=', M, '::', 'Indexes', '::', F, 'as', 'usize', ';', 'if', 'stream_index', '==', var, '{']
    i = find(t, head(names[0]))
    if i < 0:
        raise NormError("R3: no index dispatch found")
    bodies, j = [], i
    for idx in range(k):
        F = names[idx]
        h = head(F)
        if t[j:j + len(h)] != h:
            raise NormError(f"R3: arm {idx} of the index dispatch is missing or out of order")
        e = close(t, j + len(h) - 1)
        b = t[j + len(h):e]
        b = replace_all(b, ['unsafe', '{', 'Pin', '::', 'new_unchecked', '(', '&', 'mut', kids, '.', F, ')', '}'], ['stream'])
        b = replace_all(b, ['stream_index'], [var])
        if F in b or kids in b:
            raise NormError(f"R3: arm {idx} mentions its child in a way the rule does not cover")
        bodies.append(b)
        j = e + 1
        if j < len(t) and t[j] == ';':
            j += 1
    if t[j:j + 3] == ['let', 'stream_index', '=']:
        raise NormError("R3: more arms than children")
    if any(b != bodies[0] for b in bodies):
        raise NormError("R3: the arms of the index dispatch differ between children")
    rep = ['if', var, '<', 'N', '{', 'let', 'stream', '=', 'utils', '::', 'get_pin_mut', '(', 'this', '.', kids, '.', 'as_mut', '(', ')', ',', var, ')', '.', 'unwrap', '(', ')', ';'] + bodies[0] + ['}']
    return t[:i] + rep + t[j:]

def children_of(t, M, k, sname, wrap):
    mi = find(t, ['mod', M, '{'])
    if mi < 0:
        raise NormError(f"module {M} not found")
    me = close(t, mi + 2)
    fi = find(t, ['struct', sname, '<'], mi, me)
    if fi < 0:
        raise NormError(f"{M}::{sname} not found")
    names, ge = names_of(t, fi + 2)
    if len(names) != k:
        raise NormError(f"{M}::{sname} has {len(names)} type parameters, expected {k}")
    fb = t.index('{', ge)
    fbody = strip_attrs(t[fb + 1:close(t, fb)])
    expf = []
    for n_ in names:
        expf += ['pub', '(', 'super', ')', n_, ':'] + (['ManuallyDrop', '<', n_, '>'] if wrap else [n_]) + [',']
    if fbody != expf:
        raise NormError(f"{M}::{sname} is not one child per type parameter")
    li = find(t, ['const', 'LEN', ':', 'usize', '='], mi, me)
    explen = ['const', 'LEN', ':', 'usize', '=', '[']
    for n_ in names:
        explen += ['Indexes', '::', n_, ',']
    explen.pop()
    explen += [']', '.', 'len', '(', ')', ';']
    if li < 0 or t[li:li + len(explen)] != explen:
        raise NormError(f"R1: {M}::LEN is not the number of children")
    return names, mi, me

def fields_of(body):
    fields, i = [], 0
    while i < len(body):
        nm = body[i]
        if body[i + 1] != ':':
            raise NormError("cannot read a field list")
        j, d = i + 2, 0
        while j < len(body) and not (body[j] == ',' and d == 0):
            d += body[j] in '<({[' and 1 or 0
            d -= body[j] in '>)}]' and 1 or 0
            j += 1
        fields.append((nm, body[i + 2:j]))
        i = j + 1
    return fields

def norm_merge(t, k, repo):
    """the tuple `merge` (src/stream/merge/tuple.rs): no destructor, children held unwrapped, the dispatch goes through
    `#[repr(usize)] enum Indexes` (R8: declared in the order of the children, so `Indexes::F as usize` is F's position),
    `completed: u8` is read as `usize` (at most 12 children), `Indexer::new(0 + 1 + … + 1)` is `Indexer::new(N)`"""
    S, M = 'Merge' + str(k), 'merge' + str(k)
    names, mi, me = children_of(t, M, k, 'Streams', False)
    ei = find(t, ['enum', 'Indexes', '{'], mi, me)
    if ei < 0 or t[ei + 3:close(t, ei + 2)] != sum(([n_, ','] for n_ in names), []) or t[ei - 5:ei - 4] != [')'] and False:
        raise NormError(f"R8: {M}::Indexes does not list the children in order")
    ai = ei
    while ai > mi and t[ai] != '#':
        ai -= 1
    if t[ai:ai + 6] != ['#', '[', 'repr', '(', 'usize', ')']:
        raise NormError(f"R8: {M}::Indexes is not #[repr(usize)]")
    si = find(t, ['struct', S, '<'])
    if si < 0:
        raise NormError(f"struct {S} not found")
    gn, ge = names_of(t, si + 2)
    sb = t.index('{', ge)
    fields = []
    for nm, ty in fields_of(strip_attrs(t[sb + 1:close(t, sb)])):
        if ty == [M, '::', 'Streams', '<'] + sum(([n_, ','] for n_ in names), [])[:-1] + ['>']:
            ty2 = '[S; N]'
        elif ty in (['utils', '::', 'Indexer'], ['Indexer']):
            ty2 = 'Indexer'
        elif ty == ['PollArray', '<', '{', M, '::', 'LEN', '}', '>']:
            ty2 = 'PollArray<N>'
        elif ty == ['WakerArray', '<', '{', M, '::', 'LEN', '}', '>']:
            ty2 = 'WakerArray<N>'
        elif ty in (['usize'], ['u8']):
            ty2 = 'usize'
        elif ty == ['bool']:
            ty2 = 'bool'
        else:
            raise NormError(f"R6: struct {S}: field `{nm}` has a type the rule does not cover: {' '.join(ty)}")
        fields.append((nm, ty2))
    kidsf = [nm for nm, ty in fields if ty == '[S; N]']
    if len(kidsf) != 1:
        raise NormError(f"struct {S}: no field holds the children")
    kidsf = kidsf[0]
    struct_txt = "pub struct Merge<S, const N: usize> {\n%s}\n" % ''.join(f"    {n_}: {ty},\n" for n_, ty in fields)
    pi = find(t, ['Stream', 'for', S, '<'], si)
    if pi < 0:
        raise NormError(f"impl Stream for {S} not found")
    pf = find(t, ['fn', 'poll_next', '('], pi)
    pb = t.index('{', close(t, pf + 2))
    body = strip_attrs(t[pb + 1:close(t, pb)])
    c0 = ['const', 'LEN', ':', 'u8', '=', M, '::', 'LEN', 'as', 'u8', ';']
    if find(body, c0) < 0:
        raise NormError("R1: `const LEN: u8 = <mod>::LEN as u8;` not found in poll_next")
    body = replace_all(body, c0, [])
    body = ['N' if x == 'LEN' else x for x in body]
    body = fold_assert(body)
    pj = ['let', 'mut', 'streams', '=', 'this', '.', kidsf, '.', 'project', '(', ')', ';']
    if find(body, pj) < 0:
        raise NormError("poll_next: the children are not projected as expected")
    body = replace_all(body, pj, [])
    body = fold_enum_dispatch(body, names, M, kids='streams')
    body = [kidsf if (x == 'streams' and n_ > 0 and body[n_ - 1] == '.') else x for n_, x in enumerate(body)]
    if any(n_ in body for n_ in names if n_ != 'N'):
        raise NormError("poll_next mentions a child outside the index dispatch")
    if len(names) == 1:
        ci = find(t, ['MergeTrait', 'for', '(', names[0], ',', ')'], si)
    else:
        ci = find(t, ['MergeTrait', 'for', '('] + sum(([n_, ','] for n_ in names), [])[:-1] + [')'], si)
    if ci < 0:
        raise NormError("constructor impl not found")
    cf = find(t, ['fn', 'merge', '(', 'self', ')'], ci)
    cb = t.index('{', cf)
    cbody = t[cb + 1:close(t, cb)]
    li_ = find(cbody, [S, '{'])
    if li_ < 0:
        raise NormError("constructor: struct literal not found")
    inits = []
    for nm, v in fields_of(cbody[li_ + 2:close(cbody, li_ + 1)]):
        kids = [M, '::', 'Streams', '{'] + sum(([n_, ':', n_, '.', 'into_stream', '(', ')', ','] for n_ in names), [])[:-1] + ['}']
        v = replace_all(v, [',', '}'], ['}'])
        ones = ['0'] + ['+', '1'] * k
        if v == kids:
            v2 = 'streams'
        elif v in (['utils', '::', 'Indexer', '::', 'new', '('] + ones + [')'], ['Indexer', '::', 'new', '('] + ones + [')']):
            v2 = 'Indexer::new(N)'
        elif v in (['PollArray', '::', 'new_pending', '(', ')'], ['WakerArray', '::', 'new', '(', ')'], ['PollArray', '::', 'new', '(', ')']):
            v2 = ''.join(v)
        elif len(v) == 1 and re.match(r'\d+$|true$|false$', v[0]):
            v2 = v[0]
        else:
            raise NormError(f"R6: constructor: field `{nm}` is initialised in a way the rule does not cover: {' '.join(v)}")
        inits.append((nm, v2))
    ctor_txt = ("impl<S, const N: usize> Merge<S, N> {\n    pub(crate) fn new(streams: [S; N]) -> Self {\n        Self {\n%s        }\n    }\n}\n"
                % ''.join(f"            {n_}: {v},\n" for n_, v in inits))
    poll_txt = ("impl<S, const N: usize> Stream for Merge<S, N> {\n    type Item = S::Item;\n"
                "    fn poll_next(self: Pin<&mut Self>, cx: &mut Context<'_>) -> Poll<Option<Self::Item>> {\n        %s\n    }\n}\n" % ' '.join(body))
    return struct_txt + "\n" + ctor_txt + "\n" + poll_txt


def norm_zip(t, k, repo):
    """the tuple `zip` (src/stream/zip/tuple.rs): the children are fields of the struct itself, the row buffer is the helper
    struct `<mod>::Output` (one `MaybeUninit` per child, `Default` = all uninitialised), the dispatch is
    `match index { <mod>::F => { … } … _ => unreachable!() }` over the constants `<mod>::F = Indexes::F as usize` (R8)"""
    S, M = 'Zip' + str(k), 'zip_' + str(k)
    mi = find(t, ['mod', M, '{'])
    if mi < 0:
        raise NormError(f"module {M} not found")
    me = close(t, mi + 2)
    oi = find(t, ['struct', 'Output', '<'], mi, me)
    if oi < 0:
        raise NormError(f"{M}::Output not found")
    names, ge = names_of(t, oi + 2)
    if len(names) != k:
        raise NormError(f"{M}::Output has {len(names)} type parameters, expected {k}")
    ob = t.index('{', ge)
    expo = sum((['pub', '(', 'super', ')', n_, ':', 'core', '::', 'mem', '::', 'MaybeUninit', '<', '<', n_, 'as', 'super', '::', 'Stream', '>', '::', 'Item', '>', ','] for n_ in names), [])
    if strip_attrs(t[ob + 1:close(t, ob)]) != expo:
        raise NormError(f"{M}::Output is not one MaybeUninit item per child")
    di = find(t, ['fn', 'default', '(', ')', '->', 'Self', '{', 'Self', '{'], mi, me)
    expd = sum(([n_, ':', 'core', '::', 'mem', '::', 'MaybeUninit', '::', 'uninit', '(', ')', ','] for n_ in names), [])
    if di < 0 or replace_all(t[di + 9:close(t, di + 8)] + ['}'], [',', '}'], ['}']) != expd[:-1] + ['}']:
        raise NormError(f"{M}::Output::default is not all-uninitialised")
    ei = find(t, ['enum', 'Indexes', '{'], mi, me)
    if ei < 0 or t[ei + 3:close(t, ei + 2)] != sum(([n_, ','] for n_ in names), []):
        raise NormError(f"R8: {M}::Indexes does not list the children in order")
    ai = ei
    while ai > mi and t[ai] != '#':
        ai -= 1
    if t[ai:ai + 6] != ['#', '[', 'repr', '(', 'usize', ')']:
        raise NormError(f"R8: {M}::Indexes is not #[repr(usize)]")
    for n_ in names:
        if find(t, ['const', n_, ':', 'usize', '=', 'Indexes', '::', n_, 'as', 'usize', ';'], mi, me) < 0:
            raise NormError(f"R8: {M}::{n_} is not `Indexes::{n_} as usize`")
    explen = ['const', 'LEN', ':', 'usize', '=', '['] + sum((['Indexes', '::', n_, ','] for n_ in names), [])[:-1] + [']', '.', 'len', '(', ')', ';']
    if find(t, explen, mi, me) < 0:
        raise NormError(f"R1: {M}::LEN is not the number of children")
    si = find(t, ['struct', S, '<'])
    if si < 0:
        raise NormError(f"struct {S} not found")
    gn, ge = names_of(t, si + 2)
    sb = t.index('{', ge)
    fields, kidseen = [], []
    for nm, ty in fields_of(strip_attrs(t[sb + 1:close(t, sb)])):
        if nm in names and ty == [nm]:
            kidseen.append(nm)
            continue
        if ty == [M, '::', 'Output', '<'] + sum(([n_, ','] for n_ in names), [])[:-1] + ['>']:
            ty2 = '[MaybeUninit<<S as Stream>::Item>; N]'
        elif ty == ['PollArray', '<', '{', M, '::', 'LEN', '}', '>']:
            ty2 = 'PollArray<N>'
        elif ty == ['WakerArray', '<', '{', M, '::', 'LEN', '}', '>']:
            ty2 = 'WakerArray<N>'
        elif ty in (['usize'], ['bool']):
            ty2 = ty[0]
        else:
            raise NormError(f"R6: struct {S}: field `{nm}` has a type the rule does not cover: {' '.join(ty)}")
        fields.append((nm, ty2))
    if kidseen != names:
        raise NormError(f"struct {S}: the children are not the fields {names}")
    outf = [nm for nm, ty in fields if ty.startswith('[MaybeUninit')]
    if len(outf) != 1:
        raise NormError(f"struct {S}: no row buffer")
    outf = outf[0]
    fields.append(('streams', '[S; N]'))
    struct_txt = "pub struct Zip<S, const N: usize> {\n%s}\n" % ''.join(f"    {n_}: {ty},\n" for n_, ty in fields)
    # ---- poll_next
    pi = find(t, ['Stream', 'for', S, '<'], si)
    pf = find(t, ['fn', 'poll_next', '('], pi)
    pb = t.index('{', close(t, pf + 2))
    body = strip_attrs(t[pb + 1:close(t, pb)])
    c0 = ['const', 'LEN', ':', 'usize', '=', M, '::', 'LEN', ';']
    if find(body, c0) < 0:
        raise NormError("R1: `const LEN: usize = <mod>::LEN;` not found in poll_next")
    body = replace_all(body, c0, [])
    body = ['N' if x == 'LEN' else x for x in body]
    body = fold_assert(body)
    i = find(body, ['match', 'index', '{'])
    if i < 0:
        raise NormError("R3: `match index { … }` not found")
    e = close(body, i + 2)
    arms, j, bodies = body[i + 3:e], 0, []
    for idx, F in enumerate(names):
        h = [M, '::', F, '=>', '{', 'let', 'stream', '=', 'unsafe', '{', 'Pin', '::', 'new_unchecked', '(', '&', 'mut', 'this', '.', F, ')', '}', ';']
        if arms[j:j + len(h)] != h:
            raise NormError(f"R3: arm {idx} of `match index` is missing or out of order")
        ae = close(arms, j + 4)
        b = arms[j + len(h):ae]
        b = replace_all(b, ['this', '.', outf, '.', F], ['this', '.', outf, '[', 'index', ']'])
        b = replace_all(b, ['[', M, '::', F, ']'], ['[', 'index', ']'])
        if F in b:
            raise NormError(f"R3: arm {idx} mentions its child in a way the rule does not cover")
        bodies.append(b)
        j = ae + 1
        if j < len(arms) and arms[j] == ',':
            j += 1
    rest = arms[j:]
    if rest[:2] != ['_', '=>'] or 'panic' not in rest or len(rest) > 12:
        raise NormError("R3: the fallback arm of `match index` is not `unreachable!()`")
    if any(b != bodies[0] for b in bodies):
        raise NormError("R3: the arms of `match index` differ between children")
    pre = ['assert', '!', '(', 'index', '<', 'N', ')', ';', 'let', 'stream', '=', 'utils', '::', 'get_pin_mut', '(', 'this', '.', 'streams', '.', 'as_mut', '(', ')', ',', 'index', ')', '.', 'unwrap', '(', ')', ';']
    if i < 3 or body[i - 3] != 'let' or body[i - 1] != '=' or bodies[0][:1] != ['match'] or close(bodies[0], bodies[0].index('{')) != len(bodies[0]) - 1:
        raise NormError("R3: `match index` is not the right-hand side of a `let`, or its arms are not a single `match` on the child's poll")
    body = body[:i - 3] + pre + body[i - 3:i] + bodies[0] + body[e + 1:]
    tk = (['let', 'mut', 'output', '=', M, '::', 'Output', '::', 'default', '(', ')', ';', 'core', '::', 'mem', '::', 'swap', '(', 'this', '.', outf, ',', '&', 'mut', 'output', ')', ';',
           'match', 'output', '{', M, '::', 'Output', '{'] + sum(([n_, ','] for n_ in names), [])[:-1] + ['}', '=>', 'return', 'Poll', '::', 'Ready', '(', 'Some', '(', '(']
          + sum((['unsafe', '{', n_, '.', 'assume_init', '(', ')', '}', ','] for n_ in names), []))
    if len(names) > 1:
        tk.pop()
    tk += [')', ')', ')', ',', '}']
    if find(body, tk) < 0:
        raise NormError("R5: the block that moves the row out has an unexpected shape")
    body = replace_all(body, tk, ['let', 'mut', 'output', '=', 'array', '::', 'from_fn', '(', '|', '_', '|', 'MaybeUninit', '::', 'uninit', '(', ')', ')', ';',
                                  'mem', '::', 'swap', '(', 'this', '.', outf, ',', '&', 'mut', 'output', ')', ';',
                                  'let', 'output', '=', 'unsafe', '{', 'array_assume_init', '(', 'output', ')', '}', ';', 'return', 'Poll', '::', 'Ready', '(', 'Some', '(', 'output', ')', ')', ';'])
    if any(n_ in body for n_ in names if n_ != 'N') or M in body:
        raise NormError("poll_next mentions a child outside the index dispatch")
    # ---- destructor
    di = find(t, ['PinnedDrop', 'for', S, '<'], si)
    if di < 0:
        raise NormError(f"PinnedDrop for {S} not found")
    df = find(t, ['fn', '__drop_inner', '<'], di)
    db = t.index('{', close(t, t.index('(', df)))
    dbody = strip_attrs(t[db + 1:close(t, db)])
    dbody = replace_all(dbody, ['fn', '__drop_inner', '(', ')', '{', '}'], [])
    dbody = replace_all(dbody, ['__self', '.', 'project', '(', ')'], ['self', '.', 'project', '(', ')'])
    i = find(dbody, ['if', 'this', '.', 'state', '['])
    if i < 0:
        raise NormError("R4: per-slot sequence not found in the destructor")
    j, bodies = i, []
    for F in names:
        h = ['if', 'this', '.', 'state', '[', M, '::', F, ']', '.', 'is_ready', '(', ')', '{']
        if dbody[j:j + len(h)] != h:
            raise NormError("R4: a slot of the destructor's per-slot sequence is missing or out of order")
        e = close(dbody, j + len(h) - 1)
        b = replace_all(dbody[j + len(h):e], ['this', '.', outf, '.', F], ['output'])
        if F in b:
            raise NormError("R4: a slot mentions its child in a way the rule does not cover")
        bodies.append(b)
        j = e + 1
    if any(b != bodies[0] for b in bodies) or dbody[j:] != []:
        raise NormError("R4: the per-slot bodies of the destructor differ or something follows them")
    dbody = dbody[:i] + ['for', '(', 'state', ',', 'output', ')', 'in', 'this', '.', 'state', '.', 'iter_mut', '(', ')', '.', 'zip', '(', 'this', '.', outf, '.', 'iter_mut', '(', ')', ')', '{',
                         'if', 'state', '.', 'is_ready', '(', ')', '{'] + bodies[0] + ['}', '}']
    # ---- constructor
    if len(names) == 1:
        ci = find(t, ['Zip', 'for', '(', names[0], ',', ')'], si)
    else:
        ci = find(t, ['Zip', 'for', '('] + sum(([n_, ','] for n_ in names), [])[:-1] + [')'], si)
    if ci < 0:
        raise NormError("constructor impl not found")
    cf = find(t, ['fn', 'zip', '(', 'self', ')'], ci)
    cb = t.index('{', cf)
    cbody = t[cb + 1:close(t, cb)]
    li_ = find(cbody, ['Self', '::', 'Stream', '{'])
    if li_ < 0:
        raise NormError("constructor: struct literal not found")
    lit = replace_all(cbody[li_ + 4:close(cbody, li_ + 3)] + ['}'], [',', '}'], ['}'])[:-1]
    inits, kidseen, i = [], [], 0
    parts, cur, d = [], [], 0
    for x in lit:
        if x == ',' and d == 0:
            parts.append(cur); cur = []
        else:
            d += x in '({[' and 1 or 0
            d -= x in ')}]' and 1 or 0
            cur.append(x)
    if cur:
        parts.append(cur)
    for pz in parts:
        if len(pz) == 1 and pz[0] in names:
            kidseen.append(pz[0]); continue
        nm, v = pz[0], pz[2:]
        if v == ['Default', '::', 'default', '(', ')'] and nm == outf:
            v2 = 'array::from_fn(|_| MaybeUninit::uninit())'
        elif v in (['PollArray', '::', 'new_pending', '(', ')'], ['WakerArray', '::', 'new', '(', ')']):
            v2 = ''.join(v)
        elif len(v) == 1 and re.match(r'\d+$|true$|false$', v[0]):
            v2 = v[0]
        else:
            raise NormError(f"R6: constructor: field `{nm}` is initialised in a way the rule does not cover: {' '.join(v)}")
        inits.append((nm, v2))
    if kidseen != names:
        raise NormError("constructor: the children are not moved into their fields in order")
    inits.append(('streams', 'streams'))
    ctor_txt = ("impl<S, const N: usize> Zip<S, N> {\n    pub(crate) fn new(streams: [S; N]) -> Self {\n        Self {\n%s        }\n    }\n}\n"
                % ''.join(f"            {n_}: {v},\n" for n_, v in inits))
    poll_txt = ("impl<S, const N: usize> Stream for Zip<S, N> {\n    type Item = [S::Item; N];\n"
                "    fn poll_next(self: Pin<&mut Self>, cx: &mut Context<'_>) -> Poll<Option<Self::Item>> {\n        %s\n    }\n}\n" % ' '.join(body))
    drop_txt = ("impl<S, const N: usize> PinnedDrop for Zip<S, N> {\n    fn drop(self: Pin<&mut Self>) {\n        %s\n    }\n}\n" % ' '.join(dbody))
    return struct_txt + "\n" + ctor_txt + "\n" + poll_txt + "\n" + drop_txt


def norm_race(t, k, repo):
    """the tuple `race` (src/future/race/tuple.rs): no helper module, the children are fields of the struct itself, the dispatch
    is `if i == Indexes::F as usize { match <poll F> { Ready(o) => { …; return }, _ => continue } }` over a LOCAL
    `#[repr(usize)] enum Indexes` that lists the children in order (R8)"""
    S = 'Race' + str(k)
    si = find(t, ['struct', S, '<'])
    if si < 0:
        raise NormError(f"struct {S} not found")
    gn, ge = names_of(t, si + 2)
    sb = t.index('{', ge)
    fields, names = [], []
    for nm, ty in fields_of(strip_attrs(t[sb + 1:close(t, sb)])):
        if ty == [nm] and nm in gn:
            names.append(nm); continue
        if names:
            raise NormError(f"struct {S}: a field follows the children")
        if ty in (['utils', '::', 'Indexer'], ['Indexer']):
            fields.append((nm, 'Indexer'))
        elif ty in (['bool'], ['usize']):
            fields.append((nm, ty[0]))
        else:
            raise NormError(f"R6: struct {S}: field `{nm}` has a type the rule does not cover: {' '.join(ty)}")
    if len(names) != k:
        raise NormError(f"struct {S} has {len(names)} children, expected {k}")
    fields.append(('futures', '[Fut; N]'))
    struct_txt = "pub struct Race<Fut, const N: usize> {\n%s}\n" % ''.join(f"    {n_}: {ty},\n" for n_, ty in fields)
    pi = find(t, ['Future', 'for', S, '<'], si)
    if pi < 0:
        raise NormError(f"impl Future for {S} not found")
    pf = find(t, ['fn', 'poll', '('], pi)
    pb = t.index('{', close(t, pf + 2))
    body = fold_assert(t[pb + 1:close(t, pb)])
    en = ['#', '[', 'repr', '(', 'usize', ')', ']', 'enum', 'Indexes', '{'] + sum(([n_, ','] for n_ in names), []) + ['}']
    if find(body, en) < 0:
        raise NormError("R8: the local `#[repr(usize)] enum Indexes` does not list the children in order")
    body = replace_all(body, en, [])
    body = strip_attrs(body)
    head = lambda F: ['if', 'i', '==', 'Indexes', '::', F, 'as', 'usize', '{']
    i = find(body, head(names[0]))
    if i < 0:
        raise NormError("R3: no index dispatch found")
    j, bodies = i, []
    for F in names:
        h = head(F)
        if body[j:j + len(h)] != h:
            raise NormError("R3: an arm of the index dispatch is missing or out of order")
        e = close(body, j + len(h) - 1)
        b = replace_all(body[j + len(h):e], ['unsafe', '{', 'Pin', '::', 'new_unchecked', '(', '&', 'mut', 'this', '.', F, ')', '}'], ['fut'])
        if F in b:
            raise NormError("R3: an arm mentions its child in a way the rule does not cover")
        bodies.append(b)
        j = e + 1
        if j < len(body) and body[j] == ';':
            j += 1
    if body[j:j + 3] == ['if', 'i', '==']:
        raise NormError("R3: more arms than children")
    if any(b != bodies[0] for b in bodies):
        raise NormError("R3: the arms of the index dispatch differ between children")
    body = body[:i] + ['if', 'i', '<', 'N', '{', 'let', 'fut', '=', 'utils', '::', 'get_pin_mut', '(', 'this', '.', 'futures', '.', 'as_mut', '(', ')', ',', 'i', ')', '.', 'unwrap', '(', ')', ';'] + bodies[0] + ['}'] + body[j:]
    if any(n_ in body for n_ in names if n_ != 'N') or 'Indexes' in body:
        raise NormError("poll mentions a child outside the index dispatch")
    if len(names) == 1:
        ci = find(t, ['RaceTrait', 'for', '(', names[0], ',', ')'], si - 400 if False else 0)
    ci = -1
    pat = ['RaceTrait', 'for', '('] + (([names[0], ',', ')']) if k == 1 else (sum(([n_, ','] for n_ in names), [])[:-1] + [')']))
    st = 0
    while True:
        c = find(t, pat, st)
        if c < 0:
            break
        cf = find(t, ['fn', 'race', '(', 'self', ')'], c)
        cb = t.index('{', cf)
        if find(t[cb:close(t, cb)], [S, '{']) >= 0:
            ci = c; break
        st = c + 1
    if ci < 0:
        raise NormError("constructor impl not found")
    cf = find(t, ['fn', 'race', '(', 'self', ')'], ci)
    cb = t.index('{', cf)
    cbody = t[cb + 1:close(t, cb)]
    li_ = find(cbody, [S, '{'])
    lit = replace_all(cbody[li_ + 2:close(cbody, li_ + 1)] + ['}'], [',', '}'], ['}'])[:-1]
    inits, kidseen = [], []
    for nm, v in fields_of(lit + [',']):
        if nm in names and v == [nm, '.', 'into_future', '(', ')']:
            kidseen.append(nm); continue
        ones = ['0'] + ['+', '1'] * k
        if v in (['utils', '::', 'Indexer', '::', 'new', '('] + ones + [')'], ['Indexer', '::', 'new', '('] + ones + [')']):
            v2 = 'Indexer::new(N)'
        elif len(v) == 1 and re.match(r'\d+$|true$|false$', v[0]):
            v2 = v[0]
        else:
            raise NormError(f"R6: constructor: field `{nm}` is initialised in a way the rule does not cover: {' '.join(v)}")
        inits.append((nm, v2))
    if kidseen != names:
        raise NormError("constructor: the children are not moved into their fields in order")
    inits.append(('futures', 'futures'))
    ctor_txt = ("impl<Fut, const N: usize> Race<Fut, N> {\n    pub(crate) fn new(futures: [Fut; N]) -> Self {\n        Race {\n%s        }\n    }\n}\n"
                % ''.join(f"            {n_}: {v},\n" for n_, v in inits))
    poll_txt = ("impl<Fut, const N: usize> Future for Race<Fut, N> {\n    type Output = Fut::Output;\n"
                "    fn poll(self: Pin<&mut Self>, cx: &mut Context<'_>) -> Poll<Self::Output> {\n        %s\n    }\n}\n" % ' '.join(body))
    return struct_txt + "\n" + ctor_txt + "\n" + poll_txt


def norm_chain(t, k, repo):
    """the tuple `chain` (src/stream/chain/tuple.rs): children are fields of the struct, the dispatch is `match *this.index {
    <mod>::F => { let fut = <pin F>; B } … _ => unreachable!() }` over the constants `<mod>::F = Indexes::F as usize` (R8);
    R9: the arm `v @ (Poll::Pending | Poll::Ready(Some(_))) => return v` is written as the two arms it stands for"""
    S, M = 'Chain' + str(k), 'chain_' + str(k)
    mi = find(t, ['mod', M, '{'])
    if mi < 0:
        raise NormError(f"module {M} not found")
    me = close(t, mi + 2)
    ei = find(t, ['enum', 'Indexes', '{'], mi, me)
    if ei < 0:
        raise NormError(f"{M}::Indexes not found")
    names = [x for x in t[ei + 3:close(t, ei + 2)] if x != ',']
    if len(names) != k or t[ei + 3:close(t, ei + 2)] != sum(([n_, ','] for n_ in names), []):
        raise NormError(f"R8: {M}::Indexes does not list {k} children")
    ai = ei
    while ai > mi and t[ai] != '#':
        ai -= 1
    if t[ai:ai + 6] != ['#', '[', 'repr', '(', 'usize', ')']:
        raise NormError(f"R8: {M}::Indexes is not #[repr(usize)]")
    for n_ in names:
        if find(t, ['const', n_, ':', 'usize', '=', 'Indexes', '::', n_, 'as', 'usize', ';'], mi, me) < 0:
            raise NormError(f"R8: {M}::{n_} is not `Indexes::{n_} as usize`")
    explen = ['const', 'LEN', ':', 'usize', '=', '['] + sum((['Indexes', '::', n_, ','] for n_ in names), [])[:-1] + [']', '.', 'len', '(', ')', ';']
    if find(t, explen, mi, me) < 0:
        raise NormError(f"R1: {M}::LEN is not the number of children")
    si = find(t, ['struct', S, '<'])
    if si < 0:
        raise NormError(f"struct {S} not found")
    gn, ge = names_of(t, si + 2)
    if gn != names:
        raise NormError(f"struct {S}: unexpected generics")
    sb = t.index('{', ge)
    fields, kidseen = [], []
    for nm, ty in fields_of(strip_attrs(t[sb + 1:close(t, sb)])):
        if ty == [nm] and nm in names:
            kidseen.append(nm); continue
        if kidseen:
            raise NormError(f"struct {S}: a field follows the children")
        if ty in (['bool'], ['usize']):
            fields.append((nm, ty[0]))
        else:
            raise NormError(f"R6: struct {S}: field `{nm}` has a type the rule does not cover: {' '.join(ty)}")
    if kidseen != names:
        raise NormError(f"struct {S}: the children are not the fields {names}")
    fields.append(('streams', '[S; N]'))
    struct_txt = "pub struct Chain<S, const N: usize> {\n%s}\n" % ''.join(f"    {n_}: {ty},\n" for n_, ty in fields)
    pi = find(t, ['Stream', 'for', S, '<'], si)
    if pi < 0:
        raise NormError(f"impl Stream for {S} not found")
    pf = find(t, ['fn', 'poll_next', '('], pi)
    pb = t.index('{', close(t, pf + 2))
    body = fold_assert(strip_attrs(t[pb + 1:close(t, pb)]))
    body = replace_all(body, [M, '::', 'LEN'], ['N'])
    i = find(body, ['match', '*', 'this', '.', 'index', '{'])
    if i < 0:
        raise NormError("R3: `match *this.index { … }` not found")
    e = close(body, i + 5)
    arms, j, bodies = body[i + 6:e], 0, []
    for F in names:
        h = [M, '::', F, '=>', '{', 'let', 'fut', '=', 'unsafe', '{', 'Pin', '::', 'new_unchecked', '(', '&', 'mut', 'this', '.', F, ')', '}', ';']
        if arms[j:j + len(h)] != h:
            raise NormError("R3: an arm of `match *this.index` is missing or out of order")
        ae = close(arms, j + 4)
        b = arms[j + len(h):ae]
        if F in b:
            raise NormError("R3: an arm mentions its child in a way the rule does not cover")
        bodies.append(b)
        j = ae + 1
        if j < len(arms) and arms[j] == ',':
            j += 1
    rest = arms[j:]
    if rest[:2] != ['_', '=>'] or 'panic' not in rest or len(rest) > 12:
        raise NormError("R3: the fallback arm of `match *this.index` is not `unreachable!()`")
    if any(b != bodies[0] for b in bodies):
        raise NormError("R3: the arms of `match *this.index` differ between children")
    b0 = bodies[0]
    r9 = ['v', '@', '(', 'Poll', '::', 'Pending', '|', 'Poll', '::', 'Ready', '(', 'Some', '(', '_', ')', ')', ')', '=>', 'return', 'v', ',']
    if find(b0, r9) >= 0:
        b0 = replace_all(b0, r9, ['Poll', '::', 'Ready', '(', 'Some', '(', 'item', ')', ')', '=>', 'return', 'Poll', '::', 'Ready', '(', 'Some', '(', 'item', ')', ')', ',',
                                  'Poll', '::', 'Pending', '=>', 'return', 'Poll', '::', 'Pending', ','])
    if '@' in b0:
        raise NormError("R9: a binding pattern the rule does not cover")
    rep = ['assert', '!', '(', '*', 'this', '.', 'index', '<', 'N', ')', ';',
           'let', 'fut', '=', 'utils', '::', 'iter_pin_mut', '(', 'this', '.', 'streams', '.', 'as_mut', '(', ')', ')', '.', 'nth', '(', '*', 'this', '.', 'index', ')', '.', 'unwrap', '(', ')', ';'] + b0
    body = body[:i] + rep + body[e + 1:]
    if any(n_ in body for n_ in names if n_ != 'N') or M in body:
        raise NormError("poll_next mentions a child outside the index dispatch")
    pat = ['Chain', 'for', '('] + (([names[0], ',', ')']) if k == 1 else (sum(([n_, ','] for n_ in names), [])[:-1] + [')']))
    ci = find(t, pat, si)
    if ci < 0:
        raise NormError("constructor impl not found")
    cf = find(t, ['fn', 'chain', '(', 'self', ')'], ci)
    cb = t.index('{', cf)
    cbody = t[cb + 1:close(t, cb)]
    li_ = find(cbody, ['Self', '::', 'Stream', '{'])
    if li_ < 0:
        raise NormError("constructor: struct literal not found")
    lit = replace_all(cbody[li_ + 4:close(cbody, li_ + 3)] + ['}'], [',', '}'], ['}'])[:-1]
    parts, cur, d = [], [], 0
    for x in lit:
        if x == ',' and d == 0:
            parts.append(cur); cur = []
        else:
            d += x in '({[' and 1 or 0
            d -= x in ')}]' and 1 or 0
            cur.append(x)
    if cur:
        parts.append(cur)
    inits, kidseen = [], []
    for pz in parts:
        if len(pz) == 1 and pz[0] in names:
            kidseen.append(pz[0]); continue
        nm, v = pz[0], pz[2:]
        if len(v) == 1 and re.match(r'\d+$|true$|false$', v[0]):
            inits.append((nm, v[0]))
        else:
            raise NormError(f"R6: constructor: field `{nm}` is initialised in a way the rule does not cover: {' '.join(v)}")
    if kidseen != names:
        raise NormError("constructor: the children are not moved into their fields in order")
    inits.append(('streams', 'streams'))
    ctor_txt = ("impl<S, const N: usize> Chain<S, N> {\n    pub(crate) fn new(streams: [S; N]) -> Self {\n        Chain {\n%s        }\n    }\n}\n"
                % ''.join(f"            {n_}: {v},\n" for n_, v in inits))
    poll_txt = ("impl<S, const N: usize> Stream for Chain<S, N> {\n    type Item = S::Item;\n"
                "    fn poll_next(self: Pin<&mut Self>, cx: &mut Context<'_>) -> Poll<Option<Self::Item>> {\n        %s\n    }\n}\n" % ' '.join(body))
    return struct_txt + "\n" + ctor_txt + "\n" + poll_txt


def norm_race_ok(t, k, repo):
    """the tuple `race_ok` (src/future/race_ok/tuple/mod.rs): like the tuple `race` (children = fields of the struct, dispatch
    over a local `#[repr(usize)] enum Indexes`), plus the error slots of the array container; the arity is the constant
    `RaceOk<k>: usize = 0 + 1 + … + 1` (checked); R10: `<iter>.filter(f).for_each(|(st, err)| { B })` in the destructor is
    written as `for (st, err) in <iter>.filter(f) { B }`"""
    S = 'RaceOk' + str(k)
    ones = ['0'] + ['+', '1'] * k
    if find(t, ['const', S, ':', 'usize', '='] + ones + [';']) < 0:
        raise NormError(f"R1: the constant {S} is not the number of children")
    si = find(t, ['struct', S, '<'])
    if si < 0:
        raise NormError(f"struct {S} not found")
    gn, ge = names_of(t, si + 2)
    sb = t.index('{', t.index('{', ge) if False else ge)
    # skip the where clause: the struct body is the first `{` at bracket depth 0 after the generics
    j, d = ge + 1, 0
    while not (t[j] == '{' and d == 0):
        d += t[j] in '<(' and 1 or 0
        d -= t[j] in '>)' and 1 or 0
        j += 1
    sb = j
    fields, names = [], []
    for nm, ty in fields_of(strip_attrs(t[sb + 1:close(t, sb)])):
        if ty == [nm] and nm in gn:
            names.append(nm); continue
        if names:
            raise NormError(f"struct {S}: a field follows the children")
        if ty in (['utils', '::', 'Indexer'], ['Indexer']):
            fields.append((nm, 'Indexer'))
        elif ty in (['bool'], ['usize']):
            fields.append((nm, ty[0]))
        elif ty == ['[', 'MaybeUninit', '<', 'ERR', '>', ';', S, ']']:
            fields.append((nm, '[MaybeUninit<E>; N]'))
        elif ty == ['PollArray', '<', '{', S, '}', '>']:
            fields.append((nm, 'PollArray<N>'))
        else:
            raise NormError(f"R6: struct {S}: field `{nm}` has a type the rule does not cover: {' '.join(ty)}")
    if len(names) != k:
        raise NormError(f"struct {S} has {len(names)} children, expected {k}")
    fields.append(('futures', '[Fut; N]'))
    struct_txt = "pub struct RaceOk<Fut, T, E, const N: usize> {\n%s}\n" % ''.join(f"    {n_}: {ty},\n" for n_, ty in fields)
    pi = find(t, ['Future', 'for', S, '<'], si)
    if pi < 0:
        raise NormError(f"impl Future for {S} not found")
    pf = find(t, ['fn', 'poll', '('], pi)
    pb = t.index('{', close(t, pf + 2))
    body = t[pb + 1:close(t, pb)]
    c0 = ['const', 'LEN', ':', 'usize', '=', S, ';']
    if find(body, c0) < 0:
        raise NormError("R1: `const LEN: usize = <arity constant>;` not found in poll")
    body = ['N' if x == 'LEN' else x for x in replace_all(body, c0, [])]
    body = fold_assert(body)
    en = ['#', '[', 'repr', '(', 'usize', ')', ']', 'enum', 'Indexes', '{'] + sum(([n_, ','] for n_ in names), []) + ['}']
    if find(body, en) < 0:
        raise NormError("R8: the local `#[repr(usize)] enum Indexes` does not list the children in order")
    body = strip_attrs(replace_all(body, en, []))
    head = lambda F: ['if', 'i', '==', 'Indexes', '::', F, 'as', 'usize', '{']
    i = find(body, head(names[0]))
    if i < 0:
        raise NormError("R3: no index dispatch found")
    j, bodies = i, []
    for F in names:
        h = head(F)
        if body[j:j + len(h)] != h:
            raise NormError("R3: an arm of the index dispatch is missing or out of order")
        e = close(body, j + len(h) - 1)
        b = replace_all(body[j + len(h):e], ['unsafe', '{', 'Pin', '::', 'new_unchecked', '(', '&', 'mut', 'this', '.', F, ')', '}'], ['fut'])
        if F in b:
            raise NormError("R3: an arm mentions its child in a way the rule does not cover")
        bodies.append(b)
        j = e + 1
        if j < len(body) and body[j] == ';':
            j += 1
    if body[j:j + 3] == ['if', 'i', '==']:
        raise NormError("R3: more arms than children")
    if any(b != bodies[0] for b in bodies):
        raise NormError("R3: the arms of the index dispatch differ between children")
    body = body[:i] + ['if', 'i', '<', 'N', '{', 'let', 'fut', '=', 'utils', '::', 'get_pin_mut', '(', 'this', '.', 'futures', '.', 'as_mut', '(', ')', ',', 'i', ')', '.', 'unwrap', '(', ')', ';'] + bodies[0] + ['}'] + body[j:]
    if any(n_ in body for n_ in names if n_ != 'N') or 'Indexes' in body or S in body:
        raise NormError("poll mentions a child or the arity constant outside the rules")
    # ---- destructor
    di = find(t, ['PinnedDrop', 'for', S, '<'], si)
    if di < 0:
        raise NormError(f"PinnedDrop for {S} not found")
    df = find(t, ['fn', '__drop_inner', '<'], di)
    j, d = t.index('(', df), 0
    j = close(t, j) + 1
    while not (t[j] == '{' and d == 0):
        d += t[j] in '<(' and 1 or 0
        d -= t[j] in '>)' and 1 or 0
        j += 1
    db = j
    dbody = strip_attrs(t[db + 1:close(t, db)])
    dbody = replace_all(dbody, ['fn', '__drop_inner', '(', ')', '{', '}'], [])
    dbody = replace_all(dbody, ['__self', '.', 'project', '(', ')'], ['self', '.', 'project', '(', ')'])
    fe = find(dbody, ['.', 'for_each', '(', '|', '(', 'st', ',', 'err', ')', '|', '{'])
    if fe < 0:
        raise NormError("R10: the destructor is not `<iter>.filter(..).for_each(|(st, err)| { .. })`")
    st0 = find(dbody, ['this', '.'], find(dbody, [';']) + 1)
    ce = close(dbody, fe + 10)
    if dbody[ce + 1:ce + 3] != [')', ';'] or dbody[ce + 3:] != []:
        raise NormError("R10: something follows the for_each of the destructor")
    dbody = dbody[:st0] + ['for', '(', 'st', ',', 'err', ')', 'in'] + dbody[st0:fe] + ['{'] + dbody[fe + 11:ce] + ['}']
    # ---- constructor
    pat = ['RaceOk', 'for', '('] + (([names[0], ',', ')']) if k == 1 else (sum(([n_, ','] for n_ in names), [])[:-1] + [')']))
    ci, st_ = -1, 0
    while True:
        c = find(t, pat, st_)
        if c < 0:
            break
        cf = find(t, ['fn', 'race_ok', '(', 'self', ')'], c)
        cb = t.index('{', cf)
        if find(t[cb:close(t, cb)], [S, '{']) >= 0:
            ci = c; break
        st_ = c + 1
    if ci < 0:
        raise NormError("constructor impl not found")
    cf = find(t, ['fn', 'race_ok', '(', 'self', ')'], ci)
    cb = t.index('{', cf)
    cbody = t[cb + 1:close(t, cb)]
    li_ = find(cbody, [S, '{'])
    lit = replace_all(cbody[li_ + 2:close(cbody, li_ + 1)] + ['}'], [',', '}'], ['}'])[:-1]
    inits, kidseen = [], []
    for nm, v in fields_of(lit + [',']):
        if nm in names and v == [nm, '.', 'into_future', '(', ')']:
            kidseen.append(nm); continue
        if v in (['utils', '::', 'Indexer', '::', 'new', '(', S, ')'], ['Indexer', '::', 'new', '(', S, ')']):
            v2 = 'Indexer::new(N)'
        elif v == ['array', '::', 'from_fn', '(', '|', '_', '|', 'MaybeUninit', '::', 'uninit', '(', ')', ')']:
            v2 = 'array::from_fn(|_| MaybeUninit::uninit())'
        elif v == ['PollArray', '::', 'new_pending', '(', ')']:
            v2 = 'PollArray::new_pending()'
        elif len(v) == 1 and re.match(r'\d+$|true$|false$', v[0]):
            v2 = v[0]
        else:
            raise NormError(f"R6: constructor: field `{nm}` is initialised in a way the rule does not cover: {' '.join(v)}")
        inits.append((nm, v2))
    if kidseen != names:
        raise NormError("constructor: the children are not moved into their fields in order")
    inits.append(('futures', 'futures'))
    G = "Fut, T, E, const N: usize"
    ctor_txt = ("impl<%s> RaceOk<Fut, T, E, N> {\n    pub(crate) fn new(futures: [Fut; N]) -> Self {\n        RaceOk {\n%s        }\n    }\n}\n"
                % (G, ''.join(f"            {n_}: {v},\n" for n_, v in inits)))
    poll_txt = ("impl<%s> Future for RaceOk<Fut, T, E, N> {\n    type Output = Result<T, AggregateError<E, N>>;\n"
                "    fn poll(self: Pin<&mut Self>, cx: &mut Context<'_>) -> Poll<Self::Output> {\n        %s\n    }\n}\n" % (G, ' '.join(body)))
    drop_txt = ("impl<%s> PinnedDrop for RaceOk<Fut, T, E, N> {\n    fn drop(self: Pin<&mut Self>) {\n        %s\n    }\n}\n" % (G, ' '.join(dbody)))
    return struct_txt + "\n" + ctor_txt + "\n" + poll_txt + "\n" + drop_txt

_CACHE = {}

def normalised(repo, family, features='std'):
    """the container-style Rust text of a tuple family, or NormError"""
    key = (repo, features)
    if key not in _CACHE:
        _CACHE[key] = toks(expand(repo, features))
    t = _CACHE[key]
    texts = {}
    for k in range(1, 13):
        texts[k] = norm_merge(t, k, repo) if family == 'merge' else norm_zip(t, k, repo) if family == 'zip' else norm_race(t, k, repo) if family == 'race' else norm_chain(t, k, repo) if family == 'chain' else norm_race_ok(t, k, repo) if family == 'race_ok' else norm_family(family, t, k, repo)
    for k in range(2, 13):
        if texts[k] != texts[1]:
            a, b = texts[1].split(), texts[k].split()
            d = next((i for i in range(min(len(a), len(b))) if a[i] != b[i]), min(len(a), len(b)))
            raise NormError(f"arity {k} differs from arity 1 after normalisation, near: {' '.join(b[max(0, d - 8):d + 8])}")
    texts[1] = re.sub(r'\b(assert|debug_assert|matches) ! \(', r'\1!(', texts[1])
    hdr = (f"// NORMALISED by tools/tuple_norm.py from rustc's macro expansion of the tuple `{family}` (arities 1..12 agree)\n")
    return hdr + texts[1]

if __name__ == '__main__':
    repo = sys.argv[2] if len(sys.argv) > 2 else '/repo'
    fam = sys.argv[1] if len(sys.argv) > 1 else 'join'
    try:
        print(normalised(repo, fam))
    except NormError as ex:
        print("NormError:", ex)
        sys.exit(1)
