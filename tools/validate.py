#!/usr/bin/env python3
"""validate MANIFEST.json and every evidence file against the given schemas (run with python3-vt)"""
import json, glob, jsonschema, sys
m = json.load(open('/verif/MANIFEST.json'))
jsonschema.validate(m, json.load(open('/root/.vp/MANIFEST.schema.json')))
ids = {json.loads(l)['id'] for l in open('/verif/properties.jsonl')}
seen = {c['property_id'] for c in m['checks']} | {n['property_id'] for n in m['not_applicable']}
assert seen == ids, (ids - seen, seen - ids)
es = json.load(open('/root/.vp/EVIDENCE.schema.json'))
for f in sorted(glob.glob('/verif/evidence/*.json')):
    e = json.load(open(f)); jsonschema.validate(e, es)
    print(f.split('/')[-1], e['tier'], e['coverage'].get('evaluations'), e['coverage'].get('distinct_nontrivial'), e['wall_s'])
print("manifest + evidence valid")
