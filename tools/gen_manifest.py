#!/usr/bin/env python3
"""Regenerate MANIFEST.json from tools/props.py and the claims table below."""
import json, os, sys
ROOT = os.path.dirname(os.path.dirname(os.path.abspath(__file__)))
sys.path.insert(0, os.path.join(ROOT, "tools"))
from props import PROPS
from claims import CLAIMS, NOT_APPLICABLE

BASE = "cd /repo/$(cat /w/out/cargo_root.txt) && cargo nextest run --workspace --no-fail-fast --tool-config-file pb:/w/lib/nextest.toml --profile pb --test-threads 8 --offline  (fallback: cargo test --workspace --no-fail-fast --offline)"

checks = []
for pid in sorted(CLAIMS):
    c = CLAIMS[pid]
    checks.append({
        "property_id": pid,
        "quick_cmd": f"./check {pid} --tier quick",
        "thorough_cmd": f"./check {pid} --tier thorough",
        "evidence_file": f"evidence/{pid}.json",
        "replay_cmd_template": f"./check {pid} --replay {{path}}",
        "engine": c.get("engine", "lean-model+harness"),
        "level_claimed": {"category": "proof", "text": c["text"], "design_ref": c.get("design_ref", "DESIGN.md §7")},
        "level_note": c["note"],
        "technique": c.get("technique", "Lean 4 theorem over an executable model + differential correspondence with the real code"),
    })
m = {
    "version": 1,
    "setup_cmd": "sh tools/setup.sh",
    "hooks": {
        "guard": "fc-verif",
        "enable": "cargo feature `fc-verif` of futures-concurrency (off by default), switched on only by the harness build "
                  "`stdv` (harness feature `verif`: cargo build --features cfg-std,verif); all other harness builds and the "
                  "probes use the crate without it",
        "baseline_off_cmd": BASE,
        "source_commits": ["0c6f347"],
        "add_only": True,
    },
    "engines": [
        {"name": "lean-model+harness", "path": "lean/ + harness/ + check",
         "serves_properties": sorted(p for p in CLAIMS if CLAIMS[p].get("engine", "lean-model+harness") == "lean-model+harness"),
         "kind_free_text": "Lean 4 model (Fc/*.lean), theorems (FcProps/*.lean, lemmas FcLemmas/*.lean), Rust correspondence harness over the real crate in std/alloc/no_std builds, compiled Lean driver comparing traces and evaluating the monitors the theorems are about; translator tools/rs2lean.py (+ tools/tuple_norm.py) from the crate's source to Lean (FcGen/KSrc*.lean) with refinement theorems FcProps/KTie*.lean for the waker kernel, the groups and every family x {array, Vec, tuple}"},
        {"name": "lean-autotraits+rustc-probes", "path": "tools/extract_types.py + tools/gen_autotraits.py + lean/FcGen + lean/Fc/AutoTraits.lean + probes/ + tools/c18_runner.py",
         "serves_properties": sorted(p for p in CLAIMS if CLAIMS[p].get("engine") == "lean-autotraits+rustc-probes"),
         "kind_free_text": "translator from rustc's macro-expanded source to a generated Lean environment of type declarations, Lean model of auto-trait derivation with theorems over the generated table, rustc probe crate"},
    ],
    "checks": checks,
    "not_applicable": [{"property_id": p, "reason": r} for p, r in sorted(NOT_APPLICABLE.items())],
    "notes": "See DESIGN.md. Every claimed check: (1) rebuilds and audits the property's Lean theorems, (2) rebuilds the harness from /repo's working tree, (3) runs generated cases on the real code, diffs against the model and evaluates the property's monitor on the real traces; (0) where the property has a static tie (tools/props.py: ktie) the check first translates the current source (tools/rs2lean.py; the macro-generated tuple containers through rustc's expansion and tools/tuple_norm.py) and rebuilds the tie theorems FcProps/KTie*.lean - a tie that no longer checks is a broken proof obligation, a source outside the translator's subset makes the tie `unavailable` and the dynamic check decides with an escalated budget.",
}
json.dump(m, open(os.path.join(ROOT, "MANIFEST.json"), "w"), indent=1)
print("claimed:", sorted(CLAIMS), "not_applicable:", sorted(NOT_APPLICABLE))
