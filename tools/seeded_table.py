#!/usr/bin/env python3
"""Regenerate the table of seeded changes (DESIGN.md, between the SEEDED-TABLE markers) from
seeded/<P>/<m>/meta.json and seeded/<P>/<m>/result.txt (written by tools/mutant_matrix.sh)."""
import glob, json, os, re
ROOT = os.path.dirname(os.path.dirname(os.path.abspath(__file__)))
rows = []
for d in sorted(glob.glob(os.path.join(ROOT, "seeded", "*", "*"))):
    if not os.path.exists(os.path.join(d, "patch.diff")) or os.sep + "harmless" + os.sep in d:
        continue
    p, m = d.split(os.sep)[-2:]
    try:
        meta = json.load(open(os.path.join(d, "meta.json")))
    except Exception:
        meta = {}
    summ = re.sub(r"\s+", " ", str(meta.get("summary", ""))).strip()
    if len(summ) > 230:
        summ = summ[:227].rsplit(" ", 1)[0] + " …"
    files = meta.get("files") or []
    if isinstance(files, str):
        files = [files]
    res = []
    rp = os.path.join(d, "result.txt")
    if os.path.exists(rp):
        for l in open(rp):
            l = l.strip()
            if not l:
                continue
            chk, rest = l.split(":", 1)
            rest = rest.strip()
            if rest.startswith("reported with a concrete"):
                mm = re.search(r"\((.*?)\)", rest)
                res.append(f"**{chk}**: concrete replay `{mm.group(1) if mm else ''}`")
            elif rest.startswith("reported, no failing"):
                res.append(f"**{chk}**: reported, no-failing-input-found")
            else:
                res.append(f"**{chk}**: MISSED")
    rows.append(f"| {p}/{m} | {summ.replace('|', '/')} | {'<br>'.join(res) if res else '(not run)'} |")
table = ("| seeded change | what it does | verdict of the checks run against it |\n|---|---|---|\n" + "\n".join(rows) + "\n")
p = os.path.join(ROOT, "DESIGN.md")
s = open(p).read()
a, b = "<!-- SEEDED-TABLE-BEGIN -->\n", "<!-- SEEDED-TABLE-END -->"
if a in s and b in s:
    i, j = s.index(a) + len(a), s.index(b)
    s = s[:i] + table + s[j:]
    open(p, "w").write(s)
    print(f"table with {len(rows)} rows written")
else:
    print(table)
