#!/usr/bin/env python3
"""Regenerate the table of seeded changes (DESIGN.md, between the SEEDED-TABLE markers) from
seeded/<P>/<m>/meta.json and seeded/<P>/<m>/result.txt (written by tools/mutant_matrix.sh)."""
import glob, json, os, re
ROOT = os.path.dirname(os.path.dirname(os.path.abspath(__file__)))
rows = []
for d in sorted(glob.glob(os.path.join(ROOT, "seeded", "*", "*"))):
    if not os.path.exists(os.path.join(d, "patch.diff")) or os.sep + "harmless" + os.sep in d:
        continue
    p, m = d.split(os.sep)[-2:]
    try:
        meta = json.load(open(os.path.join(d, "meta.json")))
    except Exception:
        meta = {}
    summ = re.sub(r"\s+", " ", str(meta.get("summary", ""))).strip()
    if len(summ) > 230:
        summ = summ[:227].rsplit(" ", 1)[0] + " …"
    files = meta.get("files") or []
    if isinstance(files, str):
        files = [files]
    res = []
    rp = os.path.join(d, "result.txt")
    if os.path.exists(rp):
        for l in open(rp):
            l = l.strip()
            if not l:
                continue
            chk, rest = l.split(":", 1)
            rest = rest.strip()
            if rest.startswith("reported with a concrete"):
                mm = re.search(r"\((.*?)\)", rest)
                res.append(f"**{chk}**: concrete replay `{mm.group(1) if mm else ''}`")
            elif rest.startswith("reported, no failing"):
                res.append(f"**{chk}**: reported, no-failing-input-found")
            else:
                res.append(f"**{chk}**: MISSED")
    # the static ties against the translation of the changed source (tools/static_matrix.sh)
    st = ""
    sp = os.path.join(d, "static.txt")
    if os.path.exists(sp):
        t = open(sp).read().strip()
        mm = re.match(r"unavailable: (.*?) \| broken: ?(.*)$", t)
        if mm:
            una = [g for g in mm.group(1).split() if g != "none" and re.search(r"[VAT]D?$|^GrpPoll$|^Std$|^Dir$|^Idx$|^PS$|^Grp$|^Wait$", g)]
            brk = [g for g in mm.group(2).split() if g != "none"]
            parts = []
            if brk:
                parts.append("broken: " + ", ".join(b_.replace("KTie", "") for b_ in brk))
            if una:
                parts.append("outside the subset: " + ", ".join(una))
            st = "; ".join(parts) if parts else "all check"
        else:
            st = t
    rows.append(f"| {p}/{m} | {summ.replace('|', '/')} | {'<br>'.join(res) if res else '(not run)'} | {st} |")
table = ("| seeded change | what it does | verdict of the checks run against it | tie theorems on the translated change |\n|---|---|---|---|\n" + "\n".join(rows) + "\n")
p = os.path.join(ROOT, "DESIGN.md")
s = open(p).read()
a, b = "<!-- SEEDED-TABLE-BEGIN -->\n", "<!-- SEEDED-TABLE-END -->"
if a in s and b in s:
    i, j = s.index(a) + len(a), s.index(b)
    s = s[:i] + table + s[j:]
    open(p, "w").write(s)
    print(f"table with {len(rows)} rows written")
else:
    print(table)
