#!/bin/sh
# usage: tools/static_matrix.sh <scratch worktree of /repo> <scratch copy of /verif/lean> [<seeded dir> ...]
# For every seeded change (default: all of seeded/C*/m*): apply it to the scratch worktree, translate (tools/rs2lean.py)
# into the scratch Lean project and rebuild every tie module named in a `ktie` list of tools/props.py; record which tie
# groups are unavailable (outside the translator's subset) and which tie theorems no longer check.
# Writes seeded/<P>/<m>/static.txt.  Nothing in /repo or /verif/lean is touched.
wt="$1"; lc="$2"; shift 2
cd /verif
mods=$(python3 - <<'EOF'
import sys
sys.path.insert(0, '/verif/tools')
import props
gs = []
for p in props.PROPS.values():
    for g in p.get('ktie', []):
        if g not in gs:
            gs.append(g)
print(" ".join("KTie" + g for g in gs))
EOF
)
[ $# -gt 0 ] || set -- seeded/C*/m*
for d in "$@"; do
  [ -f $d/patch.diff ] || continue
  git -C $wt checkout -q -- . ; git -C $wt clean -fdq src
  git -C $wt apply /verif/$d/patch.diff 2>/dev/null || { echo "patch does not apply" > $d/static.txt; continue; }
  python3 tools/rs2lean.py --repo $wt --outdir $lc/FcGen > /tmp/static_tr.log 2>&1
  una=$(python3 - $lc <<'EOF'
import json, sys
r = json.load(open(sys.argv[1] + '/FcGen/KSrc.report.json'))
print(" ".join(g for g, v in r['groups'].items() if not v['available']))
EOF
)
  broken=""
  targets=""
  for m in $mods; do
    case " $una " in *" ${m#KTie} "*) ;; *) targets="$targets FcProps.$m";; esac
  done
  if ! (cd $lc && lake build $targets > /tmp/static_kt.log 2>&1); then
    # lake names the module that logged the error (often a lemma file), not the tie modules that import it
    for t in $targets; do
      (cd $lc && lake build $t > /dev/null 2>&1) || broken="$broken ${t#FcProps.}"
    done
  fi
  echo "unavailable: ${una:-none} | broken:${broken:- none}" > $d/static.txt
  echo "$d: $(cat $d/static.txt)"
done
git -C $wt checkout -q -- . ; git -C $wt clean -fdq src
python3 tools/rs2lean.py --repo $wt --outdir $lc/FcGen > /dev/null 2>&1
