#!/bin/sh
# usage: tools/static_matrix.sh <scratch worktree of /repo> <scratch copy of /verif/lean>
# For every seeded change: apply it to the scratch worktree, translate (tools/rs2lean.py) into the scratch Lean project and
# rebuild every tie module; record which tie groups are unavailable (outside the translator's subset) and which tie
# theorems no longer check.  Writes seeded/<P>/<m>/static.txt.  Nothing in /repo or /verif/lean is touched.
wt="$1"; lc="$2"
cd /verif
mods="KTieStd KTieDir KTieIdx KTiePS KTieGrp KTieGrpPoll KTieMergeV KTieRaceV KTieJoinV KTieTryJoinV KTieZipV KTieChainV"
for d in seeded/C*/m*; do
  [ -f $d/patch.diff ] || continue
  git -C $wt checkout -q -- . ; git -C $wt clean -fdq src
  git -C $wt apply /verif/$d/patch.diff 2>/dev/null || { echo "patch does not apply" > $d/static.txt; continue; }
  python3 tools/rs2lean.py --repo $wt --outdir $lc/FcGen > /tmp/static_tr.log 2>&1
  una=$(head -1 /tmp/static_tr.log | tr ',;' '\n\n' | grep UNAVAILABLE | sed 's/: UNAVAILABLE//; s/ //g' | tr '\n' ' ')
  broken=""
  for m in $mods; do
    (cd $lc && lake build FcProps.$m > /tmp/static_kt.log 2>&1) || broken="$broken $m"
  done
  echo "unavailable: ${una:-none} | broken:${broken:- none}" > $d/static.txt
  echo "$d: $(cat $d/static.txt)"
done
git -C $wt checkout -q -- . ; git -C $wt clean -fdq src
python3 tools/rs2lean.py --repo $wt --outdir $lc/FcGen > /dev/null 2>&1
