"""Per-property configuration of ./check: which families / profiles / builds are sampled, which
monitor decides, which projection of the trace the correspondence must preserve."""

ALL_FIXED = ["join", "try_join", "race", "race_ok", "merge", "zip", "chain", "wait_f", "wait_s"]
GROUPS = ["fgroup", "sgroup"]
TRACKED = ["join", "try_join", "merge", "zip"]
CONC = ["join", "try_join", "race", "race_ok", "merge", "zip"]
ALL3 = ["std", "alloc", "nostd"]

COMMON_ASSUME = [
    "std::sync::{Mutex, Arc}, Waker/Wake plumbing, pin-project, ManuallyDrop/MaybeUninit, smallvec, "
    "fixedbitset, slab are modelled, not verified",
    "multi-threaded wake-ups are linearised at the readiness mutex (DESIGN.md 2.3)",
    "polling a combinator again after its final result is caller misuse and excluded",
]

PROPS = {
    "C01": dict(monitor="C01", proj="C01", cfgs=ALL3, quick=900, thorough=12000,
                gens=[(ALL_FIXED, "random", 1.0), (GROUPS, "random", 0.4), (CONC, "stuck", 0.3),
                      (["join", "try_join", "merge", "zip", "race", "chain"], "big", 0.05)],
                assumptions=COMMON_ASSUME),
    "C02": dict(monitor="C02", proj="C02", cfgs=ALL3, quick=900, thorough=12000,
                gens=[(ALL_FIXED, "random", 1.0), (GROUPS, "random", 0.4), (ALL_FIXED + GROUPS, "panic", 0.5),
                      (["join", "try_join", "race_ok", "zip"], "big", 0.05)],
                assumptions=COMMON_ASSUME + ["memory effects of unsafe code are outside the model; the model "
                                             "shows the bookkeeping never asks for a second drop"]),
    "C03": dict(monitor="C03", proj="C03", cfgs=ALL3, quick=900, thorough=12000,
                gens=[(ALL_FIXED, "random", 1.0), (GROUPS, "random", 0.5), (CONC, "stuck", 0.2)],
                assumptions=COMMON_ASSUME),
    "C16": dict(monitor="C16", proj="C16", cfgs=["std"], quick=2500, thorough=30000,
                gens=[(TRACKED, "random", 1.0), (GROUPS, "random", 0.5), (TRACKED, "stuck", 0.3),
                      (["join", "try_join", "merge", "zip"], "big", 0.05)],
                assumptions=COMMON_ASSUME),
    "C20": dict(monitor="C20", proj="C20", cfgs=ALL3, quick=900, thorough=12000,
                gens=[(CONC, "random", 1.0), (GROUPS, "random", 0.5), (CONC + GROUPS, "stuck", 0.6)],
                assumptions=COMMON_ASSUME),
    "C04": dict(monitor="C04", proj="FUN", cfgs=ALL3, quick=1500, thorough=20000,
                gens=[(["join"], "random", 1.0), (["join"], "stuck", 0.3), (["join"], "panic", 0.2),
                      (["join"], "big", 0.08)],
                assumptions=COMMON_ASSUME),
}
