"""Per-property configuration of ./check: which families / profiles / builds are sampled, which
monitor decides, which projection of the trace the correspondence must preserve."""

ALL_FIXED = ["join", "try_join", "race", "race_ok", "merge", "zip", "chain", "wait_f", "wait_s"]
GROUPS = ["fgroup", "sgroup"]
TRACKED = ["join", "try_join", "merge", "zip"]
CONC = ["join", "try_join", "race", "race_ok", "merge", "zip"]
ALL3 = ["std", "alloc", "nostd"]
ALL3V = ALL3 + ["stdv"]   # + the std build with the crate's fc-verif hook (internal-state comparison)

COMMON_ASSUME = [
    "std::sync::{Mutex, Arc}, Waker/Wake plumbing, pin-project, ManuallyDrop/MaybeUninit, smallvec, "
    "fixedbitset, slab are modelled, not verified",
    "multi-threaded wake-ups are linearised at the readiness mutex (DESIGN.md 2.3); the `mt` profiles exercise that with "
    "a second real thread that is inside the crate's wake path (lock held) while the polling thread carries on",
    "polling a combinator again after its final result is caller misuse and excluded",
]

CO_ASSUME = [
    "the model of the concurrent-stream pipeline (Fc/CoSpec.lean) is an acceptor for the algorithm's atomic actions; "
    "futures-buffered's FuturesUnordered is modelled as a bag (which woken member is polled next is resolved by the log)",
    "the compiler's async-fn lowering and futures-lite's next() are not modelled: the harness observes the source polls, "
    "closure calls, work-future polls and drops the real code performs",
    "sources are scripted streams through .co() and Vec::into_co_stream() (hidden source polls reconstructed by the driver)",
    "work-future ids are unique per (closure stage, item) in the harness",
]

PROPS = {
    "C01": dict(ktie=["Std", "Dir"], monitor="C01", proj="C01", modules=["C01", "C01seq", "C01g", "C01nest", "C01live", "C01live2", "C01live3", "C01live4", "C01liveAny", "C01liveG", "C01liveGAny", "C01liveN", "C01liveNAny", "C01state", "C01liveGMix"], monitors=["C01", "LV"], cfgs=ALL3V, ks=True, quick=900, thorough=12000,
                gens=[(GROUPS, "exh", 0.3), (["join", "try_join", "merge", "zip"] + GROUPS, "mt", 0.3), (ALL_FIXED, "drain", 0.5), (GROUPS, "drain", 0.3), (["join", "try_join", "race", "race_ok", "merge", "zip", "chain"], "exh", 0.4), (["nest"], "random", 0.35), (["nest"], "stuck", 0.1), (ALL_FIXED, "random", 1.0), (GROUPS, "random", 0.4), (GROUPS, "refill", 0.3), (CONC, "stuck", 0.3),
                      (["join", "try_join", "merge", "zip", "race", "race_ok", "chain"], "big", 0.05), (GROUPS, "big", 0.08),
                      (["join", "try_join", "merge", "zip"], "waves", 0.08)],
                assumptions=COMMON_ASSUME),
    "C02": dict(ktie=["JoinV", "JoinA", "JoinVD", "JoinAD", "JoinT"], monitor="C02", proj="C02", modules=["C02a", "C02b", "C02g", "C02nest", "C02co"], ps=True, cfgs=ALL3 + ["std-co", "alloc-co"], quick=900, thorough=12000,
                gens=[(["co"], "random", 1.5), (["co"], "errs", 0.7), (["co"], "stuck", 0.5), (GROUPS, "exh", 0.3), (["join", "try_join", "race", "race_ok", "merge", "zip", "chain"], "exh", 0.4), (ALL_FIXED, "random", 1.0), (GROUPS, "random", 0.4), (ALL_FIXED + GROUPS, "panic", 0.5),
                      (["join", "try_join", "race_ok", "zip"], "big", 0.05)],
                assumptions=COMMON_ASSUME + ["memory effects of unsafe code are outside the model; the model "
                                             "shows the bookkeeping never asks for a second drop"]),
    "C03": dict(monitor="C03", proj="C03", modules=["C03", "C03g", "C03nest"], ps=True, cfgs=ALL3, quick=900, thorough=12000,
                gens=[(GROUPS, "exh", 0.3), (["join", "try_join", "race", "race_ok", "merge", "zip", "chain"], "exh", 0.4), (["nest"], "random", 0.2), (ALL_FIXED, "random", 1.0), (GROUPS, "random", 0.5), (GROUPS, "refill", 0.3), (CONC, "stuck", 0.2),
                      (["join", "try_join", "race", "race_ok", "merge", "zip", "chain"] + GROUPS, "big", 0.06)],
                assumptions=COMMON_ASSUME),
    "C16": dict(ktie=["Std"], monitor="C16", proj="C16", modules=["C16", "C16g", "C16nest"], cfgs=["std", "stdv"], ks=True, quick=2500, thorough=30000,
                gens=[(GROUPS, "exh", 0.4), (TRACKED + GROUPS, "mt", 0.3), (["join", "try_join", "merge", "zip"], "exh", 0.5), (TRACKED, "random", 1.0), (GROUPS, "random", 0.5), (GROUPS, "refill", 0.3), (TRACKED, "stuck", 0.3),
                      (["join", "try_join", "merge", "zip"], "big", 0.05)],
                assumptions=COMMON_ASSUME),
    "C20": dict(ktie=["Std", "Dir"], monitors=["C20", "LV"], monitor="C20", proj="C20", modules=["C20", "C20g", "C20live", "C20liveG", "C20nest"], cfgs=ALL3V, ks=True, quick=900, thorough=12000,
                gens=[(GROUPS, "exh", 0.3), (["join", "try_join", "merge", "zip"] + GROUPS, "mt", 0.3), (CONC, "drain", 0.5), (GROUPS, "drain", 0.3), (["join", "try_join", "race", "race_ok", "merge", "zip"], "exh", 0.4), (CONC, "random", 1.0), (GROUPS, "random", 0.5), (GROUPS, "refill", 0.5), (CONC + GROUPS, "stuck", 0.6),
                      # wide containers (more children than any per-poll budget / bit block), nobody ready on the first poll
                      (CONC, "big", 0.1), (GROUPS, "big", 0.15)],
                assumptions=COMMON_ASSUME),
    "C04": dict(ktie=["PS", "JoinV", "JoinA", "JoinVD", "JoinAD", "JoinT"], monitors=["C04", "NP", "LV"], monitor="C04", modules=["C04", "C04state", "C01"], proj="FUN", ps=True, cfgs=ALL3, quick=1500, thorough=20000,
                gens=[(["join"], "mt", 0.3), (["join"], "drain", 0.5), (["join"], "exh", 1.0), (["join"], "random", 1.0), (["join"], "stuck", 0.3), (["join"], "panic", 0.2),
                      (["join"], "big", 0.08), (["join"], "waves", 0.25)],
                assumptions=COMMON_ASSUME),
    "C05": dict(ktie=["TryJoinV", "TryJoinA", "TryJoinVD", "TryJoinAD", "TryJoinT"], monitors=["C05", "C02", "NP", "LV"], monitor="C05", proj="FUN+C02", modules=["C05", "C04state", "C02a", "C01"], ps=True, cfgs=ALL3, quick=1500, thorough=20000,
                gens=[(["try_join"], "mt", 0.3), (["try_join"], "drain", 0.5), (["try_join"], "exh", 1.0), (["try_join"], "random", 1.0), (["try_join"], "errs", 0.6), (["try_join"], "stuck", 0.2),
                      (["try_join"], "panic", 0.2), (["try_join"], "big", 0.08), (["try_join"], "waves", 0.2)],
                assumptions=COMMON_ASSUME),
    "C06": dict(ktie=["Idx", "RaceV", "RaceA", "RaceT"], monitors=["C06", "NP", "LV"], monitor="C06", modules=["C06", "C01"], proj="C03", cfgs=ALL3, quick=1500, thorough=20000,
                gens=[(["race"], "drain", 0.5), (["race"], "exh", 1.0), (["race"], "random", 1.0), (["race"], "stuck", 0.4), (["race"], "panic", 0.2),
                      (["race"], "big", 0.2)],
                assumptions=COMMON_ASSUME + ["racing zero futures is outside C06 (the real code divides by zero in "
                                             "Indexer::iter); the generator uses n >= 1"]),
    "C07": dict(ktie=["RaceOkA", "RaceOkV", "RaceOkT"], monitors=["C07", "NP", "LV"], monitor="C07", modules=["C07", "C01"], proj="FUN", cfgs=ALL3, quick=1500, thorough=20000,
                gens=[(["race_ok"], "drain", 0.5), (["race_ok"], "exh", 1.0), (["race_ok"], "random", 1.0), (["race_ok"], "errs", 0.8), (["race_ok"], "stuck", 0.2),
                      (["race_ok"], "panic", 0.2), (["race_ok"], "big", 0.08), (["race_ok"], "waves", 0.2)],
                assumptions=COMMON_ASSUME),
    "C19": dict(ktie=["Wait"], monitors=["C19", "NP", "LV"], monitor="C19", modules=["C19", "C01seq"], proj="FUN", cfgs=ALL3, quick=1500, thorough=20000,
                gens=[(["wait_f", "wait_s"], "drain", 0.5), (["wait_f", "wait_s"], "random", 1.0), (["wait_f", "wait_s"], "stuck", 0.3),
                      (["wait_f", "wait_s"], "panic", 0.2)],
                assumptions=COMMON_ASSUME + ["child scripts have the kind of their child (Case.kindOk): a future only "
                                             "resolves, a stream only yields/ends - enforced by Rust's types"]),
    "C08": dict(ktie=["Idx", "MergeV", "MergeA", "MergeVD", "MergeAD", "MergeT"], monitors=["C08", "NP", "LV"], monitor="C08", modules=["C08", "C01"], proj="FUN", cfgs=ALL3, quick=2500, thorough=30000,
                gens=[(["merge"], "mt", 0.3), (["merge"], "drain", 0.5), (["merge"], "exh", 1.0), (["merge"], "random", 1.0), (["merge"], "fair", 0.4), (["merge"], "stuck", 0.2),
                      (["merge"], "panic", 0.2), (["merge"], "big", 0.08), (["merge"], "waves", 0.1)],
                assumptions=COMMON_ASSUME),
    "C09": dict(ktie=["ZipV", "ZipA", "ZipVD", "ZipAD", "ZipT"], monitors=["C09", "C02", "NP", "LV"], monitor="C09", proj="FUN+C02", modules=["C09", "C02a", "C01"], cfgs=ALL3, quick=2500, thorough=30000,
                gens=[(["zip"], "mt", 0.3), (["zip"], "drain", 0.5), (["zip"], "exh", 1.0), (["zip"], "random", 1.0), (["zip"], "fair", 0.4), (["zip"], "stuck", 0.2),
                      (["zip"], "panic", 0.2), (["zip"], "big", 0.08), (["zip"], "waves", 0.1)],
                assumptions=COMMON_ASSUME + ["zip over zero inputs is outside C09"]),
    "C10": dict(ktie=["ChainV", "ChainA", "ChainT"], monitors=["C10", "C03", "NP", "LV"], monitor="C10", modules=["C10", "C01seq"], proj="FUN", cfgs=ALL3, quick=2500, thorough=30000,
                gens=[(["chain"], "drain", 0.5), (["chain"], "exh", 1.0), (["chain"], "random", 1.0), (["chain"], "fair", 0.4), (["chain"], "stuck", 0.2),
                      (["chain"], "panic", 0.2), (["chain"], "big", 0.08)],
                assumptions=COMMON_ASSUME),
    "C17": dict(ktie=["Idx", "MergeV", "MergeA", "MergeVD", "MergeAD", "MergeT"], monitors=["C17", "NP", "LV"], monitor="C17", modules=["C17", "C01"], proj="FUN", cfgs=ALL3, quick=2500, thorough=30000,
                gens=[(["merge"], "mt-fair", 0.5), (["merge"], "mt", 0.2), (["merge"], "drain", 0.3), (["merge"], "exh", 0.5), (["merge"], "fair", 1.0), (["merge"], "random", 0.5), (["merge"], "stuck", 0.2)],
                assumptions=COMMON_ASSUME),
    "C11": dict(ktie=["Grp", "GrpPoll", "GrpD", "GrpPollDF"], monitors=["C11", "NP", "LV"], monitor="C11", modules=["C11", "C01g"], proj="GRP", cfgs=["std", "alloc", "stdv"], ks=True, quick=3000, thorough=40000,
                gens=[(["fgroup"], "exh", 1.0), (["fgroup"], "mt", 0.2), (["fgroup"], "random", 1.0), (["fgroup"], "big", 0.5), (["fgroup"], "stuck", 0.3),
                      (["fgroup"], "panic", 0.2), (["fgroup"], "refill", 0.5), (["fgroup"], "drain", 0.5)],
                assumptions=COMMON_ASSUME + ["every inserted future is a new object (Case.insertsFresh) of the right "
                                             "kind (Case.kindOk)"]),
    "C12": dict(ktie=["Grp", "GrpPoll", "GrpD", "GrpPollDS"], monitors=["C12", "NP", "LV"], monitor="C12", modules=["C12", "C01g"], proj="GRP", cfgs=["std", "alloc", "stdv"], ks=True, quick=3000, thorough=40000,
                gens=[(["sgroup"], "exh", 1.0), (["sgroup"], "mt", 0.2), (["sgroup"], "random", 1.0), (["sgroup"], "big", 0.5), (["sgroup"], "stuck", 0.3),
                      (["sgroup"], "panic", 0.2), (["sgroup"], "refill", 0.5), (["sgroup"], "drain", 0.5)],
                assumptions=COMMON_ASSUME + ["every inserted stream is a new object (Case.insertsFresh) of the right "
                                             "kind (Case.kindOk)"]),
    "C13": dict(monitor="C13", proj="CO", cfgs=["std-co", "alloc-co"], quick=4000, thorough=60000,
                gens=[(["co"], "random", 1.0), (["co"], "stuck", 0.3), (["co"], "errs", 0.2)],
                assumptions=CO_ASSUME),
    "C14": dict(monitor="C14", proj="CO", cfgs=["std-co", "alloc-co"], quick=4000, thorough=60000,
                gens=[(["co"], "errs", 1.0), (["co"], "random", 0.5), (["co"], "stuck", 0.2)],
                assumptions=CO_ASSUME),
    "C15": dict(monitor="C15", proj="CO", cfgs=["std-co", "alloc-co"], quick=4000, thorough=60000,
                gens=[(["co"], "random", 1.0), (["co"], "stuck", 0.3), (["co"], "errs", 0.2)],
                assumptions=CO_ASSUME),
    "C18": dict(monitor="C18", proj="-", cfgs=["std", "alloc", "nostd"], quick=1, thorough=1, gens=[],
                runner="c18_runner", assumptions=[]),
}
