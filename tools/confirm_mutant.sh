#!/bin/sh
# usage: tools/confirm_mutant.sh <dir with patch.diff demo.rs meta.json> <id> <name>
# Confirms, in a scratch worktree of /repo (outside /repo and /verif), that the seeded change compiles,
# keeps the existing tests green, and that its demonstration fails with it and passes without it.
# On success copies the three files plus confirm.log to /verif/seeded/<id>/<name>/.
set -u
src="$1"; id="$2"; name="$3"
wt=/tmp/mut/confirm-$id-$name
export CARGO_NET_OFFLINE=true CARGO_TARGET_DIR=/tmp/mut/confirm-target
log=$(mktemp)
git -C /repo worktree add -q --detach "$wt" HEAD || exit 2
cleanup() { git -C /repo worktree remove --force "$wt"; }
trap cleanup EXIT
cd "$wt"
feat=$(grep -o -- '--no-default-features[^`"]*' "$src/demo.rs" | head -1)
{
echo "## apply"; git apply "$src/patch.diff" && echo applied
echo "## existing suite with change: cargo test --offline"; cargo test --offline 2>&1 | grep -E "^test result|FAILED|failed|error" ; 
cp "$src/demo.rs" tests/seeded_demo.rs
echo "## demo with change, default features (expect failure): cargo test --offline --test seeded_demo"; cargo test --offline --test seeded_demo 2>&1 | grep -E "^test result|^test .*(FAILED|ok)|error(\[|:)" | head -20 > "$log.d"; cat "$log.d"
if ! grep -q "FAILED" "$log.d" && [ -n "$feat" ]; then
echo "## demo with change (expect failure): cargo test --offline --test seeded_demo $feat"; cargo test --offline --test seeded_demo $feat 2>&1 | grep -E "^test result|^test .*(FAILED|ok)|error(\[|:)" | head -20
else feat=""; fi
git checkout -- src
echo "## demo without change (expect pass)"; cargo test --offline --test seeded_demo $feat 2>&1 | grep -E "^test result|^test .*(FAILED|ok)|error(\[|:)" | head -20
} > "$log" 2>&1
cat "$log"
mkdir -p /verif/seeded/$id/$name
cp "$src/patch.diff" "$src/demo.rs" "$src/meta.json" /verif/seeded/$id/$name/
cp "$log" /verif/seeded/$id/$name/confirm.log
