#!/usr/bin/env python3
"""
gen_autotraits.py — generate lean/FcGen/Types.lean from the declarations extracted from /repo
(tools/extract_types.py).   usage: gen_autotraits.py <types-std.json> <types-alloc.json> <out.lean> [report.json]
"""
import json, sys

PRIMS = {"usize", "isize", "u8", "u16", "u32", "u64", "u128", "i8", "i16", "i32", "i64", "i128", "bool", "char",
         "f32", "f64", "str", "String"}
# external constructors -> (id, rule)
EXT = {}
ROOT_TRAITS = {"Future", "Stream", "ConcurrentStream", "Consumer", "IntoFuture", "IntoStream",
               "IntoConcurrentStream", "FusedFuture", "FusedStream"}


def ext(names, rule):
    for n in names:
        EXT[n] = (10000 + len(EXT), rule)
ext(["Vec", "Box", "Option", "ManuallyDrop", "MaybeUninit", "PhantomData", "SmallVec", "Slab", "BTreeSet", "Pin",
     "Result", "IntoIter", "Range", "VecDeque", "Poll", "ControlFlow", "FuturesUnordered", "Ready", "Peekable",
     "Fuse", "BTreeMap", "BinaryHeap", "Reverse", "Wrapping"], "structural")
ext(["Waker", "AtomicUsize", "AtomicBool", "AtomicU64", "AtomicU32", "FixedBitSet", "NonZeroUsize", "Duration",
     "Instant", "Layout", "TypeId", "Ordering", "PhantomPinned", "Infallible"], "always")
ext(["Arc"], "arc")
ext(["Mutex", "RwLock"], "mutex")   # RwLock: Sync needs Send + Sync; `mutex` is the weaker requirement, see report
ext(["Cell", "RefCell", "UnsafeCell", "OnceCell"], "cell")
ext(["Rc", "NonNull", "RawWaker", "Context", "MutexGuard", "Ref", "RefMut", "Weak"], "never")


def common_prefix(a, b):
    k = 0
    while k < len(a) and k < len(b) and a[k] == b[k]:
        k += 1
    return k


class Gen:
    def __init__(self, data):
        self.data = data
        self.decls = data["decls"]
        self.by_name = {}
        for i, d in enumerate(self.decls):
            self.by_name.setdefault(d["name"], []).append(i)
        self.assoc = {}
        self.unknown = {}
        self.ambiguous = []
        self.opaque = []

    def assoc_id(self, name):
        return self.assoc.setdefault(name, 100 + len(self.assoc))

    def resolve(self, name, frm, quals=()):
        c = self.by_name.get(name)
        if not c:
            return None
        quals = [q for q in quals if q not in ("super", "self", "crate")]
        if quals:
            c2 = [i for i in c if self.decls[i]["path"][-len(quals):] == list(quals)]
            if c2:
                c = c2
        if len(c) == 1:
            return c[0]
        best = sorted(c, key=lambda i: (-common_prefix(self.decls[i]["path"], frm["path"]), abs(i - self.decls.index(frm))))
        a, b = best[0], best[1]
        if common_prefix(self.decls[a]["path"], frm["path"]) == common_prefix(self.decls[b]["path"], frm["path"]):
            self.ambiguous.append((frm["name"], "::".join(frm["path"]), name))
        return a

    def ty(self, t, d):
        tparams = [p["name"] for p in d["params"] if p["kind"] == "type"]
        cparams = [p["name"] for p in d["params"] if p["kind"] == "const"]
        k = t["k"]
        if k == "path":
            segs = t["segs"]
            if segs[0] in tparams:
                path = [tparams.index(segs[0])] + [self.assoc_id(s) for s in segs[1:]]
                return f".neu {path}"
            if segs[0] == "Self":
                self.opaque.append((d["name"], "::".join(segs)))
                return ".opaque"
            name = segs[-1]
            args = [a for a in t["args"] if not (a["k"] == "path" and len(a["segs"]) == 1 and not a["args"]
                                                  and (a["segs"][0] in cparams or a["segs"][0].isupper() and len(a["segs"][0]) == 1 and a["segs"][0] not in tparams and a["segs"][0] in ("N",)))]
            if name in PRIMS and len(segs) == 1:
                return ".prim"
            idx = self.resolve(name, d, segs[:-1])
            la = "[" + ", ".join(self.ty(a, d) for a in args) + "]"
            if idx is not None:
                return f".app {idx} {la}"
            if name in EXT:
                return f".app {EXT[name][0]} {la}"
            uid = self.unknown.setdefault("::".join(segs), 20000 + len(self.unknown))
            return f".app {uid} {la}"
        if k == "proj":
            base = self.ty(t["of"], d)
            if base.startswith(".neu ["):
                path = json.loads(base[5:])
                names = t["names"]
                tr = t.get("trait")
                pre = ("::".join(tr["segs"]) + "::") if tr else ""
                path += [self.assoc_id(n) for n in names]
                return f".neu {path}"
            self.opaque.append((d["name"], "projection of a non-parameter type"))
            return ".opaque"
        if k == "ref":
            inner = self.ty(t["t"], d)
            return f".refMut ({inner})" if t["mut"] else f".ref ({inner})"
        if k == "tuple":
            return ".tuple [" + ", ".join(self.ty(a, d) for a in t["ts"]) + "]"
        if k == "array":
            return f".array ({self.ty(t['t'], d)})"
        if k == "ptr":
            return ".ptr"
        if k == "fn":
            return ".fnPtr"
        if k == "never":
            return ".prim"
        self.opaque.append((d["name"], t.get("text", k)))
        return ".opaque"

    def emit(self, tag):
        lines = []
        lines.append(f"def env_{tag} : List Decl := [")
        rows = []
        for d in self.decls:
            n = len([p for p in d["params"] if p["kind"] == "type"])
            fs = ", ".join(self.ty(f["ty"], d) for f in d["fields"])
            rows.append(f"  ⟨{n}, [{fs}]⟩")
        lines.append(",\n".join(rows))
        lines.append("]")
        names = ", ".join(json.dumps("::".join(d["path"] + [d["name"]])) for d in self.decls)
        lines.append(f"def names_{tag} : List String := [{names}]")
        # the types the property is about: those the crate hands out as futures / streams / concurrent
        # streams / consumers (everything else matters only as a field of one of these, and is then
        # reached through it)
        produced = {ti["self"] for ti in self.data.get("trait_impls", []) if ti["trait"] in ROOT_TRAITS}
        self.roots = [i for i, d in enumerate(self.decls) if d["name"] in produced]
        lines.append(f"/-- indices of the declarations that implement one of {sorted(ROOT_TRAITS)} -/")
        lines.append(f"def roots_{tag} : List Nat := [{', '.join(str(i) for i in self.roots)}]")
        return "\n".join(lines)


def main():
    std = json.load(open(sys.argv[1]))
    alloc = json.load(open(sys.argv[2]))
    out = sys.argv[3]
    gs, ga = Gen(std), Gen(alloc)
    # share the associated-type and unknown-constructor numbering
    ga.assoc = gs.assoc
    ga.unknown = gs.unknown
    body_s = gs.emit("std")
    body_a = ga.emit("alloc")
    ext_cases = "\n".join(f"  | {i} => .{r}   -- {n}" for n, (i, r) in sorted(EXT.items(), key=lambda x: x[1][0]))
    ext_names = ", ".join(f'("{n}", {i})' for n, (i, r) in sorted(EXT.items(), key=lambda x: x[1][0]))
    unknown_cases = "\n".join(f"  -- unknown constructor {n} = {i}: treated as neither Send nor Sync" for n, i in gs.unknown.items())
    txt = f"""/-
  FcGen/Types.lean — GENERATED by tools/gen_autotraits.py from /repo's macro-expanded source
  (tools/extract_types.py).  Do not edit: regenerated on every run of the C18 check.
  {len(std['decls'])} declarations (std build), {len(alloc['decls'])} (alloc-only build).
-/
import Fc.AutoTraits

namespace Fc
namespace AT
namespace Gen

/-- auto-trait rules of the external type constructors that occur -/
def ext : Nat → Rule
{ext_cases}
  | _ => .never
{unknown_cases}

{body_s}

{body_a}

/-- names of the external constructors (for the comparison of `ext` with rustc, probes/src/bin/ext_rules.rs) -/
def extNames : List (String × Nat) := [{ext_names}]

/-- explicit `unsafe impl Send/Sync` and negative impls found in the source (the structural rule
    would not apply to those types): {len(std['impls'])} (std), {len(alloc['impls'])} (alloc) -/
def explicitImpls : Nat := {len(std['impls']) + len(alloc['impls'])}

end Gen
end AT
end Fc
"""
    open(out, "w").write(txt)
    rep = {"assoc": gs.assoc, "unknown": gs.unknown, "ambiguous": gs.ambiguous + ga.ambiguous,
           "opaque": gs.opaque + ga.opaque, "impls": std["impls"] + alloc["impls"],
           "decls_std": len(std["decls"]), "decls_alloc": len(alloc["decls"]),
           "roots_std": [gs.decls[i]["name"] for i in gs.roots], "roots_alloc": [ga.decls[i]["name"] for i in ga.roots]}
    if len(sys.argv) > 4:
        json.dump(rep, open(sys.argv[4], "w"), indent=1)
    sys.stderr.write(json.dumps({k: (v if not isinstance(v, (list, dict)) else len(v)) for k, v in rep.items()}) + "\n")
    if rep["unknown"]:
        sys.stderr.write("unknown constructors: " + ", ".join(rep["unknown"]) + "\n")
    if rep["ambiguous"]:
        sys.stderr.write("ambiguous names: " + str(rep["ambiguous"][:10]) + "\n")
    if rep["opaque"]:
        sys.stderr.write("opaque types: " + str(rep["opaque"][:10]) + "\n")


if __name__ == "__main__":
    main()
