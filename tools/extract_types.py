#!/usr/bin/env python3
"""
extract_types.py — translator for C18: /repo's source (macro-expanded by rustc) -> type declarations.

    python3 tools/extract_types.py <features: std|alloc> <out.json>

Runs `cargo +nightly rustc --offline --lib -- -Zunpretty=expanded` on /repo (own target dir, /repo is
not touched), parses every `struct` / `enum` definition (incl. the macro-generated tuple variants and
helper structs), its generic parameters, where clause and field types, the module path it lives in,
and every `unsafe impl Send/Sync` / negative impl, and writes them as JSON.  pin-project's generated
helper types (`__*`) are skipped.
"""
import json, os, re, subprocess, sys, tempfile

# ------------------------------------------------------------------ tokenizer

TOK = re.compile(r"""
    (?P<ws>\s+)
  | (?P<lcom>//[^\n]*)
  | (?P<bcom>/\*.*?\*/)
  | (?P<rstr>b?r(?P<h>\#*)".*?"(?P=h))
  | (?P<str>b?"(?:\\.|[^"\\])*")
  | (?P<life>'[A-Za-z_][A-Za-z0-9_]*(?!'))
  | (?P<chr>b?'(?:\\.[^']*|[^'\\])')
  | (?P<id>[A-Za-z_][A-Za-z0-9_]*!?)
  | (?P<num>[0-9][A-Za-z0-9_.]*)
  | (?P<p2>::|->|=>|==|!=|<=|>=|&&|\|\||\.\.=|\.\.\.|\.\.)
  | (?P<p1>.)
""", re.S | re.X)


def tokenize(src):
    out = []
    for m in TOK.finditer(src):
        k = m.lastgroup
        if k in ("ws", "lcom", "bcom"):
            continue
        if k == "h":
            k = "rstr"
        t = m.group(0)
        if k == "id" and t.endswith("!"):
            out.append(("id", t[:-1]))
            out.append(("p1", "!"))
            continue
        out.append((k, t))
    return out


# ------------------------------------------------------------------ parser

class P:
    def __init__(self, toks):
        self.t = toks
        self.i = 0
        self.decls = []
        self.impls = []
        self.trait_impls = []

    def peek(self, k=0):
        j = self.i + k
        return self.t[j][1] if j < len(self.t) else None

    def next(self):
        v = self.t[self.i][1]
        self.i += 1
        return v

    def skip_balanced(self, open_, close):
        """at an `open_` token: skip to after the matching close"""
        assert self.peek() == open_, (self.peek(), open_)
        depth = 0
        while self.i < len(self.t):
            v = self.next()
            if v == open_:
                depth += 1
            elif v == close:
                depth -= 1
                if depth == 0:
                    return

    def skip_attr(self):
        while self.peek() == "#":
            self.next()
            if self.peek() == "!":
                self.next()
            self.skip_balanced("[", "]")

    def skip_vis(self):
        if self.peek() == "pub":
            self.next()
            if self.peek() == "(":
                self.skip_balanced("(", ")")
            return True
        return False

    def take_until(self, stops):
        """collect tokens until one of `stops` at bracket depth 0 (angle brackets counted)"""
        out = []
        depth = 0
        while self.i < len(self.t):
            v = self.peek()
            if depth == 0 and v in stops:
                return out
            if v in "([{<":
                depth += 1
            elif v in ")]}>":
                depth -= 1
            elif v == "->":
                pass
            out.append(self.next())
        return out

    def generics(self):
        """at `<`: returns list of (kind, name, text)"""
        if self.peek() != "<":
            return []
        self.next()
        params = []
        cur = []
        depth = 0
        while True:
            v = self.next()
            if v == "<" or v in "([{":
                depth += 1
            elif v in ")]}":
                depth -= 1
            elif v == ">":
                if depth == 0:
                    break
                depth -= 1
            if v == "," and depth == 0:
                if cur:
                    params.append(cur)
                cur = []
            else:
                cur.append(v)
        if cur:
            params.append(cur)
        res = []
        for p in params:
            if p[0].startswith("'"):
                res.append(("lifetime", p[0], " ".join(p)))
            elif p[0] == "const":
                res.append(("const", p[1], " ".join(p)))
            else:
                res.append(("type", p[0], " ".join(p)))
        return res

    def items(self, path, end=None):
        while self.i < len(self.t):
            if end is not None and self.peek() == end:
                self.next()
                return
            self.item(path)

    def item(self, path):
        self.skip_attr()
        self.skip_vis()
        v = self.peek()
        if v is None:
            return
        if v == "mod":
            self.next()
            name = self.next()
            if self.peek() == ";":
                self.next()
                return
            self.next()  # {
            self.items(path + [name], "}")
        elif v in ("struct", "enum", "union"):
            self.adt(path)
        elif v == "unsafe" and self.peek(1) == "impl" or v == "impl":
            self.impl(path)
        elif v == "macro_rules":
            self.next()
            self.next()  # !
            self.next()  # name
            b = self.peek()
            self.skip_balanced(b, {"{": "}", "(": ")", "[": "]"}[b])
            if self.peek() == ";":
                self.next()
        elif v == "const" and self.peek(1) == "_":
            # `const _: () = { ... };` (pin-project glue) — nothing of interest inside
            self.take_until(["="])
            self.next()
            if self.peek() == "{":
                self.skip_balanced("{", "}")
            self.take_until([";"])
            self.next()
        else:
            # fn / trait / use / type / const / static / extern ...: skip to `;` or a balanced `{}`
            self.take_until([";", "{"])
            if self.peek() == "{":
                self.skip_balanced("{", "}")
            elif self.peek() == ";":
                self.next()
            else:
                self.i += 1

    def where_clause(self, stops):
        if self.peek() == "where":
            self.next()
            return " ".join(self.take_until(stops))
        return ""

    def fields_named(self):
        """at `{`: named fields -> list of (name, type tokens)"""
        self.next()
        out = []
        while self.peek() != "}":
            self.skip_attr()
            self.skip_vis()
            name = self.next()
            assert self.next() == ":", name
            ty = self.take_until([",", "}"])
            out.append((name, ty))
            if self.peek() == ",":
                self.next()
        self.next()
        return out

    def fields_tuple(self):
        """at `(`: tuple fields"""
        self.next()
        out = []
        k = 0
        while self.peek() != ")":
            self.skip_attr()
            self.skip_vis()
            ty = self.take_until([",", ")"])
            out.append((str(k), ty))
            k += 1
            if self.peek() == ",":
                self.next()
        self.next()
        return out

    def adt(self, path):
        kind = self.next()
        name = self.next()
        gens = self.generics()
        where = ""
        fields = []
        if kind == "enum":
            where = self.where_clause(["{"])
            self.next()  # {
            while self.peek() != "}":
                self.skip_attr()
                vname = self.next()
                if self.peek() == "{":
                    fields += [(vname + "." + n, t) for n, t in self.fields_named()]
                elif self.peek() == "(":
                    fields += [(vname + "." + n, t) for n, t in self.fields_tuple()]
                if self.peek() == "=":
                    self.take_until([",", "}"])
                if self.peek() == ",":
                    self.next()
            self.next()
        else:
            if self.peek() == "(":
                # tuple struct: `struct X<T>(T) where …;`
                fields = self.fields_tuple()
                where = self.where_clause([";"])
                if self.peek() == ";":
                    self.next()
            else:
                # `struct X<T> where F: Fn(T) -> U { … }` — parentheses may occur inside the clause
                where = self.where_clause(["{", ";"])
                if self.peek() == "{":
                    fields = self.fields_named()
                elif self.peek() == ";":
                    self.next()
        if not name.startswith("__"):
            self.decls.append({
                "name": name, "path": path, "kind": kind,
                "params": [{"kind": k, "name": n, "text": t} for k, n, t in gens],
                "where": where,
                "fields": [{"name": n, "text": " ".join(t), "ty": parse_type(t)} for n, t in fields],
            })

    def impl(self, path):
        unsafe = False
        if self.peek() == "unsafe":
            unsafe = True
            self.next()
        self.next()  # impl
        head = self.take_until(["{", ";"])
        text = " ".join(head)
        m = re.search(r"(!?)\s*(?:[A-Za-z_:]*::)?\s*(Send|Sync)\s+for\s+(.*?)(?:\s+where\b.*)?$", text)
        if m and (unsafe or m.group(1) == "!"):
            self.impls.append({"path": path, "negative": m.group(1) == "!", "trait": m.group(2),
                               "for": m.group(3).strip(), "text": text})
        ti = trait_impl_head(text)
        if ti:
            self.trait_impls.append({"path": path, "trait": ti[0], "self": ti[1]})
        if self.peek() == "{":
            self.skip_balanced("{", "}")
        elif self.peek() == ";":
            self.next()


def trait_impl_head(text):
    """`< G > a :: Trait < A > for b :: Name < G > where …` -> ("Trait", "Name"); None for inherent impls
    and for impls on tuples / arrays / references / Vec-like foreign types (their last segment is returned as is)."""
    toks = text.split()
    # skip the impl's own generics
    i = 0
    if toks and toks[0] == "<":
        depth = 0
        while i < len(toks):
            if toks[i] == "<":
                depth += 1
            elif toks[i] == ">":
                depth -= 1
                if depth == 0:
                    i += 1
                    break
            i += 1
    rest = toks[i:]
    # the `for` that separates trait and self type: at angle-bracket depth 0 and not a `for < 'a >` binder
    depth = 0
    split = None
    for j, t in enumerate(rest):
        if t == "<":
            depth += 1
        elif t == ">":
            depth -= 1
        elif t == "for" and depth == 0 and not (j + 1 < len(rest) and rest[j + 1] == "<"):
            split = j
            break
    if split is None:
        return None

    def last_segment(ts):
        name = None
        for t in ts:
            if t in ("<", "where", "{"):
                break
            if re.match(r"^[A-Za-z_][A-Za-z0-9_]*$", t) and t not in ("dyn", "mut", "const", "unsafe", "crate", "self", "super"):
                name = t
            elif t in ("!", "?"):
                continue
            elif t != "::":
                if name is None:
                    return None
                break
        return name
    tr = last_segment(rest[:split])
    slf = last_segment(rest[split + 1:])
    if tr is None or slf is None:
        return None
    return tr, slf


# ------------------------------------------------------------------ types

def parse_type(toks):
    """tokens -> nested json: {k: 'path', segs: [...], args: [...]}, {k:'ref', mut, t}, {k:'tuple', ts},
    {k:'array', t}, {k:'ptr'}, {k:'fn'}, {k:'dyn', text}, {k:'proj', of, trait, name}, {k:'never'}"""
    tp = TyP(list(toks))
    t = tp.ty()
    return t


class TyP:
    def __init__(self, toks):
        self.t = toks
        self.i = 0

    def peek(self):
        return self.t[self.i] if self.i < len(self.t) else None

    def next(self):
        v = self.t[self.i]
        self.i += 1
        return v

    def ty(self):
        v = self.peek()
        if v == "&":
            self.next()
            if self.peek() and self.peek().startswith("'"):
                self.next()
            mut = False
            if self.peek() == "mut":
                self.next()
                mut = True
            return {"k": "ref", "mut": mut, "t": self.ty()}
        if v == "&&":
            self.next()
            return {"k": "ref", "mut": False, "t": {"k": "ref", "mut": False, "t": self.ty()}}
        if v == "*":
            self.next()
            self.next()  # const / mut
            self.ty()
            return {"k": "ptr"}
        if v == "(":
            self.next()
            ts = []
            trailing = False
            while self.peek() != ")":
                ts.append(self.ty())
                trailing = False
                if self.peek() == ",":
                    self.next()
                    trailing = True
            self.next()
            if len(ts) == 1 and not trailing:
                return ts[0]
            return {"k": "tuple", "ts": ts}
        if v == "[":
            self.next()
            t = self.ty()
            if self.peek() == ";":
                depth = 0
                while not (self.peek() == "]" and depth == 0):
                    x = self.next()
                    if x in "([{":
                        depth += 1
                    elif x in ")}]":
                        depth -= 1
            self.next()
            return {"k": "array", "t": t}
        if v == "!":
            self.next()
            return {"k": "never"}
        if v in ("fn", "unsafe", "extern"):
            while self.peek() not in (None, ",", ")", ">"):
                x = self.next()
                if x == "(":
                    depth = 1
                    while depth:
                        y = self.next()
                        depth += (y == "(") - (y == ")")
            return {"k": "fn"}
        if v in ("dyn", "impl"):
            text = []
            depth = 0
            while self.peek() is not None and not (depth == 0 and self.peek() in (",", ")", ">", "]")):
                x = self.next()
                if x in "(<[":
                    depth += 1
                elif x in ")>]":
                    depth -= 1
                text.append(x)
            return {"k": "dyn", "text": " ".join(text)}
        if v == "<":
            # <T as Trait>::Name
            self.next()
            of = self.ty()
            tr = None
            if self.peek() == "as":
                self.next()
                tr = self.path()
            assert self.next() == ">"
            names = []
            while self.peek() == "::":
                self.next()
                names.append(self.next())
                if self.peek() == "<":
                    self.args()
            return {"k": "proj", "of": of, "trait": tr, "names": names}
        return self.path()

    def args(self):
        assert self.next() == "<"
        out = []
        while self.peek() != ">":
            v = self.peek()
            if v.startswith("'"):
                self.next()
            elif v == "{" or re.match(r"^[0-9]", v) or (v == "-"):
                depth = 0
                while not (depth == 0 and self.peek() in (",", ">")):
                    x = self.next()
                    depth += (x in "{(") - (x in "})")
            else:
                # `Name = Type` (associated type binding) or a type / const ident
                if self.i + 1 < len(self.t) and self.t[self.i + 1] == "=":
                    self.next()
                    self.next()
                out.append(self.ty())
            if self.peek() == ",":
                self.next()
        self.next()
        return out

    def path(self):
        segs = []
        args = []
        if self.peek() == "::":
            self.next()
        while True:
            seg = self.next()
            segs.append(seg)
            if self.peek() == "::" and self.i + 1 < len(self.t) and self.t[self.i + 1] == "<":
                self.next()
            if self.peek() == "<":
                args = self.args()
            elif self.peek() == "(":
                # Fn(A) -> B sugar
                depth = 0
                while True:
                    x = self.next()
                    depth += (x == "(") - (x == ")")
                    if depth == 0:
                        break
                if self.peek() == "->":
                    self.next()
                    self.ty()
            if self.peek() == "::":
                self.next()
                continue
            break
        return {"k": "path", "segs": segs, "args": args}


# ------------------------------------------------------------------ main

def expand(features):
    tgt = os.path.join(tempfile.gettempdir(), "fc-expand-target")
    env = dict(os.environ, CARGO_TARGET_DIR=tgt, CARGO_NET_OFFLINE="true")
    cmd = ["cargo", "+nightly", "rustc", "--offline", "--lib"]
    if features == "alloc":
        cmd += ["--no-default-features", "--features", "alloc"]
    elif features == "nostd":
        cmd += ["--no-default-features"]
    cmd += ["--", "-Zunpretty=expanded"]
    p = subprocess.run(cmd, cwd="/repo", env=env, capture_output=True, text=True)
    if p.returncode != 0:
        sys.stderr.write(p.stderr[-3000:])
        raise SystemExit("macro expansion failed")
    return p.stdout


def main():
    features = sys.argv[1] if len(sys.argv) > 1 else "std"
    out = sys.argv[2] if len(sys.argv) > 2 else "/dev/stdout"
    src = open(sys.argv[3]).read() if len(sys.argv) > 3 else expand(features)
    toks = tokenize(src)
    p = P(toks)
    p.items([])
    json.dump({"features": features, "decls": p.decls, "impls": p.impls, "trait_impls": p.trait_impls}, open(out, "w"), indent=1)
    sys.stderr.write(f"{len(p.decls)} declarations, {len(p.impls)} Send/Sync impls\n")


if __name__ == "__main__":
    main()
