#!/usr/bin/env python3
"""rs2lean.py — translate the crate's waker kernel (small first-order Rust) into Lean 4.

usage: tools/rs2lean.py [--repo /repo] [--outdir lean/FcGen]     (writes KSrcStd/Dir/Idx/PS.lean + KSrc.report.json)

Translates, from the *current* source text of /repo:

    src/utils/wakers/array/readiness_array.rs   struct ReadinessArray + methods      -> namespace StdArr
    src/utils/wakers/vec/readiness_vec.rs       struct ReadinessVec + methods        -> namespace StdVec
    src/utils/wakers/array/waker.rs             InlineWakerArray::wake               -> namespace StdArr
    src/utils/wakers/vec/waker.rs               InlineWakerVec::wake                 -> namespace StdVec
    src/utils/wakers/array/no_std.rs            struct ReadinessArray + methods      -> namespace DirArr
    src/utils/wakers/vec/no_std.rs              struct ReadinessVec + methods        -> namespace DirVec
    src/utils/indexer.rs                        Indexer, IndexIter                   -> namespace Idx
    src/utils/poll_state/poll_state.rs          enum PollState + methods             -> namespace PS
    src/future/future_group.rs                  struct FutureGroup + set-view methods -> namespace GrpF
    src/stream/stream_group.rs                  struct StreamGroup + set-view methods -> namespace GrpS

into functions in the `Option` monad (`none` = panic) over the primitives of lean/Fc/RustPrims.lean.
`&mut self` methods return the new `self` together with the result; mutation becomes shadowing; an
`if`/`match` that is followed by more statements is translated by duplicating the continuation into
its branches (the functions are tiny), which also gives early `return` its meaning.

Besides the code the translator emits a *role table* (`Roles`) per readiness struct: which field is
the cached ready count (the field `any_ready` compares with 0), which holds the flags (the only
array / bit-set field), which the parent waker (the only `Option<Waker>` field), which the maximum
(the remaining `usize` field, if any).  The tie theorems (lean/FcProps/KernelTie.lean) talk about
the roles, so renaming or reordering private fields does not disturb them.

Anything outside the supported subset raises `Unsupported`; the caller then records that the static
tie is unavailable for that item (this is not an alarm: the dynamic correspondence decides).
Items under `#[cfg(test)]` / `#[cfg(feature = "fc-verif")]` are skipped.
"""
import re, sys, os, json

class Unsupported(Exception):
    pass

# ----------------------------------------------------------------------------- tokenizer
TOK = re.compile(r"""
    (?P<ws>\s+|//[^\n]*|/\*.*?\*/)
  | (?P<str>b?"(?:[^"\\]|\\.)*")
  | (?P<char>'(?:[^'\\]|\\.)')
  | (?P<life>'[A-Za-z_][A-Za-z0-9_]*)
  | (?P<num>[0-9][0-9_]*(?:usize|u8|u32|u64|i32)?)
  | (?P<id>[A-Za-z_][A-Za-z0-9_]*!?)
  | (?P<op>::|->|=>|==|!=|<=|>=|&&|\|\||\+=|-=|\*=|\.\.=|\.\.|[{}()\[\];,.:<>=+\-*/%!&|#?@^~$])
""", re.X | re.S)

def tokenize(src):
    out = []
    pos = 0
    while pos < len(src):
        m = TOK.match(src, pos)
        if not m:
            raise Unsupported(f"cannot tokenize at {src[pos:pos+30]!r}")
        pos = m.end()
        k = m.lastgroup
        if k == 'ws':
            continue
        t = m.group(k)
        if k == 'id' and t.endswith('!') and t[:-1] in ('r',):
            pass
        out.append((k, t))
    out.append(('eof', ''))
    return out

# ----------------------------------------------------------------------------- parser
class P:
    def __init__(self, toks):
        self.t = toks
        self.i = 0
    def peek(self, k=0):
        return self.t[self.i + k][1]
    def kind(self, k=0):
        return self.t[self.i + k][0]
    def eat(self, s=None):
        tok = self.t[self.i]
        if s is not None and tok[1] != s:
            raise Unsupported(f"expected {s!r}, found {tok[1]!r} (near token {self.i}: {' '.join(x[1] for x in self.t[max(0,self.i-6):self.i+4])})")
        self.i += 1
        return tok[1]
    def at(self, s):
        return self.t[self.i][1] == s
    def opt(self, s):
        if self.at(s):
            self.i += 1
            return True
        return False

    # ---- generic skipping
    def skip_balanced(self, open_, close):
        depth = 0
        while True:
            t = self.eat()
            if t == open_:
                depth += 1
            elif t == close:
                depth -= 1
                if depth == 0:
                    return
            elif self.kind(-1) == 'eof':
                raise Unsupported("unbalanced")

    def attrs(self):
        """returns list of attribute strings"""
        res = []
        while self.at('#'):
            self.eat('#')
            self.opt('!')
            start = self.i
            self.skip_balanced('[', ']')
            res.append(''.join(x[1] for x in self.t[start:self.i]))
        return res

    def vis(self):
        if self.at('pub'):
            self.eat()
            if self.at('('):
                self.skip_balanced('(', ')')

    def generics(self):
        """<...> after impl/struct/fn: returns list of const generic names"""
        consts = []
        if not self.at('<'):
            return consts
        depth = 0
        while True:
            t = self.eat()
            if t == '<':
                depth += 1
            elif t == '>':
                depth -= 1
                if depth == 0:
                    break
            elif t == 'const':
                consts.append(self.peek())
        return consts

    def type_(self):
        """parse a type, return a string in a normal form"""
        if self.opt('&'):
            if self.kind() == 'life':
                self.eat()
            self.opt('mut')
            return self.type_()
        if self.at('['):
            self.eat('[')
            el = self.type_()
            if self.opt(';'):
                n = self.eat()
                self.eat(']')
                return f"[{el};{n}]"
            self.eat(']')
            return f"[{el}]"
        if self.at('('):
            self.eat('(')
            parts = []
            while not self.at(')'):
                parts.append(self.type_())
                self.opt(',')
            self.eat(')')
            return '(' + ','.join(parts) + ')'
        if self.at('<'):
            self.eat('<')
            self.type_()
            self.eat('as')
            self.type_()
            self.eat('>')
            self.eat('::')
            return self.eat()          # the associated type's name (Output / Item)
        name = self.eat()
        while self.at('::'):
            self.eat('::')
            name = self.eat()          # keep the last path segment
        args = []
        if self.at('<'):
            self.eat('<')
            while not self.at('>'):
                if self.kind() == 'life':
                    self.eat()
                else:
                    args.append(self.type_())
                self.opt(',')
            self.eat('>')
        return name + ('<' + ','.join(args) + '>' if args else '')

    # ---- items
    def items(self, until='eof'):
        res = []
        while not (self.kind() == 'eof' or self.at(until)):
            at = self.attrs()
            skip = any('cfg(test)' in a or 'fc-verif' in a for a in at)
            self.vis()
            t = self.peek()
            if skip and t in ('struct', 'enum', 'impl', 'fn', 'mod'):
                while not (self.at(';') or self.at('{')):
                    self.eat()
                if self.at(';'):
                    self.eat(';')
                else:
                    self.skip_balanced('{', '}')
                continue
            if t == 'use':
                while not self.at(';'):
                    self.eat()
                self.eat(';')
            elif t == 'mod':
                self.eat(); self.eat()
                if self.at(';'):
                    self.eat(';')
                else:
                    self.skip_balanced('{', '}')
            elif t == 'struct':
                it = self.struct_()
                if not skip:
                    res.append(it)
            elif t == 'enum':
                it = self.enum_()
                if not skip:
                    res.append(it)
            elif t == 'impl':
                it = self.impl_()
                if not skip:
                    res.append(it)
            elif t in ('fn', 'const', 'type', 'static', 'trait', 'macro_rules!', 'unsafe'):
                # not needed: skip to the end of the item
                depth = 0
                while depth > 0 or not (self.at(';') or self.at('{')):
                    if self.at('[') or self.at('('):
                        depth += 1
                    elif self.at(']') or self.at(')'):
                        depth -= 1
                    self.eat()
                if self.at(';'):
                    self.eat(';')
                else:
                    self.skip_balanced('{', '}')
            else:
                raise Unsupported(f"item starting with {t!r}")
        return res

    def struct_(self):
        self.eat('struct')
        name = self.eat()
        consts = self.generics()
        fields = []
        if self.at('where'):
            while not (self.at('{') or self.at(';')):
                self.eat()
        if self.at('{'):
            self.eat('{')
            while not self.at('}'):
                self.attrs(); self.vis()
                f = self.eat(); self.eat(':')
                ty = self.type_()
                fields.append((f, ty))
                self.opt(',')
            self.eat('}')
        else:
            while not self.at(';'):
                self.eat()
            self.eat(';')
        return ('struct', name, consts, fields)

    def enum_(self):
        self.eat('enum')
        name = self.eat()
        self.generics()
        self.eat('{')
        vs = []
        payloads = {}
        while not self.at('}'):
            self.attrs()
            v = self.eat()
            if self.at('('):
                # (RaceOkV) a variant with a tuple payload: `Future(Fut)`, `Done(Fut::Output)`
                self.eat('(')
                tys = []
                while not self.at(')'):
                    tys.append(self.type_())
                    self.opt(',')
                self.eat(')')
                payloads[v] = tys
            elif self.at('{'):
                raise Unsupported("enum variant with named fields")
            vs.append(v)
            self.opt(',')
        self.eat('}')
        if payloads:
            return ('enumP', name, vs, payloads)
        return ('enum', name, vs)

    def impl_(self):
        self.eat('impl')
        consts = self.generics()
        first = self.type_()
        trait = None
        if self.opt('for'):
            trait = first
            first = self.type_()
        if self.at('where'):
            while not self.at('{'):
                self.eat()
        self.eat('{')
        fns = []
        assoc = {}
        while not self.at('}'):
            at = self.attrs()
            skip = any('cfg(test)' in a or 'fc-verif' in a for a in at)
            self.vis()
            if self.at('type'):
                self.eat('type')
                an = self.eat()
                if self.at('='):
                    self.eat('=')
                    try:
                        assoc[an] = self.type_()
                    except Unsupported:
                        pass
                while not self.at(';'):
                    self.eat()
                self.eat(';')
                continue
            if self.at('const'):
                while not self.at(';'):
                    self.eat()
                self.eat(';')
                continue
            start = self.i
            try:
                f = self.fn_()
            except Unsupported as ex:
                # this function is outside the subset: skip its text, remember why
                self.i = start
                self.eat('fn')
                fname = self.eat()
                while not self.at('{'):
                    if self.at('('):
                        self.skip_balanced('(', ')')
                    else:
                        self.eat()
                self.skip_balanced('{', '}')
                f = ('fn-unparsed', fname, str(ex))
            if not skip:
                fns.append(f)
        self.eat('}')
        base = first.split('<')[0]
        # `Poll<Self::Output>` with `type Output = Vec<..>` in the same impl: spell the associated type out
        def subst_assoc(f):
            if f[0] != 'fn':
                return f
            ret = f[4]
            for an, ty in assoc.items():
                if ty != an:
                    ret = re.sub(r'(?<![\w])' + an + r'(?![\w])', ty, ret)
            return (f[0], f[1], f[2], f[3], ret, f[5])
        fns = [subst_assoc(f) for f in fns]
        return ('impl', base, consts, trait, fns)

    def fn_(self):
        self.eat('fn')
        name = self.eat()
        self.generics()
        self.eat('(')
        params = []
        selfkind = None
        while not self.at(')'):
            if self.at('&'):
                self.eat('&')
                if self.kind() == 'life':
                    self.eat()
                m = self.opt('mut')
                self.eat('self')
                selfkind = 'mut' if m else 'ref'
            elif (self.at('mut') and self.peek(1) == 'self') or self.at('self'):
                self.opt('mut')
                self.eat('self')
                selfkind = 'own'
                if self.opt(':'):
                    # `self: Pin<&mut Self>` is a mutable receiver, `self: Arc<Self>` an owned one
                    depth, toks = 0, []
                    while not (depth == 0 and (self.at(',') or self.at(')'))):
                        t = self.eat()
                        toks.append(t)
                        if t in ('<', '('): depth += 1
                        if t in ('>', ')'): depth -= 1
                    if 'mut' in toks:
                        selfkind = 'mut'
            else:
                self.opt('mut')
                pn = self.eat(); self.eat(':')
                params.append((pn, self.type_()))
            self.opt(',')
        self.eat(')')
        ret = '()'
        if self.opt('->'):
            ret = self.type_()
        if self.at('where'):
            while not self.at('{'):
                self.eat()
        body = self.block()
        return ('fn', name, selfkind, params, ret, body)

    # ---- statements / expressions
    def block(self):
        self.eat('{')
        stmts = []
        while not self.at('}'):
            at = self.attrs()
            skip = any('fc-verif' in a for a in at)
            if self.at(';'):
                self.eat(';'); continue
            if self.at('for'):
                self.eat('for')
                pat = self.pattern()
                self.eat('in')
                it = self.expr(nostruct=True)
                body = self.block()
                if not skip:
                    stmts.append(('for', pat, it, body))
                continue
            if self.at('loop'):
                self.eat('loop')
                body = self.block()
                if not skip:
                    stmts.append(('loop', body))
                continue
            if self.at('break') or self.at('continue'):
                kw = self.eat()
                self.opt(';')
                if not skip:
                    stmts.append((kw,))
                continue
            if self.at('let'):
                self.eat('let')
                mut = self.opt('mut')
                if self.at('('):
                    raise Unsupported("tuple pattern in let")
                pat = self.eat()
                ty = None
                if self.opt(':'):
                    ty = self.type_()
                self.eat('=')
                e = self.expr()
                self.eat(';')
                s = ('let', pat, mut, ty, e)
            elif self.at('return'):
                self.eat('return')
                e = None if self.at(';') else self.expr()
                self.opt(';')
                s = ('return', e)
            else:
                e = self.expr(stmt=True)
                if self.opt(';'):
                    s = ('expr', e)
                elif self.at('}'):
                    s = ('tail', e)
                elif e[0] in ('if', 'match', 'block'):
                    s = ('expr', e)
                else:
                    raise Unsupported(f"statement not terminated near {self.peek()!r}")
            if not skip:
                stmts.append(s)
        self.eat('}')
        return stmts

    def expr(self, nostruct=False, stmt=False):
        lhs = self.binop(0, nostruct)
        if self.at('=') :
            self.eat('=')
            rhs = self.expr(nostruct)
            return ('assign', lhs, rhs)
        if self.peek() in ('+=', '-='):
            op = self.eat()
            rhs = self.expr(nostruct)
            return ('opassign', op[0], lhs, rhs)
        if self.at('..'):
            self.eat('..')
            if self.at(')') or self.at(',') or self.at(';') or self.at(']'):
                return ('range', lhs, None)
            hi = self.binop(0, nostruct)
            return ('range', lhs, hi)
        return lhs

    LEVELS = [['||'], ['&&'], ['==', '!=', '<', '>', '<=', '>='], ['+', '-'], ['*', '/', '%']]
    def binop(self, lvl, nostruct):
        if lvl == len(self.LEVELS):
            return self.unary(nostruct)
        lhs = self.binop(lvl + 1, nostruct)
        while self.peek() in self.LEVELS[lvl] and self.kind() == 'op':
            op = self.eat()
            rhs = self.binop(lvl + 1, nostruct)
            lhs = ('bin', op, lhs, rhs)
        return lhs

    def unary(self, nostruct):
        if self.at('!'):
            self.eat(); return ('not', self.unary(nostruct))
        if self.at('*'):
            self.eat(); return ('deref', self.unary(nostruct))
        if self.at('&'):
            self.eat()
            m = self.opt('mut')
            return ('ref', m, self.unary(nostruct))
        if self.at('-'):
            raise Unsupported("unary minus")
        return self.postfix(nostruct)

    def args(self):
        self.eat('(')
        a = []
        while not self.at(')'):
            a.append(self.expr())
            self.opt(',')
        self.eat(')')
        return a

    def postfix(self, nostruct):
        e = self.primary(nostruct)
        while True:
            if self.at('.') :
                self.eat('.')
                name = self.eat()
                if self.at('::'):      # turbofish
                    self.eat('::'); self.generics()
                if self.at('('):
                    e = ('mcall', e, name, self.args())
                else:
                    e = ('field', e, name)
            elif self.at('['):
                self.eat('[')
                ix = self.expr()
                self.eat(']')
                e = ('index', e, ix)
            elif self.at('(') and e[0] == 'path':
                e = ('call', e[1], self.args())
            elif self.at('?'):
                raise Unsupported("? operator")
            else:
                return e

    def pattern(self):
        """patterns of match arms: path, path(binding), _ , literal"""
        if self.at('_'):
            self.eat(); return ('pwild',)
        if self.kind() == 'num':
            return ('plit', self.eat())
        if self.at('('):
            self.eat('(')
            parts = []
            while not self.at(')'):
                parts.append(self.pattern())
                self.opt(',')
            self.eat(')')
            return ('ptuple', parts)
        self.opt('ref'); self.opt('mut')
        segs = [self.eat()]
        while self.at('::'):
            self.eat('::'); segs.append(self.eat())
        if self.at('('):
            self.eat('(')
            subs = []
            while not self.at(')'):
                subs.append(self.pattern())
                self.opt(',')
            self.eat(')')
            if len(subs) == 1 and subs[0][0] == 'pbind':
                return ('pctor', segs, subs[0][1])         # the simple form  Ctor(x)
            if len(subs) == 1 and subs[0][0] == 'pwild':
                return ('pctor', segs, '_')
            return ('pnest', segs, subs)
        if len(segs) == 1 and segs[0][0].islower():
            return ('pbind', segs[0])
        return ('pctor', segs, None)

    def primary(self, nostruct):
        k, t = self.kind(), self.peek()
        if k == 'num':
            self.eat()
            return ('num', int(re.sub(r'[a-z_].*|_', '', t) or 0))
        if k == 'str':
            self.eat(); return ('str', t)
        if t == '(':
            self.eat('(')
            if self.at(')'):
                self.eat(')'); return ('unit',)
            e = self.expr()
            if self.at(','):
                parts = [e]
                while self.opt(','):
                    if self.at(')'):
                        break
                    parts.append(self.expr())
                self.eat(')')
                return ('tuple', parts)
            self.eat(')')
            return ('paren', e)
        if t == '[':
            self.eat('[')
            if self.at(']'):
                self.eat(']')
                return ('emptyarr',)          # (RaceOkV) `[]`
            v = self.expr()
            self.eat(';')
            n = self.expr()
            self.eat(']')
            return ('repeat', v, n)
        if t == '{':
            return ('block', self.block())
        if t == '..':
            self.eat('..')
            if self.at(')') or self.at(',') or self.at(']'):
                return ('range', None, None)
            return ('range', None, self.binop(0, nostruct))
        if t == '|':
            self.eat('|')
            self.opt('mut')
            if self.at('('):
                v = self.pattern()             # `|(a, _b)| …`: a tuple pattern
            else:
                v = self.eat()
            self.eat('|')
            return ('closure', v, self.expr())
        if t == 'if':
            self.eat('if')
            if self.at('let'):
                self.eat('let')
                pat = self.pattern()
                self.eat('=')
                sc = self.expr(nostruct=True)
                a = self.block()
                b = None
                if self.opt('else'):
                    b = self.block()
                # `if let P = e {a} else {b}`  ==  `match e { P => a, _ => b }`
                return ('match', sc, [(pat, a), (('pwild',), b if b is not None else [])])
            c = self.expr(nostruct=True)
            a = self.block()
            b = None
            if self.opt('else'):
                if self.at('if'):
                    b = [('tail', self.primary(nostruct))]
                else:
                    b = self.block()
            return ('if', c, a, b)
        if t == 'match':
            self.eat('match')
            s = self.expr(nostruct=True)
            self.eat('{')
            arms = []
            while not self.at('}'):
                pat = self.pattern()
                if self.at('|'):
                    # (RaceOkV) `A | B | C => …`
                    alts = [pat]
                    while self.opt('|'):
                        alts.append(self.pattern())
                    pat = ('por', alts)
                guard = None
                if self.at('if'):
                    self.eat('if')
                    guard = self.expr(nostruct=True)
                self.eat('=>')
                if self.at('{'):
                    body = self.block()
                else:
                    e = self.expr()
                    body = [('tail', e)]
                self.opt(',')
                arms.append((pat, body, guard) if guard is not None else (pat, body))
            self.eat('}')
            return ('match', s, arms)
        if t == 'unsafe':
            self.eat('unsafe')
            return ('block', self.block())
        if t in ('continue', 'break'):
            self.eat()
            return ('block', [(t,)])
        if t == 'return':
            self.eat()
            e = None if (self.at(',') or self.at(';') or self.at('}')) else self.expr()
            return ('block', [('return', e)])
        if k == 'id':
            if t == 'matches!':
                self.eat()
                self.eat('(')
                e = self.expr()
                self.eat(',')
                pat = self.pattern()
                self.eat(')')
                return ('matches', e, pat)
            if t == 'smallvec!' and self.peek(1) == '[' and self.peek(2) == ']':
                self.eat(); self.eat('['); self.eat(']')
                return ('call', ['smallvec!'], [])
            if t in ('assert!', 'debug_assert!'):
                self.eat()
                self.eat('(')
                c = self.expr()
                while not self.at(')'):
                    self.eat()        # message and its arguments
                self.eat(')')
                return ('assert', c)
            if t == 'ready!':
                self.eat(); self.eat('(')
                c = self.expr()
                self.eat(')')
                return ('ready', c)
            if t in ('panic!', 'unreachable!'):
                self.eat()
                self.skip_balanced('(', ')')
                return ('panic',)
            if t.endswith('!'):
                raise Unsupported(f"macro {t}")
            segs = [self.eat()]
            while self.at('::'):
                self.eat('::')
                if self.at('<'):
                    self.generics(); continue
                segs.append(self.eat())
            if self.at('{') and not nostruct and segs[-1][0].isupper():
                self.eat('{')
                fs = []
                while not self.at('}'):
                    f = self.eat()
                    if self.opt(':'):
                        fs.append((f, self.expr()))
                    else:
                        fs.append((f, ('path', [f])))
                    self.opt(',')
                self.eat('}')
                return ('slit', segs, fs)
            return ('path', segs)
        raise Unsupported(f"expression starting with {t!r}")


# ----------------------------------------------------------------------------- translation
LEAN_TY = {'usize': 'Nat', 'bool': 'Bool', 'FixedBitSet': 'Rs.BitSet', 'Option<Waker>': 'Option Nat',
           'Waker': 'Nat', 'Range<usize>': 'Rs.Range', 'Option<usize>': 'Option Nat', '()': 'Unit',
           'Option<Item>': 'Option Nat', 'Item': 'Nat',
           # the groups (future_group.rs / stream_group.rs): members are identified by a number
           'Slab<F>': 'Rs.Slab', 'Slab<S>': 'Rs.Slab', 'F': 'Nat', 'S': 'Nat', 'Key': 'Nat',
           'PollVec': 'Rs.PVec PS.PollState', 'BTreeSet<usize>': 'Rs.BTree', 'WakerVec': 'WakerVec',
           'SmallVec<[usize;10]>': 'List Nat',
           'Poll<Option<(Key,Output)>>': 'Rs.Poll (Option (Nat × Nat))', 'Poll<Option<(Key,Item)>>': 'Rs.Poll (Option (Nat × Nat))',
           'Context': 'Nat',
           'Vec<S>': 'Rs.Kids', 'Vec<Fut>': 'Rs.Kids', 'Indexer': 'Idx.Indexer',
           'FutureVec<Fut>': 'Rs.Kids', 'OutputVec<Output>': 'Rs.OutVec', 'Poll<Vec<Output>>': 'Rs.Poll (List Nat)',
           'OutputVec<T>': 'Rs.OutVec', 'Poll<Result<Vec<T>,E>>': 'Rs.Poll (Rs.Result (List Nat))',
           'Vec<MaybeUninit<Item>>': 'Rs.OutVec', 'Poll<Option<Vec<Item>>>': 'Rs.Poll (Option (List Nat))',
           'Poll<Option<Item>>': 'Rs.Poll (Option Nat)', 'Poll<Output>': 'Rs.Poll Nat',
           # (RaceOkV) race_ok over Vec / MaybeDone
           'Poll<()>': 'Rs.Poll Unit', 'Option<T>': 'Option Nat', 'Option<E>': 'Option Nat', 'Vec<E>': 'List Nat',
           'Poll<Result<T,AggregateError<E>>>': 'Rs.Poll (Rs.ResultE Nat (List Nat))'}
# (RaceOkV) enums with payload translated so far (name -> {variant: [lean payload types]}); filled by `add_enum_payload`
ENUMP_TYPES = {}

WAKER_TABLES = {'WakerVec': 'StdVec.ReadinessVec', 'WakerArray': 'StdArr.ReadinessArray'}

def lean_ty(ty, structs):
    if ty in LEAN_TY:
        return LEAN_TY[ty]
    # the array containers: the same shapes with a length that is a const generic
    if re.fullmatch(r"\[(S|Fut);\w+\]", ty) or re.fullmatch(r"FutureArray<Fut,\w+>", ty):
        return 'Rs.Kids'
    if re.fullmatch(r"OutputArray<\w+,\w+>", ty) or re.fullmatch(r"\[MaybeUninit<(Item|E)>;\w+\]", ty):
        return 'Rs.OutVec'
    if re.fullmatch(r"WakerArray<\w+>", ty):
        return 'WakerArray'
    if re.fullmatch(r"PollArray<\w+>", ty):
        return 'Rs.PVec PS.PollState'
    if re.fullmatch(r"Poll<\[Output;\w+\]>", ty):
        return 'Rs.Poll (List Nat)'
    if re.fullmatch(r"Poll<Result<\[T;\w+\],E>>", ty):
        return 'Rs.Poll (Rs.Result (List Nat))'
    if re.fullmatch(r"Poll<Result<T,AggregateError<E,\w+>>>", ty):
        return 'Rs.Poll (Rs.ResultE Nat (List Nat))'
    if re.fullmatch(r"Poll<Option<\[Item;\w+\]>>", ty):
        return 'Rs.Poll (Option (List Nat))'
    if re.fullmatch(r"\[bool;\w+\]", ty):
        return 'Rs.BArr'
    if ty in structs or ty == 'Self':
        return ty
    if ty.split('<')[0] in ENUMP_TYPES:
        return ty.split('<')[0]
    m = re.fullmatch(r"Pin<Box<\[(\w+)<Fut>\]>>", ty)
    if m and m.group(1) in ENUMP_TYPES:
        return 'Rs.PVec ' + m.group(1)         # a pinned boxed slice of `MaybeDone<Fut>`: indexed, fixed length
    if ty.split('<')[0] in structs:
        return ty.split('<')[0]
    if ty == 'State':
        return 'State'
    m = re.fullmatch(r"Arc<Mutex<(\w+)(<.*>)?>>", ty)
    if m:
        return 'SHARED:' + m.group(1)
    raise Unsupported(f"type {ty}")

class Ctx:
    """per-function translation state"""
    def __init__(self, mod, struct, fn):
        self.mod = mod
        self.struct = struct
        self.fn = fn
        self.tmp = 0
        self.types = {}        # local name -> lean type
        self.alias = {}        # local name -> ('some-of', place expr)   (from `match &mut place { Some(x) => ..`)
        self.shared = None     # local name bound to the locked shared state
        self.uses_wake = False
        self.mutations = 0
        self.selfalias = set()     # locals that are `self.project()`
        self.placealias = {}       # local name -> place expression it is a `&mut` of
        self.muts = []             # plain mutable locals (`let mut x = value`)
        self.loop = None           # inside a `for`: the loop-carried variables
        self.loop_ret = False      # ... and whether the body contains a `return`
        self.uses_env = False
        self.after_block = []
    def fresh(self):
        self.tmp += 1
        return f"t{self.tmp}"

class Module:
    def fname(self, sname, name):
        if any(f == name for f, _ in self.structs.get(sname, [])):
            return f"{sname}.{name}_fn"
        return f"{sname}.{name}"
    def __init__(self, ns, consts_as_params=True):
        self.ns = ns
        self.structs = {}      # name -> [(field, leanty)]
        self.enums = {}
        self.fns = {}          # (struct, name) -> dict(selfkind, params, ret, consts)
        self.out = []
        self.failed = []       # (item, reason)
        self.roles = {}
        self.enumsP = {}       # (RaceOkV) enums with payload: name -> {variant: [lean payload types]}

    def resolve(self, e, cx):
        """replace locals that alias `self` or a place by what they stand for; strip re-borrowing noise"""
        k = e[0]
        if k == 'path' and len(e[1]) == 1:
            n = e[1][0]
            if n in cx.selfalias:
                return ('path', ['self'])
            if n in cx.placealias:
                return cx.placealias[n]
            return e
        if k in ('deref', 'paren'):
            return self.resolve(e[1], cx)
        if k == 'ref':
            return self.resolve(e[2], cx)
        if k == 'block' and len(e[1]) == 1 and e[1][0][0] == 'tail':
            return self.resolve(e[1][0][1], cx)             # unsafe { expr }
        if k == 'mcall' and e[2] in ('as_mut', 'get_unchecked_mut', 'as_ref', 'project', 'deref_mut') and not e[3]:
            return self.resolve(e[1], cx)
        if k == 'mcall' and e[2] == 'iter' and not e[3] and e[1][0] in ('field', 'path'):
            r_ = self.resolve(e[1], cx)
            try:
                if (self.ty(r_, cx) or '').startswith('Rs.PVec '):
                    return r_
            except Unsupported:
                pass
        if k == 'call' and e[1][-1] in ('iter_pin_mut_vec', 'iter_pin_mut') and len(e[2]) == 1:
            return self.resolve(e[2][0], cx)
        if k == 'mcall' and e[2] == 'map_unchecked_mut' and len(e[3]) == 1 and e[3][0][0] == 'closure':
            return self.resolve(e[1], cx)                 # Pin::map_unchecked_mut(|t| t.deref_mut()): the same child
        if k == 'index' and e[2] == ('range', None, None):
            return self.resolve(e[1], cx)                 # `&mut x[..]`: the whole of x
        if k == 'call' and e[1][-2:] == ['Pin', 'new_unchecked']:
            return self.resolve(e[2][0], cx)
        if k == 'call' and e[1][-2:] == ['Pin', 'as_mut'] and len(e[2]) == 1:
            return self.resolve(e[2][0], cx)             # (RaceOkV) `Pin::as_mut(&mut self)`: a re-borrow
        if k == 'call' and e[1][-2:] == ['Context', 'from_waker']:
            return self.resolve(e[2][0], cx)
        if k == 'field':
            return ('field', self.resolve(e[1], cx), e[2])
        if k == 'index':
            return ('index', self.resolve(e[1], cx), e[2])
        if k == 'mcall':
            return ('mcall', self.resolve(e[1], cx), e[2], e[3])
        return e

    def kids_collect(self, e, cx):
        """(RaceOkV) `<children>.into_iter().map(|fut| Enum::f(..)).collect()`: returns (Enum, children, closure)"""
        if e[0] == 'mcall' and e[2] == 'collect' and not e[3] and e[1][0] == 'mcall' and e[1][2] == 'map' and len(e[1][3]) == 1 \
                and e[1][3][0][0] == 'closure' and isinstance(e[1][3][0][1], str) and e[1][1][0] == 'mcall' \
                and e[1][1][2] == 'into_iter' and self.ty(e[1][1][1], cx) == 'Rs.Kids':
            b = e[1][3][0][2]
            if b[0] == 'call' and len(b[1]) == 2 and b[1][0] in self.enumsP and (b[1][0], b[1][1]) in self.fns \
                    and self.fns[(b[1][0], b[1][1])]['ret'] == b[1][0]:
                return (b[1][0], e[1][1][1], e[1][3][0])
        return None

    def is_uninit_vec(self, e):
        """`(0..n).map(|_| MaybeUninit::uninit()).collect()`: returns the expression `n`"""
        if e[0] == 'mcall' and e[2] == 'collect' and e[1][0] == 'mcall' and e[1][2] == 'map' and len(e[1][3]) == 1 \
                and e[1][3][0][0] == 'closure' and e[1][3][0][2] == ('call', ['MaybeUninit', 'uninit'], []):
            r = e[1][1]
            while r[0] == 'paren':
                r = r[1]
            if r[0] == 'range' and r[1] == ('num', 0) and r[2] is not None:
                return r[2]
        return None

    def mutates(self, e, cx):
        """does evaluating `e` change a variable? (trial translation, state restored)"""
        import copy
        saved = copy.deepcopy((cx.tmp, cx.mutations, cx.types, cx.alias, cx.placealias, cx.muts, cx.uses_env))
        try:
            m0 = cx.mutations
            self.E(e, cx)
            res = cx.mutations != m0
        except Unsupported:
            res = True
        cx.tmp, cx.mutations, cx.types, cx.alias, cx.placealias, cx.muts, cx.uses_env = saved
        return res

    def is_place(self, e, cx):
        try:
            r, fs = self.place_path(e, cx)
        except Unsupported:
            return False
        return r == 'self' and bool(fs)

    # ---------------------------------------------------------------- types of expressions
    def ty(self, e, cx):
        e = self.resolve(e, cx)
        k = e[0]
        if k == 'num': return 'Nat'
        if k == 'paren': return self.ty(e[1], cx)
        if k == 'path':
            if len(e[1]) == 1:
                n = e[1][0]
                if n in ('true', 'false'): return 'Bool'
                if n == 'self': return cx.struct
                return cx.types.get(n)
            return None
        if k == 'field':
            bt = self.ty(e[1], cx)
            if e[2] == '0' and bt == 'Nat':
                return 'Nat'            # key.0
            if bt in WAKER_TABLES and e[2] == 'readiness':
                return WAKER_TABLES[bt]
            if bt in self.structs:
                for f, t in self.structs[bt]:
                    if f == e[2]:
                        return t
            return None
        if k == 'index':
            bt = self.ty(e[1], cx)
            if bt and bt.startswith('Rs.PVec '):
                return bt[len('Rs.PVec '):]
            if bt == 'Rs.Slab':
                return 'Member'
            return 'Bool'
        if k == 'tuple':
            return '(' + ' × '.join((self.ty(a, cx) or '?') for a in e[1]) + ')'
        if k in ('not',): return 'Bool'
        if k == 'bin':
            return 'Bool' if e[1] in ('||', '&&', '==', '!=', '<', '>', '<=', '>=') else 'Nat'
        if k == 'mcall':
            rt = self.ty(e[1], cx)
            if rt in self.enumsP and (rt, e[2]) in self.fns:
                return self.fns[(rt, e[2])]['ret']
            if self.enumsP and e[2] == 'collect' and self.kids_collect(e, cx):
                return 'Rs.PVec ' + self.kids_collect(e, cx)[0]
            if self.enumsP and e[2] == 'into' and (rt or '').startswith('Rs.PVec '):
                return rt
            if (rt or '').startswith('Rs.Poll') and e[2] in ('is_pending', 'is_ready'):
                return 'Bool'
            if rt in self.structs and (rt, e[2]) in self.fns:
                return self.fns[(rt, e[2])]['ret']
            if e[2] in ('len', 'count_ones', 'wrapping_rem'): return 'Nat'
            if e[2] in ('clone', 'as_ref', 'as_mut', 'unwrap', 'expect'):
                t = self.ty(e[1], cx)
                if e[2] in ('unwrap', 'expect') and t and t.startswith('Option '):
                    return t[len('Option '):]
                if e[2] in ('unwrap', 'expect') and t == 'Option Member':
                    return 'Member'
                if e[2] in ('unwrap', 'expect') and t and t.startswith('SHARED:'):
                    return t[len('SHARED:'):]
                return t
            if e[2] == 'lock':
                return self.ty(e[1], cx)
            if e[2] in ('is_some', 'is_none', 'will_wake', 'any_ready'): return 'Bool'
            if e[2] == 'take': return self.ty(e[1], cx)
            if rt == 'Rs.Slab' and e[2] in ('len', 'insert'): return 'Nat'
            if rt == 'Rs.Slab' and e[2] == 'is_empty': return 'Bool'
            if rt == 'Rs.BTree' and e[2] in ('contains', 'insert', 'remove'): return 'Bool'
            if rt in WAKER_TABLES and e[2] == 'readiness': return WAKER_TABLES[rt]
            if rt in WAKER_TABLES and e[2] == 'get': return 'Option Wk'
            if rt == 'Rs.Kids' and e[2] == 'len': return 'Nat'
            if rt == 'Rs.OutVec' and e[2] == 'take': return 'List Nat'
            if (rt or '').startswith('Rs.PVec ') and e[2] in ('ready_indexes', 'pending_indexes', 'consumed_indexes'): return 'List Nat'
            if (rt or '').startswith('Rs.PVec ') and e[2] == 'all': return 'Bool'
            if (rt or '').startswith('Rs.PVec ') and e[2] == 'len': return 'Nat'
            if (rt or '').startswith('Rs.PVec ') and e[2] == 'iter': return rt
            if rt == 'Rs.Kids' and e[2] == 'nth': return 'Option Member'
            if rt == 'Rs.Kids' and e[2] == 'is_empty': return 'Bool'
            if rt == 'Idx.Indexer' and e[2] == 'iter': return 'Idx.IndexIter'
            if rt == 'Nat' and e[2] == 'waker': return 'Nat'
            if rt == 'List Nat' and e[2] == 'is_empty': return 'Bool'
            if rt == 'Member' and e[2] == 'poll': return 'Rs.Poll Nat'
            if rt == 'Member' and e[2] == 'poll_next': return 'Rs.Poll (Option Nat)'
            if e[2] in ('max', 'min', 'saturating_sub'): return 'Nat'
            return None
        if k in ('deref', 'ref'):
            return self.ty(e[-1], cx)
        if k == 'call' and e[1][-1] == 'replace':
            return self.ty(e[2][0], cx)
        if k == 'call' and e[1] == ['Some']:
            t = self.ty(e[2][0], cx)
            return ('Option ' + t) if t else None
        if k == 'call' and e[1] == ['Key']:
            return 'Nat'
        if self.is_uninit_vec(e):
            return 'Rs.OutVec'
        if k == 'call' and e[1] == ['MaybeUninit', 'new']:
            return self.ty(e[2][0], cx)
        if k == 'call' and e[1][-1] == 'vec_assume_init':
            return 'List Nat'
        if k == 'call' and e[1] == ['range_upto']:
            return 'List Nat'
        if k == 'call' and e[1][-1] in ('get_pin_mut_from_vec', 'get_pin_mut') and len(e[2]) == 2 and self.ty(e[2][0], cx) == 'Rs.Kids':
            return 'Option Member'
        if k == 'call' and e[1] == ['Poll', 'Ready']:
            t = self.ty(e[2][0], cx)
            return ('Rs.Poll (' + t + ')') if t else None
        if k == 'path' and e[1] == ['Poll', 'Pending']:
            return 'Rs.Poll ?'
        return None

    # ---------------------------------------------------------------- expressions
    # E returns (prelude lines, pure lean term)
    def E(self, e, cx):
        e = self.resolve(e, cx)
        k = e[0]
        if k == 'call' and e[1] == ['drop_value__']:
            # the end of the life of a value a child produced and nobody took
            pv, tv = self.E(e[2][0], cx)
            cx.uses_env = True
            return pv + [f"let env__ := env__.emit (.valDropped {atom(tv)})"], '()'
        if k == 'num':
            return [], str(e[1])
        if k == 'unit':
            return [], '()'
        if k == 'paren':
            p, t = self.E(e[1], cx)
            return p, f"({t})"
        if k == 'path':
            segs = e[1]
            if len(segs) == 1:
                n = segs[0]
                if n in ('true', 'false', 'self'):
                    return [], n
                if n in cx.alias:
                    raise Unsupported("reading through a reference alias")
                if n == 'N' or n in cx.consts:
                    return [], n
                if n in cx.types:
                    return [], n
                if n == 'None':
                    return [], 'none'
                raise Unsupported(f"unknown name {n}")
            if segs[0] == 'Self' and cx.struct in self.enums and segs[1] in self.enums[cx.struct]:
                return [], f"{cx.struct}.{lean_variant(segs[1])}"
            if segs[-2:][0] in self.enums and segs[-1] in self.enums[segs[-2]]:
                return [], f"{segs[-2]}.{lean_variant(segs[-1])}"
            if ('PS.' + segs[-2]) in self.enums and segs[-1] in self.enums['PS.' + segs[-2]]:
                return [], f"PS.{segs[-2]}.{lean_variant(segs[-1])}"
            if segs == ['Poll', 'Pending']:
                return [], "Rs.Poll.pending"
            raise Unsupported(f"path {'::'.join(segs)}")
        if k == 'field':
            p, t = self.E(e[1], cx)
            if e[2] == '0' and self.ty(e[1], cx) == 'Nat':
                return p, t             # key.0
            if self.ty(e[1], cx) == 'Rs.Range' and e[2] == 'end':
                return p, f"{t}.stop"
            return p, f"{t}.{e[2]}"
        if k == 'not':
            p, t = self.E(e[1], cx)
            return p, f"(!{t})"
        if k in ('deref', 'ref'):
            return self.E(e[-1], cx)
        if k == 'bin':
            op, a, b = e[1], e[2], e[3]
            pa, ta = self.E(a, cx)
            m0 = cx.mutations
            pb, tb = self.E(b, cx)
            if op in ('&&', '||'):
                if cx.mutations != m0:
                    raise Unsupported("mutation on the right of a short-circuit operator")
                if pb:
                    v = cx.fresh()
                    inner = '; '.join(pb + [f"pure {tb}"])
                    if op == '&&':
                        pa = pa + [f"let {v} ← (if {ta} then (do {inner}) else pure false)"]
                    else:
                        pa = pa + [f"let {v} ← (if {ta} then pure true else (do {inner}))"]
                    return pa, v
                return pa, f"({ta} {op} {tb})"
            if op in ('==', '!=', '<', '>', '<=', '>=') and (a[0] == 'num' or b[0] == 'num'):
                # one canonical form for the ways of writing "is zero" / "is not zero" of an unsigned number
                # (`x != 0`, `x > 0`, `0 < x`, `x >= 1`, `1 <= x`;  `x == 0`, `x < 1`, `x <= 0`, `1 > x`, `0 >= x`)
                x, n, o = (a, b[1], op) if b[0] == 'num' else (b, a[1], {'<': '>', '>': '<', '<=': '>=', '>=': '<='}.get(op, op))
                tx = ta if b[0] == 'num' else tb
                if x[0] != 'num' and (self.ty(x, cx) in ('Nat', None)):
                    if (o, n) in (('!=', 0), ('>', 0), ('>=', 1)):
                        return pa + pb, f"({tx} != 0)"
                    if (o, n) in (('==', 0), ('<', 1), ('<=', 0)):
                        return pa + pb, f"({tx} == 0)"
            if op in ('==', '!=', '<', '>', '<=', '>='):
                lop = {'==': '==', '!=': '!=', '<': '<', '>': '>', '<=': '≤', '>=': '≥'}[op]
                if op in ('==', '!='):
                    if not pa and not pb and a[0] != 'num' and b[0] != 'num' and tb < ta:
                        ta, tb = tb, ta           # `a == b` and `b == a` are one form (operands without effects)
                    return pa + pb, f"({ta} {lop} {tb})"
                return pa + pb, f"(decide ({ta} {lop} {tb}))"
            if op == '+':
                v = cx.fresh()
                return pa + pb + [f"let {v} ← Rs.uadd {atom(ta)} {atom(tb)}"], v
            if op == '-':
                v = cx.fresh()
                return pa + pb + [f"let {v} ← Rs.usub {atom(ta)} {atom(tb)}"], v
            if op == '*':
                return pa + pb, f"({atom(ta)} * {atom(tb)})"
            if op == '%':
                v = cx.fresh()
                return pa + pb + [f"let {v} ← Rs.urem {atom(ta)} {atom(tb)}"], v
            raise Unsupported(f"operator {op}")
        if k == 'index':
            bt = self.ty(e[1], cx)
            pb, tb = self.E(e[1], cx)
            pi, ti = self.E(e[2], cx)
            if bt == 'Rs.BArr':
                v = cx.fresh()
                return pb + pi + [f"let {v} ← Rs.BArr.idx {atom(tb)} {atom(ti)}"], v
            if bt == 'Rs.BitSet':
                return pb + pi, f"(Rs.BitSet.idx {atom(tb)} {atom(ti)})"
            if bt and bt.startswith('Rs.PVec '):
                v = cx.fresh()
                return pb + pi + [f"let {v} ← Rs.PVec.idx {atom(tb)} {atom(ti)}"], v
            if bt == 'Rs.Slab':
                v = cx.fresh()
                return pb + pi + [f"let {v} ← Rs.Slab.get {atom(tb)} {atom(ti)}"], v
            raise Unsupported(f"indexing a value of type {bt}")
        if k == 'repeat':
            pv, tv = self.E(e[1], cx)
            pn, tn = self.E(e[2], cx)
            return pv + pn, f"(Rs.BArr.replicate {atom(tn)} {atom(tv)})"
        if k == 'range':
            if e[1] is None or e[2] is None:
                raise Unsupported("open range as a value")
            pa, ta = self.E(e[1], cx)
            pb, tb = self.E(e[2], cx)
            return pa + pb, f"(Rs.Range.mk {atom(ta)} {atom(tb)})"
        if k == 'slit':
            name = e[1][-1]
            if name == 'Self':
                name = cx.struct
            if name not in self.structs:
                raise Unsupported(f"struct literal {name}")
            pre, parts = [], []
            given = dict(e[2])
            for f, _ in self.structs[name]:
                if f not in given:
                    raise Unsupported(f"struct literal {name} without field {f}")
                p, t = self.E(given[f], cx)
                pre += p
                parts.append(f"{f} := {t}")
            return pre, "({ " + ", ".join(parts) + f" }} : {name})"
        if k == 'call' and e[1] == ['drop_local__']:
            # (RaceOkV) the end of the scope of a local that owns a slice of `MaybeDone`s: element by element, in order
            n = e[2][0][1][0]
            et = cx.types[n][len('Rs.PVec '):]
            cx.uses_env = True
            return [f"let env__ := Rs.PVec.foldEach {n} {et}.dropGlue env__"], '()'
        if k == 'call' and len(e[1]) == 2 and (e[1][0] in self.enumsP or (e[1][0] == 'Self' and cx.struct in self.enumsP)) \
                and e[1][1] in self.enumsP[cx.struct if e[1][0] == 'Self' else e[1][0]]:
            # (RaceOkV) a variant with payload as a constructor: `MaybeDone::Done(res)`, `Self::Future(future)`
            en = cx.struct if e[1][0] == 'Self' else e[1][0]
            pre, ts = [], []
            for a in e[2]:
                p, t = self.E(a, cx)
                pre += p; ts.append(atom(t))
            return pre, f"({en}.{lean_variant(e[1][1])} {' '.join(ts)})".replace(' )', ')')
        if k == 'call' and len(e[1]) == 2 and e[1][0] in self.enumsP and (e[1][0], e[1][1]) in self.fns \
                and self.fns[(e[1][0], e[1][1])]['selfkind'] is None:
            # (RaceOkV) an associated function of an enum with payload: `MaybeDone::new(fut)`
            pre, ts = [], []
            for a in e[2]:
                p, t = self.E(a, cx)
                pre += p; ts.append(atom(t))
            v = cx.fresh()
            return pre + [f"let {v} ← {self.fname(e[1][0], e[1][1])} {' '.join(ts)}".rstrip()], v
        if k == 'call' and e[1][-1] == 'replace' and len(e[2]) == 2 and e[2][1] == ('call', ['Box', 'pin'], [('emptyarr',)]) \
                and (self.ty(e[2][0], cx) or '').startswith('Rs.PVec ') and (self.ty(e[2][0], cx) or '')[len('Rs.PVec '):] in self.enumsP:
            # (RaceOkV) `mem::replace(&mut self.elems, Box::pin([]))`: the empty slice (positions beyond the length are never
            # read: they hold the payload-free variant)
            et = self.ty(e[2][0], cx)[len('Rs.PVec '):]
            free = [v for v in self.enums[et] if not self.enumsP[et][v]]
            if not free:
                raise Unsupported("empty slice of an enum without a payload-free variant")
            po, to = self.E(e[2][0], cx)
            v = cx.fresh()
            cx.mutations += 1
            return po + [f"let {v} := {to}"] + self.assign_place(e[2][0], f"(Rs.PVec.replicate 0 {et}.{lean_variant(free[0])})", cx), v
        if k == 'call':
            segs, args = e[1], e[2]
            if segs[-2:] == ['mem', 'replace'] or segs == ['replace']:
                pv, tv = self.E(args[1], cx)
                po, to = self.E(args[0], cx)
                v = cx.fresh()
                cx.mutations += 1
                return pv + po + [f"let {v} := {to}"] + self.assign_place(args[0], tv, cx), v
            if segs == ['Key'] or segs == ['MaybeUninit', 'new']:
                return self.E(args[0], cx)
            if segs[-1] == 'vec_assume_init':
                p, t = self.E(args[0], cx)
                v = cx.fresh()
                return p + [f"let {v} ← Rs.OutVec.assumeInit {atom(t)}"], v
            if segs[-2:] == ['mem', 'swap'] or segs == ['swap']:
                # swap two places / locals
                pa, ta = self.E(args[0], cx)
                pb, tb = self.E(args[1], cx)
                v = cx.fresh()
                cx.mutations += 1
                return pa + pb + [f"let {v} := {ta}"] + self.assign_place(args[0], tb, cx) + self.assign_place(args[1], v, cx), '()'
            if segs == ['Poll', 'Ready']:
                p, t = self.E(args[0], cx)
                return p, f"(Rs.Poll.ready {atom(t)})"
            if segs in (['Ok'], ['Err']):
                p, t = self.E(args[0], cx)
                rn = 'Rs.ResultE' if 'Rs.ResultE' in (cx.ret or '') else 'Rs.Result'
                return p, f"({rn}.{segs[0].lower()} {atom(t)})"
            if segs == ['AggregateError', 'new']:
                return self.E(args[0], cx)
            if segs[-1] in ('get_pin_mut_from_vec', 'get_pin_mut') and len(args) == 2 and self.ty(args[0], cx) == 'Rs.Kids':
                pk, tk = self.E(args[0], cx)
                pi, ti = self.E(args[1], cx)
                return pk + pi, f"(Rs.Kids.get {atom(tk)} {atom(ti)})"
            if segs == ['OutputVec', 'uninit']:
                p, t = self.E(args[0], cx)
                return p, f"(Rs.OutVec.uninit {atom(t)})"
            if segs == ['FutureVec', 'new']:
                return self.E(args[0], cx)
            if segs == ['ManuallyDrop', 'drop'] and self.ty(args[0], cx) == 'Member':
                pm, tm = self.E(args[0], cx)
                return pm + [f"let env__ := env__.emit (.childDropped {atom(tm)})"], '()'
            if segs == ['Indexer', 'new']:
                p, t = self.E(args[0], cx)
                v = cx.fresh()
                return p + [f"let {v} ← Idx.Indexer.new {atom(t)}"], v
            if segs == ['PollVec', 'new_pending']:
                p, t = self.E(args[0], cx)
                return p, f"(Rs.PVec.replicate {atom(t)} PS.PollState.pending)"
            if segs == ['Slab', 'with_capacity'] or segs == ['Slab', 'new']:
                return [], "Rs.Slab.empty"
            if segs == ['BTreeSet', 'new']:
                return [], "Rs.BTree.empty"
            if segs == ['PollVec', 'new']:
                p, t = self.E(args[0], cx)
                return p, f"(Rs.PVec.replicate {atom(t)} PS.PollState.none_)"
            if segs == ['SmallVec', 'new'] or segs == ['smallvec!']:
                return [], "([] : List Nat)"
            if segs == ['WakerVec', 'new']:
                p, t = self.E(args[0], cx)
                v = cx.fresh()
                return p + [f"let {v} ← WakerVec.new {atom(t)}"], v
            if segs == ['WakerArray', 'new'] and cx.consts:
                v = cx.fresh()
                return [f"let {v} ← WakerArray.new {cx.consts[0]}"], v
            if segs == ['OutputArray', 'uninit'] and cx.consts:
                return [], f"(Rs.OutVec.uninit {cx.consts[0]})"
            if segs == ['PollArray', 'new_pending'] and cx.consts:
                return [], f"(Rs.PVec.replicate {cx.consts[0]} PS.PollState.pending)"
            if segs == ['FutureArray', 'new']:
                return self.E(args[0], cx)
            if segs == ['array', 'from_fn'] and cx.consts and len(args) == 1 and args[0][0] == 'closure' \
                    and args[0][2] == ('call', ['MaybeUninit', 'uninit'], []):
                return [], f"(Rs.OutVec.uninit {cx.consts[0]})"
            if segs[-1] == 'array_assume_init':
                p, t = self.E(args[0], cx)
                v = cx.fresh()
                return p + [f"let {v} ← Rs.OutVec.assumeInit {atom(t)}"], v
            if segs == ['Some']:
                p, t = self.E(args[0], cx)
                return p, f"(some {atom(t)})"
            if segs[-2:] == ['FixedBitSet', 'with_capacity_and_blocks']:
                pl, tl = self.E(args[0], cx)
                src = args[1]
                # std::iter::repeat(!0)  ->  all ones
                if src[0] == 'call' and src[1][-1] == 'repeat' and src[2] == [('not', ('num', 0))]:
                    return pl, f"(Rs.BitSet.ones {atom(tl)})"
                # <bitset>.as_slice().iter().cloned()  ->  the first `len` bits of <bitset>
                s = src
                names = []
                while s[0] == 'mcall':
                    names.append(s[2]); s = s[1]
                if names == ['cloned', 'iter', 'as_slice'] and self.ty(s, cx) == 'Rs.BitSet':
                    ps, ts = self.E(s, cx)
                    return pl + ps, f"(Rs.BitSet.truncate {atom(ts)} {atom(tl)})"
                raise Unsupported("FixedBitSet::with_capacity_and_blocks with an unknown block source")
            if len(segs) == 2 and (segs[0] in self.structs or segs[0] == 'Self'):
                sname = cx.struct if segs[0] == 'Self' else segs[0]
                sig = self.fns.get((sname, segs[1]))
                if sig is None or sig['selfkind'] is not None:
                    raise Unsupported(f"call {'::'.join(segs)}")
                pre, ts = [], []
                for a in args:
                    p, t = self.E(a, cx)
                    pre += p; ts.append(atom(t))
                v = cx.fresh()
                cs = ''.join(' ' + c for c in sig['consts'])
                return pre + [f"let {v} ← {self.fname(sname, segs[1])}{cs} {' '.join(ts)}".rstrip()], v
            raise Unsupported(f"call {'::'.join(segs)}")
        if k == 'mcall' and e[2] == 'readiness' and not e[3] and self.ty(e[1], cx) in WAKER_TABLES:
            p, t = self.E(e[1], cx)
            return p, f"{t}.readiness"
        if self.is_uninit_vec(e):
            p, t = self.E(self.is_uninit_vec(e), cx)
            return p, f"(Rs.OutVec.uninit {atom(t)})"
        if k == 'mcall':
            return self.mcall_value(e, cx)
        if k == 'matches':
            p, t = self.E(e[1], cx)
            pat = e[2]
            if pat[0] == 'pctor' and pat[2] is None:
                en = cx.struct if pat[1][0] == 'Self' else pat[1][-2]
                if en in self.enums:
                    return p, f"({t} == {en}.{lean_variant(pat[1][-1])})"
            raise Unsupported("matches! pattern")
        if k == 'if':
            # value-producing if
            if e[3] is None:
                raise Unsupported("if without else as a value")
            pc, tc = self.E(e[1], cx)
            v = cx.fresh()
            a = self.value_block(e[2], cx)
            b = self.value_block(e[3], cx)
            return pc + [f"let {v} ← (if {tc} then ({a}) else ({b}))"], v
        if k == 'block':
            v = cx.fresh()
            return [f"let {v} ← ({self.value_block(e[1], cx)})"], v
        if k == 'tuple':
            pre, ts = [], []
            for a in e[1]:
                p, t = self.E(a, cx)
                pre += p; ts.append(t)
            return pre, "(" + ", ".join(ts) + ")"
        if k == 'panic':
            v = cx.fresh()
            return [f"let {v} ← (none : Option Unit)"], '()'
        if k == 'assert':
            pc, tc = self.E(e[1], cx)
            v = cx.fresh()
            return pc + [f"let {v} ← (if {tc} then pure () else none)"], '()'
        if k == 'closure':
            raise Unsupported("closure as a value")
        raise Unsupported(f"expression kind {k}")

    def value_block(self, stmts, cx):
        """a block used as a value, without mutation of outer variables"""
        lines = []
        saved = dict(cx.types)
        for s in stmts[:-1]:
            if s[0] != 'let':
                raise Unsupported("statement inside a value block")
            p, t = self.E(s[4], cx)
            lines += p + [f"let {s[1]} := {t}"]
            cx.types[s[1]] = self.ty(s[4], cx) or '?'
        last = stmts[-1]
        if last[0] != 'tail':
            raise Unsupported("value block without a tail expression")
        p, t = self.E(last[1], cx)
        cx.types = saved
        return "do " + '; '.join(lines + p + [f"pure {t}"])

    def mcall_value(self, e, cx):
        """method call whose value is used (no mutation of the receiver)"""
        e = self.resolve(e, cx)
        if e[0] != 'mcall':
            return self.E(e, cx)
        recv, name, args = e[1], e[2], e[3]
        rt = self.ty(recv, cx)
        if rt == 'Rs.Range' and name == 'next':
            cx.mutations += 1
            return self.mcall_stmt(e, cx, True)
        if rt in self.enumsP and (rt, name) in self.fns and self.fns[(rt, name)]['selfkind'] == 'mut':
            cx.mutations += 1                      # (RaceOkV) `elem.poll(cx)`, `elem.take_ok()`
            return self.mcall_stmt(e, cx, True)
        if self.enumsP and not args and ((name == 'into_future' and rt == 'Member') or
                                         (name == 'into' and (rt or '').startswith('Rs.PVec '))):
            return self.E(recv, cx)            # (RaceOkV) `fut.into_future()`; `Box<[_]>` into `Pin<Box<[_]>>`
        if (rt or '').startswith('Rs.Poll') and name in ('is_pending', 'is_ready') and not args:
            # (RaceOkV) `Poll::is_pending` / `is_ready`
            pr, tr = self.mcall_stmt(recv, cx, True) if recv[0] == 'mcall' else self.E(recv, cx)
            a_, b_ = ('true', 'false') if name == 'is_pending' else ('false', 'true')
            return pr, f"(match {tr} with | Rs.Poll.pending => {a_} | _ => {b_})"
        # translated &self method of a translated struct
        if rt in self.structs and (rt, name) in self.fns:
            sig = self.fns[(rt, name)]
            if sig['selfkind'] == 'mut':
                cx.mutations += 1
                lines, v = self.mcall_stmt(e, cx, True)
                return lines, v
            pr, tr = self.E(recv, cx)
            pre, ts = pr, []
            for a in args:
                p, t = self.E(a, cx)
                pre += p; ts.append(atom(t))
            v = cx.fresh()
            cs = ''.join(' ' + c for c in sig['consts'])
            return pre + [f"let {v} ← {self.fname(rt, name)}{cs} {atom(tr)} {' '.join(ts)}".rstrip()], v
        if rt in self.enums and (rt, name) in self.fns:
            pr, tr = self.E(recv, cx)
            v = cx.fresh()
            return pr + [f"let {v} ← {self.fname(rt, name)} {atom(tr)}"], v
        if name in ('clone', 'as_ref', 'as_mut', 'cloned', 'copied'):
            return self.E(recv, cx)
        if name in ('unwrap', 'expect'):
            inner = recv
            if inner[0] == 'mcall' and inner[2] == 'lock':
                raise Unsupported("lock() outside `let x = <shared>.lock().unwrap()`")
            pr, tr = self.E(recv, cx)
            v = cx.fresh()
            return pr + [f"let {v} ← Rs.expect {atom(tr)}"], v
        if name == 'waker' and rt == 'Nat' and not args:
            return self.E(recv, cx)                      # cx.waker(): the task waker's identity
        if rt == 'List Nat' and name == 'is_empty':
            pr, tr = self.E(recv, cx)
            return pr, f"(List.isEmpty {atom(tr)})"
        if rt == 'WakerVec' and name == 'get':
            pr, tr = self.E(recv, cx)
            pa, ta = self.E(args[0], cx)
            return pr + pa, f"(WakerVec.get {atom(tr)} {atom(ta)})"
        if rt == 'WakerArray' and name == 'get' and cx.consts:
            pr, tr = self.E(recv, cx)
            pa, ta = self.E(args[0], cx)
            return pr + pa, f"(WakerArray.get {cx.consts[0]} {atom(tr)} {atom(ta)})"
        if rt == 'Member' and name in ('poll', 'poll_next'):
            return self.child_poll(e, cx)
        if (rt or '').startswith('Rs.PVec ') and name == 'all' and len(args) == 1 and args[0][0] == 'closure':
            x, body = args[0][1], args[0][2]
            if body[0] == 'mcall' and body[1] == ('path', [x]) and not body[3]:
                pr, tr = self.E(recv, cx)
                v = cx.fresh()
                return pr + [f"let {v} ← Rs.PVec.allOf {atom(tr)} (fun s => PS.PollState.{body[2]} s)"], v
            raise Unsupported("closure of all()")
        if (rt or '').startswith('Rs.PVec ') and name in ('ready_indexes', 'pending_indexes', 'consumed_indexes'):
            pr, tr = self.E(recv, cx)
            v = {'ready_indexes': 'ready', 'pending_indexes': 'pending', 'consumed_indexes': 'none_'}[name]
            return pr, f"(Rs.PVec.indexesOf {atom(tr)} PS.PollState.{v})"
        if rt == 'Rs.OutVec' and name == 'take':
            cx.mutations += 1
            return self.mcall_stmt(e, cx, True)
        if (rt or '').startswith('Rs.PVec ') and name == 'len':
            pr, tr = self.E(recv, cx)
            return pr, f"{tr}.len"
        if rt == 'Rs.Kids' and name == 'nth':
            pr, tr = self.E(recv, cx)
            pa, ta = self.E(args[0], cx)
            return pr + pa, f"(Rs.Kids.get {atom(tr)} {atom(ta)})"
        if rt == 'Rs.Kids' and name == 'len':
            pr, tr = self.E(recv, cx)
            return pr, f"{tr}.len"
        if rt == 'Rs.Kids' and name == 'is_empty':
            pr, tr = self.E(recv, cx)
            return pr, f"({tr}.len == 0)"
        if rt == 'Rs.Slab' and name == 'len':
            pr, tr = self.E(recv, cx)
            return pr, f"{tr}.len"
        if rt == 'Rs.Slab' and name == 'is_empty':
            pr, tr = self.E(recv, cx)
            return pr, f"(Rs.Slab.isEmpty {atom(tr)})"
        if rt == 'Rs.BTree' and name == 'contains':
            pr, tr = self.E(recv, cx)
            pa, ta = self.E(args[0], cx)
            return pr + pa, f"(Rs.BTree.contains {atom(tr)} {atom(ta)})"
        if rt in ('Rs.Slab', 'Rs.BTree') and name in ('insert', 'remove'):
            cx.mutations += 1
            return self.mcall_stmt(e, cx, True)
        if name in ('is_some', 'is_none'):
            pr, tr = self.E(recv, cx)
            return pr, f"(Option.{'isSome' if name == 'is_some' else 'isNone'} {atom(tr)})"
        if name == 'will_wake':
            pr, tr = self.E(recv, cx)
            pa, ta = self.E(args[0], cx)
            return pr + pa, f"({tr} == {ta})"
        if name == 'len' and rt in ('Rs.BitSet', 'Rs.BArr'):
            pr, tr = self.E(recv, cx)
            return pr, f"{tr}.len"
        if name in ('max', 'min') and rt == 'Nat':
            pr, tr = self.E(recv, cx)
            pa, ta = self.E(args[0], cx)
            return pr + pa, f"(Nat.{name} {atom(tr)} {atom(ta)})"
        if name == 'saturating_sub' and rt == 'Nat':
            pr, tr = self.E(recv, cx)
            pa, ta = self.E(args[0], cx)
            return pr + pa, f"({atom(tr)} - {atom(ta)})"
        if name == 'wrapping_rem':
            pr, tr = self.E(recv, cx)
            pa, ta = self.E(args[0], cx)
            v = cx.fresh()
            return pr + pa + [f"let {v} ← Rs.urem {atom(tr)} {atom(ta)}"], v
        if name == 'count_ones' and rt == 'Rs.BitSet':
            r = args[0]
            if r[0] == 'range' and r[1] is not None and r[2] is None:
                pr, tr = self.E(recv, cx)
                pa, ta = self.E(r[1], cx)
                v = cx.fresh()
                return pr + pa + [f"let {v} ← Rs.BitSet.countFrom {atom(tr)} {atom(ta)}"], v
            raise Unsupported("count_ones range form")
        if name == 'cmp':
            pr, tr = self.E(recv, cx)
            pa, ta = self.E(args[0], cx)
            return pr + pa, f"(compare {atom(tr)} {atom(ta)})"
        if name == 'map' and args and args[0][0] == 'closure':
            pr, tr = self.E(recv, cx)
            x, body = args[0][1], args[0][2]
            saved = dict(cx.types)
            cx.types[x] = 'Nat'
            pb, tb = self.E(body, cx)
            cx.types = saved
            v = cx.fresh()
            inner = '; '.join(pb + [f"pure (some {atom(tb)})"])
            return pr + [f"let {v} ← (match {tr} with | none => pure none | some {x} => (do {inner}))"], v
        raise Unsupported(f"method {name} on {rt}")

    def child_poll(self, e, cx):
        """`member.poll(&mut cx)` / `member.poll_next(&mut cx)`: the child runs one scripted step; the wakers it invokes
        meanwhile act on the group's shared readiness set through the translated `InlineWakerVec::wake`"""
        recv, name, args = e[1], e[2], e[3]
        pm, tm = self.E(recv, cx)
        pw, tw = self.E(args[0], cx)
        wf = [f for f, t in self.structs.get(cx.struct, []) if t in WAKER_TABLES]
        wty = [t for f, t in self.structs.get(cx.struct, []) if t in WAKER_TABLES]
        cx.uses_env = True
        cx.mutations += 1
        fn = 'Rs.pollFut' if name == 'poll' else 'Rs.pollStream'
        if name == 'poll' and (cx.struct in ('TryJoin', 'RaceOk') or cx.struct in self.enumsP):
            fn = 'Rs.pollResFut'          # the children's output is a `Result`
        wk = tw if self.ty(args[0], cx) == 'Wk' else f"(Wk.par {atom(tw)})"      # the caller's own context is handed on
        nr, nres = cx.fresh(), cx.fresh()
        if len(wf) == 1:
            place = ('field', ('field', ('path', ['self']), wf[0]), 'readiness')
            pr, tr = self.E(place, cx)
            wake = "StdVec.InlineWakerVec.wake ⟨i⟩ r" if wty[0] == 'WakerVec' else f"StdArr.InlineWakerArray.wake {cx.consts[0]} ⟨i⟩ r"
            lines = pm + pw + pr + [f"let ({nr}, env__, {nres}) ← {fn} (fun i r => {wake}) {atom(tr)} env__ {atom(tm)} {atom(wk)}"]
            lines += self.assign_place(place, nr, cx)
            return lines, nres
        if wf:
            raise Unsupported("child poll in a struct with several waker tables")
        # no waker table: there is no shared readiness set for a child's wake-ups to act on
        lines = pm + pw + [f"let ({nr}, env__, {nres}) ← {fn} (fun _ (r : Unit) => some (r, [], ())) () env__ {atom(tm)} {atom(wk)}"]
        return lines, nres

    # ---------------------------------------------------------------- places / mutation
    def place_path(self, e, cx):
        """a place expression as (root variable, [fields])"""
        e = self.resolve(e, cx)
        if e[0] in ('deref', 'ref', 'paren'):
            return self.place_path(e[-1], cx)
        if e[0] == 'mcall' and e[2] == 'readiness' and not e[3] and self.ty(e[1], cx) in WAKER_TABLES:
            r, fs = self.place_path(e[1], cx)
            return r, fs + ['readiness']
        if e[0] == 'path' and len(e[1]) == 1:
            return e[1][0], []
        if e[0] == 'field':
            r, fs = self.place_path(e[1], cx)
            return r, fs + [e[2]]
        raise Unsupported("place expression")

    def assign_place(self, place, val, cx):
        """lines that store the lean term `val` into the place"""
        place = self.resolve(place, cx)
        if place[0] == 'index':
            bt = self.ty(place[1], cx)
            pi, ti = self.E(place[2], cx)
            pb, tb = self.E(place[1], cx)
            v = cx.fresh()
            fn = {'Rs.BArr': 'Rs.BArr.set', 'Rs.BitSet': 'Rs.BitSet.set'}.get(bt)
            if fn is None and bt and bt.startswith('Rs.PVec '):
                fn = 'Rs.PVec.set'
            if fn is None and bt == 'Rs.OutVec':
                fn = 'Rs.OutVec.write'
            if fn is None:
                raise Unsupported("index assignment")
            return pi + pb + [f"let {v} ← {fn} {atom(tb)} {atom(ti)} {atom(val)}"] + self.assign_place(place[1], v, cx)
        root, fs = self.place_path(place, cx)
        if root in cx.alias and not fs:
            kind, target = cx.alias[root]
            return self.assign_place(target, f"(some {atom(val)})", cx)
        if root not in cx.types and root != 'self':
            raise Unsupported(f"assignment to unknown {root}")
        if not fs:
            return [f"let {root} := {val}"]
        if len(fs) == 1:
            return [f"let {root} := {{ {root} with {fs[0]} := {val} }}"]
        if len(fs) == 2:
            return [f"let {root} := {{ {root} with {fs[0]} := {{ {root}.{fs[0]} with {fs[1]} := {val} }} }}"]
        raise Unsupported("deep place")

    # statement-level method calls (may mutate the receiver)
    def mcall_stmt(self, e, cx, want_value):
        """returns (lines, value term or None)"""
        e = self.resolve(e, cx)
        if e[0] != 'mcall':
            return self.E(e, cx)
        recv, name, args = e[1], e[2], e[3]
        rt = self.ty(recv, cx)
        if rt in self.enumsP and (rt, name) in self.fns and self.fns[(rt, name)]['selfkind'] == 'mut':
            # (RaceOkV) a `Pin<&mut Self>` method of an enum-with-payload value living in a place; it may poll its child
            sig = self.fns[(rt, name)]
            pr, tr = self.E(recv, cx)
            pre, ts = pr, []
            for a in args:
                p, t = self.E(a, cx)
                pre += p; ts.append(atom(t))
            nv, rv = cx.fresh(), cx.fresh()
            if sig.get('has_env'):
                cx.uses_env = True
                pre = pre + [f"let ({nv}, env__, {rv}) ← {self.fname(rt, name)} {atom(tr)} {' '.join(ts + ['env__'])}"]
            else:
                pre = pre + [f"let ({nv}, {rv}) ← {self.fname(rt, name)} {atom(tr)} {' '.join(ts)}".rstrip()]
            return pre + self.assign_place(recv, nv, cx), rv
        if rt in self.enumsP and name == 'set' and len(args) == 1:
            # (RaceOkV) `Pin::set(self, v)`: the old value is dropped in place, then overwritten
            pv, tv = self.E(args[0], cx)
            pr, tr = self.E(recv, cx)
            cx.uses_env = True
            return pv + pr + [f"let env__ := {rt}.dropGlue {atom(tr)} env__"] + self.assign_place(recv, tv, cx), None
        if self.enumsP and name == 'collect' and self.kids_collect(e, cx):
            # (RaceOkV) `self.into_iter().map(|fut| MaybeDone::new(fut.into_future())).collect()`: element `i` from child `i`
            et, kids, clo = self.kids_collect(e, cx)
            free = [v for v in self.enums[et] if not self.enumsP[et][v]]
            if not free:
                raise Unsupported("slice of an enum without a payload-free variant")
            pk, tk = self.E(kids, cx)
            saved = dict(cx.types)
            cx.types[clo[1]] = 'Member'
            pb, tb = self.E(clo[2], cx)
            cx.types = saved
            v = cx.fresh()
            inner = '; '.join(pb + [f"pure {tb}"])
            return pk + [f"let {v} ← Rs.Kids.collect {atom(tk)} {et}.{lean_variant(free[0])} (fun {clo[1]} => do {inner})"], v
        if name == 'collect' and not args and recv[0] == 'mcall' and recv[2] == 'map' and len(recv[3]) == 1 \
                and recv[3][0][0] == 'closure' and isinstance(recv[3][0][1], str) \
                and (self.ty(recv[1], cx) or '').startswith('Rs.PVec ') and self.ty(recv[1], cx)[len('Rs.PVec '):] in self.enumsP:
            # (RaceOkV) `iter_pin_mut(<slice>).map(|e| body).collect()`: the closure is translated like a `Pin<&mut Self>`
            # method of the element (it may change the element it is given, and touches nothing else)
            et = self.ty(recv[1], cx)[len('Rs.PVec '):]
            x, body = recv[3][0][1], recv[3][0][2]
            sub = Ctx(self, et, 'closure')
            sub.consts, sub.selfkind, sub.ret = getattr(cx, 'consts', []), 'mut', 'Nat'
            sub.has_shared, sub.emits, sub.has_env = False, False, False
            sub.types['self'] = et
            sub.tmp = cx.tmp
            blines = self.S(subst_name([('tail', body)], x, 'self'), sub, 2)
            cx.tmp = sub.tmp
            pr, tr = self.E(recv[1], cx)
            nv, rv = cx.fresh(), cx.fresh()
            cx.mutations += 1
            return pr + [f"let ({nv}, {rv}) ← Rs.PVec.collectMut {atom(tr)} (fun self => do"] + blines + ["  )"] \
                + self.assign_place(recv[1], nv, cx), rv
        if rt in self.structs and (rt, name) in self.fns and self.fns[(rt, name)]['selfkind'] == 'mut':
            sig = self.fns[(rt, name)]
            pr, tr = self.E(recv, cx)
            pre, ts = pr, []
            for a in args:
                p, t = self.E(a, cx)
                pre += p; ts.append(atom(t))
            nv, rv = cx.fresh(), cx.fresh()
            cs = ''.join(' ' + c for c in sig['consts'])
            pre = pre + [f"let ({nv}, {rv}) ← {self.fname(rt, name)}{cs} {atom(tr)} {' '.join(ts)}".rstrip()]
            pre += self.assign_place(recv, nv, cx)
            return pre, rv
        if rt == 'Rs.Slab' and name == 'insert':
            pa, ta = self.E(args[0], cx)
            pr, tr = self.E(recv, cx)
            nv, rv = cx.fresh(), cx.fresh()
            return pa + pr + [f"let ({nv}, {rv}) := Rs.Slab.insert {atom(tr)} {atom(ta)}"] + self.assign_place(recv, nv, cx), rv
        if rt == 'Rs.Slab' and name == 'remove':
            pa, ta = self.E(args[0], cx)
            pr, tr = self.E(recv, cx)
            nv, rv = cx.fresh(), cx.fresh()
            lines = pa + pr + [f"let ({nv}, {rv}) ← Rs.Slab.remove {atom(tr)} {atom(ta)}"] + self.assign_place(recv, nv, cx)
            if not want_value and getattr(cx, 'has_env', False):
                # the removed member is dropped on the spot (the returned value is discarded)
                lines.append(f"let env__ := env__.emit (.childDropped {rv})")
            return lines, rv
        if rt == 'Rs.Slab' and name in ('reserve_exact', 'reserve'):
            return [], None
        if rt == 'Rs.BTree' and name in ('insert', 'remove'):
            pa, ta = self.E(args[0], cx)
            pr, tr = self.E(recv, cx)
            nv, rv = cx.fresh(), cx.fresh()
            return pa + pr + [f"let ({nv}, {rv}) := Rs.BTree.{name} {atom(tr)} {atom(ta)}"] + self.assign_place(recv, nv, cx), rv
        if (rt or '').startswith('Rs.PVec ') and name == 'resize':
            pa, ta = self.E(args[0], cx)
            pr, tr = self.E(recv, cx)
            return pa + pr + self.assign_place(recv, f"(Rs.PVec.resize {atom(tr)} {atom(ta)} PS.PollState.none_)", cx), None
        if rt in self.enums and (rt, name) in self.fns and self.fns[(rt, name)]['selfkind'] == 'mut':
            # a `&mut self` method of an enum value living in a place (`self.states[i].set_none()`)
            pr, tr = self.E(recv, cx)
            nv, rv = cx.fresh(), cx.fresh()
            return pr + [f"let ({nv}, {rv}) ← {self.fname(rt, name)} {atom(tr)}"] + self.assign_place(recv, nv, cx), rv
        if (rt or '').startswith('Rs.PVec ') and name in ('set_all_pending', 'set_all_none'):
            pr, tr = self.E(recv, cx)
            v = 'pending' if name == 'set_all_pending' else 'none_'
            return pr + self.assign_place(recv, f"(Rs.PVec.replicate {tr}.len PS.PollState.{v})", cx), None
        if rt == 'Rs.OutVec' and name == 'write':
            pi, ti = self.E(args[0], cx)
            pv, tv = self.E(args[1], cx)
            pr, tr = self.E(recv, cx)
            v = cx.fresh()
            return pi + pv + pr + [f"let {v} ← Rs.OutVec.write {atom(tr)} {atom(ti)} {atom(tv)}"] + self.assign_place(recv, v, cx), None
        if rt == 'Rs.OutVec' and name == 'drop':
            pi, ti = self.E(args[0], cx)
            pr, tr = self.E(recv, cx)
            nv, rv = cx.fresh(), cx.fresh()
            return pi + pr + [f"let ({nv}, {rv}) ← Rs.OutVec.drop {atom(tr)} {atom(ti)}"] + self.assign_place(recv, nv, cx) + \
                [f"let env__ := env__.emit (.valDropped {rv})"], None
        if rt == 'Rs.OutVec' and name == 'take':
            pr, tr = self.E(recv, cx)
            nv, rv = cx.fresh(), cx.fresh()
            return pr + [f"let ({nv}, {rv}) ← Rs.OutVec.take {atom(tr)}"] + self.assign_place(recv, nv, cx), rv
        if rt == 'Rs.Kids' and name == 'drop':
            pi, ti = self.E(args[0], cx)
            pr, tr = self.E(recv, cx)
            v = cx.fresh()
            return pi + pr + [f"let {v} ← Rs.Kids.get {atom(tr)} {atom(ti)}", f"let env__ := env__.emit (.childDropped {v})"], None
        if name == 'for_each' and len(args) == 1 and args[0][0] == 'closure' and recv[0] == 'mcall' and recv[2] == 'iter_mut' \
                and (self.ty(recv[1], cx) or '').startswith('Rs.PVec '):
            # `<states>.iter_mut().for_each(|s| { debug_assert!(s.<test>()); s.<set>(); })`
            x, body = args[0][1], args[0][2]
            stmts = body[1] if body[0] == 'block' else [('tail', body)]
            test, setter = None, None
            for st_ in stmts:
                ex = st_[1]
                if ex[0] == 'assert' and ex[1][0] == 'mcall' and ex[1][1] == ('path', [x]):
                    test = ex[1][2]
                elif ex[0] == 'mcall' and ex[1] == ('path', [x]) and not ex[3]:
                    setter = ex[2]
                else:
                    raise Unsupported("for_each body")
            if setter is None:
                raise Unsupported("for_each body")
            pr, tr = self.E(recv[1], cx)
            lines = list(pr)
            if test:
                lines.append(f"let _ ← Rs.PVec.assertAll {atom(tr)} (fun s => PS.PollState.{test} s)")
            v = cx.fresh()
            lines.append(f"let {v} ← Rs.PVec.mapAll {atom(tr)} (fun s => (PS.PollState.{setter} s).map (·.1))")
            return lines + self.assign_place(recv[1], v, cx), None
        if rt == 'List Nat' and name == 'push':
            pa, ta = self.E(args[0], cx)
            pr, tr = self.E(recv, cx)
            return pa + pr + self.assign_place(recv, f"({tr} ++ [{ta}])", cx), None
        if rt == 'List Nat' and name == 'clear':
            return self.assign_place(recv, "([] : List Nat)", cx), None
        if rt == 'Rs.BArr' and name == 'fill':
            pa, ta = self.E(args[0], cx)
            pr, tr = self.E(recv, cx)
            return pa + pr + self.assign_place(recv, f"(Rs.BArr.fill {atom(tr)} {atom(ta)})", cx), None
        if rt == 'Rs.BitSet' and name == 'set':
            pi, ti = self.E(args[0], cx)
            pv, tv = self.E(args[1], cx)
            pr, tr = self.E(recv, cx)
            v = cx.fresh()
            return pi + pv + pr + [f"let {v} ← Rs.BitSet.set {atom(tr)} {atom(ti)} {atom(tv)}"] + self.assign_place(recv, v, cx), None
        if rt == 'Rs.BitSet' and name == 'set_range':
            r = args[0]
            pv, tv = self.E(args[1], cx)
            pr, tr = self.E(recv, cx)
            if r[0] == 'range' and r[1] is None and r[2] is None:
                return pv + pr + self.assign_place(recv, f"(Rs.BitSet.setAll {atom(tr)} {atom(tv)})", cx), None
            if r[0] == 'range' and r[1] is not None and r[2] is not None:
                pa, ta = self.E(r[1], cx)
                pb, tb = self.E(r[2], cx)
                v = cx.fresh()
                return pv + pr + pa + pb + [f"let {v} ← Rs.BitSet.setRange {atom(tr)} {atom(ta)} {atom(tb)} {atom(tv)}"] + self.assign_place(recv, v, cx), None
            raise Unsupported("set_range form")
        if rt == 'Rs.BitSet' and name == 'grow':
            pa, ta = self.E(args[0], cx)
            pr, tr = self.E(recv, cx)
            return pa + pr + self.assign_place(recv, f"(Rs.BitSet.grow {atom(tr)} {atom(ta)})", cx), None
        if rt == 'Rs.Range' and name == 'next':
            pr, tr = self.E(recv, cx)
            nv, rv = cx.fresh(), cx.fresh()
            return pr + [f"let ({nv}, {rv}) := Rs.Range.next {atom(tr)}"] + self.assign_place(recv, nv, cx), rv
        if name == 'clone_from':
            pa, ta = self.E(args[0], cx)
            return pa + self.assign_place(recv, ta, cx), None
        if name == 'take' and (rt or '').startswith('Option '):
            pr, tr = self.E(recv, cx)
            v = cx.fresh()
            return pr + [f"let {v} := {tr}"] + self.assign_place(recv, 'none', cx), v
        if name in ('wake_by_ref', 'wake'):
            pr, tr = self.E(recv, cx)
            cx.uses_wake = True
            return pr + [f"let woken__ := woken__ ++ [{tr}]"], None
        if name == 'map' and args and args[0][0] == 'closure' and recv[0] == 'mcall':
            # <mutating call>.map(|x| body)
            lines, rv = self.mcall_stmt(recv, cx, True)
            if rv is None:
                raise Unsupported("map on a unit call")
            x, body = args[0][1], args[0][2]
            saved = dict(cx.types)
            cx.types[x] = 'Nat'
            pb, tb = self.E(body, cx)
            cx.types = saved
            v = cx.fresh()
            inner = '; '.join(pb + [f"pure (some {atom(tb)})"])
            return lines + [f"let {v} ← (match {rv} with | none => pure none | some {x} => (do {inner}))"], v
        if name in ('expect', 'unwrap') and recv[0] == 'mcall':
            lines, rv = self.mcall_stmt(recv, cx, True)
            if rv is not None:
                v = cx.fresh()
                return lines + [f"let {v} ← Rs.expect {atom(rv)}"], v
        # otherwise: a pure call
        p, t = self.E(e, cx)
        return p, t

    # ---------------------------------------------------------------- statements
    def S(self, stmts, cx, ind):
        """translate a statement list (with everything that follows it) to lines; ends with the return"""
        pad = '  ' * ind
        if not stmts:
            return [pad + self.ret('()', cx)]
        s, rest = stmts[0], stmts[1:]
        k = s[0]
        if k == 'scope_end':
            if not rest:
                return [pad + self.ret('()', cx)]
            return self.S(rest, cx, ind)
        if self.enumsP and k in ('expr', 'tail') and s[1][0] == 'panic':
            return [pad + "none"]          # (RaceOkV) `panic!` / `unreachable!`: nothing after it runs
        if (self.enumsP or getattr(self, 'let_match', False)) and k == 'let' and s[4] is not None and self.resolve(s[4], cx)[0] == 'match':
            # (RaceOkV) `let x = match e { P => v, Q => return …, R => panic!() }; rest`  ==  `match e { P => { let x = v; rest } … }`
            m = self.resolve(s[4], cx)
            arms = []
            for a in m[2]:
                body = list(a[1])
                if body and body[-1][0] == 'tail' and body[-1][1][0] != 'panic' and \
                        not (body[-1][1][0] == 'block' and body[-1][1][1] and body[-1][1][1][-1][0] == 'return'):
                    body = body[:-1] + [('let', s[1], s[2], s[3], body[-1][1])]
                arms.append((a[0], body) + tuple(a[2:]))
            return self.S([('expr', ('match', m[1], arms))] + rest, cx, ind)
        if self.enumsP and k == 'let' and s[1] not in getattr(cx, 'drop_scheduled', set()) and s[4] is not None:
            # (RaceOkV) a local that owns a slice of `MaybeDone`s is dropped at the end of its block, after the block's value
            # has been computed
            try:
                lt = self.ty(s[4], cx) or ''
            except Unsupported:
                lt = ''
            def moved(x, n=s[1]):
                # does the local occur otherwise than re-borrowed (`n.as_mut()`, `n.iter()`, `n.len()`, `&mut n`)?
                if isinstance(x, tuple):
                    if x == ('path', [n]):
                        return True
                    if x[0] == 'mcall' and x[1] == ('path', [n]) and x[2] in ('as_mut', 'as_ref', 'iter', 'iter_mut', 'len'):
                        return any(moved(y) for y in x[3])
                    if x[0] == 'ref' and x[2] == ('path', [n]):
                        return False
                    return any(moved(y) for y in x)
                if isinstance(x, list):
                    return any(moved(y) for y in x)
                return False
            cut0 = next((i for i, st_ in enumerate(rest) if st_ == ('scope_end',)), len(rest))
            if lt.startswith('Rs.PVec ') and lt[len('Rs.PVec '):] in self.enumsP and moved(list(rest[:cut0])):
                cx.drop_scheduled = getattr(cx, 'drop_scheduled', set()) | {s[1]}        # moved out: its new owner drops it
            elif lt.startswith('Rs.PVec ') and lt[len('Rs.PVec '):] in self.enumsP:
                cx.drop_scheduled = getattr(cx, 'drop_scheduled', set()) | {s[1]}
                cut = next((i for i, st_ in enumerate(rest) if st_ == ('scope_end',)), len(rest))
                blk, after = list(rest[:cut]), list(rest[cut:])
                dropit = ('expr', ('call', ['drop_local__'], [('path', [s[1]])]))
                if blk and blk[-1][0] == 'tail':
                    res = f"res_{cx.fresh()}"
                    blk = blk[:-1] + [('let', res, False, None, blk[-1][1]), dropit, ('tail', ('path', [res]))]
                else:
                    blk = blk + [dropit]
                return self.S([s] + blk + after, cx, ind)
        if k == 'return' and cx.loop is not None:
            if not cx.loop_ret:
                raise Unsupported("return inside a loop")
            if s[1] is None:
                return [pad + f"pure ({cx.loop}, Rs.Ctl.ret ())"]
            p, t = self.tail_value(s[1], cx)
            return [pad + l for l in p] + [pad + f"pure ({cx.loop}, Rs.Ctl.ret {atom(t)})"]
        if k == 'return':
            if s[1] is None:
                return [pad + self.ret('()', cx)]
            p, t = self.tail_value(s[1], cx)
            return [pad + l for l in p] + [pad + self.ret(t, cx)]
        if k in ('break', 'continue'):
            if cx.loop is None:
                raise Unsupported(f"{k} outside a loop")
            if cx.loop_ret:
                return [pad + f"pure ({cx.loop}, Rs.Ctl.{'brk' if k == 'break' else 'next'})"]
            return [pad + f"pure ({cx.loop}, {'true' if k == 'break' else 'false'})"]
        if k == 'for':
            return self.for_stmt(s, rest, cx, ind)
        if k == 'loop':
            return self.loop_stmt(s, rest, cx, ind)
        if k == 'let' and s[4] is not None and s[4][0] == 'ready':
            # `let x = ready!(e); rest`  ==  `match e { Pending => return Pending, Ready(x) => { rest } }`
            m = ('match', s[4][1], [(('pctor', ['Poll', 'Pending'], None), [('return', ('path', ['Poll', 'Pending']))]),
                                     (('pctor', ['Poll', 'Ready'], s[1]), [])])
            return self.S([('expr', m)] + rest, cx, ind)
        if k in ('expr', 'tail') and s[1][0] == 'ready' and (k == 'expr' or rest):
            # `ready!(e);`: the value is dropped at the end of the statement
            tmp = f"gone_{cx.fresh()}"
            m = ('match', s[1][1], [(('pctor', ['Poll', 'Pending'], None), [('return', ('path', ['Poll', 'Pending']))]),
                                     (('pctor', ['Poll', 'Ready'], tmp), [('expr', ('call', ['drop_value__'], [('path', [tmp])]))])])
            return self.S([('expr', m)] + rest, cx, ind)
        if k in ('expr', 'tail') and s[1][0] == 'match' and self.is_child_poll(s[1][1], cx) and \
                any(a[0] == ('pctor', ['Poll', 'Ready'], '_') and len(a) == 2 for a in s[1][2]):
            # `match child.poll(cx) { Poll::Ready(_) => { body } … }`: the child's output stays in the scrutinee's
            # temporary, which lives to the end of the `match` — it is dropped after the arm's body has run
            arms = []
            for a in s[1][2]:
                if a[0] == ('pctor', ['Poll', 'Ready'], '_') and len(a) == 2:
                    tmp, res = f"gone_{cx.fresh()}", f"res_{cx.fresh()}"
                    body = list(a[1])
                    if body and body[-1][0] == 'tail':
                        body = body[:-1] + [('let', res, False, None, body[-1][1]),
                                            ('expr', ('call', ['drop_value__'], [('path', [tmp])])), ('tail', ('path', [res]))]
                    else:
                        body = body + [('expr', ('call', ['drop_value__'], [('path', [tmp])]))]
                    arms.append((('pctor', ['Poll', 'Ready'], tmp), body))
                else:
                    arms.append(a)
            return self.S([(k, ('match', s[1][1], arms))] + rest, cx, ind)
        if k == 'let':
            name, e = s[1], s[4]
            r = self.resolve(e, cx)
            # `let this = self.project()`, `let states = this.states`, `let readiness = this.wakers.readiness()`:
            # the local is another name for `self` / for a place inside it
            if r == ('path', ['self']):
                cx.selfalias.add(name)
                return self.S(rest, cx, ind)
            if self.is_place(r, cx) and (self.ty(r, cx) or '') not in ('Nat', 'Bool', 'Member', None, ''):
                if name in cx.placealias and cx.placealias[name] != r:
                    raise Unsupported(f"local {name} re-bound to a different place")
                cx.placealias[name] = r
                return self.S(rest, cx, ind)
            if name in cx.types or name == 'self':
                if name == 'self':
                    raise Unsupported("shadowing of self")
                # a new binding of an existing name: rename it for the rest of ITS block (up to the scope marker)
                new = f"{name}_{cx.fresh()}"
                cut = next((i for i, st_ in enumerate(rest) if st_ == ('scope_end',)), len(rest))
                rest = subst_name(rest[:cut], name, new) + rest[cut:]
                s = (s[0], new, s[2], s[3], s[4])
                name = new
            if s[2] and name not in cx.muts:
                cx.muts.append(name)
            # let x = <shared>.lock().unwrap();
            if e[0] == 'mcall' and e[2] in ('unwrap', 'expect') and e[1][0] == 'mcall' and e[1][2] == 'lock':
                st = self.ty(e[1][1], cx)
                if not (st and st.startswith('SHARED:')):
                    raise Unsupported("lock() on something that is not a shared readiness")
                cx.shared = name
                cx.types[name] = st[len('SHARED:'):]
                return [pad + f"let {name} := shared__"] + self.S(rest, cx, ind)
            if e[0] == 'mcall':
                lines, v = self.mcall_stmt(e, cx, True)
            else:
                lines, v = self.E(e, cx)
            cx.types[name] = self.ty(e, cx) or (lean_ty(s[3], self.structs) if s[3] else '?')
            return [pad + l for l in lines] + [pad + f"let {name} := {v}"] + self.S(rest, cx, ind)
        e = s[1]
        is_last = (k == 'tail' and not [x for x in rest if x != ('scope_end',)])
        if e[0] == 'assign' and self.resolve(e[1], cx)[0] != 'index' and e[1][0] == 'path' and len(e[1][1]) == 1 \
                and e[1][1][0] in cx.placealias:
            # `readiness = this.wakers.readiness();` re-acquires the same place: nothing to do
            if self.resolve(e[2], cx) == cx.placealias[e[1][1][0]]:
                return self.S(rest, cx, ind)
            raise Unsupported("a place alias is re-bound")
        if e[0] == 'if' and e[1][0] == 'bin' and e[1][1] == '&&':
            # `if A && B {X} else {Y}`  ==  `if A { if B {X} else {Y} } else {Y}`   (B may have effects)
            a_, b_ = e[1][2], e[1][3]
            inner = ('if', b_, e[2], e[3])
            outer = ('if', a_, [('expr' if (rest or not is_last) else 'tail', inner)], e[3])
            return self.S([(k, outer)] + rest, cx, ind)
        if e[0] == 'if' and e[1][0] == 'bin' and e[1][1] == '||' and self.mutates(e[1][3], cx):
            # `if A || B {X} else {Y}`  ==  `if A {X} else { if B {X} else {Y} }`   (B has effects)
            a_, b_ = e[1][2], e[1][3]
            kind = 'expr' if (rest or not is_last) else 'tail'
            inner = ('if', b_, e[2], e[3])
            outer = ('if', a_, e[2], [(kind, inner)])
            return self.S([(k, outer)] + rest, cx, ind)
        if e[0] == 'if':
            pc, tc = self.E(e[1], cx)
            a = list(e[2])
            b = list(e[3]) if e[3] is not None else []
            if rest or not is_last:
                a, b = detail(a), detail(b)
            out = [pad + l for l in pc]
            saved = (dict(cx.types), dict(cx.alias), cx.tmp, dict(cx.placealias), list(cx.muts), cx.after_block)
            cx.after_block = rest
            out.append(pad + f"if {tc} then")
            out += self.S(a + [('scope_end',)] + rest, cx, ind + 1)
            cx.types, cx.alias, cx.placealias, cx.muts = dict(saved[0]), dict(saved[1]), dict(saved[3]), list(saved[4])
            out.append(pad + "else")
            out += self.S(b + [('scope_end',)] + rest, cx, ind + 1)
            cx.types, cx.alias, cx.placealias, cx.muts, cx.after_block = saved[0], saved[1], saved[3], saved[4], saved[5]
            return out
        if e[0] == 'match':
            return self.match_stmt(e, rest, is_last, cx, ind)
        if e[0] == 'block':
            body = list(e[1])
            if rest:
                body = detail(body)
            return self.S(body + [('scope_end',)] + rest, cx, ind)
        if is_last and cx.ret != 'Unit' and e[0] not in ('assign', 'opassign'):
            p, t = self.tail_value(e, cx)
            return [pad + l for l in p] + [pad + self.ret(t, cx)]
        # an expression statement
        if e[0] == 'assign':
            p, t = self.tail_value(e[2], cx)
            lines = p + self.assign_place(e[1], t, cx)
        elif e[0] == 'opassign':
            pv, tv = self.E(e[3], cx)
            pl, tl = self.E(e[2], cx)
            v = cx.fresh()
            fn = 'Rs.uadd' if e[1] == '+' else 'Rs.usub'
            lines = pv + pl + [f"let {v} ← {fn} {atom(tl)} {atom(tv)}"] + self.assign_place(e[2], v, cx)
        elif e[0] == 'mcall':
            lines, _ = self.mcall_stmt(e, cx, False)
        elif e[0] == 'call' and e[1] == ['drop']:
            lines = []
        else:
            lines, _ = self.E(e, cx)
        return [pad + l for l in lines] + self.S(rest, cx, ind)

    def is_child_poll(self, e, cx):
        try:
            e = self.resolve(e, cx)
            return e[0] == 'mcall' and e[2] in ('poll', 'poll_next') and self.ty(e[1], cx) == 'Member'
        except Unsupported:
            return False

    def closure_cond(self, clo, pat):
        """the body of `|(a, _b)| cond` with the closure's names replaced, position by position, by the loop pattern's"""
        cp = clo[1]
        if not (isinstance(cp, tuple) and cp[0] == 'ptuple' and len(cp[1]) == len(pat[1])):
            raise Unsupported("filter closure")
        ren = {}
        for a, b in zip(cp[1], pat[1]):
            if a[0] == 'pbind':
                ren[a[1]] = b[1]
            elif not (a[0] == 'pwild' or (a[0] == 'pctor' and len(a[1]) == 1 and a[1][0].startswith('_') and a[2] is None)):
                raise Unsupported("filter closure pattern")
        def rn(x):
            if isinstance(x, tuple):
                if x[0] == 'path' and len(x[1]) == 1 and x[1][0] in ren:
                    return ('path', [ren[x[1][0]]])
                return tuple(rn(y) for y in x)
            if isinstance(x, list):
                return [rn(y) for y in x]
            return x
        return rn(clo[2])

    def for_stmt(self, s, rest, cx, ind):
        """`for x in <list> { body }` with `break`: a fold with early exit over the loop-carried variables"""
        pad = '  ' * ind
        _, pat, it, body = s
        if cx.loop is not None:
            raise Unsupported("nested loops")
        src_ = self.resolve(it, cx)
        if src_[0] == 'range' and src_[1] == ('num', 0) and src_[2] is not None:
            it = ('call', ['range_upto'], [src_[2]])          # `for i in 0..n`
            src_ = it
        if pat[0] == 'ptuple' and len(pat[1]) == 2 and pat[1][0][0] == 'ptuple' and len(pat[1][0][1]) == 2 \
                and all(q[0] == 'pbind' for q in pat[1][0][1] + [pat[1][1]]) and src_[0] == 'mcall' and src_[2] == 'zip' \
                and len(src_[3]) == 1 and self.resolve(src_[1], cx)[0] == 'mcall' and self.resolve(src_[1], cx)[2] == 'zip':
            # `for ((fut, out), st) in <children>.zip(<outputs>.iter_mut()).zip(<states>.iter_mut())`: position by position
            inner = self.resolve(src_[1], cx)
            strip = lambda q: self.resolve(q[1], cx) if (q[0] == 'mcall' and q[2] in ('iter_mut', 'iter') and not q[3]) else q
            kids_it = self.resolve(inner[1], cx)
            o_ = strip(self.resolve(inner[3][0], cx))
            s_ = strip(self.resolve(src_[3][0], cx))
            if self.ty(o_, cx) == 'Rs.OutVec' and (self.ty(s_, cx) or '').startswith('Rs.PVec '):
                fv, ov, sv = pat[1][0][1][0][1], pat[1][0][1][1][1], pat[1][1][1]
                idx = f"idx_{cx.fresh()}"
                def rw3(x):
                    if isinstance(x, tuple):
                        if x == ('path', [sv]):
                            return ('index', s_, ('path', [idx]))
                        if x == ('path', [ov]):
                            return ('index', o_, ('path', [idx]))
                        return tuple(rw3(y) for y in x)
                    if isinstance(x, list):
                        return [rw3(y) for y in x]
                    return x
                s2 = ('for', ('ptuple', [('pbind', idx), ('pbind', fv)]), ('mcall', ('mcall', kids_it, 'iter_mut', []), 'enumerate', []), rw3(list(body)))
                return self.for_stmt(s2, rest, cx, ind)
            raise Unsupported("zip of three iterators")
        if pat[0] == 'ptuple' and len(pat[1]) == 2 and all(q[0] == 'pbind' for q in pat[1]) and src_[0] == 'mcall' \
                and src_[2] == 'filter' and len(src_[3]) == 1 and src_[3][0][0] == 'closure':
            # `for (a, b) in <zip>.filter(|(a, _b)| cond) { body }` = `for (a, b) in <zip> { if cond { body } }`
            clo = src_[3][0]
            return self.for_stmt(('for', pat, src_[1], [('expr', ('if', self.closure_cond(clo, pat), list(body), None))]), rest, cx, ind)
        if pat[0] == 'ptuple' and len(pat[1]) == 2 and all(q[0] == 'pbind' for q in pat[1]) and src_[0] == 'mcall' \
                and src_[2] == 'zip' and len(src_[3]) == 1:
            # `for (state, output) in <states>.iter_mut().zip(<outputs>.iter_mut())`: position by position
            a_, b_ = src_[1], self.resolve(src_[3][0], cx)
            strip = lambda q: self.resolve(q[1], cx) if (q[0] == 'mcall' and q[2] in ('iter_mut', 'iter') and not q[3]) else q
            a_, b_ = strip(a_), strip(b_)
            if (self.ty(a_, cx) or '').startswith('Rs.PVec ') and self.ty(b_, cx) == 'Rs.OutVec':
                sv, ov = pat[1][0][1], pat[1][1][1]
                idx = f"idx_{cx.fresh()}"
                def rw(x):
                    if isinstance(x, tuple):
                        if x == ('path', [sv]):
                            return ('index', a_, ('path', [idx]))
                        if x[0] == 'mcall' and x[1] == ('path', [ov]) and x[2] == 'assume_init_drop':
                            return ('mcall', b_, 'drop', [('path', [idx])])
                        return tuple(rw(y) for y in x)
                    if isinstance(x, list):
                        return [rw(y) for y in x]
                    return x
                s2 = ('for', ('pbind', idx), ('call', ['range_upto'], [('mcall', a_, 'len', [])]), rw(list(body)))
                return self.for_stmt(s2, rest, cx, ind)
            raise Unsupported("zip of iterators")
        if pat[0] == 'pbind' and src_[0] == 'mcall' and src_[2] == 'iter_mut' and (self.ty(src_[1], cx) or '').startswith('Rs.PVec '):
            fe = ('mcall', src_, 'for_each', [('closure', pat[1], ('block', list(body)))])
            lines, _ = self.mcall_stmt(fe, cx, False)
            return ['  ' * ind + l for l in lines] + self.S(rest, cx, ind)
        if pat[0] == 'pbind' and self.enumsP and src_[0] in ('field', 'path'):
            # (RaceOkV) `for mut elem in iter_pin_mut(<slice of MaybeDone>)`: position by position
            try:
                lt = self.ty(src_, cx) or ''
            except Unsupported:
                lt = ''
            if lt.startswith('Rs.PVec ') and lt[len('Rs.PVec '):] in self.enumsP:
                idx = f"idx_{cx.fresh()}"
                def rwe(x):
                    if isinstance(x, tuple):
                        if x == ('path', [pat[1]]):
                            return ('index', src_, ('path', [idx]))
                        return tuple(rwe(y) for y in x)
                    if isinstance(x, list):
                        return [rwe(y) for y in x]
                    return x
                s2 = ('for', ('pbind', idx), ('call', ['range_upto'], [('mcall', src_, 'len', [])]), rwe(list(body)))
                return self.for_stmt(s2, rest, cx, ind)
        enum_child = None
        if pat[0] == 'ptuple' and len(pat[1]) == 2 and all(q[0] == 'pbind' for q in pat[1]):
            # `for (i, fut) in <children>.iter().enumerate()`
            src0 = self.resolve(it, cx)
            if not (src0[0] == 'mcall' and src0[2] == 'enumerate' and src0[1][0] == 'mcall' and src0[1][2] in ('iter', 'iter_mut')
                    and self.ty(src0[1][1], cx) == 'Rs.Kids'):
                raise Unsupported("loop over an enumeration of something that is not the children")
            enum_child = (pat[1][1][1], src0[1][1])
            pat = pat[1][0]
            it = ('call', ['range_upto'], [('mcall', src0[1][1], 'len', [])])
        if pat[0] != 'pbind':
            raise Unsupported("loop pattern")
        var = pat[1]
        # the iterated collection: <BTreeSet>.iter().cloned() / <list>.iter()
        src = self.resolve(it, cx)
        while src[0] == 'mcall' and src[2] in ('iter', 'cloned', 'copied', 'into_iter') and not src[3] \
                and self.ty(src[1], cx) != 'Idx.Indexer':
            src = self.resolve(src[1], cx)
        st = self.ty(src, cx)
        if src[0] == 'call' and src[1] == ['range_upto']:
            pn, tn = self.E(src[2][0], cx)
            ps, ts, st = pn, f"(List.range {atom(tn)})", 'List Nat'
        elif st == 'Idx.IndexIter' and src[0] == 'mcall' and src[2] == 'iter':
            # `for i in <indexer>.iter()`: the iterator is drained up front (the body cannot touch it)
            pf, tf = self.E(src[1], cx)
            fuel = cx.fresh()
            ps0 = pf + [f"let {fuel} := Idx.Indexer.fuel {atom(tf)}"]
            pi, ti = self.mcall_stmt(src, cx, True)
            v = cx.fresh()
            ps, ts = ps0 + pi + [f"let {v} ← Idx.IndexIter.collect {fuel} {atom(ti)}"], v
            st = 'List Nat'
        elif st is not None:
            ps, ts = self.E(src, cx)
        if st == 'Rs.BTree':
            lst = f"{ts}.elems"
        elif st == 'List Nat':
            lst = ts
        else:
            raise Unsupported(f"loop over {st}")
        carry = ['self'] + (['env__'] if cx.has_env else []) + [m for m in cx.muts if m in cx.types]
        tup = "(" + ", ".join(carry) + ")" if len(carry) > 1 else carry[0]
        saved = (dict(cx.types), dict(cx.alias), dict(cx.placealias), list(cx.muts), cx.after_block, cx.ret)
        has_ret = '"return"' in json.dumps(body)
        cx.loop, cx.loop_ret = tup, has_ret
        cx.types[var] = 'Nat'
        cx.after_block = []
        pre_body = []
        if enum_child:
            # the second component of the pattern is child number `var`
            cname, kids = enum_child
            pk, tk = self.E(kids, cx)
            pre_body = ['  ' * (ind + 2) + l for l in pk + [f"let {cname} ← Rs.Kids.get {atom(tk)} {var}"]]
            cx.types[cname] = 'Member'
        body_lines = pre_body + self.S(detail(list(body)), cx, ind + 2)
        cx.loop, cx.loop_ret = None, False
        cx.types, cx.alias, cx.placealias, cx.muts, cx.after_block, cx.ret = saved
        out = [pad + l for l in ps]
        if not has_ret:
            out.append(pad + f"let {tup} ← Rs.forBreak {atom(lst)} {tup} (fun {tup} {var} => do")
            out += body_lines
            out.append(pad + "  )")
            return out + self.S(rest, cx, ind)
        # the body may `return`: the loop answers the returned value, if any
        out.append(pad + f"let ({tup}, r__) ← Rs.forCtl {atom(lst)} {tup} (fun {tup} {var} => do")
        out += body_lines
        out.append(pad + "  )")
        out.append(pad + "match r__ with")
        out.append(pad + "| some v__ =>")
        out.append(pad + "    " + self.ret('v__', cx))
        out.append(pad + "| none =>")
        return out + self.S(rest, cx, ind + 2)

    def loop_stmt(self, s, rest, cx, ind):
        """`loop { body }`: iterated with fuel (the sum of the struct's counters + 1 bounds the iterations of the loops of
        this crate; running out of fuel is a panic of the translation, i.e. a proof obligation)"""
        pad = '  ' * ind
        if cx.loop is not None:
            raise Unsupported("nested loops")
        nats = [f for f, t in self.structs.get(cx.struct, []) if t == 'Nat']
        fuel = " + ".join(f"self.{f}" for f in nats) + " + 1" if nats else "1"
        if getattr(self, 'let_match', False) and cx.consts:
            # tuple units: the length is the const generic, not a field (a `loop` over the children takes at most N + 1 turns
            # beyond its counters)
            fuel = " + ".join(cx.consts) + " + " + fuel
        nvar = sum(len(self.enums[t]) for f, t in self.structs.get(cx.struct, []) if t in self.enums)
        if nvar:
            fuel = f"{nvar} + {fuel}"       # a state machine over an enum: one turn of the loop per state
        carry = ['self'] + (['env__'] if cx.has_env else []) + [m for m in cx.muts if m in cx.types]
        tup = "(" + ", ".join(carry) + ")" if len(carry) > 1 else carry[0]
        saved = (dict(cx.types), dict(cx.alias), dict(cx.placealias), list(cx.muts), cx.after_block, cx.ret)
        cx.loop, cx.loop_ret = tup, True
        cx.after_block = []
        body_lines = self.S(detail(list(s[1])), cx, ind + 2)
        cx.loop, cx.loop_ret = None, False
        cx.types, cx.alias, cx.placealias, cx.muts, cx.after_block, cx.ret = saved
        out = [pad + f"let ({tup}, r__) ← Rs.loopFuel ({fuel}) {tup} (fun {tup} => do"]
        out += body_lines
        out.append(pad + "  )")
        out.append(pad + "match r__ with")
        out.append(pad + "| some v__ =>")
        out.append(pad + "    " + self.ret('v__', cx))
        out.append(pad + "| none =>")
        if not [x for x in rest if x != ('scope_end',)] and cx.ret != 'Unit':
            # a `loop` without `break` never falls through
            return out + [pad + "    none"]
        return out + self.S(rest, cx, ind + 2)

    def tail_value(self, e, cx):
        if e[0] == 'mcall':
            return self.mcall_stmt(e, cx, True)
        return self.E(e, cx)

    def match_stmt(self, e, rest, is_last, cx, ind):
        pad = '  ' * ind
        scrut, arms = e[1], e[2]
        by_ref = scrut[0] == 'ref'
        st = self.ty(scrut, cx)
        ps, ts = self.E(scrut, cx)
        out = [pad + l for l in ps]
        out.append(pad + f"match {ts} with")
        saved = (dict(cx.types), dict(cx.alias))
        general = (st or '').startswith('Rs.Poll') or any(a[0][0] in ('pnest', 'ptuple') for a in arms) or \
            any(a[0][0] == 'pctor' and a[0][1][0] in ('Poll', 'Ok', 'Err') for a in arms)
        general = general or any(a[0][0] == 'por' or (a[0][0] == 'pctor' and len(a[0][1]) >= 2 and
                                 (a[0][1][-2] in self.enumsP or (a[0][1][-2] == 'Self' and cx.struct in self.enumsP))) for a in arms)
        if general and not any(len(a) == 3 for a in arms):
            saved2 = (dict(cx.placealias), list(cx.muts), cx.after_block)
            for pat, body in arms:
                body = list(body)
                if rest or not is_last:
                    body = detail(body)
                cx.types, cx.alias = dict(saved[0]), dict(saved[1])
                cx.placealias, cx.muts, cx.after_block = dict(saved2[0]), list(saved2[1]), rest
                lp = self.pat_any(pat, cx)
                out.append(pad + f"| {lp} =>")
                out += self.S(body + [('scope_end',)] + rest, cx, ind + 2)
            cx.types, cx.alias = saved
            cx.placealias, cx.muts, cx.after_block = saved2
            return out
        if any(len(a) == 3 for a in arms):
            return out[:-1] + self.match_chain(ts, st, by_ref, scrut, list(arms), rest, is_last, cx, ind)
        for pat, body in arms:
            body = list(body)
            if rest or not is_last:
                body = detail(body)
            cx.types, cx.alias = dict(saved[0]), dict(saved[1])
            if pat[0] == 'pwild':
                lp = '_'
            elif pat[0] == 'pctor':
                segs, b = pat[1], pat[2]
                last = segs[-1]
                if last == 'Some' and b:
                    if b in cx.types:
                        raise Unsupported(f"shadowing of {b}")
                    if by_ref and scrut[1]:
                        lp = "some _"
                        cx.alias[b] = ('some-of', scrut[2])
                    else:
                        lp = f"some {b}"
                        cx.types[b] = (st or 'Option ?')[len('Option '):]
                elif last == 'None':
                    lp = 'none'
                elif last in ('Less', 'Equal', 'Greater'):
                    lp = {'Less': '.lt', 'Equal': '.eq', 'Greater': '.gt'}[last]
                elif len(segs) >= 2 and (segs[-2] in self.enums or segs[-2] == 'Self'):
                    en = cx.struct if segs[-2] == 'Self' else segs[-2]
                    lp = f"{en}.{lean_variant(last)}"
                else:
                    raise Unsupported(f"pattern {'::'.join(segs)}")
            else:
                raise Unsupported("pattern")
            out.append(pad + f"| {lp} =>")
            out += self.S(body + rest, cx, ind + 2)
        cx.types, cx.alias = saved
        return out

    def pat_any(self, pat, cx):
        """a (possibly nested) pattern over Poll / Option / tuples as a Lean pattern; binds the variables as Nat"""
        if pat[0] == 'pwild':
            return '_'
        if pat[0] == 'pbind':
            cx.types[pat[1]] = 'Nat'
            return pat[1]
        if pat[0] == 'ptuple':
            return "(" + ", ".join(self.pat_any(q, cx) for q in pat[1]) + ")"
        if pat[0] == 'por':
            return " | ".join(self.pat_any(q, cx) for q in pat[1])          # (RaceOkV) alternatives
        if pat[0] in ('pctor', 'pnest') and len(pat[1]) >= 2 and \
                (pat[1][-2] in self.enumsP or (pat[1][-2] == 'Self' and cx.struct in self.enumsP)):
            # (RaceOkV) a variant of an enum with payload; a bound variable gets the payload's type
            en = cx.struct if pat[1][-2] == 'Self' else pat[1][-2]
            ptys = self.enumsP[en].get(pat[1][-1])
            if ptys is None:
                raise Unsupported(f"pattern {'::'.join(pat[1])}")
            subs = pat[2] if pat[0] == 'pnest' else ([] if pat[2] is None else [('pwild',) if pat[2] == '_' else ('pbind', pat[2])])
            if len(subs) != len(ptys):
                raise Unsupported(f"pattern {'::'.join(pat[1])}: arity")
            parts = []
            for q, pt in zip(subs, ptys):
                lp = self.pat_any(q, cx)
                if q[0] == 'pbind':
                    cx.types[q[1]] = pt
                parts.append(atom(lp))
            return f"({en}.{lean_variant(pat[1][-1])} {' '.join(parts)})" if parts else f"{en}.{lean_variant(pat[1][-1])}"
        if pat[0] in ('pctor', 'pnest'):
            segs = pat[1]
            subs = pat[2] if pat[0] == 'pnest' else ([] if pat[2] is None else [('pwild',) if pat[2] == '_' else ('pbind', pat[2])])
            head = {('Poll', 'Ready'): 'Rs.Poll.ready', ('Poll', 'Pending'): 'Rs.Poll.pending', ('Some',): 'some',
                    ('None',): 'none', ('Key',): '', ('Ok',): 'Rs.Result.ok', ('Err',): 'Rs.Result.err'
                    }.get(tuple(segs[-2:]) if len(segs) > 1 else tuple(segs))
            if head is None:
                raise Unsupported(f"pattern {'::'.join(segs)}")
            args = " ".join(atom(self.pat_any(q, cx)) for q in subs)
            if head == '':
                return args
            return f"({head} {args})" if args else head
        raise Unsupported("pattern")

    def lean_pat(self, pat, st, by_ref, scrut, cx):
        if pat[0] == 'pwild':
            return '_'
        if pat[0] != 'pctor':
            raise Unsupported("pattern")
        segs, b = pat[1], pat[2]
        last = segs[-1]
        if last == 'Some' and b:
            if b in cx.types:
                raise Unsupported(f"shadowing of {b}")
            if by_ref and scrut[1]:
                raise Unsupported("guarded arm binding through &mut")
            cx.types[b] = (st or 'Option ?')[len('Option '):]
            return f"some {b}"
        if last == 'None':
            return 'none'
        if last in ('Less', 'Equal', 'Greater'):
            return {'Less': '.lt', 'Equal': '.eq', 'Greater': '.gt'}[last]
        if len(segs) >= 2 and (segs[-2] in self.enums or segs[-2] == 'Self'):
            en = cx.struct if segs[-2] == 'Self' else segs[-2]
            return f"{en}.{lean_variant(last)}"
        raise Unsupported(f"pattern {'::'.join(segs)}")

    def match_chain(self, ts, st, by_ref, scrut, arms, rest, is_last, cx, ind):
        """a `match` with guards: arm by arm, falling through to the remaining arms"""
        pad = '  ' * ind
        if not arms:
            return [pad + "none"]
        arm = arms[0]
        pat, body = arm[0], list(arm[1])
        guard = arm[2] if len(arm) == 3 else None
        if rest or not is_last:
            body = detail(body)
        saved = (dict(cx.types), dict(cx.alias))
        if pat[0] == 'pwild' and guard is None:
            r = self.S(body + rest, cx, ind)
            cx.types, cx.alias = saved
            return r
        lp = self.lean_pat(pat, st, by_ref and guard is None, scrut, cx)
        out = [pad + f"match {ts} with", pad + f"| {lp} =>"]
        if guard is not None:
            pg, tg = self.E(guard, cx)
            out += ['  ' * (ind + 2) + l for l in pg]
            out.append('  ' * (ind + 2) + f"if {tg} then")
            out += self.S(body + rest, cx, ind + 3)
            cx.types, cx.alias = dict(saved[0]), dict(saved[1])
            out.append('  ' * (ind + 2) + "else")
            out += self.match_chain(ts, st, by_ref, scrut, arms[1:], rest, is_last, cx, ind + 3)
        else:
            out += self.S(body + rest, cx, ind + 2)
        cx.types, cx.alias = dict(saved[0]), dict(saved[1])
        if lp != '_':
            out.append(pad + "| _ =>")
            out += self.match_chain(ts, st, by_ref, scrut, arms[1:], rest, is_last, cx, ind + 2)
        cx.types, cx.alias = saved
        return out

    def ret(self, val, cx):
        if cx.loop is not None:
            if val != '()':
                raise Unsupported("value at the end of a loop body")
            return f"pure ({cx.loop}, {'Rs.Ctl.next' if cx.loop_ret else 'false'})"
        parts = []
        if cx.selfkind == 'mut':
            parts.append('self')
        if cx.has_shared:
            if cx.shared is None:
                raise Unsupported("return before the shared state is locked")
            parts.append(cx.shared)
        if cx.emits:
            parts.append('woken__')
        if cx.has_env:
            parts.append('env__')
        parts.append(val)
        if len(parts) == 1:
            return f"pure {parts[0]}"
        return "pure (" + ", ".join(parts) + ")"

    # ---------------------------------------------------------------- items
    def add_struct(self, it):
        _, name, consts, fields = it
        fl = []
        for f, ty in fields:
            if name == 'WaitUntil' and ty in ('F', 'S', 'D'):
                # a child held in a field of its own: identified by a number, like the children of the containers
                fl.append((f, 'Member'))
                self.member_kind = getattr(self, 'member_kind', {})
                self.member_kind[(name, f)] = ty
                continue
            fl.append((f, lean_ty(ty, self.structs)))
        self.structs[name] = fl
        self.out.append(f"structure {name} where")
        for f, t in fl:
            if t.startswith('SHARED:'):
                continue          # the shared state is threaded through the functions explicitly
            self.out.append(f"  {f} : {'Nat' if t == 'Member' else t}")
        self.out.append("")

    def add_enum(self, it):
        _, name, vs = it
        self.enums[name] = vs
        self.out.append(f"inductive {name}")
        for v in vs:
            self.out.append(f"  | {lean_variant(v)}")
        self.out.append("  deriving DecidableEq, Repr")
        self.out.append("")
        if name == 'State':
            # the position of a variant in the declaration (so that proofs need not name the variants)
            self.out.append(f"def {name}.toNat : {name} → Nat")
            for i, v in enumerate(vs):
                self.out.append(f"  | .{lean_variant(v)} => {i}")
            self.out.append("")

    def add_enum_payload(self, it):
        """(RaceOkV) an enum whose variants carry a payload (`MaybeDone<Fut>`): an inductive type; a payload of the child's
        type is the child's number, a payload of the child's output type is the output.  Also emitted: the drop glue (the
        payload of the live variant is released) and `view`, the variants named by WHAT THEY HOLD, for the tie theorems."""
        _, name, vs, payloads = it
        lean_of = {'Fut': 'Member', 'Output': 'Rs.Result Nat'}
        ptys = {}
        for v in vs:
            ptys[v] = []
            for t in payloads.get(v, []):
                if t not in lean_of:
                    raise Unsupported(f"payload type {t} of {name}::{v}")
                ptys[v].append(lean_of[t])
        self.enums[name] = vs
        self.enumsP[name] = ptys
        ENUMP_TYPES[name] = ptys
        show = lambda t: 'Nat' if t == 'Member' else t
        self.out.append(f"inductive {name}")
        for v in vs:
            self.out.append(f"  | {lean_variant(v)}" + ''.join(f" (a{i} : {show(t)})" for i, t in enumerate(ptys[v])))
        self.out.append("  deriving Repr")
        self.out.append("")
        self.out.append(f"/-- drop glue of `{name}` (derived from the declaration): the payload of the live variant is released -/")
        self.out.append(f"def {name}.dropGlue (self : {name}) (env__ : World) : World :=")
        self.out.append("  match self with")
        for v in vs:
            if not ptys[v]:
                self.out.append(f"  | {name}.{lean_variant(v)} => env__")
            elif ptys[v] == ['Member']:
                self.out.append(f"  | {name}.{lean_variant(v)} a0 => env__.emit (.childDropped a0)")
            elif ptys[v] == ['Rs.Result Nat']:
                self.out.append(f"  | {name}.{lean_variant(v)} (Rs.Result.ok a0) => env__.emit (.valDropped a0)")
                self.out.append(f"  | {name}.{lean_variant(v)} (Rs.Result.err a0) => env__.emit (.valDropped a0)")
            else:
                raise Unsupported(f"drop glue of {name}::{v}")
        self.out.append("")
        shapes = sorted(tuple(ptys[v]) for v in vs)
        if shapes == [(), ('Member',), ('Rs.Result Nat',)]:
            self.out.append(f"/-- the variants of `{name}` by what they hold (each payload type occurs once): a child not yet finished,")
            self.out.append("    the output of a finished child, nothing -/")
            self.out.append(f"def {name}.view : {name} → Option (Nat ⊕ Rs.Result Nat)")
            for v in vs:
                if not ptys[v]:
                    self.out.append(f"  | {name}.{lean_variant(v)} => none")
                elif ptys[v] == ['Member']:
                    self.out.append(f"  | {name}.{lean_variant(v)} a0 => some (.inl a0)")
                else:
                    self.out.append(f"  | {name}.{lean_variant(v)} a0 => some (.inr a0)")
            self.out.append(f"def {name}.ofView : Option (Nat ⊕ Rs.Result Nat) → {name}")
            for v in vs:
                if not ptys[v]:
                    self.out.append(f"  | none => {name}.{lean_variant(v)}")
                elif ptys[v] == ['Member']:
                    self.out.append(f"  | some (.inl a0) => {name}.{lean_variant(v)} a0")
                else:
                    self.out.append(f"  | some (.inr a0) => {name}.{lean_variant(v)} a0")
            self.out.append("")

    def add_impl(self, it, only=None):
        _, sname, consts, trait, fns = it
        if sname not in self.structs and sname not in self.enums:
            return
        for f in fns:
            if f[0] == 'fn-unparsed':
                self.failed.append((f"{sname}::{f[1]}", f[2]))
        fns = [f for f in fns if f[0] == 'fn']
        # signatures first (methods call each other)
        for f in fns:
            _, name, selfkind, params, ret, body = f
            try:
                rt = 'Unit' if ret == '()' else ('Self' if ret == 'Self' else lean_ty(ret, self.structs))
            except Unsupported:
                rt = None
            if rt == 'Self':
                rt = sname
            self.fns[(sname, name)] = dict(selfkind=selfkind, params=params, ret=rt, consts=consts)
        for f in fns:
            _, name, selfkind, params, ret, body = f
            if only is not None and name not in only:
                del self.fns[(sname, name)]
                continue
            try:
                self.add_fn(sname, consts, f)
            except Unsupported as ex:
                self.failed.append((f"{sname}::{name}", str(ex)))
                del self.fns[(sname, name)]

    def add_fn(self, sname, consts, f):
        _, name, selfkind, params, ret, body = f
        cx = Ctx(self, sname, name)
        cx.consts = consts
        cx.selfkind = selfkind
        sig = self.fns[(sname, name)]
        if sig['ret'] is None:
            raise Unsupported(f"return type {ret}")
        cx.ret = sig['ret']
        binders = ''.join(f" ({c} : Nat)" for c in consts)
        cx.has_shared = False
        if selfkind is not None:
            binders += f" (self : {sname})"
            cx.types['self'] = sname
            # a struct holding the shared readiness: thread it through explicitly
            for fn_, ft in self.structs.get(sname, []):
                if ft.startswith('SHARED:'):
                    cx.has_shared = True
                    binders += f" (shared__ : {ft[len('SHARED:'):]})"
        for pn, pt in params:
            if pt == 'Fut' and sname in self.enumsP:
                # (RaceOkV) a child handed over by value: its number
                pn2 = pn.lstrip('_') or pn
                binders += f" ({pn2} : Nat)"
                cx.types[pn2] = 'Member'
                continue
            lt = lean_ty(pt, self.structs)
            pn2 = pn.lstrip('_') or pn
            binders += f" ({pn2} : {lt})"
            cx.types[pn2] = lt
        # does the body wake anybody?
        cx.emits = 'wake_by_ref' in json.dumps(body)
        # does it poll children?  then the environment (scripts, handed-out wakers, event trace) is threaded through
        cx.has_env = (bool(re.search(r'"mcall", .{0,400}?"poll(_next)?"', json.dumps(body))) or
                      (name == 'drop' and selfkind == 'mut')) and \
            any(t in ('WakerVec', 'WakerArray', 'Rs.Kids', 'Rs.Slab', 'Member') for _, t in self.structs.get(sname, []))
        if not cx.has_env and self.enumsP and re.search(r'"mcall", .{0,400}?"poll(_next)?"', json.dumps(body)) and \
                ((sname in self.enumsP and any('Member' in p_ for p_ in self.enumsP[sname].values())) or
                 any(t.startswith('Rs.PVec ') and t[len('Rs.PVec '):] in self.enumsP for _, t in self.structs.get(sname, []))):
            cx.has_env = True          # (RaceOkV) the child sits in a `MaybeDone` / the children in a slice of them
        self.fns[(sname, name)]['has_env'] = cx.has_env
        if cx.has_env:
            binders += " (env__ : World)"
        lines = self.S(body, cx, 1)
        parts = []
        if selfkind == 'mut':
            parts.append(sname)
        if cx.has_shared:
            parts.append(cx.types[cx.shared])
        if cx.emits:
            parts.append('List Nat')
        if cx.has_env:
            parts.append('World')
        parts.append(cx.ret)
        rty = ' × '.join(parts)
        text = [f"def {self.fname(sname, name)}{binders} : Option ({rty}) := do"]
        if cx.emits:
            text.append("  let woken__ : List Nat := []")
        text += lines
        text.append("")
        self.out.append(('FN', self.fname(sname, name), text))

def subst_name(ast, old, new):
    """rename the local `old` to `new` in a piece of syntax"""
    if isinstance(ast, tuple):
        if ast == ('path', [old]):
            return ('path', [new])
        return tuple(subst_name(x, old, new) for x in ast)
    if isinstance(ast, list):
        return [subst_name(x, old, new) for x in ast]
    return ast

def detail(stmts):
    """a block that is followed by more statements: its tail expression is an ordinary statement"""
    return [('expr', s[1]) if s[0] == 'tail' else s for s in stmts]

def atom(t):
    t = str(t)
    if re.fullmatch(r"[\w.']+", t) or (t.startswith('(') and t.endswith(')')):
        return t
    return f"({t})"

def lean_variant(v):
    return {'None': 'none_', 'Pending': 'pending', 'Ready': 'ready'}.get(v, v[0].lower() + v[1:])

# ----------------------------------------------------------------------------- roles
def roles_of(mod, sname, parsed):
    """which field plays which role (see the module docstring)"""
    fl = mod.structs.get(sname)
    if fl is None:
        return None
    r = {}
    flags = [f for f, t in fl if t in ('Rs.BArr', 'Rs.BitSet')]
    par = [f for f, t in fl if t == 'Option Nat']
    nats = [f for f, t in fl if t == 'Nat']
    if len(par) == 1:
        r['parent'] = par[0]
    if len(flags) == 1:
        r['flags'] = flags[0]
    # the count is the field `any_ready` reads
    for it in parsed:
        if it[0] == 'impl' and it[1] == sname:
            for f in it[4]:
                if f[0] == 'fn' and f[1] == 'any_ready':
                    used = [n for n in nats if re.search(r'"field", \["path", \["self"\]\], "%s"' % n, json.dumps(f[5]))]
                    if len(used) == 1:
                        r['count'] = used[0]
    rest = [n for n in nats if n != r.get('count')]
    if len(rest) == 1:
        r['max'] = rest[0]
    r['extra'] = [f for f, t in fl if f not in r.values()]
    return r

# ----------------------------------------------------------------------------- driver
UNITS = [
    # namespace, [(file, structs/enums to take, {impl struct: None|[fn names]})]
    ('StdArr', [('src/utils/wakers/array/readiness_array.rs', None), ('src/utils/wakers/array/waker.rs', None)]),
    ('StdVec', [('src/utils/wakers/vec/readiness_vec.rs', None), ('src/utils/wakers/vec/waker.rs', None)]),
    ('DirArr', [('src/utils/wakers/array/no_std.rs', ['ReadinessArray'])]),
    ('DirVec', [('src/utils/wakers/vec/no_std.rs', ['ReadinessVec'])]),
    ('Idx',    [('src/utils/indexer.rs', None)]),
    ('PS',     [('src/utils/poll_state/poll_state.rs', None)]),
    ('GrpF',   [('src/future/future_group.rs', ['FutureGroup'])]),
    ('GrpS',   [('src/stream/stream_group.rs', ['StreamGroup'])]),
    ('MergeV', [('src/stream/merge/vec.rs', ['Merge'])]),
    ('RaceV',  [('src/future/race/vec.rs', ['Race'])]),
    ('JoinV',  [('src/future/join/vec.rs', ['Join'])]),
    ('TryJoinV', [('src/future/try_join/vec.rs', ['TryJoin'])]),
    ('ZipV',   [('src/stream/zip/vec.rs', ['Zip'])]),
    ('ChainV', [('src/stream/chain/vec.rs', ['Chain'])]),
    ('JoinA',  [('src/future/join/array.rs', ['Join'])]),
    ('TryJoinA', [('src/future/try_join/array.rs', ['TryJoin'])]),
    ('MergeA', [('src/stream/merge/array.rs', ['Merge'])]),
    ('ZipA',   [('src/stream/zip/array.rs', ['Zip'])]),
    ('ChainA', [('src/stream/chain/array.rs', ['Chain'])]),
    ('RaceA',  [('src/future/race/array.rs', ['Race'])]),
    ('RaceOkA', [('src/future/race_ok/array/mod.rs', ['RaceOk'])]),
    ('JoinT', [('@tuple/join.rs', ['Join'])]),
    ('TryJoinT', [('@tuple/try_join.rs', ['TryJoin'])]),
    ('MergeT', [('@tuple/merge.rs', ['Merge'])]),
    ('ZipT', [('@tuple/zip.rs', ['Zip'])]),
    ('RaceT', [('@tuple/race.rs', ['Race'])]),
    ('ChainT', [('@tuple/chain.rs', ['Chain'])]),
    ('RaceOkT', [('@tuple/race_ok.rs', ['RaceOk'])]),
    ('WaitF', [('src/future/wait_until.rs', ['State', 'WaitUntil'])]),
    ('WaitS', [('src/stream/wait_until.rs', ['State', 'WaitUntil'])]),
]
SKIP_FNS = {('InlineWakerArray', 'new'), ('InlineWakerVec', 'new')}

GROUPS = {'Std': ['StdArr', 'StdVec'], 'Dir': ['DirArr', 'DirVec'], 'Idx': ['Idx'], 'PS': ['PS'], 'Grp': ['GrpF', 'GrpS'],
          'Fam': ['MergeV', 'RaceV'], 'Fam2': ['JoinV'], 'Fam3': ['TryJoinV'], 'Fam4': ['ZipV'], 'Fam5': ['ChainV'],
          'Arr1': ['JoinA'], 'Arr2': ['TryJoinA'], 'Arr3': ['MergeA'], 'Arr4': ['ZipA'], 'Arr5': ['ChainA'], 'Arr6': ['RaceA'], 'Arr7': ['RaceOkA'], 'Wait': ['WaitF', 'WaitS'],
          'Tup1': ['JoinT'], 'Tup2': ['TryJoinT'], 'Tup3': ['MergeT'], 'Tup4': ['ZipT'], 'Tup5': ['RaceT'], 'Tup6': ['ChainT'], 'Tup7': ['RaceOkT']}
GROUP_IMPORTS = {'Std': ['Fc.Kernel'], 'Dir': ['Fc.Kernel'], 'Grp': ['FcGen.KSrcStd', 'FcGen.KSrcPS', 'Fc.RustEnv'],
                 'Fam': ['FcGen.KSrcStd', 'FcGen.KSrcPS', 'FcGen.KSrcIdx', 'Fc.RustEnv'],
                 'Fam2': ['FcGen.KSrcStd', 'FcGen.KSrcPS', 'Fc.RustEnv'],
                 'Fam3': ['FcGen.KSrcStd', 'FcGen.KSrcPS', 'Fc.RustEnv'],
                 'Fam4': ['FcGen.KSrcStd', 'FcGen.KSrcPS', 'Fc.RustEnv'],
                 'Fam5': ['Fc.RustEnv'],            # chain, race, race_ok hold no waker table: no import of the kernel's translation
                 'Arr1': ['FcGen.KSrcStd', 'FcGen.KSrcPS', 'Fc.RustEnv'], 'Arr2': ['FcGen.KSrcStd', 'FcGen.KSrcPS', 'Fc.RustEnv'],
                 'Arr3': ['FcGen.KSrcStd', 'FcGen.KSrcPS', 'FcGen.KSrcIdx', 'Fc.RustEnv'], 'Arr4': ['FcGen.KSrcStd', 'FcGen.KSrcPS', 'Fc.RustEnv'],
                 'Arr5': ['Fc.RustEnv'], 'Arr6': ['FcGen.KSrcIdx', 'Fc.RustEnv'],
                 'Arr7': ['FcGen.KSrcPS', 'Fc.RustEnv'], 'Wait': ['Fc.RustEnv'],
                 'Tup1': ['FcGen.KSrcStd', 'FcGen.KSrcPS', 'Fc.RustEnv'], 'Tup2': ['FcGen.KSrcStd', 'FcGen.KSrcPS', 'Fc.RustEnv'],
                 'Tup3': ['FcGen.KSrcStd', 'FcGen.KSrcPS', 'FcGen.KSrcIdx', 'Fc.RustEnv'],
                 'Tup4': ['FcGen.KSrcStd', 'FcGen.KSrcPS', 'Fc.RustEnv'], 'Tup5': ['FcGen.KSrcIdx', 'Fc.RustEnv'], 'Tup6': ['Fc.RustEnv'], 'Tup7': ['FcGen.KSrcPS', 'FcGen.KSrcIdx', 'Fc.RustEnv']}
GROUP_DEPS = {'Grp': ['Std', 'PS'], 'Fam': ['Std', 'PS', 'Idx'], 'GrpPoll': ['Grp'], 'RaceV': ['Fam'], 'MergeV': ['Fam'], 'JoinV': ['Fam2'], 'TryJoinV': ['Fam3'], 'ChainV': ['Fam5', 'Fam4'], 'ZipV': ['Fam4', 'Fam5'], 'Fam2': ['Std', 'PS'], 'Fam3': ['Std', 'PS'], 'Fam4': ['Std', 'PS'], 'Fam5': [],
              'Arr1': ['Std', 'PS'], 'Arr2': ['Std', 'PS'], 'Arr3': ['Std', 'PS', 'Idx'], 'Arr4': ['Std', 'PS'], 'Arr5': [],
              'Arr6': ['Idx'], 'Arr7': ['PS'], 'Tup1': ['Std', 'PS'], 'Tup2': ['Std', 'PS'], 'Tup3': ['Std', 'PS', 'Idx'], 'Tup4': ['Std', 'PS'], 'Tup5': ['Idx'], 'Tup6': [], 'Tup7': ['PS', 'Idx'],
              # the array proofs reuse the container-independent lemmas of the Vec proof of the SAME family (the lemma files
              # import that family's Vec statements, hence its generated file)
              'JoinA': ['Arr1', 'Fam2'], 'TryJoinA': ['Arr2', 'Fam3'], 'MergeA': ['Arr3', 'Fam'], 'ZipA': ['Arr4'],
              'ChainA': ['Arr5', 'Idx'], 'RaceA': ['Arr6', 'Fam'], 'RaceOkA': ['Arr7'],
              # the tuple ties reuse the container-independent lemmas of the Vec proof of the same family
              'JoinT': ['Tup1', 'Fam2'], 'TryJoinT': ['Tup2', 'Fam3'], 'MergeT': ['Tup3', 'Fam'], 'ZipT': ['Tup4', 'Fam4'], 'RaceT': ['Tup5', 'Fam'], 'ChainT': ['Tup6', 'Fam5', 'Fam4'], 'RaceOkT': ['Tup7', 'Arr7', 'Fam'],
              'JoinVD': ['Fam2D', 'Fam2', 'Dir'], 'JoinAD': ['Arr1D', 'Arr1', 'Fam2', 'Dir'],
              'TryJoinVD': ['Fam3D', 'Fam3', 'Dir'], 'TryJoinAD': ['Arr2D', 'Arr2', 'Fam3', 'Dir'],
              'MergeVD': ['FamD', 'Fam', 'Dir'], 'MergeAD': ['Arr3D', 'Arr3', 'Fam', 'Dir'],
              'ZipVD': ['Fam4D', 'Fam4', 'Dir'], 'ZipAD': ['Arr4D', 'Arr4', 'Fam4', 'Dir'],
              'GrpPollDF': ['GrpD', 'Grp', 'Dir', 'Fam'], 'GrpPollDS': ['GrpD', 'Grp', 'Dir', 'Fam']}
# generated groups that also exist in the no_std / alloc-only flavour (group name + 'D', namespaces + 'D')
DIR_FLAVOUR = {'Grp': ['GrpF', 'GrpS'], 'Fam': ['MergeV', 'RaceV'], 'Fam2': ['JoinV'], 'Fam3': ['TryJoinV'], 'Fam4': ['ZipV'],
               'Arr1': ['JoinA'], 'Arr2': ['TryJoinA'], 'Arr3': ['MergeA'], 'Arr4': ['ZipA']}
# groups of tie theorems that have no generated file of their own (they talk about functions of another group's file)
VIRTUAL_GROUPS = {'GrpPoll': ['GrpF', 'GrpS'], 'RaceV': ['RaceV'], 'MergeV': ['MergeV'], 'JoinV': ['JoinV'], 'ChainV': ['ChainV'], 'ZipV': ['ZipV'], 'TryJoinV': ['TryJoinV'],
                  'JoinA': ['JoinA'], 'TryJoinA': ['TryJoinA'], 'MergeA': ['MergeA'], 'ZipA': ['ZipA'], 'ChainA': ['ChainA'],
                  'RaceA': ['RaceA'], 'RaceOkA': ['RaceOkA'], 'JoinT': ['JoinT'], 'TryJoinT': ['TryJoinT'], 'MergeT': ['MergeT'], 'ZipT': ['ZipT'], 'RaceT': ['RaceT'], 'ChainT': ['ChainT'], 'RaceOkT': ['RaceOkT'],
                  # the no_std / alloc-only flavour (FcProps/KTie<Fam>{V,A}D.lean): the same translated functions
                  'JoinVD': ['JoinV'], 'JoinAD': ['JoinA'], 'TryJoinVD': ['TryJoinV'], 'TryJoinAD': ['TryJoinA'],
                  'MergeVD': ['MergeV'], 'MergeAD': ['MergeA'], 'ZipVD': ['ZipV'], 'ZipAD': ['ZipA'],
                  'GrpPollDF': ['GrpF'], 'GrpPollDS': ['GrpS']}
# the no_std / alloc-only builds compile the SAME family sources against src/utils/wakers/{vec,array}/no_std.rs: the readiness
# set has no flags and `WakerVec::get` / `WakerArray::get` hand out the stored parent waker itself
WAKERDIR_PRELUDE = '''/-- hand-written model of the no_std `WakerVec` (utils/wakers/vec/no_std.rs): a wrapper of the flag-less readiness set;
    `get` is `self.readiness.parent_waker()` — every child is handed the caller's own waker -/
structure WakerVecD where
  readiness : DirVec.ReadinessVec

def WakerVecD.new (len : Nat) : Option WakerVecD := do
  let r ← DirVec.ReadinessVec.new
  pure { readiness := r }

def WakerVecD.resize (self : WakerVecD) (len : Nat) : Option (WakerVecD × Unit) := do
  let (r, _) ← DirVec.ReadinessVec.resize self.readiness len
  pure ({ readiness := r }, ())

def WakerVecD.get (self : WakerVecD) (index : Nat) : Option Wk := do
  let p ← DirVec.ReadinessVec.parent_waker_fn self.readiness
  p.map Wk.par

/-- hand-written model of the no_std `WakerArray<N>` (utils/wakers/array/no_std.rs) -/
structure WakerArrayD where
  readiness : DirArr.ReadinessArray

def WakerArrayD.new (N : Nat) : Option WakerArrayD := do
  let r ← DirArr.ReadinessArray.new N
  pure { readiness := r }

def WakerArrayD.get (N : Nat) (self : WakerArrayD) (index : Nat) : Option Wk := do
  let p ← DirArr.ReadinessArray.parent_waker_fn N self.readiness
  p.map Wk.par
'''
# src/utils/wakers/vec/waker_vec.rs (std) is Arc / closure glue around the readiness set: modelled by hand here —
# a table of `len` sub-wakers next to the shared set; `resize` resizes both
WAKERVEC_PRELUDE = '''/-- hand-written model of `WakerVec` (utils/wakers/vec/waker_vec.rs, std): `nwakers` sub-wakers + the shared set -/
structure WakerVec where
  nwakers : Nat
  readiness : StdVec.ReadinessVec

def WakerVec.new (len : Nat) : Option WakerVec := do
  let r ← StdVec.ReadinessVec.new len
  pure { nwakers := len, readiness := r }

def WakerVec.resize (self : WakerVec) (len : Nat) : Option (WakerVec × Unit) := do
  let (r, _) ← StdVec.ReadinessVec.resize self.readiness len
  pure ({ nwakers := len, readiness := r }, ())

/-- `wakers.get(index)`: the sub-waker of that slot -/
def WakerVec.get (self : WakerVec) (index : Nat) : Option Wk :=
  if index < self.nwakers then some (.sub index) else none

/-- hand-written model of `WakerArray<N>` (utils/wakers/array/waker_array.rs, std): `N` sub-wakers + the shared set -/
structure WakerArray where
  readiness : StdArr.ReadinessArray

def WakerArray.new (N : Nat) : Option WakerArray := do
  let r ← StdArr.ReadinessArray.new N
  pure { readiness := r }

def WakerArray.get (N : Nat) (self : WakerArray) (index : Nat) : Option Wk :=
  if index < N then some (.sub index) else none
'''
GROUP_PRELUDE = {}
GROUP_POSTLUDE = {'Std': WAKERVEC_PRELUDE, 'Dir': WAKERDIR_PRELUDE}
# the functions each group of tie theorems (lean/FcProps/KTie<group>.lean) talks about
REQUIRED = {
    'Std': ['StdArr.ReadinessArray.' + f for f in ('new', 'set_ready', 'clear_ready', 'set_all_ready', 'any_ready',
                                                   'parent_waker', 'set_waker')]
           + ['StdArr.InlineWakerArray.wake']
           + ['StdVec.ReadinessVec.' + f for f in ('new', 'set_ready', 'clear_ready', 'set_all_ready', 'any_ready',
                                                  'parent_waker', 'set_waker', 'resize')]
           + ['StdVec.InlineWakerVec.wake'],
    'Dir': ['DirArr.ReadinessArray.' + f for f in ('new', 'set_ready', 'clear_ready', 'set_all_ready', 'any_ready',
                                                   'parent_waker', 'set_waker')]
           + ['DirVec.ReadinessVec.' + f for f in ('new', 'set_ready', 'clear_ready', 'set_all_ready', 'any_ready',
                                                  'parent_waker', 'set_waker', 'resize')],
    'Idx': ['Idx.Indexer.new', 'Idx.Indexer.iter', 'Idx.IndexIter.next'],
    'PS': ['PS.PollState.' + f for f in ('is_none', 'is_pending', 'is_ready', 'set_none', 'set_pending', 'set_ready')],
    'Fam': ['MergeV.Merge.poll_next', 'RaceV.Race.poll'],
    'GrpPoll': ['GrpF.FutureGroup.poll_next_inner', 'GrpS.StreamGroup.poll_next_inner'],
    'RaceV': ['RaceV.Race.poll'],
    'JoinA': ['JoinA.Join.poll', 'JoinA.Join.drop', 'JoinA.Join.new'],
    'TryJoinA': ['TryJoinA.TryJoin.poll', 'TryJoinA.TryJoin.drop', 'TryJoinA.TryJoin.new'],
    'MergeA': ['MergeA.Merge.poll_next', 'MergeA.Merge.new'], 'ZipA': ['ZipA.Zip.poll_next', 'ZipA.Zip.drop', 'ZipA.Zip.new'],
    'ChainA': ['ChainA.Chain.poll_next'], 'RaceA': ['RaceA.Race.poll'],
    'RaceOkA': ['RaceOkA.RaceOk.poll', 'RaceOkA.RaceOk.drop'],
    'Tup1': ['JoinT.Join.poll', 'JoinT.Join.drop', 'JoinT.Join.new'],
    'JoinT': ['JoinT.Join.poll', 'JoinT.Join.drop', 'JoinT.Join.new'],
    'TryJoinT': ['TryJoinT.TryJoin.poll', 'TryJoinT.TryJoin.drop', 'TryJoinT.TryJoin.new'],
    'Tup5': ['RaceT.Race.poll'], 'RaceT': ['RaceT.Race.poll'],
    'Tup7': ['RaceOkT.RaceOk.poll', 'RaceOkT.RaceOk.drop'], 'RaceOkT': ['RaceOkT.RaceOk.poll', 'RaceOkT.RaceOk.drop'],
    'Tup6': ['ChainT.Chain.poll_next'], 'ChainT': ['ChainT.Chain.poll_next'],
    'Tup4': ['ZipT.Zip.poll_next', 'ZipT.Zip.drop', 'ZipT.Zip.new'], 'ZipT': ['ZipT.Zip.poll_next', 'ZipT.Zip.drop', 'ZipT.Zip.new'],
    'Tup3': ['MergeT.Merge.poll_next', 'MergeT.Merge.new'], 'MergeT': ['MergeT.Merge.poll_next', 'MergeT.Merge.new'],
    'Tup2': ['TryJoinT.TryJoin.poll', 'TryJoinT.TryJoin.drop', 'TryJoinT.TryJoin.new'],
    'JoinVD': ['JoinV.Join.poll', 'JoinV.Join.drop'], 'JoinAD': ['JoinA.Join.poll', 'JoinA.Join.drop', 'JoinA.Join.new'],
    'TryJoinVD': ['TryJoinV.TryJoin.poll', 'TryJoinV.TryJoin.drop'], 'TryJoinAD': ['TryJoinA.TryJoin.poll', 'TryJoinA.TryJoin.drop', 'TryJoinA.TryJoin.new'],
    'MergeVD': ['MergeV.Merge.poll_next'], 'MergeAD': ['MergeA.Merge.poll_next', 'MergeA.Merge.new'],
    'GrpPollDF': ['GrpF.FutureGroup.poll_next_inner'], 'GrpPollDS': ['GrpS.StreamGroup.poll_next_inner'],
    'ZipVD': ['ZipV.Zip.poll_next', 'ZipV.Zip.drop'], 'ZipAD': ['ZipA.Zip.poll_next', 'ZipA.Zip.drop', 'ZipA.Zip.new'],
    'MergeV': ['MergeV.Merge.poll_next'],
    'JoinV': ['JoinV.Join.poll', 'JoinV.Join.drop', 'JoinV.Join.new'],
    'ChainV': ['ChainV.Chain.poll_next'],
    'TryJoinV': ['TryJoinV.TryJoin.poll', 'TryJoinV.TryJoin.drop', 'TryJoinV.TryJoin.new'],
    'ZipV': ['ZipV.Zip.poll_next', 'ZipV.Zip.drop', 'ZipV.Zip.new'],
    'Fam2': ['JoinV.Join.poll', 'JoinV.Join.drop', 'JoinV.Join.new'],
    'Fam3': ['TryJoinV.TryJoin.poll', 'TryJoinV.TryJoin.drop', 'TryJoinV.TryJoin.new'],
    'Fam4': ['ZipV.Zip.poll_next', 'ZipV.Zip.drop', 'ZipV.Zip.new'],
    'Fam5': ['ChainV.Chain.poll_next'],
    'Arr1': ['JoinA.Join.poll', 'JoinA.Join.drop', 'JoinA.Join.new'],
    'Arr2': ['TryJoinA.TryJoin.poll', 'TryJoinA.TryJoin.drop', 'TryJoinA.TryJoin.new'],
    'Arr3': ['MergeA.Merge.poll_next', 'MergeA.Merge.new'], 'Arr4': ['ZipA.Zip.poll_next', 'ZipA.Zip.drop', 'ZipA.Zip.new'],
    'Arr5': ['ChainA.Chain.poll_next'], 'Arr6': ['RaceA.Race.poll'],
    'Arr7': ['RaceOkA.RaceOk.poll', 'RaceOkA.RaceOk.drop'],
    'Wait': ['WaitF.WaitUntil.poll', 'WaitS.WaitUntil.poll_next'],
    'Grp': ['GrpF.FutureGroup.' + f for f in ('with_capacity', 'len', 'capacity', 'is_empty', 'remove', 'contains_key', 'reserve', 'insert')]
           + ['GrpS.StreamGroup.' + f for f in ('with_capacity', 'len', 'capacity', 'is_empty', 'remove', 'contains_key', 'reserve', 'insert')],
}

# ---- (RaceOkV) race_ok over Vec: src/future/race_ok/vec/mod.rs with its helper enum src/utils/poll_state/maybe_done.rs
# (generated FcGen/KSrcFam6.lean; no waker table, no PollState: nothing of the kernel's translation is imported);
# tie theorems FcProps/KTieRaceOkV.lean (virtual group `RaceOkV`)
UNITS.append(('RaceOkV', [('src/utils/poll_state/maybe_done.rs', None), ('src/future/race_ok/vec/mod.rs', ['RaceOk'])]))
GROUPS['Fam6'] = ['RaceOkV']
GROUP_IMPORTS['Fam6'] = ['Fc.RustEnv']
GROUP_DEPS.update({'Fam6': [], 'RaceOkV': ['Fam6']})
VIRTUAL_GROUPS['RaceOkV'] = ['RaceOkV']
REQUIRED['Fam6'] = ['RaceOkV.MaybeDone.' + f for f in ('new', 'poll', 'take_ok', 'take_err')] + \
                   ['RaceOkV.RaceOk.poll', 'RaceOkV.RaceOk.race_ok']
REQUIRED['RaceOkV'] = list(REQUIRED['Fam6'])

def translate_unit(repo, ns, files, report, ext=None):
    mod = Module(ns)
    mod.let_match = any(path.startswith('@tuple/') for path, _ in files)     # `let x = match … { … return … }` (tuple zip)
    if ext:
        for k, v in ext['structs'].items():
            mod.structs[k] = v
        for k, v in ext['enums'].items():
            mod.enums[k] = v
        for k, v in ext['fns'].items():
            mod.fns[k] = v
        mod.ext_names = set(ext['structs']) | set(ext['enums'])
    parsed_all = []
    mod.out.append(f"namespace {ns}")
    mod.out.append("")
    for path, only_types in files:
        try:
            if path.startswith('@tuple/'):
                # macro-generated tuple containers: rustc's expansion, normalised over a const generic N (tools/tuple_norm.py)
                import tuple_norm
                try:
                    src = tuple_norm.normalised(repo, path[len('@tuple/'):-len('.rs')])
                except tuple_norm.NormError as nex:
                    raise Unsupported('tuple_norm: ' + str(nex))
                except (IndexError, ValueError, KeyError, AssertionError) as nex:
                    raise Unsupported('tuple_norm: the expansion has an unexpected shape (%s)' % type(nex).__name__)
            else:
                src = open(os.path.join(repo, path)).read()
            parsed = P(tokenize(src)).items()
        except (Unsupported, OSError) as ex:
            report['failed'].append((f"{ns}:{path}", str(ex)))
            continue
        parsed_all += parsed
        # enums first when a struct declared before them has a field of their type
        early = [it for it in parsed if it[0] == 'enum' and any(
            s_[0] == 'struct' and any(ty == it[1] for _, ty in s_[3]) for s_ in parsed[:parsed.index(it)])]
        for it in early + [x for x in parsed if x not in early]:
            try:
                if it[0] == 'struct':
                    if only_types is None or it[1] in only_types:
                        mod.add_struct(it)
                elif it[0] == 'enum':
                    mod.add_enum(it)
                elif it[0] == 'enumP':
                    mod.add_enum_payload(it)
            except Unsupported as ex:
                report['failed'].append((f"{ns}:{it[0]} {it[1]}", str(ex)))
        for it in parsed:
            try:
                if it[0] == 'impl':
                    if it[3] in ('Deref', 'DerefMut', 'Default', 'Debug', 'Clone'):
                        continue
                    it = (it[0], it[1], it[2], it[3], [f for f in it[4] if (it[1], f[1]) not in SKIP_FNS])
                    if mod.enumsP and it[1] == 'Vec' and it[3] is not None:
                        # (RaceOkV) `impl RaceOkTrait for Vec<Fut> { fn race_ok(self) -> Self::Future }`: an associated function
                        # of the struct it builds; the receiver (the `Vec` of children, taken by value) is the parameter `kids`
                        for f in it[4]:
                            if f[0] == 'fn' and f[2] == 'own' and f[4].split('<')[0] in mod.structs:
                                f2 = ('fn', f[1], None, [('kids', 'Vec<Fut>')] + list(f[3]), f[4], subst_name(f[5], 'self', 'kids'))
                                mod.add_impl(('impl', f[4].split('<')[0], it[2], it[3], [f2]))
                        continue
                    mod.add_impl(it)
            except Unsupported as ex:
                report['failed'].append((f"{ns}:{it[0]} {it[1]}", str(ex)))
    for sname in list(mod.structs):
        if sname.startswith('Readiness') and sname not in getattr(mod, 'ext_names', ()):
            r = roles_of(mod, sname, parsed_all)
            report['roles'][f"{ns}.{sname}"] = r
            mod.out.append(f"/-- roles of the fields of `{sname}` (detected from the source) -/")
            if r and 'parent' in r:
                mod.out.append(f"abbrev {sname}.roleParent (r : {sname}) : Option Nat := r.{r['parent']}")
            if r and 'flags' in r:
                ft = dict(mod.structs[sname])[r['flags']]
                mod.out.append(f"abbrev {sname}.roleFlags (r : {sname}) : {ft} := r.{r['flags']}")
            if r and 'count' in r:
                mod.out.append(f"abbrev {sname}.roleCount (r : {sname}) : Nat := r.{r['count']}")
            if r and 'max' in r:
                mod.out.append(f"abbrev {sname}.roleMax (r : {sname}) : Nat := r.{r['max']}")
            mod.out.append(f"def {sname}.extraFields : List String := {json.dumps(r['extra'] if r else [])}")
            mod.out.append("")
    for sname in list(mod.structs):
        if sname in ('FutureGroup', 'StreamGroup', 'Merge', 'Race', 'Join', 'TryJoin', 'Zip', 'Chain', 'RaceOk', 'WaitUntil') and sname not in getattr(mod, 'ext_names', ()):
            tags = {'Rs.Slab': 'roleSlab', 'WakerVec': 'roleWakers', 'Rs.PVec PS.PollState': 'roleStates',
                    'Rs.BTree': 'roleKeys', 'Nat': 'roleCapacity', 'List Nat': 'roleQueue'}
            if sname in ('Merge', 'Race', 'Join', 'TryJoin', 'Zip', 'Chain', 'RaceOk'):
                tags = {'Rs.Kids': 'roleKids', 'Idx.Indexer': 'roleIndexer', 'WakerVec': 'roleWakers', 'WakerArray': 'roleWakers',
                        'Rs.PVec PS.PollState': 'roleStates', 'Nat': 'roleCount', 'Bool': 'roleDone', 'Rs.OutVec': 'roleItems'}
                for en_ in mod.enumsP:
                    tags['Rs.PVec ' + en_] = 'roleElems'          # (RaceOkV) the slice of `MaybeDone`s
            fl = mod.structs[sname]
            roles = {}
            mod.out.append(f"/-- roles of the fields of `{sname}` (each is the only field of its type) -/")
            for f, t in fl:
                if t in tags and sum(1 for _, t2 in fl if t2 == t) == 1:
                    mod.out.append(f"abbrev {sname}.{tags[t]} (g : {sname}) : {t} := g.{f}")
                    roles[tags[t]] = f
            nat_fields = [f for f, t in fl if t == 'Nat']
            if sname == 'WaitUntil':
                for f, t in fl:
                    kind = getattr(mod, 'member_kind', {}).get((sname, f))
                    if kind is not None:
                        tag = 'roleDeadline' if kind == 'D' else 'roleInner'
                        mod.out.append(f"abbrev {sname}.{tag} (g : {sname}) : Nat := g.{f}")
                        roles[tag] = f
                    elif t in mod.enums:
                        mod.out.append(f"abbrev {sname}.roleState (g : {sname}) : {t} := g.{f}")
                        roles['roleState'] = f
            if sname == 'Chain' and len(nat_fields) == 2:
                # the counter that `poll_next` advances is the index of the current input, the other one the length
                txt = json.dumps(parsed_all)
                adv = [f for f in nat_fields if re.search(r'"opassign", "\+", (\["deref", )?\["field", \["path", \["\w+"\]\], "%s"\]' % f, txt)]
                if len(adv) == 1:
                    other = [f for f in nat_fields if f != adv[0]][0]
                    mod.out.append(f"abbrev {sname}.roleIndex (g : {sname}) : Nat := g.{adv[0]}")
                    mod.out.append(f"abbrev {sname}.roleLen (g : {sname}) : Nat := g.{other}")
                    roles['roleIndex'], roles['roleLen'] = adv[0], other
            report['roles'][f"{ns}.{sname}"] = roles
            if mod.enumsP and fl and all(t.startswith('Rs.PVec ') and t[len('Rs.PVec '):] in mod.enumsP for _, t in fl) \
                    and not any(it_[0] == 'impl' and it_[1] == sname and it_[3] in ('Drop', 'PinnedDrop') for it_ in parsed_all):
                # (RaceOkV) no `Drop` / `PinnedDrop` impl: the struct's drop glue releases its fields in declaration order,
                # a slice element by element
                mod.out.append(f"/-- drop glue of `{sname}` (derived from the declaration; there is no `Drop` impl): the fields in")
                mod.out.append("    declaration order, a slice element by element -/")
                mod.out.append(f"def {sname}.dropGlue (self : {sname}) (env__ : World) : World :=")
                for f, t in fl:
                    mod.out.append(f"  let env__ := Rs.PVec.foldEach self.{f} {t[len('Rs.PVec '):]}.dropGlue env__")
                mod.out.append("  env__")
            mod.out.append("")
    mod.out.append(f"end {ns}")
    mod.out.append("")
    for (s_, n) in mod.fns:
        if s_ not in getattr(mod, 'ext_names', ()):
            report['translated'].append(f"{ns}.{s_}.{n}")
    report.setdefault('_mods', {})[ns] = mod
    report.setdefault('_parsed', {})[ns] = parsed_all
    for item, why in mod.failed:
        report['failed'].append((f"{ns}.{item.replace('::', '.')}", why))
    return order_fns(mod.out)

def order_fns(out):
    """flatten the buffered functions so that a function comes after the functions of this unit it calls"""
    names = [x[1] for x in out if isinstance(x, tuple)]
    res, done = [], set()
    pending = [x for x in out if isinstance(x, tuple)]
    def deps(x):
        body = "\n".join(x[2][1:])
        return [n for n in names if n != x[1] and re.search(r'(?<![\w.])' + re.escape(n) + r'(?![\w])', body)]
    def emit(x, stack=()):
        if x[1] in done or x[1] in stack:
            return []
        lines = []
        for d in deps(x):
            for y in pending:
                if y[1] == d:
                    lines += emit(y, stack + (x[1],))
        done.add(x[1])
        return lines + x[2]
    for x in out:
        if isinstance(x, tuple):
            res += emit(x)
        else:
            res.append(x)
    return res

def translate(repo):
    """returns ({group: lean text}, report)"""
    report = {'translated': [], 'failed': [], 'roles': {}, 'groups': {}}
    units = dict(UNITS)
    texts = {}
    for g, nss in GROUPS.items():
        out = ["/- GENERATED by tools/rs2lean.py from the current source of the crate — do not edit. -/",
               "import Fc.RustPrims"] + [f"import {m}" for m in GROUP_IMPORTS.get(g, [])] + [
               "", "set_option linter.unusedVariables false", "",
               "namespace Fc.Src", "open Fc", ""]
        ext = None
        if g in ('Grp', 'Fam', 'Fam2', 'Fam3', 'Fam4', 'Fam5') or g.startswith('Arr') or g.startswith('Tup'):
            mods = report.get('_mods', {})
            ext = {'structs': {}, 'enums': {}, 'fns': {}}
            sv, ps = mods.get('StdVec'), mods.get('PS')
            if sv and 'ReadinessVec' in sv.structs:
                ext['structs']['StdVec.ReadinessVec'] = sv.structs['ReadinessVec']
                for (s_, n), sig in sv.fns.items():
                    if s_ == 'ReadinessVec':
                        ext['fns'][('StdVec.ReadinessVec', n)] = sig
            if ps and 'PollState' in ps.enums:
                ext['enums']['PS.PollState'] = ps.enums['PollState']
                for (s_, n), sig in ps.fns.items():
                    if s_ == 'PollState':
                        ext['fns'][('PS.PollState', n)] = sig
            ext['structs']['WakerVec'] = [('nwakers', 'Nat'), ('readiness', 'StdVec.ReadinessVec')]
            ext['fns'][('WakerVec', 'new')] = dict(selfkind=None, params=[('len', 'usize')], ret='WakerVec', consts=[])
            ext['fns'][('WakerVec', 'resize')] = dict(selfkind='mut', params=[('len', 'usize')], ret='Unit', consts=[])
            sa = mods.get('StdArr')
            if sa and 'ReadinessArray' in sa.structs:
                ext['structs']['StdArr.ReadinessArray'] = sa.structs['ReadinessArray']
                for (s_, n), sig in sa.fns.items():
                    if s_ == 'ReadinessArray':
                        ext['fns'][('StdArr.ReadinessArray', n)] = sig
            ext['structs']['WakerArray'] = [('readiness', 'StdArr.ReadinessArray')]
            ix = mods.get('Idx')
            if ix and 'Indexer' in ix.structs:
                ext['structs']['Idx.Indexer'] = ix.structs['Indexer']
                ext['structs']['Idx.IndexIter'] = ix.structs.get('IndexIter', [])
                for (s_, n), sig in ix.fns.items():
                    sig2 = dict(sig)
                    if sig2.get('ret') in ('Indexer', 'IndexIter'):
                        sig2['ret'] = 'Idx.' + sig2['ret']
                    ext['fns'][('Idx.' + s_, n)] = sig2
        for ns in nss:
            out += translate_unit(repo, ns, units[ns], report, ext)
        if g == 'Idx':
            ix = report.get('_mods', {}).get('Idx')
            nats = [f for f, t in (ix.structs.get('Indexer', []) if ix else []) if t == 'Nat']
            if ix and len(nats) == 2:
                off = None
                for it_ in report.get('_parsed', {}).get('Idx', []):
                    if it_[0] == 'impl' and it_[1] == 'Indexer':
                        for f_ in it_[4]:
                            if f_[0] == 'fn' and f_[1] == 'new':
                                m_ = re.search(r'\["(\w+)", \["num", 0\]\]', json.dumps(f_[5]))
                                if m_ and m_.group(1) in nats:
                                    off = m_.group(1)
                if off:
                    mx = [n_ for n_ in nats if n_ != off][0]
                    out += ["/-- roles of the fields of `Indexer`: the rotating offset (`new` starts it at 0) and the maximum -/",
                            f"abbrev Idx.Indexer.roleOffset (ix : Idx.Indexer) : Nat := ix.{off}",
                            f"abbrev Idx.Indexer.roleMax (ix : Idx.Indexer) : Nat := ix.{mx}", ""]
            if nats and ix and ('IndexIter', 'next') in ix.fns:
                out += ["/-- an upper bound on the number of values an iterator made by this `Indexer` yields (+1) -/",
                        "def Idx.Indexer.fuel (ix : Idx.Indexer) : Nat := " + " + ".join(f"ix.{f}" for f in nats) + " + 1", "",
                        "/-- the values an `IndexIter` still yields, in order: what a `for` loop over it sees -/",
                        "def Idx.IndexIter.collect : Nat → Idx.IndexIter → Option (List Nat)",
                        "  | 0, _ => some []",
                        "  | fuel + 1, it =>",
                        "    match Idx.IndexIter.next it with",
                        "    | none => none",
                        "    | some (_, none) => some []",
                        "    | some (it', some v) => (Idx.IndexIter.collect fuel it').map (v :: ·)", ""]
        out += GROUP_POSTLUDE.get(g, "").splitlines() + ([""] if g in GROUP_POSTLUDE else [])
        out.append("end Fc.Src")
        texts[g] = "\n".join(out) + "\n"
    # ---- the no_std / alloc-only flavour of the families that hold a waker table: the SAME translated source, compiled
    # against the flag-less readiness set of no_std.rs (what `#[cfg(not(feature = "std"))]` selects in utils/wakers)
    for g, nss in DIR_FLAVOUR.items():
        if g not in texts:
            continue
        t = texts[g]
        t = t.replace("import FcGen.KSrcStd", "import FcGen.KSrcDir")
        t = re.sub(r"\(fun i r => StdVec\.InlineWakerVec\.wake ⟨i⟩ r\)", "(fun _ r => some (r, [], ()))", t)
        t = re.sub(r"\(fun i r => StdArr\.InlineWakerArray\.wake \w+ ⟨i⟩ r\)", "(fun _ r => some (r, [], ()))", t)
        t = t.replace("StdVec.ReadinessVec", "DirVec.ReadinessVec").replace("StdArr.ReadinessArray", "DirArr.ReadinessArray")
        t = re.sub(r"\bWakerVec\b", "WakerVecD", t)
        t = re.sub(r"\bWakerArray\b", "WakerArrayD", t)
        for ns in nss:
            t = re.sub(r"^(namespace|end) %s$" % ns, r"\1 %sD" % ns, t, flags=re.M)
        t = t.replace("/- GENERATED by tools/rs2lean.py from the current source of the crate — do not edit. -/",
                      "/- GENERATED by tools/rs2lean.py from the current source of the crate — do not edit.\n"
                      "   no_std / alloc-only flavour: the text of FcGen/KSrc%s.lean with the waker module of no_std.rs. -/" % g)
        texts[g + 'D'] = t
    for g in list(GROUPS) + [g + 'D' for g in DIR_FLAVOUR] + list(VIRTUAL_GROUPS):
        if g.endswith('D') and g[:-1] in DIR_FLAVOUR:
            base = report['groups'].get(g[:-1], {})
            dirg = report['groups'].get('Dir', {})
            ok = bool(base.get('available')) and bool(dirg.get('available')) and (g in texts)
            report['groups'][g] = {'available': ok, 'missing': base.get('missing', []),
                                   'why': list(base.get('why', [])) + ([] if dirg.get('available') else ['needs group Dir, which is unavailable'])}
            continue
        nss = GROUPS.get(g) or VIRTUAL_GROUPS[g]
        missing = [f for f in REQUIRED[g] if f not in report['translated']]
        why = [f"{i}: {w}" for i, w in report['failed'] if i.split(':')[0].split('.')[0] in nss]
        deps = [d for d in GROUP_DEPS.get(g, []) if not report['groups'].get(d, {}).get('available')]
        if deps:
            why = why + [f"needs group {d}, which is unavailable" for d in deps]
        report['groups'][g] = {'available': not missing and not deps, 'missing': missing, 'why': why}
    return texts, report

def main():
    repo = '/repo'
    outd = '/verif/lean/FcGen'
    a = sys.argv[1:]
    while a:
        if a[0] == '--repo': repo = a[1]; a = a[2:]
        elif a[0] == '--outdir': outd = a[1]; a = a[2:]
        else: a = a[1:]
    texts, report = translate(repo)
    os.makedirs(outd, exist_ok=True)
    for g, text in texts.items():
        outp = os.path.join(outd, f"KSrc{g}.lean")
        old = open(outp).read() if os.path.exists(outp) else None
        if old != text:
            open(outp, 'w').write(text)
    report.pop('_mods', None)
    report.pop('_parsed', None)
    json.dump(report, open(os.path.join(outd, 'KSrc.report.json'), 'w'), indent=1)
    print(f"rs2lean: {len(report['translated'])} functions translated, {len(report['failed'])} not translated; "
          + ", ".join(f"{g}: {'ok' if v['available'] else 'UNAVAILABLE'}" for g, v in report['groups'].items()))
    for item, why in report['failed']:
        print(f"  not translated: {item}: {why}")

if __name__ == '__main__':
    main()
