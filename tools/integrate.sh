#!/bin/sh
# usage: tools/integrate.sh <worker copy of lean/> <Module> [<Module> ...]
# copies FcLemmas/<Module>.lean and FcProps/<Module>.lean (whichever exist) from a proof worker's private
# copy into /verif/lean and registers them in the root import files.
set -e
src="$1"; shift
cd "$(dirname "$0")/../lean"
for m in "$@"; do
  for lib in FcLemmas FcProps; do
    if [ -f "$src/$lib/$m.lean" ]; then
      cp "$src/$lib/$m.lean" "$lib/$m.lean"
      grep -qx "import $lib.$m" "$lib.lean" || echo "import $lib.$m" >> "$lib.lean"
      echo "integrated $lib/$m.lean"
    fi
  done
done
lake build 2>&1 | grep -E "error|Build completed" | head -5
