#!/usr/bin/env python3
"""usage: tools/integrate_worker.py <worker dir, e.g. /tmp/pw/w6> <props file name, e.g. KTieJoinV.lean> [<statement file, e.g. KTieJoin.lean>]
Copy a proof worker's NEW lemma files and its property file into /verif/lean, take over its (possibly minimally edited)
statement file, append the imports to FcLemmas.lean / FcProps.lean, add a `#print axioms` line for every theorem of the
property file that lacks one (the audit of ./check demands it), and build.  Refuses to overwrite an existing lemma file
with different content (rename by hand then)."""
import os, re, subprocess, sys, filecmp, shutil
w, props = sys.argv[1], sys.argv[2]
stmt = sys.argv[3] if len(sys.argv) > 3 else None
src, dst = os.path.join(w, "lean"), "/verif/lean"
new_lemmas = []
for fn in sorted(os.listdir(os.path.join(src, "FcLemmas"))):
    a, b = os.path.join(src, "FcLemmas", fn), os.path.join(dst, "FcLemmas", fn)
    if not os.path.exists(b):
        new_lemmas.append(fn)
    elif not filecmp.cmp(a, b, shallow=False):
        print(f"CONFLICT: FcLemmas/{fn} exists with different content"); sys.exit(2)
for fn in new_lemmas:
    shutil.copy(os.path.join(src, "FcLemmas", fn), os.path.join(dst, "FcLemmas", fn))
shutil.copy(os.path.join(src, "FcProps", props), os.path.join(dst, "FcProps", props))
if stmt:
    a, b = os.path.join(src, "FcProps", stmt), os.path.join(dst, "FcProps", stmt)
    if not filecmp.cmp(a, b, shallow=False):
        print(f"statement file {stmt} was edited by the worker:")
        subprocess.run(["diff", b, a])
        shutil.copy(a, b)
# imports: in the order of the worker's root file
wl = [l.strip() for l in open(os.path.join(src, "FcLemmas.lean")) if l.startswith("import ")]
have = open(os.path.join(dst, "FcLemmas.lean")).read()
with open(os.path.join(dst, "FcLemmas.lean"), "a") as f:
    done = set()
    for l in wl:
        mod = l.split()[1].split(".")[-1] + ".lean"
        if mod in new_lemmas and l not in have:
            f.write(l + "\n"); done.add(mod)
    for fn in new_lemmas:            # the worker did not touch the root: the order of imports does not matter
        l = "import FcLemmas." + fn[:-5]
        if fn not in done and l not in have:
            f.write(l + "\n")
have = open(os.path.join(dst, "FcProps.lean")).read()
imp = "import FcProps." + props[:-5]
if imp not in have:
    open(os.path.join(dst, "FcProps.lean"), "a").write(imp + "\n")
# #print axioms for every theorem
p = os.path.join(dst, "FcProps", props)
s = open(p).read()
code = re.sub(r"/-.*?-/", "", s, flags=re.S)
ns_stack, names = [], []
for line in code.splitlines():
    m = re.match(r"namespace\s+(\S+)", line)
    if m: ns_stack.append(m.group(1)); continue
    m = re.match(r"end\s+(\S+)", line)
    if m and ns_stack and ns_stack[-1] == m.group(1): ns_stack.pop(); continue
    m = re.match(r"theorem\s+([A-Za-z0-9_.']+)", line)
    if m:
        names.append(".".join([n for n in ns_stack if n != "Fc"] + [m.group(1)]))
missing = [n for n in names if not re.search(r"#print axioms\s+(Fc\.)?" + re.escape(n) + r"\b", s)]
if missing:
    add = "\n".join(f"#print axioms Fc.{n}" for n in missing) + "\n"
    # after the last `end Fc` (outside every namespace)
    s = s.rstrip("\n") + "\n\n" + add
    open(p, "w").write(s)
    print("added #print axioms for:", ", ".join(missing))
print("new lemma files:", ", ".join(new_lemmas))
r = subprocess.run(["lake", "build", "FcProps." + props[:-5]], cwd=dst, capture_output=True, text=True)
out = (r.stdout + r.stderr)
print("\n".join(l for l in out.splitlines() if l.startswith("error") or "Build completed" in l or "axioms" in l and props[:-5] in l)[:3000])
sys.exit(r.returncode)
