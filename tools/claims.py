"""What is claimed in MANIFEST.json (kept next to the code so it stays current)."""
TB = ("Trusted: Lean 4.33 kernel (axioms propext, Quot.sound, Classical.choice at most, audited per run by #print axioms); "
      "the hand-written model lean/Fc/*.lean, tied to /repo only by the sampled differential correspondence of this check "
      "(harness/, lean/Main.lean, check); std Mutex/Arc/Waker, pin-project, ManuallyDrop/MaybeUninit, slab, smallvec, "
      "fixedbitset modelled not verified; multi-threaded wake-ups linearised at the readiness mutex.")

CLAIMS = {
    "C16": dict(
        text="Theorem C16_selective_fixed (FcProps/C16.lean): for every combinator over a fixed set of children that uses "
             "the readiness set (join/try_join array+Vec and tuple variants, merge, zip), every n, all child scripts and all "
             "operation histories, the selective-polling monitor holds on the model's trace (invariant: a set readiness bit is "
             "justified by a non-Pending last result or a sub-waker fire since the child's last poll; proved once for every "
             "'lawful' policy, lawfulness proved per family). FutureGroup/StreamGroup are covered by the same monitor evaluated "
             "on the real traces and by trace equality with the group model, not yet by theorem (C16_statement keeps the full "
             "statement). The check re-proves, rebuilds the std harness, runs thousands of cases on the real code, diffs the "
             "C16 projection (child polls, results, fires) against the model and evaluates the monitor on the real trace.",
        note=TB + " Groups: correspondence + monitor on real traces only (no theorem yet).",
        design_ref="DESIGN.md §7 C16, Appendix A (invariant K)"),
}

CLAIMS["C01"] = dict(
    text="Theorem C01_no_lost_wake_conc (FcProps/C01.lean): for join, try_join (array/Vec and tuple models), race, "
         "race_ok (array, Vec, tuple variants), merge and zip, for every number of children, all child scripts (Pending "
         "steps that invoke any handed-out waker of any child during the poll, results, injected panics) and all "
         "histories (polls with arbitrary task wakers, wake-ups between polls incl. stale/repeated/after completion/after "
         "drop, drop), in both waker strategies (std sub-wakers+readiness bits; direct = alloc-only/no_std and the "
         "pass-through families), the monitor holds_C01 holds on the model trace: at every operation boundary with last "
         "outcome Pending, an owed wake-up implies the latest task waker was woken; no waker invocation panics; a poll "
         "unwinds only if a child panicked. Proof: kernel invariants (exact ready count, owes => bit, bit of a visited "
         "waiting child => woken, parent waker = current task waker) by induction over the scan and the operation list, "
         "once for every 'Conc' policy. chain, wait_until and the groups are covered by the same monitor on real traces + "
         "trace equality with their models, not yet by theorem; nesting is exercised by the harness only.",
    note=TB + " Not by theorem yet: chain, wait_until, FutureGroup, StreamGroup, one level of nesting.",
    design_ref="DESIGN.md §7 C01, Appendix A")

CLAIMS["C20"] = dict(
    text="Theorem C20_concurrent_fixed (FcProps/C20.lean): for join, try_join (both models), race, race_ok (three "
         "variants), merge and zip, every n, all scripts (incl. children that never complete) and histories, both waker "
         "strategies: at every poll that returns Pending (a) every child has been polled at least once and (b) every child "
         "that was waiting and whose waker had fired when the poll began was polled during this poll. Proved by one "
         "induction together with C01 (invariants: never-polled child => eligible and armed; woken waiting child stays "
         "armed until the scan reaches it; a Pending outcome only arises from an empty readiness set or a complete scan). "
         "FutureGroup/StreamGroup: monitor on real traces + trace equality with the group model, no theorem yet.",
    note=TB + " Groups: correspondence + monitor on real traces only.",
    design_ref="DESIGN.md §7 C20")

CLAIMS["C04"] = dict(
    text="Theorem C04_join (FcProps/C04.lean): for both join models (array/Vec: pending counter + early any_ready test; "
         "tuple arities 0..: completed counter + in-loop any_ready test + immediate return), every number of children n, all "
         "child scripts, all histories (polls with any waker, wake-ups at any time, drop at any point, an injected child "
         "panic) and both waker strategies, the monitor holds_C04 n holds on the model trace: every poll outcome is Ready "
         "exactly when every child has resolved by the end of that poll (hence in the very poll in which the last child "
         "resolves, and on the first poll for n = 0), the returned container holds child c's value at position c for all c, "
         "and `misuse` only arises after the final result, an unwind or the drop. Proof: World-free step invariant "
         "(FcLemmas/Sim.lean) relating the PollState/output table and the counter to what the children answered. "
         "Future::join (Join2) is the tuple model at arity 2 by correspondence. The check re-proves, rebuilds the harness in "
         "std/alloc/no_std, runs join over arrays (0..200), Vecs, tuples 0..12 and Future::join on the real code, diffs the "
         "poll/child-poll projection against the model and evaluates holds_C04 on the real traces.",
    note=TB, design_ref="DESIGN.md §7 C04")

PENDING = "theorem not yet proved in this revision; the property is exercised by the shared correspondence runs but not claimed"
NOT_APPLICABLE = {p: PENDING for p in
                  ["C02", "C03", "C05", "C06", "C07", "C08", "C09", "C10", "C11", "C12", "C13", "C14",
                   "C15", "C17", "C18", "C19"]}
