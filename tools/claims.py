"""What is claimed in MANIFEST.json (kept next to the code so it stays current)."""
TB = ("Trusted: Lean 4.33 kernel (axioms propext, Quot.sound, Classical.choice at most, audited per run by #print axioms); "
      "the hand-written model lean/Fc/*.lean, tied to /repo only by the sampled differential correspondence of this check "
      "(harness/, lean/Main.lean, check); std Mutex/Arc/Waker, pin-project, ManuallyDrop/MaybeUninit, slab, smallvec, "
      "fixedbitset modelled not verified; multi-threaded wake-ups linearised at the readiness mutex.")

KT = (" Static kernel tie (FcProps/KTie{grp}.lean): on every run tools/rs2lean.py translates the crate's waker kernel "
      "from /repo's current source text into Lean (FcGen/KSrc*.lean, functions in the Option monad over the primitives of "
      "Fc/RustPrims.lean) and the theorems that the translated functions refine the hand-written kernel Fc/Kernel.lean - "
      "same return value, abstraction commutes, cached ready count stays exact, no panic on indices inside the set - are "
      "re-checked against that translation; a kernel change that alters behaviour breaks these proofs (then: search for a "
      "failing input), a source outside the translator's subset makes this tie unavailable (noted; the dynamic tie decides).")

CLAIMS = {
    "C16": dict(
        text="Theorem C16_selective_fixed (FcProps/C16.lean): for every combinator over a fixed set of children that uses "
             "the readiness set (join/try_join array+Vec and tuple variants, merge, zip), every n, all child scripts and all "
             "operation histories, the selective-polling monitor holds on the model's trace (invariant: a set readiness bit is "
             "justified by a non-Pending last result or a sub-waker fire since the child's last poll; proved once for every "
             "'lawful' policy, lawfulness proved per family). Theorem C16_selective_group (FcProps/C16g.lean): the same monitor "
             "for FutureGroup and StreamGroup over every history of insert/remove/reserve/extend/poll/fire/drop with fresh member "
             "ids (Case.insertsFresh: every inserted future is a new object), incl. slot reuse (a stale sub-waker of the slot's "
             "previous occupant may justify the poll - the property's 'earlier member that held the same key' clause) and growth "
             "(resize arms only slots that hold no member). The check re-proves, rebuilds the std harness, runs thousands of cases on the real code, diffs the "
             "C16 projection (child polls, results, fires) against the model and evaluates the monitor on the real trace.",
        note=TB,
        design_ref="DESIGN.md §7 C16, Appendix A (invariant K)"),
}

CLAIMS["C01"] = dict(
    text="Theorem C01_no_lost_wake_conc (FcProps/C01.lean): for join, try_join (array/Vec and tuple models), race, "
         "race_ok (array, Vec, tuple variants), merge and zip, for every number of children, all child scripts (Pending "
         "steps that invoke any handed-out waker of any child during the poll, results, injected panics) and all "
         "histories (polls with arbitrary task wakers, wake-ups between polls incl. stale/repeated/after completion/after "
         "drop, drop), in both waker strategies (std sub-wakers+readiness bits; direct = alloc-only/no_std and the "
         "pass-through families), the monitor holds_C01 holds on the model trace: at every operation boundary with last "
         "outcome Pending, an owed wake-up implies the latest task waker was woken; no waker invocation panics; a poll "
         "unwinds only if a child panicked. Proof: kernel invariants (exact ready count, owes => bit, bit of a visited "
         "waiting child => woken, parent waker = current task waker) by induction over the scan and the operation list, "
         "once for every 'Conc' policy. Theorem C01_no_lost_wake_seq (FcProps/C01seq.lean): the same monitor for the "
         "sequential pass-through families chain, wait_until (future and stream), all n, scripts and histories (invariant: at "
         "most one child is waiting, it is the head of the next scan and was polled with the current task waker). Theorem "
         "C01_no_lost_wake_group (FcProps/C01g.lean): the same monitor for FutureGroup and StreamGroup, plain and keyed, both "
         "waker strategies, over every history of insert/remove/reserve/extend/poll/fire/drop with fresh members of the right "
         "kind (kernel invariants re-proved for a slot -> member map: exact ready count across resize/insert, bits and owed "
         "wake-ups of current members, stale wakers of removed members only touch vacant or re-armed slots). Theorem C01_nest "
         "(FcProps/C01nest.lean): one level of nesting - the lock-step composition (Fc/Nest.lean) of an outer instance with "
         "inner instances as children, any nesting pattern over the concurrent and sequential families, all leaf scripts and "
         "histories, both strategies: at every boundary while the nest is Pending, an owed wake-up of a direct child or of a "
         "leaf of an inner instance that is itself waiting implies that the TASK has been woken (the wake-up travelled "
         "through both levels); the harness runs real nests (outer join/race/merge/chain/zip over boxed children, inner "
         "join/race/try_join/merge/chain/zip) and compares them with the lock-step model instance by instance. Theorem "
         "C01_join_resolves (FcProps/C01live.lean): the liveness consequence for join - under a wake-only executor with a "
         "fresh waker per poll and a benign environment (Fc/Exec.lean), a join of well-behaved futures resolves to the "
         "positional values within 3*steps+1 rounds, both models and strategies (a 2*steps+2 bound is refuted in the file). "
         "Theorems C01_race_resolves, C01_try_join_resolves, C01_race_ok_resolves (FcProps/C01live2.lean): the same for race "
         "(n > 0), try_join (both models; resolves to Ok of all values or the first observed error) and race_ok (three "
         "variants). Theorems C01_merge_ends, C01_chain_ends, C01_zip_ends (FcProps/C01live3.lean): a merge / chain / zip "
         "(n > 0) of well-behaved streams (any finite mix of Pending steps with arbitrary in-poll wake-ups and items, then "
         "the end) reaches its final None within 3*steps+1 rounds under that executor, which re-polls a stream at once "
         "after an item and otherwise only after a wake-up; both strategies; the bound's coefficient and constant are shown "
         "necessary for merge. Theorems C01_wait_f_resolves (+_value: the Ready carries the inner future's value), "
         "C01_wait_s_ends (FcProps/C01live4.lean): the same for wait_until over a future / a stream (tight bound "
         "2*steps-1 proved, 2*steps-4 refuted). FcProps/C01liveAny.lean: all of these liveness theorems hold for EVERY "
         "environment schedule - `_any`: whichever waiting child the environment chooses to let progress in each round "
         "(pick : round -> state -> child, arbitrary); `_busy`: additionally any lists of further wake-ups (several "
         "children, resolved children, stale wakers) fired before and after the prod in every round - with the same bound; "
         "the original deterministic executor is the special case (C01_any_firstWaiting). Theorem C01_group_ends "
         "(FcProps/C01liveG.lean; executor for groups Fc/ExecG.lean): a FutureGroup of well-behaved futures / StreamGroup of "
         "well-behaved streams, plain or keyed, both strategies, built from the empty group by any history of "
         "insert/extend/reserve with fresh members, reaches its final None within 3*steps+1 rounds (only the scripts of the "
         "inserted members are constrained; +1 shown necessary); C01_group_ends_any / _busy (FcProps/C01liveGAny.lean): for "
         "every schedule and arbitrary further wake-ups (stale wakers of released members, ids never inserted); "
         "C01_group_refill_ends (+_busy, C01_group_drain_refill_drain): after draining, a second generation of fresh members "
         "in reused slots is drained again within the bound (iterates). Theorems C01_kernel_state_fixed / _group "
         "(FcProps/C01state.lean): at every boundary of every history the cached ready count equals the number of set bits "
         "below the capacity, no bit is set beyond it, and a parent waker is stored once any child holds a waker - the "
         "internal state the stdv configuration reads from the crate after every operation and compares with the model. "
         "Theorems C01_nest_fut_resolves (join / try_join / race / race_ok outside, any of them inside, any mix of plain and "
         "nested children), C01_nest_stream_ends (merge / chain / zip outside and inside) and their special cases "
         "(FcProps/C01liveN.lean; executor for nests Fc/ExecN.lean): a one-level nest of well-behaved leaves reaches its "
         "final outcome within 3*steps+1 rounds of the wake-only executor, which prods leaves and plain children alike - "
         "the wake-up of a leaf travels through both levels and the re-poll reaches that leaf (2*steps+2 refuted); "
         "FcProps/C01liveNAny.lean: the same for every schedule (any waiting plain child or leaf) and for a busy environment "
         "firing arbitrary further wake-ups, incl. stale wakers of leaves of released inner instances and ids that name "
         "nothing. For "
         "groups whose membership changes while they are being drained, liveness is checked on the real code "
         "only: the harness's wake-only executor (profiles drain, refill) must never get stuck (monitor LV; the environment "
         "never re-wakes a child that already invoked its waker, the round budget is a multiple of the proven bound, and a "
         "watchdog turns a deadlock into a reported case).",
    note=TB + " Liveness by theorem for join, try_join, race, race_ok, merge, chain, zip, wait_until (for every schedule "
         "of the environment), for one-level nests, and for groups filled before they are drained and refilled between drains (every schedule); for groups changed mid-drain "
         "by the drain runs on the real code. In the configuration stdv the crate's fc-verif hook exposes the readiness "
         "bits / cached count / parent-waker flag, compared with the model's World after every operation.",
    design_ref="DESIGN.md §7 C01, Appendix A")

CLAIMS["C20"] = dict(
    text="Theorem C20_concurrent_fixed (FcProps/C20.lean): for join, try_join (both models), race, race_ok (three "
         "variants), merge and zip, every n, all scripts (incl. children that never complete) and histories, both waker "
         "strategies: at every poll that returns Pending (a) every child has been polled at least once and (b) every child "
         "that was waiting and whose waker had fired when the poll began was polled during this poll. Proved by one "
         "induction together with C01 (invariants: never-polled child => eligible and armed; woken waiting child stays "
         "armed until the scan reaches it; a Pending outcome only arises from an empty readiness set or a complete scan). "
         "Theorem C20_concurrent_group (FcProps/C20g.lean): the same monitor for FutureGroup/StreamGroup over every "
         "group history with fresh members of the right kind, incl. members inserted into reused slots and growth while "
         "members are pending (insert and resize arm the new member's slot; a never-completing member never keeps a woken "
         "sibling from being polled). Second sentence of the property, as liveness (FcProps/C20live.lean; Fc/ExecStuck.lean): children may be well-behaved "
         "OR never-completing (Pending steps only, with arbitrary wake-ups, then silent for ever); for every schedule and "
         "busy environment, within 3*steps+1 rounds - C20_join_progress / C20_try_join_progress: the run is final or at "
         "rest (Pending, not woken, every scripted step consumed) with every well-behaved sibling resolved to its value; "
         "C20_race_delivers / C20_race_ok_delivers: a well-behaved (Ok) sibling's result is delivered next to "
         "never-completing ones; C20_merge_delivers: every item of every well-behaved input has been yielded and those "
         "inputs have ended; C20_zip_progress_false: the statement is false for zip (why the property excludes it). C20_group_delivers (+_busy; "
         "FcProps/C20liveG.lean): the same for FutureGroup / StreamGroup, plain and keyed, both strategies, every "
         "schedule: members well-behaved or never-completing; the run drains or comes to rest with every well-behaved "
         "member released and its value / all its items yielded, exactly the never-completing members still in the group; "
         "C20_group_atRest_stuck: at rest nothing is left to do under any schedule.",
    note=TB,
    design_ref="DESIGN.md §7 C20")

CLAIMS["C04"] = dict(
    text="Theorem C04_join (FcProps/C04.lean): for both join models (array/Vec: pending counter + early any_ready test; "
         "tuple arities 0..: completed counter + in-loop any_ready test + immediate return), every number of children n, all "
         "child scripts, all histories (polls with any waker, wake-ups at any time, drop at any point, an injected child "
         "panic) and both waker strategies, the monitor holds_C04 n holds on the model trace: every poll outcome is Ready "
         "exactly when every child has resolved by the end of that poll (hence in the very poll in which the last child "
         "resolves, and on the first poll for n = 0), the returned container holds child c's value at position c for all c, "
         "and `misuse` only arises after the final result, an unwind or the drop. Proof: World-free step invariant "
         "(FcLemmas/Sim.lean) relating the PollState/output table and the counter to what the children answered. "
         "Future::join (Join2) is the tuple model at arity 2 by correspondence. The check re-proves, rebuilds the harness in "
         "std/alloc/no_std, runs join over arrays (0..200), Vecs, tuples 0..12 and Future::join on the real code, diffs the "
         "poll/child-poll projection against the model and evaluates holds_C04 on the real traces. Theorem C04_poll_state (FcProps/C04state.lean): at every boundary of every history, while the join has "
         "not finished, unwound or been dropped, slot i of the PollState table is Pending exactly when child i has not "
         "resolved and Ready exactly when it has (the output slot then holds that very value), and the pending / completed "
         "counter is the number of Pending / Ready slots - the table the real array/Vec join prints under {:?}, which the "
         "harness logs after every poll and the driver compares with the model (flag eqPS).",
    note=TB, design_ref="DESIGN.md §7 C04")

CLAIMS["C05"] = dict(
    text="Theorem C05_try_join (FcProps/C05.lean): for both try_join models (array/Vec and tuple arities 0..), every "
         "number of children, all child scripts (any Ok/Err assignment, pending counts, injected panic), all histories and "
         "both waker strategies, the monitor holds_C05 n holds on the model trace: a poll answers Ready(Ok vals) only when "
         "no child has failed, every child resolved Ok and vals[c] is child c's value for all c; it answers Ready(Err e) "
         "exactly with the only error any child has returned so far, and that error was returned during this very poll; it "
         "answers Pending only while no error has been seen and some child is unresolved; no child is polled once an error "
         "has been seen (neither later in that poll nor afterwards); misuse only after the final result/unwind/drop. "
         "That Ok values already produced are dropped, not returned, is the value accounting of C02. Proof: World-free step "
         "invariant (Sim) relating the slot table and counter to what the children answered. The check re-proves, rebuilds "
         "the harness in std/alloc/no_std, runs try_join over arrays, Vecs and tuples 1..12 with every child as potential "
         "first failure, diffs the poll/child-poll projection against the model and evaluates holds_C05 on the real traces. Theorem C05_poll_state (FcProps/C04state.lean): the same reading of the PollState table for try_join (Pending = "
         "not resolved Ok, Ready = resolved Ok with the value in its slot, no error seen while alive, counter exact); the "
         "real array/Vec try_join's {:?} table is compared with the model after every poll (eqPS).",
    note=TB, design_ref="DESIGN.md §7 C05")

CLAIMS["C06"] = dict(
    text="Theorem C06_race (FcProps/C06.lean): for race (array, Vec and tuple share one model: rotating scan, return on the "
         "first Ready), every number of children, all child scripts, all histories, the monitor holds_C06 holds on the model "
         "trace: a poll answers Ready(v) exactly when v is the only value any child has resolved to so far and it was "
         "produced during this very poll; Pending only while no child has resolved; no child is polled once any child has "
         "resolved (neither later in the winning poll nor afterwards); children are released only by the race's own drop. "
         "Future::race is the same model at arity 2 by correspondence. The check re-proves, rebuilds the harness in "
         "std/alloc/no_std, runs race over arrays, Vecs, tuples 1..12 and Future::race, diffs the projection (polls, child "
         "polls, child drops) against the model and evaluates holds_C06 on the real traces.",
    note=TB + " Zero futures are outside C06 (model: Pending forever; real code: division by zero in the indexer).",
    design_ref="DESIGN.md §7 C06")

CLAIMS["C07"] = dict(
    text="Theorem C07_race_ok (FcProps/C07.lean): for the three race_ok variants (array: index order; Vec: MaybeDone, "
         "finished children dropped at once; tuple: rotating scan), every number of children incl. 0, all scripts (any Ok/Err "
         "assignment), all histories, the monitor holds_C07 n holds on the model trace: Ready(Ok v) exactly with the only Ok "
         "value any child has produced so far, produced in this very poll; Ready(Err es) only when no child succeeded, every "
         "child has failed, es[c] is child c's error for all c, and (n = 0 or) a child failed during this very poll; Pending "
         "only while no child succeeded and some child has not failed; no child is polled after a success, and a failed "
         "child is never polled again. Proof: one Sim instance for all flag combinations. The check re-proves, rebuilds the "
         "harness in std/alloc/no_std, runs race_ok over arrays, Vecs, tuples 1..12 with error-heavy scripts, diffs the "
         "projection against the model and evaluates holds_C07 on the real traces.",
    note=TB, design_ref="DESIGN.md §7 C07")

CLAIMS["C19"] = dict(
    text="Theorem C19_wait_until (FcProps/C19.lean): for future.wait_until and stream.wait_until (child 0 = deadline, "
         "child 1 = inner), all deadline scripts, inner scripts of the right kind (Case.kindOk), all histories incl. spurious "
         "polls, wake-ups, drop and an injected panic, the monitor holds_C19 holds on the model trace: the deadline is polled "
         "only while it has not resolved, the inner child only after it has; while the deadline is unresolved every poll "
         "answers Pending and the inner child has never been polled; from the poll in which the deadline resolves on, every "
         "poll polls the inner child and answers exactly what the inner child answered (Pending / its output / its item / "
         "None). The check re-proves, rebuilds the harness in the three builds, runs both adapters with random scripts and "
         "histories, diffs the projection against the model and evaluates holds_C19 on the real traces.",
    note=TB + " Hypothesis kindOk (futures only resolve, streams only yield/end) is what Rust's types guarantee.",
    design_ref="DESIGN.md §7 C19")

CLAIMS["C08"] = dict(
    text="Theorems C08_merge, C08_merge_exactly_once, C08_exactly_once (FcProps/C08.lean): for merge (array, Vec and "
         "tuple share one model: rotating scan, readiness-gated, yield on the first item, count ended inputs), every number "
         "of inputs incl. 0, all input scripts (items, Pending steps, end, panic), all histories and both waker strategies: "
         "holds_C08 n holds on the model trace - a poll answers Some(v) exactly when v is the one item taken from an input "
         "during this poll (so an item is yielded in the poll that takes it, without waiting for other inputs), nothing is "
         "polled after an item was taken in the same poll, Pending only if no item was taken and some input has not ended, "
         "None exactly when every input has ended and (n = 0 or) the last one ended in this very poll - and at every poll "
         "boundary the sequence of yielded values equals the sequence of items the inputs produced (every item exactly "
         "once, per-input order kept). The check re-proves, rebuilds the harness in the three builds, runs merge over "
         "arrays, Vecs (incl. empty), tuples 0..12 and Stream::merge, diffs the projection against the model and evaluates "
         "holds_C08 on the real traces.",
    note=TB + " The empty array/Vec case relies on the fix: commit recorded in known_findings.json (D1).",
    design_ref="DESIGN.md §7 C08, §9 D1")

CLAIMS["C09"] = dict(
    text="Theorems C09_zip, C09_zip_rows, C09_rows (FcProps/C09.lean): for zip (one model for array/Vec/tuple), every "
         "n >= 1, all input scripts of any lengths, all histories, both waker strategies: holds_C09 n holds on the model "
         "trace - a row is yielded exactly when every input has delivered one more item than there are rows so far, and "
         "row[c] is input c's latest (= k-th) item; Pending only while some input's item for the current row is missing and "
         "no input ended; None in the poll in which an input is found to have ended; an input is polled only while its item "
         "for the current row is missing and never after any input ended - hence every input is at most one item ahead of "
         "the rows (C09_zip_rows). That unmatched buffered items are dropped, never yielded, is the value accounting of the "
         "C02 monitor, which this check also evaluates on every real zip trace (theorem: C02 once claimed). The check "
         "re-proves, rebuilds the harness, runs zip over arrays, Vecs, tuples 1..12 and Stream::zip with unequal lengths, "
         "diffs the FUN and C02 projections against the model and evaluates both monitors on the real traces.",
    note=TB, design_ref="DESIGN.md §7 C09")

CLAIMS["C10"] = dict(
    text="Theorems C10_chain, C10_chain_order, C10_sequential (FcProps/C10.lean): for chain (one model for array/Vec/"
         "tuple), every number of inputs incl. 0, all scripts (incl. empty inputs and inputs that pend before ending), all "
         "histories: holds_C10 n holds on the model trace - an input is polled only after every earlier input returned None "
         "and nothing is polled after an item was taken in the same poll; Some(v) exactly for the item taken in this poll; "
         "None exactly when all inputs have ended; the yielded sequence equals the sequence of produced items and their "
         "sources are non-decreasing in input order (C10_chain_order), i.e. the output is the concatenation. The check "
         "also evaluates the C03 monitor (no poll of an ended input) on every real chain trace. It re-proves, rebuilds the "
         "harness in the three builds, runs chain over arrays, Vecs, tuples 1..12 and Stream::chain, diffs the projection "
         "against the model and evaluates the monitors on the real traces.",
    note=TB, design_ref="DESIGN.md §7 C10")

CLAIMS["C17"] = dict(
    text="Theorem C17_merge_fair (FcProps/C17.lean): for merge, every N, every position a of an input, all scripts of all "
         "inputs, all histories (polls, wake-ups, drop) and both waker strategies: at every yield, if every answer input a "
         "has given so far was an item (vacuously: it was never polled), then a is among the sources of the latest N items "
         "once N items have been produced - i.e. every window of N consecutive yields contains an item of a. Proof (World-"
         "aware, merge-specific invariant): an always-item input is armed and live at every boundary; miss(a) + dist(a) <= "
         "N-1 where miss = number of latest items not from a and dist = (a + N - offset) mod N its distance from the next "
         "scan start; the offset advances by one per poll; the early !any_ready exit is impossible while a's bit is set "
         "(ready count >= number of set bits). The check re-proves, rebuilds the harness in the three builds, runs merge "
         "with always-ready inputs at random positions among pending/ending inputs (profile `fair`), diffs the projection "
         "against the model and evaluates holds_C17 on the real traces.",
    note=TB, design_ref="DESIGN.md §7 C17")

CLAIMS["C02"] = dict(
    text="Theorems C02_exactly_once_slots (FcProps/C02a.lean: join, try_join in both models, race_ok array/Vec/tuple, zip) "
         "and C02_exactly_once_plain (FcProps/C02b.lean: race, merge, chain, wait_until future/stream): for every number of "
         "children, all child scripts of the right kind (Case.kindOk), all histories - the drop after any number of polls "
         "incl. zero, after completion, after an injected child panic at any child poll, polls and wake-ups after the drop - "
         "and both waker strategies, holds_C02 holds on the model trace: once the drop has completed, every child c < n has "
         "exactly one childDropped event, none after dropEnd; for every value v, (#times returned to the caller) + (#times "
         "dropped by the combinator) = (#times produced by a child); nothing is returned or dropped that no child produced. "
         "Proof: step invariant relating the PollState table / buffered slots to the multiset accounting (Sim), indexed by "
         "the number of completed drops. Theorem C02_exactly_once_group (FcProps/C02g.lean): the same for FutureGroup and StreamGroup over "
         "every history of insert/remove/reserve/extend/poll/fire/drop with fresh members: every inserted member is released "
         "exactly once - when it finishes, at removal, or with the group - ids never inserted are never released, and the "
         "value accounting holds. Concurrent-stream drivers: see C13/C14 when claimed. "
         "The check re-proves, rebuilds the harness in std/alloc/no_std, runs all families with drop points uniform over "
         "the history and injected panics (profile `panic`), diffs the ownership projection (returns, child results, child "
         "and value drops, drop begin/end) against the model and evaluates holds_C02 on the real traces. Theorem C02_nest (+ C02_nest_dropped; FcProps/C02nest.lean): one level of nesting - outer and inner "
         "instances satisfy the ownership monitor, the inner instance performs its drop exactly once and exactly when the "
         "outer instance releases that child; after the nest's drop every plain child and every leaf was dropped exactly once "
         "and every produced value was returned or dropped exactly once (hypotheses: matching kinds, wait_until with 2 "
         "children, at most one drop op).",
    note=TB + " The model's history alphabet allows a second `drop` operation, which Rust's ownership rules out; the "
         "theorems assume at most one drop op for the families whose children are plain fields. Memory effects of a wrong "
         "bookkeeping (UB) are outside the model: the model shows the bookkeeping never asks for a second drop or reads an "
         "unwritten slot; the harness observes real drops. Co-stream drivers: not covered here.",
    design_ref="DESIGN.md §7 C02, Appendix A (slot invariant S)")

CLAIMS["C03"] = dict(
    text="Theorem C03_discipline_fixed (FcProps/C03.lean): for all 13 fixed-children models (join, try_join in both "
         "models, race, race_ok x3, merge, zip, chain, wait_until future/stream), every number of children, all child scripts "
         "of the right kind (Case.kindOk), all histories (polls, wake-ups at any time incl. stale ones aimed at finished "
         "children, drop at any point, injected panic) and both waker strategies (so in particular the direct strategy of "
         "the alloc-only / no_std builds, which re-polls every unfinished child on every poll), holds_C03 holds on the "
         "model trace: every child poll happens inside a top-level poll of a combinator that is alive and has not yet "
         "produced its final result (Ready / None) and is aimed at a child that has neither finished (Ready / None) nor "
         "been released. Proof: one generic Sim instance from a record of state-only obligations (Disc) discharged per "
         "family. Theorem C03_discipline_group (FcProps/C03g.lean): the same monitor for FutureGroup/StreamGroup over "
         "every history of insert/remove/reserve/extend/queries/poll/fire/drop with fresh members of the right kind: "
         "inserting, removing, reserving, extending and dropping poll nothing, a removed or finished member is never polled "
         "again, members are polled only inside a poll of the live group (None is not final for a group: it can be refilled). Concurrent-stream source: see C13-C15 when claimed. The check re-proves, rebuilds the harness in "
         "the three builds, runs all families, diffs the projection against the model and evaluates holds_C03 on the "
         "real traces. Theorem C03_nest (FcProps/C03nest.lean): one level of nesting (lock-step model Fc/Nest.lean; any non-group "
         "families of matching kinds outside and inside, hypothesis Nest.kindOk): at every boundary of every history the "
         "outer instance and every inner instance satisfy the same monitor, and the link holds - an inner instance is polled "
         "exactly when the outer instance polls that child (poll counts agree), never after it was released and never after "
         "it gave its final answer (Nest.pollsOk).",
    note=TB, design_ref="DESIGN.md §7 C03")

CLAIMS["C11"] = dict(
    text="Theorem C11_future_group (FcProps/C11.lean): for the FutureGroup model incl. the slab key discipline "
         "(slab 0.4.12: next / vacant chain), plain and keyed views, both waker strategies, every history over "
         "{insert, remove(any key ever returned, incl. stale ones), reserve, extend, len/is_empty/contains_key/capacity "
         "queries, poll, fire, drop} with fresh members of the right kind: holds_C11 holds on the model trace - insert "
         "returns a key no live member holds; remove(k) answers whether a member lives under k and that member is released "
         "at once; a member is polled only while it lives under the key it is polled at; a poll answers Some(key, v) exactly "
         "for the output v a member produced during this poll, paired (keyed view) with the key its insert returned, and "
         "nothing is polled afterwards in that poll; the sequence of yielded values equals the sequence of outputs the "
         "members produced (each exactly once); a finished member is released in the poll in which it finished; len = "
         "inserts - removals - completions, is_empty and contains_key agree with it, capacity >= len; None exactly when no "
         "member lives (then the group can be refilled), Pending only while one lives and none delivered in this poll. "
         "The check re-proves, rebuilds the harness (std, alloc), runs random group histories incl. growth across capacity "
         "boundaries, slot reuse, stale keys, refill after None, diffs the group projection (polls, child polls, inserts, "
         "removes, answers, drops) against the model and evaluates holds_C11 on the real traces; a panic inside a group "
         "operation is a violation.",
    note=TB + " slab itself is modelled (key discipline) not verified; the harness mirrors slab's key assignment to label "
         "members inserted through extend.",
    design_ref="DESIGN.md §7 C11")

CLAIMS["C12"] = dict(
    text="Theorem C12_stream_group (FcProps/C12.lean): the same as C11 for StreamGroup (one proof, generic in the "
         "`stream` flag): holds_C12 holds on the model trace for every history - every item a member produces is yielded "
         "by the poll that took it, tagged (keyed view) with the member's key, nothing else is polled in that poll; the "
         "sequence of yielded values equals the sequence of produced items (every item exactly once, each member's order "
         "kept); a member that returns None is released and forgotten in that very poll (several may end in one poll: "
         "key_removal_queue) and never polled again; removed members likewise; len/is_empty/contains_key exact; None "
         "exactly when no member remains at the end of the poll (the done_count == stream_count rule), after which the "
         "group can be refilled. Check as for C11 with stream members.",
    note=TB + " slab modelled not verified.", design_ref="DESIGN.md §7 C12")

CO_TB = ("Trusted: Lean 4.33 kernel (axioms propext, Quot.sound, Classical.choice at most, audited per run); the hand-written "
         "acceptor Fc/CoSpec.lean, tied to /repo only by this check's trace validation: every trace the real code produces "
         "must be accepted (sampled adapter stacks of depth <= 3, all four terminals, limits, scripted source and work "
         "futures, wake-driven and spurious polls, drop points); futures-buffered::FuturesUnordered (bag semantics), "
         "futures-lite next(), the async-fn lowering are modelled/observed, not verified.")

CLAIMS["C13"] = dict(
    text="Theorem C13_for_each (FcProps/C13.lean): for EVERY trace accepted by the operational model of the concurrent-"
         "stream pipeline (Fc/CoSpec.lean: drive loop racing progress against the next source item, send with back-"
         "pressure while count >= limit, flush; adapters map/enumerate/take/limit stacked to any depth; any resolution of "
         "the bag's nondeterminism, any interleaving of source readiness and work-future progress, any limit): no closure "
         "stage is called twice for the same item; whenever the terminal closure is called, the number of terminal-closure "
         "futures created and neither completed nor dropped is at most the limit; for_each resolves only when every item "
         "taken from the source went through every closure stage exactly once with its future resolved and the source was "
         "drained as far as the adapters allow; when the drop of the operation returns, every work future ever created has "
         "been dropped. The check re-proves, rebuilds the harness (std, alloc), drives the real for_each / try_for_each / "
         "collect over 35 adapter stacks with scripted sources and work futures, validates every real trace against the "
         "acceptor (refinement check) and evaluates holds_C13 on it.",
    note=CO_TB, design_ref="DESIGN.md §7 C13, §3.5",
    technique="Lean 4 theorem over all traces of an operational model (acceptor) + trace validation of the real code against it")

CLAIMS["C14"] = dict(
    text="Theorem C14_fallible (FcProps/C14.lean): for every trace accepted by the pipeline model, try_for_each and "
         "collect::<Result<Vec,_>> resolve to Ok only if no work future ever returned an error, every taken item went "
         "through every closure stage and the source was drained as far as the adapters allow; they resolve to Err(e) only "
         "with an e some work future actually returned; once an error has been returned there is no further source poll, "
         "work-future poll, closure call or Pending return (the operation resolves to the error in that very top-level "
         "poll - whether it surfaced in send's back-pressure loop, in progress or in the final flush); every work future "
         "ever created has been dropped when the drop returns. Check as for C13 with error-heavy scripts.",
    note=CO_TB, design_ref="DESIGN.md §7 C14, §3.5",
    technique="Lean 4 theorem over all traces of an operational model (acceptor) + trace validation of the real code against it")

CLAIMS["C18"] = dict(
    engine="lean-autotraits+rustc-probes",
    text="Theorems C18_send_std/_alloc, C18_sync_std/_alloc (FcProps/C18.lean) over an environment GENERATED from /repo's "
         "macro-expanded source on every run (translator tools/extract_types.py + gen_autotraits.py, 260 struct/enum "
         "declarations per build incl. all 12 tuple arities of every combinator, array/Vec types, groups and keyed views, "
         "waker containers, consumer and work-future types): for every declaration the crate hands out (the 127 per build with "
         "an impl of Future / Stream / ConcurrentStream / Consumer / Into..., found by the translator and guarded by a list "
         "of expected names; helper types are covered as fields of those) and EVERY assignment of auto traits to "
         "the neutral types it depends on (type parameters and their associated outputs), if all of those are Send the "
         "declaration is Send, and if all are Sync it is Sync - by a model of rustc's structural auto-trait derivation "
         "(monotone in the assignment; the table is checked by kernel evaluation and lifted by the monotonicity lemma). "
         "The opaque async-fn futures of for_each/try_for_each/collect/drive have no declaration: for them the check relies "
         "on rustc probes (cargo check of /verif/probes against /repo in std/alloc/no_std): parametric obligations for "
         "every public combinator type, concrete Send-only and Sync-only instantiations incl. tuple arities 1..12, and "
         "the terminal operations with closures that are Send but not Sync.",
    note="Trusted: Lean kernel; the translator (hand-written parser of rustc's expanded output) and the rule table for "
         "external constructors (validated by the probes, not proved); rustc's trait solver for the probes. Partial: the "
         "async-fn futures are covered by probes (concrete instantiations), not by theorem.",
    design_ref="DESIGN.md §7 C18, §3.6",
    technique="Lean 4 theorem over a model regenerated from the source by a translator + rustc trait-solver probes")

CLAIMS["C15"] = dict(
    text="Theorem C15_adapters (FcProps/C15.lean): for every trace accepted by the pipeline model, for every adapter "
         "stack of any depth over {map, enumerate, take, limit} and every terminal: an item is taken from the source only "
         "while every take(n) of the stack still has room (so never more than min n, and none at all when some take(0) is "
         "present); every closure call for item j happens at most once per stage, for an item that was taken, and carries "
         "j as each enumerate index in front of that stage (the position in the source, whatever the completion order); "
         "collect (Vec and Ok(Vec)) resolves only when every taken item went through every stage once and the source was "
         "drained as far as the adapters allow (it ended or a take is full - hence exactly min(n, len) items), and the "
         "collected list is a permutation of one entry per taken item with its enumerate indices; for_each/try_for_each Ok "
         "resolve only when drained. Check as for C13, with Vec::into_co_stream() as the source in a quarter of the cases (its "
         "polls are not observable and are reconstructed by the driver: the source is always ready, so an item is taken "
         "whenever drive is at the head of its loop); the corpus replays the take(0) cases of the repaired defect D2.",
    note=CO_TB + " take(0) relies on the fix: commit recorded in known_findings.json (D2).",
    design_ref="DESIGN.md §7 C15, §3.5, §9 D2",
    technique="Lean 4 theorem over all traces of an operational model (acceptor) + trace validation of the real code against it")

NOT_APPLICABLE = {}

# the properties whose checks also re-establish the static kernel tie (tools/props.py: ktie)
for _p, _g in (("C01", "Std,Dir: readiness sets of both strategies, InlineWaker::wake = fireWk"), ("C16", "Std: readiness sets, resize, wake"),
               ("C20", "Std,Dir"), ("C17", "Idx: Indexer::iter / IndexIter::next yield Fix.rot and bump the offset"),
               ("C04", "PS: PollState"),
               ("C11", "Grp: FutureGroup with_capacity/new/len/is_empty/capacity/contains_key/reserve/insert/remove refine GEng.reserve/grow/insertAt/remove"),
               ("C12", "Grp: StreamGroup with_capacity/new/len/is_empty/capacity/contains_key/reserve/insert/remove refine GEng.reserve/grow/insertAt/remove")):
    CLAIMS[_p]["text"] = CLAIMS[_p]["text"] + KT.replace("{grp}", "{" + _g.split(":")[0] + "}") + " Groups here: " + _g + "."

CLAIMS["C02"]["text"] = CLAIMS["C02"]["text"] + (
    " Concurrent-stream drivers (FcProps/C02co.lean): theorem C02_co_values - every trace accepted by the value-ownership "
    "acceptor Fc/CoVal.lean (source items, errors returned by work futures, values handed back to the caller; for "
    "Vec::into_co_stream() the items exist from the start) satisfies holds_C02co: no value is dropped or returned more often "
    "than it was created at any point of the trace, and when the operation's own drop has returned every created value has "
    "been dropped or returned exactly once - for every adapter stack, terminal, interleaving and drop point; the work futures "
    "themselves are covered by the CoSpec acceptor (a work future is dropped only while live, a running one only by "
    "cancellation, none is left at dropEnd). The check runs the co-stream cases in the std and alloc-only builds and requires "
    "every real trace to be accepted by both acceptors and to satisfy the monitor (the harness logs every drop of a value).")

CLAIMS["C01"]["text"] = CLAIMS["C01"]["text"] + (
    " Membership changes WHILE a group is drained (FcProps/C01liveGMix.lean, executor Fc/ExecGMix.lean): theorem "
    "C01_group_mix_ends - a consumer that, between rounds of the wake-only executor (any schedule, busy environment), performs a "
    "finite plan of insert / extend / reserve / remove operations (fresh, well-behaved members; each entry followed by an "
    "unconditional poll) still drains the group: within 3*(steps of all members ever present)+1+2*|plan| rounds the plan is "
    "performed, the latest outcome is None and no member is left; C01_group_mix_delivers - for plans without remove every "
    "member ever inserted has delivered its output / all its items in order; C01_group_mix_delivers_remove (+ _bound) - for plans "
    "WITH remove every member ever inserted has delivered everything its script holds or was removed by the consumer (its "
    "childDropped is followed by `removed key true` in the trace), within the same bound (invariant over scripts and trace "
    "alone: delivered + still scripted = initially scripted; a well-behaved script answers Ready / None only on its last step).")
CLAIMS["C16"]["text"] = CLAIMS["C16"]["text"] + (
    " One level of nesting (FcProps/C16nest.lean): theorem C16_nest - in the std strategy, in every reachable state of the "
    "lock-step nest model (Fc/Nest.lean; any outer family, any inner pattern, all scripts and histories) the selective-polling "
    "monitor holds on the trace of the outer instance (if it tracks readiness) and of every inner instance that does; proved "
    "through a projection lemma (Nest.inner_flat: every inner instance's state is the final state of a flat case under some "
    "history) - C16_nest_projection, C16_nest_inner_via_flat.")
CLAIMS["C20"]["text"] = CLAIMS["C20"]["text"] + (
    " One level of nesting (FcProps/C20nest.lean): C20_nest_instances - both sentences of the monitor hold for the outer and "
    "for every inner concurrent instance, and a Pending concurrent outer has polled every child; C20_nest - a nested child whose "
    "latest answer to the outer was Pending has started all its leaves, and a woken waiting leaf of such a child is polled by "
    "the next top-level poll (through both levels). The naive statement 'every leaf of every live inner instance has been "
    "polled when the nest is Pending' is refuted in the file (chain outer; zip over merge: a buffered row holds the merge back) "
    "- the real code behaves the same way.")

_POLL = (" The poll loops themselves (FcProps/KTieGrpPoll.lean): FutureGroup::poll_next_inner and StreamGroup::poll_next_inner, translated "
         "from the current source on every run (scan over the key set with its break, the gate is_pending && clear_ready, the child "
         "poll through the slot's sub-waker, the bookkeeping of each answer, the key clean-up), are proved to refine one Eng.poll group "
         "of the model - theorems TieGrpF.poll_tie / TieGrpS.poll_tie (+ poll_tie_inv): no panic, the returned Poll value is the "
         "model's outcome, the resulting group and environment read as the model's state (readiness, capacity, states, slab, keys, "
         "queue, scripts, handed wakers) with the same event trace; hypotheses: the group is well-formed (WfG), its keys are distinct "
         "occupied slab entries below the capacity (GoodKeys, C11's structural invariant), handed sub-wakers lie below the capacity "
         "(HandedOk; refuted without), members answer like futures / streams without panicking.")
CLAIMS["C11"]["text"] = CLAIMS["C11"]["text"] + _POLL
CLAIMS["C12"]["text"] = CLAIMS["C12"]["text"] + _POLL
CLAIMS["C06"]["text"] = CLAIMS["C06"]["text"] + (
    " Static tie (FcProps/KTieRaceV.lean, KTieIdx.lean): Race::poll of Vec<Fut>::race() (src/future/race/vec.rs), translated from the "
    "current source on every run, is proved to refine one Eng.poll race of the model (TieRaceV.poll_tie: no panic, same outcome, same "
    "offset / done flag, same scripts, handed wakers and event trace; hypotheses: at least one child, Indexer.max = number of "
    "children, children answer like futures without panicking, not yet done), and Indexer::iter yields the rotated order Fix.rot. "
    "(The tuple variant: see the tuple tie below.)")

def _fam(fn, thm, what):
    return (" Static tie of the poll function (" + thm + "): " + fn + ", translated from the current source on every run "
            "(tools/rs2lean.py -> lean/FcGen/KSrcFam*.lean), is proved to refine the model's Eng.poll / Eng.drop of that family - "
            + what + " Hypotheses: the combinator is well-formed (counters match the state table, buffers sized to the number of "
            "children), handed sub-wakers lie below the length, children answer like futures / streams without panicking, not yet "
            "completed. (Tuple containers: see the tuple ties at the end of this text where they exist; otherwise tied differentially.)")
CLAIMS["C04"]["text"] += _fam("Join::poll and the PinnedDrop destructor of Vec<Fut>::join() (src/future/join/vec.rs)", "FcProps/KTieJoinV.lean: TieJoinV.poll_tie, drop_tie, new_wf",
    "no panic, same outcome (the output vector on completion), same readiness set / states / output slots / pending counter, same scripts, handed wakers and event trace; the completing poll is compared through doneAgree (the crate moves the outputs out, the model keeps its copy).")
CLAIMS["C02"]["text"] += " Static ties of destructors: TieJoinV.drop_tie, TieTryJoinV.drop_tie / drop_failed_tie, TieZipV.drop_tie (FcProps/KTie{JoinV,TryJoinV,ZipV}.lean): the translated PinnedDrop of the Vec join / try_join / zip emits exactly the model's drop events (outputs or buffered items released once, pending children dropped once)."
CLAIMS["C05"]["text"] += _fam("TryJoin::poll and the PinnedDrop destructor of Vec<Fut>::try_join() (src/future/try_join/vec.rs)", "FcProps/KTieTryJoinV.lean: TieTryJoinV.poll_tie, drop_tie, drop_failed_tie, new_wf",
    "incl. the return from inside the scan on the first Err and the drop after a failure (values produced by the other children are released, not returned).")
CLAIMS["C08"]["text"] += _fam("Merge::poll_next of Vec<S>::merge() (src/stream/merge/vec.rs)", "FcProps/KTieMergeV.lean: TieMergeV.poll_tie, poll_tie_strong",
    "rotating Indexer order, loopwise any_ready test, clear-first gate, re-arm after an item, end when the last input ends.")
CLAIMS["C17"]["text"] += _fam("Merge::poll_next of Vec<S>::merge() (src/stream/merge/vec.rs)", "FcProps/KTieMergeV.lean + KTieIdx.lean",
    "in particular the scan order of every poll is Fix.rot and the offset is bumped once per poll, which is what the fairness theorem uses.")
CLAIMS["C09"]["text"] += _fam("Zip::poll_next and the PinnedDrop destructor of Vec<S>::zip() (src/stream/zip/vec.rs)", "FcProps/KTieZipV.lean: TieZipV.poll_tie, drop_tie, new_wf",
    "row buffer, all-ready test, re-arming of every slot after a row, end on the first None, buffered items of the unfinished row released by the destructor.")
CLAIMS["C10"]["text"] += _fam("Chain::poll_next of Vec<S>::chain() (src/stream/chain/vec.rs)", "FcProps/KTieChainV.lean: TieChainV.poll_tie",
    "the Rust loop over the current input (index advanced only when an input ends), direct strategy.")

# ---- session 4: the ARRAY containers, race_ok (array), wait_until
def _arr(fn, thm):
    return (" The same tie is proved for the ARRAY container (" + thm + "): " + fn + ", translated from the current source on every run "
            "(lean/FcGen/KSrcArr*.lean; the const generic N is a parameter of every translated function, the readiness set is "
            "ReadinessArray<N> read through TieArr.abs, WakerArray<N> is a small hand model), with the well-formedness predicate "
            "parameterised by N (kids.len = N).")
CLAIMS["C04"]["text"] += _arr("Join::poll / PinnedDrop of [Fut; N]::join() (src/future/join/array.rs)", "FcProps/KTieJoinA.lean: TieJoinA.poll_tie, drop_tie, new_wf")
CLAIMS["C02"]["text"] += " Array counterparts: TieJoinA.drop_tie, TieTryJoinA.drop_tie / drop_failed_tie, TieZipA.drop_tie, TieRaceOkA.drop_tie / drop_failed_tie (stored errors of race_ok released once)."
CLAIMS["C05"]["text"] += _arr("TryJoin::poll / PinnedDrop of [Fut; N]::try_join() (src/future/try_join/array.rs)", "FcProps/KTieTryJoinA.lean: TieTryJoinA.poll_tie, drop_tie, drop_failed_tie, new_wf")
CLAIMS["C06"]["text"] += _arr("Race::poll of [Fut; N]::race() (src/future/race/array.rs)", "FcProps/KTieRaceA.lean: TieRaceA.poll_tie")
CLAIMS["C08"]["text"] += _arr("Merge::poll_next of [S; N]::merge() (src/stream/merge/array.rs)", "FcProps/KTieMergeA.lean: TieMergeA.poll_tie, poll_tie_strong, new_wf")
CLAIMS["C17"]["text"] += _arr("Merge::poll_next of [S; N]::merge() (src/stream/merge/array.rs)", "FcProps/KTieMergeA.lean")
CLAIMS["C09"]["text"] += _arr("Zip::poll_next / PinnedDrop of [S; N]::zip() (src/stream/zip/array.rs)", "FcProps/KTieZipA.lean: TieZipA.poll_tie, drop_tie, new_wf")
CLAIMS["C10"]["text"] += _arr("Chain::poll_next of [S; N]::chain() (src/stream/chain/array.rs)", "FcProps/KTieChainA.lean: TieChainA.poll_tie")
CLAIMS["C07"]["text"] += (
    " Static tie (FcProps/KTieRaceOkA.lean): RaceOk::poll and the PinnedDrop destructor of [Fut; N]::race_ok() "
    "(src/future/race_ok/array/mod.rs), translated from the current source on every run (lean/FcGen/KSrcArr7.lean; the "
    "three-way zip of children / error slots / states is read position by position), are proved to refine Eng.poll / Eng.drop "
    "of the policy raceOk false false: TieRaceOkA.poll_tie (no panic; same outcome - Ok of the first success in that same "
    "poll, the aggregate by position in the poll in which the last child fails, also for N = 0; same states, stored errors "
    "and counter; same scripts, handed wakers and event trace), drop_tie (the stored errors are released exactly once), "
    "drop_failed_tie (after the aggregate was returned nothing but the children is released). Hypotheses: slots Ready exactly "
    "where an error is stored, the counter counts them, children answer like futures without panicking, not completed. "
    "The tuple and the Vec (MaybeDone) variants are tied statically as well, see below.")
CLAIMS["C19"]["text"] += (
    " Static tie (FcProps/KTieWait.lean): WaitUntil::poll (src/future/wait_until.rs: the loop over the State enum with ready!) and "
    "WaitUntil::poll_next (src/stream/wait_until.rs), translated from the current source on every run (lean/FcGen/KSrcWait.lean), are "
    "proved to refine Eng.poll waitUntilF / waitUntilS: TieWaitF.poll_tie, poll_completed (polling a completed future panics), "
    "TieWaitS.poll_tie - the inner future / stream is not polled before the deadline has resolved, is polled in the same poll in "
    "which it resolves, the deadline is not polled again afterwards, same outcome, scripts, handed wakers and event trace, "
    "including the point where the deadline's output is dropped (the translator's rule for temporaries, trusted). Hypotheses: "
    "deadline = child 0, inner = child 1, children answer like a future / a stream without panicking, not completed.")


# ---- session 5: the TUPLE containers (macro-generated) and race_ok over Vec
def _tup(fam, thm, what):
    return (" TUPLE container (" + thm + "): the tuple impls exist as Rust only after macro expansion, once per arity. On every run "
            "tools/tuple_norm.py takes rustc's own expansion of the current source (cargo +nightly rustc -Zunpretty=expanded), cuts out "
            "the struct, the poll function, the destructor and the constructor of each arity 1..12 of " + fam + ", normalises them into "
            "container-style Rust over a const generic N (rules R1-R8 in that file, each checking the shape it rewrites: LEN = number "
            "of children, the per-child index dispatch folded into one indexed body only if all arms agree up to the child's name "
            "and position, per-slot runs of the destructor folded into loops, the tuple of MaybeUninit outputs read as an output "
            "array), REQUIRES THE TWELVE ARITIES TO YIELD THE SAME TEXT, and hands it to tools/rs2lean.py (lean/FcGen/KSrcTup*.lean); "
            + what + " for every N >= 1. A deviation of one arity, or a shape outside the rules, makes the tie `unavailable` (the "
            "differential check decides), never silently wrong. Trusted in addition: rustc's expansion, the normalisation rules.")
CLAIMS["C04"]["text"] += _tup("join (src/future/join/tuple.rs, Join1..Join12, also FutureExt::join)", "FcProps/KTieJoinT.lean: TieJoinT.poll_tie, poll_tie_strong, drop_tie, new_wf",
    "the translated Join::poll (any_ready tested inside the loop, skip on !clear_ready || is_ready, completion = completed == LEN detected inside the loop, no consumed flag) and PinnedDrop are proved to refine Eng.poll / Eng.drop of the policy joinTuple")
CLAIMS["C02"]["text"] += " Tuple containers: TieJoinT.drop_tie, TieTryJoinT.drop_tie / drop_failed_tie (FcProps/KTieJoinT.lean, KTieTryJoinT.lean; source = rustc's macro expansion normalised by tools/tuple_norm.py)."
CLAIMS["C05"]["text"] += _tup("try_join (src/future/try_join/tuple.rs, TryJoin1..TryJoin12)", "FcProps/KTieTryJoinT.lean: TieTryJoinT.poll_tie, poll_tie_strong, drop_tie, drop_failed_tie, new_wf",
    "the translated TryJoin::poll (incl. the return from inside the index dispatch on the first Err) and PinnedDrop are proved to refine Eng.poll / Eng.drop of the policy tryJoinTuple")
CLAIMS["C08"]["text"] += _tup("merge (src/stream/merge/tuple.rs, Merge1..Merge12, also StreamExt::merge)", "FcProps/KTieMergeT.lean: TieMergeT.poll_tie, poll_tie_strong, new_wf",
    "the translated Merge::poll_next (dispatch through #[repr(usize)] enum Indexes, completed: u8 read as a number, Indexer::new(0+1+..+1) = Indexer::new(N)) is proved to refine Eng.poll of the policy merge")
CLAIMS["C17"]["text"] += " The tuple container is tied in the same way (FcProps/KTieMergeT.lean, source = rustc's macro expansion normalised by tools/tuple_norm.py): its scan order is Fix.rot as well."
CLAIMS["C09"]["text"] += _tup("zip (src/stream/zip/tuple.rs, Zip1..Zip12, also StreamExt::zip)", "FcProps/KTieZipT.lean: TieZipT.poll_tie, poll_tie_strong, drop_tie, new_wf",
    "the translated Zip::poll_next (children held as fields of the struct itself and read as one array, the row buffer <mod>::Output read as the array container's buffer, the dispatch `match index { <mod>::F => .. _ => unreachable!() }` folded behind assert!(index < N)) and PinnedDrop are proved to refine Eng.poll / Eng.drop of the policy zip")
CLAIMS["C02"]["text"] += " And TieZipT.drop_tie (tuple zip: the buffered items of the unfinished row are released once)."
CLAIMS["C06"]["text"] += _tup("race (src/future/race/tuple.rs, Race1..Race12, also FutureExt::race)", "FcProps/KTieRaceT.lean: TieRaceT.poll_tie, new_wf, new_poll_tie",
    "the translated Race::poll (children held as fields of the struct and read as one array; the dispatch `if i == Indexes::F as usize { match <poll F> { Ready(o) => return, _ => continue } }` over the local #[repr(usize)] enum folded into one indexed body) is proved to refine Eng.poll of the policy race")
CLAIMS["C10"]["text"] += _tup("chain (src/stream/chain/tuple.rs, Chain1..Chain12, also StreamExt::chain)", "FcProps/KTieChainT.lean: TieChainT.poll_tie, poll_tie_strong, new_wf",
    "the translated Chain::poll_next (a Rust loop with fuel N + index + 1; the dispatch `match *this.index { <mod>::F => .. _ => unreachable!() }` folded behind assert!(index < N); the arm `v @ (Pending | Ready(Some(_))) => return v` written as the two arms it stands for) is proved to refine Eng.poll of the policy chain, also")
CLAIMS["C07"]["text"] += _tup("race_ok (src/future/race_ok/tuple/mod.rs, RaceOk1..RaceOk12)", "FcProps/KTieRaceOkT.lean: TieRaceOkT.poll_tie, poll_tie_strong, drop_tie, drop_failed_tie, new_wf",
    "the translated RaceOk::poll (rotating Indexer order, done flag, the arity constant RaceOk<k> = 0+1+..+1 checked and read as N, completed also counts the winner) and PinnedDrop are proved to refine Eng.poll / Eng.drop of the policy raceOk true false")
CLAIMS["C07"]["text"] += (
    " Static tie of the Vec variant (FcProps/KTieRaceOkV.lean): RaceOk::poll and the constructor of Vec<Fut>::race_ok() "
    "(src/future/race_ok/vec/mod.rs) together with the helper enum MaybeDone (src/utils/poll_state/maybe_done.rs: new, poll, "
    "take_ok, take_err - an enum with payload, translated, with generated drop glue), translated from the current source on "
    "every run (lean/FcGen/KSrcFam6.lean), are proved to refine Eng.poll / Eng.drop of the policy raceOk false true: "
    "TieRaceOkV.poll_tie / poll_tie_strong (no panic; Ok of the first success in index order in that same poll with the errors "
    "left in their slots; the aggregate by position in the poll in which the last child fails, after which the slice is empty; "
    "same scripts, handed wakers and trace), drop_tie (the struct's drop glue releases exactly the model's drop events - slot by "
    "slot, i.e. a permutation of the model's order, the first exact statement is refuted in the file), drop_failed_tie, new_wf. "
    "Trusted in addition: the translator's rules for payload enums, Pin::set (drop the old value, then write), drop glue of "
    "owning locals, iter_pin_mut read by index.")

# ---- the no_std / alloc-only flavour of the families that hold a waker table
_DIRF = (" The same ties are proved for the no_std / alloc-only builds ({thm}): without the std feature the same family source is "
         "compiled against src/utils/wakers/{{vec,array}}/no_std.rs (no flags, every child is handed the caller's own waker); "
         "tools/rs2lean.py produces that flavour from the translated source (FcGen/KSrc*D.lean: the std flavour's text with the "
         "functions translated from no_std.rs) and the translated poll / PinnedDrop refine Eng.poll / Eng.drop of the model in "
         "direct mode.")
CLAIMS["C04"]["text"] += _DIRF.format(thm="FcProps/KTieJoinVD.lean, KTieJoinAD.lean: poll_tie, drop_tie, new_wf")
CLAIMS["C05"]["text"] += _DIRF.format(thm="FcProps/KTieTryJoinVD.lean, KTieTryJoinAD.lean: poll_tie, drop_tie, drop_failed_tie, new_wf")
CLAIMS["C08"]["text"] += _DIRF.format(thm="FcProps/KTieMergeVD.lean, KTieMergeAD.lean: poll_tie, poll_tie_free, new_wf")
CLAIMS["C17"]["text"] += _DIRF.format(thm="FcProps/KTieMergeVD.lean, KTieMergeAD.lean")
CLAIMS["C09"]["text"] += _DIRF.format(thm="FcProps/KTieZipVD.lean, KTieZipAD.lean: poll_tie, drop_tie, new_wf")
CLAIMS["C02"]["text"] += " The destructor ties also hold in the no_std flavour (TieJoinVD/AD.drop_tie, TieTryJoinVD/AD.drop_tie / drop_failed_tie, TieZipVD/AD.drop_tie)."

_GRPD = (" Alloc-only build (no std feature): the same source compiled against utils/wakers/vec/no_std.rs is translated too "
         "(lean/FcGen/KSrcGrpD.lean) and tied to the model in direct mode - FcProps/KTieGrpD.lean (set view: queries_tie, "
         "reserve_tie, insert_tie, remove_tie, with_capacity_tie; the model's unused `cap` field is a ghost there, the exact "
         "std statements are refuted by decide and kept as *_exact under the hypothesis that the ghost does not move)")
CLAIMS["C11"]["text"] += _GRPD + "."
CLAIMS["C12"]["text"] += _GRPD + (", FcProps/KTieGrpPollDS.lean (StreamGroup::poll_next_inner refines Eng.poll group; hypothesis SlotNamed: "
    "members named by their keys - the environment's slot annotation of childBegin for a caller's waker is the member's number, "
    "the model's is the key; the statement without it is refuted, v0_false).")
CLAIMS["C11"]["text"] = CLAIMS["C11"]["text"][:-1] + (", FcProps/KTieGrpPollDF.lean (FutureGroup::poll_next_inner refines Eng.poll group: "
    "poll_tie, poll_tie_inv, poll_tie_chain; the event traces are compared after erasing the slot annotation of childBegin - the "
    "environment's annotation for a caller's waker is the member's number, the model's is the key; the statement with exact traces "
    "is refuted, v0_false).")
