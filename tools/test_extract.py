#!/usr/bin/env python3
"""self-test of the C18 translator on hand-written snippets (run by tools/c18_runner.py on every run)"""
import os, sys
sys.path.insert(0, os.path.dirname(os.path.abspath(__file__)))
from extract_types import tokenize, P

SRC = r'''
mod a {
    /// doc with { braces } and "quotes"
    #[pin_project]
    pub(crate) struct WithFn<FutT, T, F, FutB> where FutT: Future<Output = T>,
        F: Fn(T) -> FutB, FutB: Future<Output = ()> {
        count: Arc<AtomicUsize>,
        #[pin]
        group: FuturesUnordered<ForEachFut<F, FutT, T, FutB>>,
        f: F,
        _p: PhantomData<(T, FutB)>,
    }
    pub struct Tup<T>(pub(crate) T, Vec<T>) where T: Clone;
    pub struct Unit;
    pub struct Arr<Fut, const N: usize> where Fut: Future {
        items: OutputArray<<Fut as Future>::Output, N>,
        outs: (MaybeUninit<A::Output>, &'static mut [u8; { 2 + 1 }]),
    }
    pub(super) enum E<Fut: Future> { Future(#[pin] Fut), Done(Option<Fut::Output>), Empty, Named { a: *const u8, b: fn(u8) -> u8 } }
    unsafe impl<T> Send for Tup<T> {}
    impl<T> !Sync for Unit {}
    fn skipped() { struct Inner { x: Rc<u8> } }
    const _: () = { struct __Hidden<'pin, T> { t: &'pin mut T } };
    mod b { pub(super) struct Futures<A, B> { a: A, b: B } }
}
'''

def main():
    p = P(tokenize(SRC))
    p.items([])
    d = {x["name"]: x for x in p.decls}
    assert set(d) == {"WithFn", "Tup", "Unit", "Arr", "E", "Futures"}, sorted(d)
    assert [f["name"] for f in d["WithFn"]["fields"]] == ["count", "group", "f", "_p"], d["WithFn"]["fields"]
    assert len(d["Tup"]["fields"]) == 2 and d["Tup"]["where"].startswith("T"), d["Tup"]
    assert d["Unit"]["fields"] == []
    assert [f["name"] for f in d["Arr"]["fields"]] == ["items", "outs"]
    assert d["Arr"]["fields"][0]["ty"]["args"][0]["k"] == "proj"
    assert [p_["kind"] for p_ in d["Arr"]["params"]] == ["type", "const"]
    assert [f["name"] for f in d["E"]["fields"]] == ["Future.0", "Done.0", "Named.a", "Named.b"], d["E"]["fields"]
    assert d["E"]["fields"][2]["ty"]["k"] == "ptr" and d["E"]["fields"][3]["ty"]["k"] == "fn"
    assert d["Futures"]["path"] == ["a", "b"]
    assert len(p.impls) == 2 and p.impls[0]["trait"] == "Send" and p.impls[1]["negative"], p.impls
    print("extract_types self-test ok")

if __name__ == "__main__":
    main()
