#!/bin/sh
# Build the framework from files on disk (offline): Lean model + proofs + driver, harness x6.
set -e
cd "$(dirname "$0")/.."
export CARGO_NET_OFFLINE=true
# the generated part of the model (C18's type table) is regenerated from /repo's current source first
python3 tools/c18_runner.py --translate-only || echo "translation failed (the C18 check will report it)"
# ... and so is the translation of the waker kernel, the families and the groups (FcGen/KSrc*.lean; the checks redo it; the
# tuple containers go through rustc's macro expansion, tools/tuple_norm.py)
python3 tools/rs2lean.py --repo /repo || echo "kernel translation failed (the checks will report it)"
(cd lean && lake build) || echo "lake build incomplete (the checks report which module)"
cp -n /repo/Cargo.lock harness/Cargo.lock 2>/dev/null || true
cd harness
cargo build --release --offline --target-dir target/std --features cfg-std
cargo build --release --offline --target-dir target/alloc --features cfg-alloc
cargo build --release --offline --target-dir target/nostd
cargo build --release --offline --target-dir target/std-co --features cfg-std,co
cargo build --release --offline --target-dir target/alloc-co --features cfg-alloc,co
cargo build --release --offline --target-dir target/stdv --features cfg-std,verif
