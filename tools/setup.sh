#!/bin/sh
# Build the framework from files on disk (offline): Lean model + proofs + driver, harness x6.
set -e
cd "$(dirname "$0")/.."
export CARGO_NET_OFFLINE=true
(cd lean && lake build)
cp -n /repo/Cargo.lock harness/Cargo.lock 2>/dev/null || true
cd harness
cargo build --release --offline --target-dir target/std --features cfg-std
cargo build --release --offline --target-dir target/alloc --features cfg-alloc
cargo build --release --offline --target-dir target/nostd
cargo build --release --offline --target-dir target/std-co --features cfg-std,co
cargo build --release --offline --target-dir target/alloc-co --features cfg-alloc,co
cargo build --release --offline --target-dir target/stdv --features cfg-std,verif
