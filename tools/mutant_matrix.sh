#!/bin/sh
# usage: tools/mutant_matrix.sh [<PROP>/<name> ...]   (default: every seeded change)
# runs, for every seeded change, the quick check of the property it was written against (plus the checks
# listed in seeded/<P>/<m>/also.txt, if present) and records the verdicts in seeded/<P>/<m>/result.txt
cd /verif
list="$@"
[ -z "$list" ] && list=$(ls -d seeded/*/* | sed 's#seeded/##')
for pm in $list; do
  p=${pm%%/*}
  d=seeded/$pm
  [ -f $d/patch.diff ] || continue
  checks="$p"
  [ -f $d/also.txt ] && checks="$checks $(cat $d/also.txt)"
  sh tools/try_mutant.sh /verif/$d/patch.diff $checks > $d/checks.log 2>&1
  : > $d/result.txt
  cur=""
  while IFS= read -r line; do
    case "$line" in
      "=== "*) cur=${line#=== };;
      *"VIOLATION property=$cur"*no-failing-input-found*) echo "$cur: reported, no failing input found (correspondence / proof broken)" >> $d/result.txt; cur="";;
      *"VIOLATION property=$cur"*) echo "$cur: reported with a concrete failing input ($(echo "$line" | sed 's#.*replays/##'))" >> $d/result.txt; cur="";;
      "rc="*) [ -n "$cur" ] && echo "$cur: MISSED (check passed)" >> $d/result.txt; cur="";;
    esac
  done < $d/checks.log
  echo "== $pm"; cat $d/result.txt
done
