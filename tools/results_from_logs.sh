#!/bin/sh
# (re)derive seeded/<P>/<m>/result.txt from the checks.log that tools/process_mutant.sh / try_mutant.sh wrote
cd /verif
for d in seeded/C*/m*; do
  [ -f $d/checks.log ] || continue
  [ -f $d/result.txt ] && [ $d/result.txt -nt $d/checks.log ] && continue
  : > $d/result.txt
  cur=""
  while IFS= read -r line; do
    case "$line" in
      "=== "*) cur=${line#=== };;
      *"VIOLATION property=$cur"*no-failing-input-found*) echo "$cur: reported, no failing input found (correspondence / proof broken)" >> $d/result.txt; cur="";;
      *"VIOLATION property=$cur"*) echo "$cur: reported with a concrete failing input ($(echo "$line" | sed 's#.*replays/##'))" >> $d/result.txt; cur="";;
      "rc="*) [ -n "$cur" ] && echo "$cur: MISSED (check passed)" >> $d/result.txt; cur="";;
    esac
  done < $d/checks.log
  echo "== $d"; cat $d/result.txt
done
