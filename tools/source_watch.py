#!/usr/bin/env python3
"""Source watch (DESIGN 5.5 / 15.10): has the source a property is anchored in changed since the model was written?

    tools/source_watch.py --record          rewrite tools/source_watch.json from /repo (done by hand when the model is
                                            brought up to date with a new upstream source; never at check time)
    changed_files(prop) -> [files]          used by ./check: anchored files whose normalised text differs from the record

The answer proves nothing either way.  A changed file only makes the checks of the properties anchored in it run their
generators with a multiple of the routine budget (and say so in their evidence), so that a change in a rarely exercised
path meets a deeper search; it never raises an alarm by itself."""
import hashlib, json, os, re, sys
ROOT = os.path.dirname(os.path.dirname(os.path.abspath(__file__)))
REC = os.path.join(ROOT, "tools", "source_watch.json")


def norm_hash(path):
    try:
        src = open(path).read()
    except OSError:
        return None
    src = re.sub(r"/\*.*?\*/", "", src, flags=re.S)
    src = re.sub(r"//[^\n]*", "", src)
    # the add-only fc-verif hook lines are part of the recorded text; test modules are not behaviour
    src = re.split(r"#\[cfg\(test\)\]", src)[0]
    src = re.sub(r"\s+", "", src)
    return hashlib.sha1(src.encode()).hexdigest()


def anchors():
    res = {}
    for l in open(os.path.join(ROOT, "properties.jsonl")):
        p = json.loads(l)
        res[p["id"]] = list(p.get("anchors", {}).get("files", []))
    return res


def changed_files(prop, repo="/repo"):
    try:
        rec = json.load(open(REC))
    except OSError:
        return []
    return [f for f in anchors().get(prop, []) if norm_hash(os.path.join(repo, f)) != rec.get(f)]


if __name__ == "__main__":
    repo = sys.argv[sys.argv.index("--repo") + 1] if "--repo" in sys.argv else "/repo"
    if "--record" in sys.argv:
        files = sorted({f for fs in anchors().values() for f in fs})
        json.dump({f: norm_hash(os.path.join(repo, f)) for f in files}, open(REC, "w"), indent=1)
        print(f"recorded {len(files)} files")
    else:
        for p in sorted(anchors()):
            print(p, changed_files(p, repo))
