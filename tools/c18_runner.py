"""
C18 pipeline of ./check (auto traits): translator + generated Lean environment + theorems + rustc probes.

  1 translate   cargo +nightly rustc -Zunpretty=expanded (std and alloc builds) -> tools/extract_types.py
                -> tools/gen_autotraits.py -> lean/FcGen/Types.lean            (regenerated on every run)
  2 prove       lake build FcProps.C18 (+ audit): every declaration of the generated table is Send / Sync
                whenever the neutral types it depends on are, for every assignment
  3 probes      cargo check of /verif/probes (path dependency on /repo) in std / alloc / no_std: rustc's
                trait solver on parametric obligations, concrete Send-only / Sync-only instantiations of all
                public combinators (tuple arities 1..12) and the opaque futures of the co-stream terminals
  4 decide      theorem fails   -> list the declarations the model refuses (lean --run), confirm with a rustc
                                   probe generated for that type, replay = type + field + rustc error
                probe fails     -> VIOLATION, replay = the probe that stops compiling with rustc's error
"""
import importlib.util, json, os, re, subprocess, sys, time

ROOT = os.path.dirname(os.path.dirname(os.path.abspath(__file__)))
LEAN = os.path.join(ROOT, "lean")
WORK = os.path.join(ROOT, "work")
PROBES = os.path.join(ROOT, "probes")
ENV = dict(os.environ, CARGO_NET_OFFLINE="true")


def sh(cmd, cwd=None, timeout=3000, env=None):
    p = subprocess.run(cmd, cwd=cwd, capture_output=True, text=True, env=env or ENV, timeout=timeout)
    return p.returncode, p.stdout, p.stderr


def load_check():
    spec = importlib.util.spec_from_loader("fc_check", loader=None)
    mod = importlib.util.module_from_spec(spec)
    src = open(os.path.join(ROOT, "check")).read()
    mod.__dict__["__file__"] = os.path.join(ROOT, "check")
    exec(compile(src.replace('if __name__ == "__main__":', "if False:"), "check", "exec"), mod.__dict__)
    return mod


def translate(notes):
    """returns (ok, report)"""
    os.makedirs(WORK, exist_ok=True)
    rc, o, e = sh([sys.executable, os.path.join(ROOT, "tools", "test_extract.py")])
    if rc != 0:
        notes.append("translator self-test failed: " + (o + e)[-800:])
        return False, {}
    tgt = os.path.join(WORK, "expand-target")
    env = dict(ENV, CARGO_TARGET_DIR=tgt)
    outs = {}
    for feat, flags in (("std", []), ("alloc", ["--no-default-features", "--features", "alloc"])):
        rc, out, err = sh(["cargo", "+nightly", "rustc", "--offline", "--lib"] + flags + ["--", "-Zunpretty=expanded"],
                          cwd="/repo", env=env)
        if rc != 0:
            notes.append(f"macro expansion ({feat}) failed: {err[-800:]}")
            return False, {}
        src = os.path.join(WORK, f"expanded-{feat}.rs")
        open(src, "w").write(out)
        js = os.path.join(WORK, f"types-{feat}.json")
        rc, o, e = sh([sys.executable, os.path.join(ROOT, "tools", "extract_types.py"), feat, js, src])
        if rc != 0:
            notes.append(f"extract_types ({feat}) failed: {e[-800:]}")
            return False, {}
        outs[feat] = js
    gen = os.path.join(LEAN, "FcGen", "Types.lean")
    os.makedirs(os.path.dirname(gen), exist_ok=True)
    tmp = gen + ".new"
    rep = os.path.join(WORK, "types-report.json")
    rc, o, e = sh([sys.executable, os.path.join(ROOT, "tools", "gen_autotraits.py"), outs["std"], outs["alloc"], tmp, rep])
    if rc != 0:
        notes.append(f"gen_autotraits failed: {e[-800:]}")
        return False, {}
    # only touch the file when its content changed (keeps lake's cache valid on an unchanged tree)
    if not os.path.exists(gen) or open(gen).read() != open(tmp).read():
        os.replace(tmp, gen)
    else:
        os.remove(tmp)
    report = json.load(open(rep))
    missing = [n for n in EXPECTED_ROOTS if n not in report.get("roots_std", [])]
    if missing:
        notes.append("translator: these produced types were not recognised as such (no impl of Future / Stream / "
                     "ConcurrentStream / Consumer found for them): " + ", ".join(missing))
        return False, report
    return True, report


def refused_decls():
    """which declarations does the model refuse? -> list of (build, trait, name)"""
    script = os.path.join(WORK, "c18_refused.lean")
    open(script, "w").write('''import FcGen.Types
open Fc.AT Fc.AT.Gen
def bad (tag tr : String) (env : List Decl) (names : List String) (roots : List Nat)
    (f : List Decl → (Nat → Rule) → Nat → Nat → Bool) : List String :=
  (List.range env.length).filterMap (fun i => if f env ext 12 i then none else
    (names[i]?).map (fun n => s!"{if roots.contains i then tag else "helper-" ++ tag} {tr} {n}"))
def main : IO Unit := do
  for l in bad "std" "Send" env_std names_std roots_std sendOK ++ bad "std" "Sync" env_std names_std roots_std syncOK ++
           bad "alloc" "Send" env_alloc names_alloc roots_alloc sendOK ++
           bad "alloc" "Sync" env_alloc names_alloc roots_alloc syncOK do
    IO.println l
''')
    sh(["lake", "build", "FcGen"], cwd=LEAN)
    rc, out, err = sh(["lake", "env", "lean", "--run", script], cwd=LEAN)
    rows = [tuple(l.split(" ", 2)) for l in out.splitlines() if l.strip()]
    # declarations that are not handed out by the crate (no impl of Future / Stream / ... ) and are not
    # Send/Sync by themselves are reported, not refused: they only matter as fields of produced types
    global HELPERS_NOT_AUTO
    HELPERS_NOT_AUTO = [r for r in rows if r[0].startswith("helper-")]
    return [r for r in rows if not r[0].startswith("helper-")], (err if rc != 0 else "")


HELPERS_NOT_AUTO = []

# produced types the translator must have recognised as such (guards the root detection itself)
EXPECTED_ROOTS = ["Join", "Join2", "Join12", "TryJoin", "TryJoin12", "Race", "Race12", "RaceOk", "RaceOk12", "Merge", "Merge12",
                  "Zip", "Zip12", "Chain", "Chain12", "WaitUntil", "FutureGroup", "StreamGroup", "Keyed", "FromStream",
                  "ForEachConsumer", "ForEachFut", "TryForEachConsumer", "TryForEachFut", "VecConsumer", "ResultVecConsumer",
                  "Map", "MapConsumer", "MapFuture", "Enumerate", "EnumerateConsumer", "Take", "TakeConsumer", "Limit",
                  "LimitConsumer", "IntoConcurrentStream"]


def run_probes(cfgs):
    """cargo check the probe crate; returns {cfg: None | error text}"""
    res = {}
    lock = os.path.join(PROBES, "Cargo.lock")
    if not os.path.exists(lock):
        import shutil
        shutil.copy("/repo/Cargo.lock", lock)
    for cfg in cfgs:
        feats = {"std": ["--features", "cfg-std"], "alloc": ["--features", "cfg-alloc"], "nostd": []}[cfg]
        rc, out, err = sh(["cargo", "check", "--offline", "--target-dir", os.path.join(PROBES, "target", cfg)] + feats,
                          cwd=PROBES)
        res[cfg] = None if rc == 0 else err
    return res


def ext_rules_check(notes):
    """compare the model's rule table for external type constructors (FcGen `ext`, `Rule.eval`, and the built-in
    rules for arrays, tuples, references, raw pointers) with rustc's verdicts (probes/src/bin/ext_rules.rs).
    returns a list of disagreements"""
    rc, out, err = sh(["cargo", "run", "-q", "--offline", "--features", "cfg-std,ext-rules", "--bin", "ext_rules",
                       "--target-dir", os.path.join(PROBES, "target", "std")], cwd=PROBES)
    if rc != 0:
        notes.append("ext_rules probe failed to build/run: " + err[-600:])
        return ["ext_rules probe did not run"]
    rustc = {}
    for l in out.splitlines():
        ws = l.split()
        if len(ws) == 4:
            rustc[(ws[0], ws[1])] = (ws[2], ws[3])
    script = os.path.join(WORK, "c18_rules.lean")
    open(script, "w").write('''import FcGen.Types
open Fc.AT Fc.AT.Gen
def mk : String → Bool × Bool | "B" => (true, true) | "S" => (true, false) | "Y" => (false, true) | _ => (false, false)
def show1 (name m : String) (t : Ty) : IO Unit := do
  let r := auto [] ext (fun _ => mk m) 4 t
  IO.println s!"{name} {m} {if r.1 then 1 else 0} {if r.2 then 1 else 0}"
def main : IO Unit := do
  for (name, id) in extNames do
    for m in ["B", "S", "Y", "N"] do show1 name m (.app id [.neu [0]])
    show1 name "-" (.app id [])
  for m in ["B", "S", "Y", "N"] do
    show1 "array" m (.array (.neu [0]))
    show1 "tuple" m (.tuple [.neu [0], .prim])
    show1 "ref" m (.ref (.neu [0]))
    show1 "refMut" m (.refMut (.neu [0]))
    show1 "ptr" m .ptr
''')
    rc, mout, merr = sh(["lake", "env", "lean", "--run", script], cwd=LEAN)
    if rc != 0:
        notes.append("rule table evaluation failed: " + merr[-600:])
        return ["rule table evaluation did not run"]
    model = {}
    for l in mout.splitlines():
        ws = l.split()
        if len(ws) == 4:
            model[(ws[0], ws[1])] = (ws[2], ws[3])
    bad = []
    for k, v in rustc.items():
        if k in model and model[k] != v:
            bad.append(f"{k[0]}<{k[1]}>: model (Send,Sync)={model[k]} rustc={v}")
        if k not in model:
            bad.append(f"{k[0]}<{k[1]}>: not in the model's table")
    notes.append(f"external-constructor rule table compared with rustc on {len(rustc)} (constructor, marker) pairs: "
                 f"{len(bad)} disagreements")
    return bad


def first_error(err):
    m = re.search(r"(error(\[E\d+\])?:.*?)(?=\n(?:error|warning)|\Z)", err, flags=re.S)
    return (m.group(1) if m else err)[:3000]


def count_probes():
    src = open(os.path.join(PROBES, "src", "lib.rs")).read()
    return len(re.findall(r"\bis_send::<|\bis_sync::<|\bval_send\(|\bval_sync\(", src)), src


def main(prop, tier, seed, replay):
    t0 = time.time()
    chk = load_check()
    notes = []
    if replay:
        print(open(replay).read())
        res = run_probes(["std", "alloc", "nostd"])
        bad = {c: e for c, e in res.items() if e}
        for c, e in bad.items():
            print(f"--- probes [{c}] fail:\n{first_error(e)}")
        refused, _ = refused_decls()
        for r in refused:
            print("model refuses:", *r)
        return 1 if (bad or refused) else 0

    with chk.lock("lake"):
        ok_tr, report = translate(notes)
    pr = chk.prove(prop) if ok_tr else {"ok": False, "theorems": [], "axioms": {}, "detail": "translation failed",
                                         "module": "FcProps.C18"}
    refused = []
    if ok_tr:
        refused, e = refused_decls()
        if e:
            notes.append("listing refused declarations failed: " + e[-500:])
        if HELPERS_NOT_AUTO:
            notes.append("helper declarations that are not Send/Sync by themselves and are not handed out by the crate "
                         "(not part of the property unless a produced type contains them, which the theorems would show): "
                         + "; ".join(" ".join(r) for r in HELPERS_NOT_AUTO[:20]))
    with chk.lock("cargo"):
        probes = run_probes(["std", "alloc", "nostd"])
        rule_bad = ext_rules_check(notes) if ok_tr else []
    nprobes, probe_src = count_probes()
    probe_fail = {c: e for c, e in probes.items() if e}
    if rule_bad:
        probe_fail["rule-table"] = "error: the model's auto-trait rules for external constructors disagree with rustc:\n" + "\n".join(rule_bad)

    rc = 0
    lines = []
    replay_path = None
    if refused or probe_fail:
        what = []
        for (build, tr, name) in refused[:40]:
            what.append(f"model: `{name}` ({build} build) is not {tr} although every type parameter / associated output it depends on is")
        for c, e in probe_fail.items():
            what.append(f"rustc [{c}]: probe does not compile:\n{first_error(e)}")
        concrete = bool(probe_fail)
        text = ("C18 violated: a type produced by the crate is not Send/Sync although its children and their outputs are.\n"
                + "\n".join(what) + "\nre-run: ./check C18 --replay <this file>\n")
        replay_path = chk.write_replay(prop, "autotraits", "", text)
        lines.append(f"VIOLATION property={prop} replay={replay_path}" + ("" if concrete else " no-failing-input-found"))
        rc = 1
    elif not pr["ok"] or not ok_tr:
        text = ("no failing type found, but the property is no longer shown to hold:\n" + pr["detail"][:2000] + "\n" + "\n".join(notes))
        replay_path = chk.write_replay(prop, "no-failing-input", "", text)
        lines.append(f"VIOLATION property={prop} replay={replay_path} no-failing-input-found")
        rc = 1

    ndecl = (report.get("decls_std", 0) + report.get("decls_alloc", 0)) if report else 0
    ev = {
        "property_id": prop, "tier": tier, "seed": seed, "level": "proof",
        "coverage": {
            "obligations": max(len(pr["theorems"]), 1),
            "discharged": len(pr["theorems"]) if pr["ok"] else 0,
            "checker_cmd": "python3 tools/extract_types.py + tools/gen_autotraits.py (regenerate lean/FcGen/Types.lean from /repo) "
                           "&& cd lean && lake build FcProps.C18 && lake env lean FcProps/C18.lean  (# print axioms audit); "
                           "cd probes && cargo check --offline [--features cfg-std|cfg-alloc]",
            "trusted_base": [
                "Lean 4.33 kernel (decide +kernel over the generated table)",
                "axioms per theorem: " + json.dumps(pr["axioms"]),
                "translator tools/extract_types.py + tools/gen_autotraits.py (hand-written parser of rustc's macro-expanded output)",
                "the auto-trait rule table of external constructors (Arc, Mutex, Waker, Vec, Slab, SmallVec, BTreeSet, FixedBitSet, "
                "FuturesUnordered, MaybeUninit, ManuallyDrop, ...) in tools/gen_autotraits.py, validated by the rustc probes",
                "rustc's trait solver (probes) for the opaque async-fn futures, which have no declaration in the source",
            ],
            "theorems": pr["theorems"],
            "declarations_translated": ndecl,
            "evaluations": ndecl * 2 + nprobes * 3,
            "distinct_nontrivial": ndecl,
            "rule": "one obligation per struct/enum declaration of the macro-expanded crate source x {Send, Sync} x {std, alloc build} "
                    "(checked for all assignments by the theorems) plus the rustc probes (parametric obligations are checked by the "
                    "trait solver for every instantiation); non-trivial = a declaration with at least one field",
            "rustc_probes": nprobes,
            "probe_configurations": list(probes.keys()),
            "translator_report": {k: (v if not isinstance(v, (list, dict)) else (v if len(json.dumps(v)) < 600 else len(v)))
                                   for k, v in (report or {}).items()},
            "samples": ["future::join::array::Join<Fut, N>: fields OutputArray<<Fut as Future>::Output, N>, WakerArray<N>, PollArray<N>, FutureArray<Fut, N>",
                        "concurrent_stream::for_each::ForEachConsumer: count: Arc<AtomicUsize>, group: FuturesUnordered<ForEachFut<..>>, f: F",
                        "probe: val_send(&SendOnlyStream.co().for_each(move |x| { /* closure capturing a Cell */ }))"],
            "proof_status": "checked" if pr["ok"] else pr["detail"][:500],
        },
        "assumptions": [
            "opaque async-fn futures (for_each, try_for_each, collect, drive) are covered by rustc probes only (concrete Send-only "
            "instantiations), not by a Lean theorem: their field lists are compiler generated",
            "an unknown external type constructor is treated as neither Send nor Sync (conservative; would surface as a refused declaration)",
            "the theorems range over the declarations the crate hands out (impl Future / Stream / ConcurrentStream / Consumer / "
            "Into...; found by the translator, a fixed list of expected names guards the detection); helper types are "
            "covered as fields of those",
        ] + notes,
        "wall_s": round(time.time() - t0, 2),
        "violations": 1 if rc else 0,
    }
    os.makedirs(os.path.join(ROOT, "evidence"), exist_ok=True)
    json.dump(ev, open(os.path.join(ROOT, "evidence", f"{prop}.json"), "w"), indent=1)
    for l in lines:
        print(l)
    print(f"{prop} {tier}: theorems={len(pr['theorems'])} proof_ok={pr['ok']} declarations={ndecl} probes={nprobes} "
          f"refused={len(refused)} probe_failures={len(probe_fail)} wall={ev['wall_s']}s")
    return rc


if __name__ == "__main__":
    # `python3 tools/c18_runner.py --translate-only`: regenerate lean/FcGen/Types.lean from /repo's current source
    # (used by tools/setup.sh, so that a build never sees a table generated from another tree)
    if "--translate-only" in sys.argv:
        ns = []
        ok, _ = translate(ns)
        for n in ns:
            print(n)
        sys.exit(0 if ok else 1)
