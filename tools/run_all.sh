#!/bin/sh
# run every claimed quick check (as `vp check` would) and summarise
cd "$(dirname "$0")/.."
for p in $(python3 -c "import json;print(' '.join(c['property_id'] for c in json.load(open('MANIFEST.json'))['checks']))"); do
  out=$(./check $p --tier ${1:-quick} 2>&1); rc=$?
  echo "rc=$rc $(echo "$out" | tail -1)"
  echo "$out" | grep -E "VIOLATION|KNOWN-FINDING" 
done
