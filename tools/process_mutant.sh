#!/bin/sh
# usage: tools/process_mutant.sh <PROP> <name> <agent worktree name under /tmp/mut> <check> [<check> ...]
# 1. confirm the seeded change independently (tools/confirm_mutant.sh) and store it under seeded/<PROP>/<name>/
# 2. run the listed checks against it (tools/try_mutant.sh), log to seeded/<PROP>/<name>/checks.log
# 3. remove the agent's scratch worktree and output directory
set -u
prop="$1"; name="$2"; wt="$3"; shift 3
cd /verif
exec 9>/verif/work/.mutant.lock; flock 9
sh tools/confirm_mutant.sh /tmp/mut/$wt-out "$prop" "$name" > /dev/null 2>&1
cat seeded/$prop/$name/confirm.log
sh tools/try_mutant.sh /verif/seeded/$prop/$name/patch.diff "$@" > seeded/$prop/$name/checks.log 2>&1
grep -E "^===|VIOLATION|quick:" seeded/$prop/$name/checks.log
git -C /repo worktree remove --force /tmp/mut/$wt 2>/dev/null
rm -rf /tmp/mut/$wt-out /tmp/mut/$wt.prompt
