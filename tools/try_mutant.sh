#!/bin/sh
# usage: tools/try_mutant.sh <patch.diff> <prop> [<prop> ...]
# applies a seeded change to /repo, runs the quick checks, undoes the change (always).
# Holds work/.repo.lock exclusively meanwhile, so that no other check sees the modified tree.
set -u
patch="$1"; shift
cd /verif
mkdir -p work
exec 8>work/.repo.lock
flock 8
export FC_REPO_LOCK_HELD=1
if [ -n "$(git -C /repo status --porcelain --untracked-files=no)" ]; then echo "/repo not clean"; exit 2; fi
git -C /repo apply "$patch" || { echo "patch does not apply"; exit 2; }
# after the revert the generated C18 table is regenerated from the restored source (a C18 run on the
# modified tree leaves a table of that tree behind)
trap 'git -C /repo checkout -- . ; git -C /repo clean -fdq src tests ; case " $* " in *" C18 "*) python3 tools/c18_runner.py --translate-only >/dev/null 2>&1;; esac; echo "[reverted]"' EXIT
for p in "$@"; do
  echo "=== $p"
  ./check "$p" --tier quick 2>&1 | tail -4
  echo "rc=$?"
done
