//! Scripted children, task wakers and the event log shared by all harness cases.
//!
//! The case runs on one thread; the log and the per-case tables live in a thread-local.  In the
//! `mt` mode the wake-ups a child performs during its poll are issued from a second thread, and the
//! task waker holds that thread inside the crate's wake path (i.e. with the readiness lock held)
//! while the polling thread carries on — see `fire_threaded`.

use std::cell::{Cell, RefCell};
use std::sync::atomic::{AtomicBool, AtomicU64, Ordering};
use std::sync::{Condvar, Mutex};
use std::time::Duration;
use std::collections::VecDeque;
use std::future::Future;
use std::pin::Pin;
use std::sync::Arc;
use std::task::{Context, Poll, Wake, Waker};

use futures_core::Stream;

#[derive(Clone, Debug, PartialEq)]
pub enum Res {
    Pend,
    Ready(bool, usize),
    Item(usize),
    Fin,
    Panic,
}

impl Res {
    pub fn text(&self) -> String {
        match self {
            Res::Pend => "P".into(),
            Res::Ready(true, v) => format!("R{v}"),
            Res::Ready(false, v) => format!("E{v}"),
            Res::Item(v) => format!("I{v}"),
            Res::Fin => "F".into(),
            Res::Panic => "X".into(),
        }
    }
}

#[derive(Clone, Debug)]
pub struct Step {
    pub res: Res,
    pub fires: Vec<(usize, usize)>,
}

impl Step {
    pub fn text(&self) -> String {
        let mut s = self.res.text();
        for (c, a) in &self.fires {
            s.push_str(&format!("@{c}.{a}"));
        }
        s
    }
}

#[derive(Default)]
pub struct Ctx {
    pub log: Vec<String>,
    pub scripts: Vec<VecDeque<Step>>,
    /// wakers handed to each child, oldest first, with their class text
    pub handed: Vec<Vec<(Waker, String)>>,
    pub slot_of: Vec<usize>,
    pub task_wakers: Vec<(usize, Waker)>,
    pub subs: Vec<(usize, Waker)>,
    pub mute: bool,
    /// per child: a waker equivalent to the one of its latest poll has been invoked since that poll began
    /// (the child has done its part; a benign environment does not wake for it again)
    pub owed: Vec<bool>,
    /// statistics for the evidence file
    pub n_child_polls: usize,
}

thread_local! {
    pub static CTX: RefCell<Ctx> = RefCell::new(Ctx::default());
}

pub fn log(s: String) {
    PROGRESS.fetch_add(1, Ordering::Relaxed);
    if let Ok(mut g) = CUR.lock() {
        g.log.push(s.clone());
    }
    CTX.with(|c| c.borrow_mut().log.push(s));
}

/// The case being executed, mirrored outside the thread-local so that the watchdog can print it
/// when the executing thread hangs (e.g. deadlocks on the crate's readiness lock).
#[derive(Default)]
pub struct CurCase {
    pub header: String,
    pub scripts: Vec<String>,
    pub ops: Vec<String>,
    pub log: Vec<String>,
}

pub static CUR: Mutex<CurCase> = Mutex::new(CurCase { header: String::new(), scripts: Vec::new(), ops: Vec::new(), log: Vec::new() });
pub static PROGRESS: AtomicU64 = AtomicU64::new(0);

pub fn mirror_case(header: &str, scripts: Vec<String>) {
    PROGRESS.fetch_add(1, Ordering::Relaxed);
    if let Ok(mut g) = CUR.lock() {
        g.header = header.to_string();
        g.scripts = scripts;
    }
}

pub fn mirror_op(op: &str) {
    PROGRESS.fetch_add(1, Ordering::Relaxed);
    if let Ok(mut g) = CUR.lock() {
        g.ops.push(op.to_string());
    }
}

/// Watchdog: if the case makes no progress for `secs` seconds (a deadlock - every case takes
/// milliseconds), print it as far as it got, with the marker `an 97 0` as its last event, and end
/// the process with status 3.  The cases printed before it are complete.
pub fn start_watchdog(secs: u64) {
    std::thread::spawn(move || {
        let mut last = PROGRESS.load(Ordering::Relaxed);
        let mut idle = 0u64;
        loop {
            std::thread::sleep(Duration::from_millis(500));
            let now = PROGRESS.load(Ordering::Relaxed);
            if now != last {
                last = now;
                idle = 0;
                continue;
            }
            idle += 1;
            let started = CUR.lock().map(|g| !g.header.is_empty()).unwrap_or(false);
            if idle >= 2 * secs && started {
                let g = match CUR.lock() {
                    Ok(g) => g,
                    Err(p) => p.into_inner(),
                };
                let mut out = String::new();
                out.push_str(&g.header);
                out.push('\n');
                for l in &g.scripts {
                    out.push_str(l);
                    out.push('\n');
                }
                for o in &g.ops {
                    out.push_str("O ");
                    out.push_str(o);
                    out.push('\n');
                }
                for t in &g.log {
                    out.push_str("T ");
                    out.push_str(t);
                    out.push('\n');
                }
                out.push_str("T an 97 0\nEND\n");
                print!("{out}");
                use std::io::Write;
                let _ = std::io::stdout().flush();
                std::process::exit(3);
            }
        }
    });
}

pub fn reset() {
    settle();
    if let Ok(mut g) = CUR.lock() {
        *g = CurCase::default();
    }
    CTX.with(|c| *c.borrow_mut() = Ctx::default());
    #[cfg(feature = "verif")]
    futures_concurrency::__verif::reset();
}

/// log the crate's own view of its readiness bookkeeping (`ks <bits>/<count>/<p|->`), if the
/// `fc-verif` hook is compiled in and a readiness set has been touched in this case
pub fn ks() {
    #[cfg(feature = "verif")]
    match futures_concurrency::__verif::kernel_snapshot() {
        Some(s) => log(format!("ks {s}")),
        None => log("ks -".to_string()),
    }
}

/// a wake-up that is an operation of the history (not one fired from inside a child's poll)
pub fn fire_op(child: usize, age: usize) {
    settle();
    fire(child, age);
    ks();
}

pub fn set_mute(m: bool) {
    CTX.with(|c| c.borrow_mut().mute = m);
}

/// register a child; returns its id
pub fn add_child(script: Vec<Step>, slot: usize) -> usize {
    CTX.with(|c| {
        let mut c = c.borrow_mut();
        c.scripts.push(script.into());
        c.handed.push(Vec::new());
        c.slot_of.push(slot);
        c.scripts.len() - 1
    })
}

/// register a child under a given id (ids may be sparse: nested combinators number their leaves
/// `100*(c+1)+g`); missing ids in between get empty scripts
pub fn add_child_at(id: usize, script: Vec<Step>, slot: usize) {
    CTX.with(|c| {
        let mut c = c.borrow_mut();
        while c.scripts.len() <= id {
            c.scripts.push(VecDeque::new());
            c.handed.push(Vec::new());
            c.slot_of.push(0);
        }
        c.scripts[id] = script.into();
        c.slot_of[id] = slot;
    })
}

pub fn set_slot(child: usize, slot: usize) {
    CTX.with(|c| c.borrow_mut().slot_of[child] = slot);
}

pub struct TaskWaker {
    pub id: usize,
}

impl Wake for TaskWaker {
    fn wake(self: Arc<Self>) {
        woke(self.id);
    }
    fn wake_by_ref(self: &Arc<Self>) {
        woke(self.id);
    }
}

/// the task waker was invoked
fn woke(id: usize) {
    if IS_HELPER.with(|h| h.get()) {
        // on the helper thread of the `mt` mode: hand the event to the polling thread, then stay
        // inside the wake path (the crate holds its readiness lock around this call) until the
        // polling thread releases us or a short time has passed
        let mut f = FLIGHT.lock().unwrap();
        f.events.push(format!("wo {id}"));
        f.reached = true;
        FLIGHT_CV.notify_all();
        let (g, _) = FLIGHT_CV
            .wait_timeout_while(f, Duration::from_millis(2), |f| !f.release)
            .unwrap();
        drop(g);
    } else {
        log(format!("wo {id}"));
    }
}

/// `mt` mode: wake-ups performed during a child's poll come from another thread
pub static MT: AtomicBool = AtomicBool::new(false);

#[derive(Default)]
struct Flight {
    events: Vec<String>,
    /// the helper is inside the task waker
    reached: bool,
    /// the helper has returned from the wake-up
    done: bool,
    release: bool,
    active: bool,
}

static FLIGHT: Mutex<Flight> = Mutex::new(Flight {
    events: Vec::new(),
    reached: false,
    done: false,
    release: false,
    active: false,
});
static FLIGHT_CV: Condvar = Condvar::new();

thread_local! {
    static IS_HELPER: Cell<bool> = const { Cell::new(false) };
}

/// let the wake-up that is in flight on the helper thread (if any) run to completion
pub fn settle() {
    let mut f = FLIGHT.lock().unwrap();
    if !f.active {
        return;
    }
    f.release = true;
    FLIGHT_CV.notify_all();
    let (mut f, _) = FLIGHT_CV
        .wait_timeout_while(f, Duration::from_secs(20), |f| !f.done)
        .unwrap();
    let evs: Vec<String> = f.events.drain(..).collect();
    *f = Flight::default();
    drop(f);
    for e in evs {
        log(e);
    }
}

/// `mt` mode: invoke `w` on a helper thread; returns once that thread is inside the task waker
/// (still holding whatever lock the crate's wake path holds) or has returned from the wake-up
fn fire_threaded(w: Waker) {
    settle();
    {
        let mut f = FLIGHT.lock().unwrap();
        *f = Flight::default();
        f.active = true;
    }
    std::thread::spawn(move || {
        IS_HELPER.with(|h| h.set(true));
        let r = std::panic::catch_unwind(std::panic::AssertUnwindSafe(|| w.wake_by_ref()));
        drop(w);
        let mut f = FLIGHT.lock().unwrap();
        if r.is_err() {
            f.events.push("wp".into());
        }
        f.done = true;
        FLIGHT_CV.notify_all();
    });
    let f = FLIGHT.lock().unwrap();
    let (mut f, _) = FLIGHT_CV
        .wait_timeout_while(f, Duration::from_secs(20), |f| !f.reached && !f.done)
        .unwrap();
    let evs: Vec<String> = f.events.drain(..).collect();
    drop(f);
    for e in evs {
        log(e);
    }
}

/// the task waker with identity `id` (the same `Arc` for the same id)
pub fn task_waker(id: usize) -> Waker {
    CTX.with(|c| {
        let mut c = c.borrow_mut();
        if let Some((_, w)) = c.task_wakers.iter().find(|(i, _)| *i == id) {
            return w.clone();
        }
        let w: Waker = Arc::new(TaskWaker { id }).into();
        c.task_wakers.push((id, w.clone()));
        w
    })
}

/// classify a waker a child was handed: `p<id>` for a task waker, `s<slot>` otherwise
fn classify(c: &mut Ctx, waker: &Waker, slot: usize) -> String {
    for (id, tw) in &c.task_wakers {
        if tw.will_wake(waker) {
            return format!("p{id}");
        }
    }
    for (id, sw) in &c.subs {
        if sw.will_wake(waker) {
            return format!("s{id}");
        }
    }
    let id = if c.subs.iter().any(|(i, _)| *i == slot) {
        1000 + c.subs.len()
    } else {
        slot
    };
    c.subs.push((id, waker.clone()));
    format!("s{id}")
}

/// invoke the waker handed to `child` in its `age`-th most recent poll
pub fn fire(child: usize, age: usize) {
    fire_on(child, age, false)
}

fn fire_on(child: usize, age: usize, threaded: bool) {
    let found = CTX.with(|c| {
        let mut c = c.borrow_mut();
        let found = c.handed.get(child).and_then(|h| {
            if age < h.len() {
                Some(h[h.len() - 1 - age].clone())
            } else {
                None
            }
        });
        if let Some((w, _)) = &found {
            if c.handed[child].last().map(|l| l.0.will_wake(w)).unwrap_or(false) {
                if c.owed.len() <= child {
                    c.owed.resize(child + 1, false);
                }
                c.owed[child] = true;
            }
        }
        found
    });
    match found {
        None => log(format!("fi {child} {age} -")),
        Some((w, cls)) => {
            log(format!("fi {child} {age} {cls}"));
            if threaded {
                fire_threaded(w);
                return;
            }
            let r = std::panic::catch_unwind(std::panic::AssertUnwindSafe(|| w.wake_by_ref()));
            if r.is_err() {
                log("wp".into());
            }
        }
    }
}

/// a child (scripted or a nested combinator) is about to be polled: record and log the waker it is handed
pub fn child_begin(child: usize, cx: &mut Context<'_>) {
    let (slot, cls) = CTX.with(|c| {
        let mut c = c.borrow_mut();
        let slot = c.slot_of[child];
        let cls = classify(&mut c, cx.waker(), slot);
        let w = cx.waker().clone();
        c.handed[child].push((w, cls.clone()));
        if c.owed.len() <= child {
            c.owed.resize(child + 1, false);
        }
        c.owed[child] = false;
        c.n_child_polls += 1;
        (slot, cls)
    });
    log(format!("cb {child} {slot} {cls}"));
}

/// the common part of every scripted child's poll
pub fn poll_child(child: usize, cx: &mut Context<'_>) -> Res {
    let step = CTX.with(|c| {
        c.borrow_mut().scripts[child].pop_front().unwrap_or(Step {
            res: Res::Pend,
            fires: vec![],
        })
    });
    child_begin(child, cx);
    let mt = MT.load(Ordering::Relaxed);
    for (c2, age) in &step.fires {
        fire_on(*c2, *age, mt);
    }
    log(format!("ce {child} {}", step.res.text()));
    if step.res == Res::Panic {
        panic!("injected child panic");
    }
    step.res
}

/// a value produced by a child; its destructor is logged unless the harness itself owns it
#[derive(Debug)]
pub struct Tagged(pub usize);

impl Drop for Tagged {
    fn drop(&mut self) {
        let id = self.0;
        CTX.with(|c| {
            let mut c = c.borrow_mut();
            if !c.mute {
                c.log.push(format!("vd {id}"));
            }
        });
    }
}

impl std::fmt::Display for Tagged {
    fn fmt(&self, f: &mut std::fmt::Formatter<'_>) -> std::fmt::Result {
        write!(f, "{}", self.0)
    }
}
impl std::error::Error for Tagged {}

pub fn log_child_drop(child: usize) {
    log(format!("cd {child}"));
}

/// scripted future with output `Tagged`
#[derive(Debug)]
pub struct SFut(pub usize);
impl Future for SFut {
    type Output = Tagged;
    fn poll(self: Pin<&mut Self>, cx: &mut Context<'_>) -> Poll<Tagged> {
        match poll_child(self.0, cx) {
            Res::Ready(_, v) => Poll::Ready(Tagged(v)),
            _ => Poll::Pending,
        }
    }
}
impl Drop for SFut {
    fn drop(&mut self) {
        log_child_drop(self.0);
    }
}

/// scripted future with output `Result<Tagged, Tagged>`
#[derive(Debug)]
pub struct RFut(pub usize);
impl Future for RFut {
    type Output = Result<Tagged, Tagged>;
    fn poll(self: Pin<&mut Self>, cx: &mut Context<'_>) -> Poll<Self::Output> {
        match poll_child(self.0, cx) {
            Res::Ready(true, v) => Poll::Ready(Ok(Tagged(v))),
            Res::Ready(false, v) => Poll::Ready(Err(Tagged(v))),
            _ => Poll::Pending,
        }
    }
}
impl Drop for RFut {
    fn drop(&mut self) {
        log_child_drop(self.0);
    }
}

/// scripted stream with item `Tagged`
pub struct SStream(pub usize);
impl Stream for SStream {
    type Item = Tagged;
    fn poll_next(self: Pin<&mut Self>, cx: &mut Context<'_>) -> Poll<Option<Tagged>> {
        match poll_child(self.0, cx) {
            Res::Item(v) => Poll::Ready(Some(Tagged(v))),
            Res::Fin => Poll::Ready(None),
            _ => Poll::Pending,
        }
    }
    /// Streams whose id is 0 mod 3 know their length exactly (like `stream::iter`), those with 1 mod 3
    /// only an upper bound, the others nothing (the default hint): adapters that consult `size_hint`
    /// see all three kinds of source, including exhausted ones reporting `(0, Some(0))`.
    fn size_hint(&self) -> (usize, Option<usize>) {
        let left = items_left(self.0);
        match self.0 % 3 {
            0 => (left, Some(left)),
            1 => (0, Some(left)),
            _ => (0, None),
        }
    }
}

/// how many items child `c` still has in its script
pub fn items_left(c: usize) -> usize {
    // items before the end of the stream (steps after the end only exist for misbehaving combinators)
    CTX.with(|ctx| {
        ctx.borrow()
            .scripts
            .get(c)
            .map(|s| s.iter().take_while(|st| st.res != Res::Fin).filter(|st| matches!(st.res, Res::Item(_))).count())
            .unwrap_or(0)
    })
}

impl Drop for SStream {
    fn drop(&mut self) {
        log_child_drop(self.0);
    }
}

/// small deterministic PRNG (splitmix64)
pub struct Rng(pub u64);
impl Rng {
    pub fn next(&mut self) -> u64 {
        self.0 = self.0.wrapping_add(0x9E3779B97F4A7C15);
        let mut z = self.0;
        z = (z ^ (z >> 30)).wrapping_mul(0xBF58476D1CE4E5B9);
        z = (z ^ (z >> 27)).wrapping_mul(0x94D049BB133111EB);
        z ^ (z >> 31)
    }
    pub fn below(&mut self, n: usize) -> usize {
        if n == 0 {
            0
        } else {
            (self.next() % n as u64) as usize
        }
    }
    pub fn chance(&mut self, pct: usize) -> bool {
        self.below(100) < pct
    }
    pub fn pick<'a, T>(&mut self, xs: &'a [T]) -> &'a T {
        &xs[self.below(xs.len())]
    }
}
