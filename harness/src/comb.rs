//! Construction of the real combinators over scripted children, behind one object-safe trait.

use std::convert::Infallible;
use std::future::Future;
use std::pin::Pin;
use std::task::{Context, Poll};

use futures_concurrency::future::{FutureExt, Join, Race, RaceOk, TryJoin};
use futures_concurrency::stream::{Chain, Merge, StreamExt, Zip};
use futures_core::Stream;

use crate::core::*;

/// canonical outcome text of a future's output / a stream's item
pub trait OutText {
    fn text(&self) -> String;
}

pub trait Ids {
    fn ids(&self) -> Vec<usize>;
}

fn list(v: &[usize]) -> String {
    if v.is_empty() {
        "-".into()
    } else {
        v.iter().map(|x| x.to_string()).collect::<Vec<_>>().join(",")
    }
}

impl Ids for Tagged {
    fn ids(&self) -> Vec<usize> {
        vec![self.0]
    }
}
impl Ids for () {
    fn ids(&self) -> Vec<usize> {
        vec![]
    }
}
impl Ids for Infallible {
    fn ids(&self) -> Vec<usize> {
        vec![]
    }
}
impl<const N: usize> Ids for [Tagged; N] {
    fn ids(&self) -> Vec<usize> {
        self.iter().map(|t| t.0).collect()
    }
}
impl Ids for Vec<Tagged> {
    fn ids(&self) -> Vec<usize> {
        self.iter().map(|t| t.0).collect()
    }
}
macro_rules! ids_tuple {
    ($($T:ident $i:tt),+) => {
        impl<$($T: Ids),+> Ids for ($($T,)+) {
            fn ids(&self) -> Vec<usize> {
                let mut v = Vec::new();
                $( v.extend(self.$i.ids()); )+
                v
            }
        }
    };
}
ids_tuple!(A 0);
ids_tuple!(A 0, B 1);
ids_tuple!(A 0, B 1, C 2);
ids_tuple!(A 0, B 1, C 2, D 3);
ids_tuple!(A 0, B 1, C 2, D 3, E 4);
ids_tuple!(A 0, B 1, C 2, D 3, E 4, F 5);
ids_tuple!(A 0, B 1, C 2, D 3, E 4, F 5, G 6);
ids_tuple!(A 0, B 1, C 2, D 3, E 4, F 5, G 6, H 7);
ids_tuple!(A 0, B 1, C 2, D 3, E 4, F 5, G 6, H 7, I 8);
ids_tuple!(A 0, B 1, C 2, D 3, E 4, F 5, G 6, H 7, I 8, J 9);
ids_tuple!(A 0, B 1, C 2, D 3, E 4, F 5, G 6, H 7, I 8, J 9, K 10);
ids_tuple!(A 0, B 1, C 2, D 3, E 4, F 5, G 6, H 7, I 8, J 9, K 10, L 11);

/// wrapper: output of a plain future (join / race / wait_until)
pub struct PlainOut<T>(pub T);
impl<T: Ids> OutText for PlainOut<T> {
    fn text(&self) -> String {
        format!("R 1 {}", list(&self.0.ids()))
    }
}
/// wrapper: output of try_join
pub struct TryOut<T>(pub Result<T, Tagged>);
impl<T: Ids> OutText for TryOut<T> {
    fn text(&self) -> String {
        match &self.0 {
            Ok(t) => format!("R 1 {}", list(&t.ids())),
            Err(e) => format!("R 0 {}", e.0),
        }
    }
}
/// wrapper: output of race_ok (the aggregate error derefs to the positional container)
pub struct RaceOkOut<E>(pub Result<Tagged, E>);
impl<E, C: ?Sized> OutText for RaceOkOut<E>
where
    E: std::ops::Deref<Target = C>,
    C: SliceIds,
{
    fn text(&self) -> String {
        match &self.0 {
            Ok(t) => format!("R 1 {}", t.0),
            Err(e) => format!("R 0 {}", list(&e.slice_ids())),
        }
    }
}
pub trait SliceIds {
    fn slice_ids(&self) -> Vec<usize>;
}
impl<const N: usize> SliceIds for [Tagged; N] {
    fn slice_ids(&self) -> Vec<usize> {
        self.iter().map(|t| t.0).collect()
    }
}
impl SliceIds for [Tagged] {
    fn slice_ids(&self) -> Vec<usize> {
        self.iter().map(|t| t.0).collect()
    }
}
impl SliceIds for Vec<Tagged> {
    fn slice_ids(&self) -> Vec<usize> {
        self.iter().map(|t| t.0).collect()
    }
}

pub trait Comb {
    /// poll once; returns the outcome text (`P`, `R ..`, `S ..`, `N`)
    fn poll(&mut self, cx: &mut Context<'_>) -> String;
    /// what the combinator's `Debug` impl shows, where that is its `PollState` table (array / Vec
    /// `join` and `try_join`): internal state the crate exposes through its public API
    fn dbg(&self) -> Option<String> {
        None
    }
}

pub struct FutComb<F: Future, W> {
    pub fut: Pin<Box<F>>,
    pub wrap: fn(F::Output) -> W,
    pub dbg: Option<fn(&F) -> String>,
}
impl<F: Future, W: OutText> Comb for FutComb<F, W> {
    fn dbg(&self) -> Option<String> {
        self.dbg.map(|d| d(&self.fut))
    }
    fn poll(&mut self, cx: &mut Context<'_>) -> String {
        match self.fut.as_mut().poll(cx) {
            Poll::Pending => "P".into(),
            Poll::Ready(o) => {
                let w = (self.wrap)(o);
                let t = w.text();
                set_mute(true);
                drop(w);
                set_mute(false);
                t
            }
        }
    }
}

pub struct StreamComb<S> {
    pub s: Pin<Box<S>>,
}
impl<S: Stream> Comb for StreamComb<S>
where
    S::Item: Ids,
{
    fn poll(&mut self, cx: &mut Context<'_>) -> String {
        match self.s.as_mut().poll_next(cx) {
            Poll::Pending => "P".into(),
            Poll::Ready(None) => "N".into(),
            Poll::Ready(Some(item)) => {
                let t = format!("S 0 {}", list(&item.ids()));
                set_mute(true);
                drop(item);
                set_mute(false);
                t
            }
        }
    }
}

fn fut_comb<F: Future + 'static, W: OutText + 'static>(f: F, wrap: fn(F::Output) -> W) -> Box<dyn Comb>
where
    F::Output: 'static,
{
    Box::new(FutComb {
        fut: Box::pin(f),
        wrap,
        dbg: None,
    })
}
/// the same for a combinator whose `Debug` output is its poll-state table
fn fut_comb_dbg<F: Future + std::fmt::Debug + 'static, W: OutText + 'static>(f: F, wrap: fn(F::Output) -> W) -> Box<dyn Comb>
where
    F::Output: 'static,
{
    Box::new(FutComb {
        fut: Box::pin(f),
        wrap,
        dbg: Some(|f| format!("{f:?}")),
    })
}
fn stream_comb<S: Stream + 'static>(s: S) -> Box<dyn Comb>
where
    S::Item: Ids,
{
    Box::new(StreamComb { s: Box::pin(s) })
}

/// array sizes the harness instantiates
pub const ARRAY_SIZES: &[usize] = &[0, 1, 2, 3, 4, 5, 8, 22, 23, 64, 65, 200];

macro_rules! with_array_size {
    ($n:expr, $mac:ident) => {
        match $n {
            0 => $mac!(0),
            1 => $mac!(1),
            2 => $mac!(2),
            3 => $mac!(3),
            4 => $mac!(4),
            5 => $mac!(5),
            8 => $mac!(8),
            22 => $mac!(22),
            23 => $mac!(23),
            64 => $mac!(64),
            65 => $mac!(65),
            200 => $mac!(200),
            _ => panic!("unsupported array size"),
        }
    };
}

macro_rules! tuple_of {
    ($T:ident, 1) => { ($T(0),) };
    ($T:ident, 2) => { ($T(0), $T(1)) };
    ($T:ident, 3) => { ($T(0), $T(1), $T(2)) };
    ($T:ident, 4) => { ($T(0), $T(1), $T(2), $T(3)) };
    ($T:ident, 5) => { ($T(0), $T(1), $T(2), $T(3), $T(4)) };
    ($T:ident, 6) => { ($T(0), $T(1), $T(2), $T(3), $T(4), $T(5)) };
    ($T:ident, 7) => { ($T(0), $T(1), $T(2), $T(3), $T(4), $T(5), $T(6)) };
    ($T:ident, 8) => { ($T(0), $T(1), $T(2), $T(3), $T(4), $T(5), $T(6), $T(7)) };
    ($T:ident, 9) => { ($T(0), $T(1), $T(2), $T(3), $T(4), $T(5), $T(6), $T(7), $T(8)) };
    ($T:ident, 10) => { ($T(0), $T(1), $T(2), $T(3), $T(4), $T(5), $T(6), $T(7), $T(8), $T(9)) };
    ($T:ident, 11) => { ($T(0), $T(1), $T(2), $T(3), $T(4), $T(5), $T(6), $T(7), $T(8), $T(9), $T(10)) };
    ($T:ident, 12) => { ($T(0), $T(1), $T(2), $T(3), $T(4), $T(5), $T(6), $T(7), $T(8), $T(9), $T(10), $T(11)) };
}

macro_rules! with_arity {
    ($n:expr, $mac:ident) => {
        match $n {
            1 => $mac!(1),
            2 => $mac!(2),
            3 => $mac!(3),
            4 => $mac!(4),
            5 => $mac!(5),
            6 => $mac!(6),
            7 => $mac!(7),
            8 => $mac!(8),
            9 => $mac!(9),
            10 => $mac!(10),
            11 => $mac!(11),
            12 => $mac!(12),
            _ => panic!("unsupported arity"),
        }
    };
}

/// container kinds
#[derive(Clone, Copy, Debug, PartialEq)]
pub enum Kind {
    Vec,
    Arr,
    Tup,
    Ext,
}
impl Kind {
    pub fn name(self) -> &'static str {
        match self {
            Kind::Vec => "vec",
            Kind::Arr => "arr",
            Kind::Tup => "tup",
            Kind::Ext => "ext",
        }
    }
}

pub fn build_join(kind: Kind, n: usize) -> Box<dyn Comb> {
    match kind {
        #[cfg(feature = "cfg-alloc")]
        Kind::Vec => fut_comb_dbg((0..n).map(SFut).collect::<Vec<_>>().join(), PlainOut),
        #[cfg(not(feature = "cfg-alloc"))]
        Kind::Vec => unreachable!(),
        Kind::Arr => {
            macro_rules! m {
                ($N:literal) => {
                    fut_comb_dbg(std::array::from_fn::<_, $N, _>(SFut).join(), PlainOut)
                };
            }
            with_array_size!(n, m)
        }
        Kind::Tup => {
            if n == 0 {
                return fut_comb(().join(), PlainOut);
            }
            macro_rules! m {
                ($N:tt) => {
                    fut_comb(tuple_of!(SFut, $N).join(), PlainOut)
                };
            }
            with_arity!(n, m)
        }
        Kind::Ext => fut_comb(FutureExt::join(SFut(0), SFut(1)), PlainOut),
    }
}

pub fn build_try_join(kind: Kind, n: usize) -> Box<dyn Comb> {
    match kind {
        #[cfg(feature = "cfg-alloc")]
        Kind::Vec => fut_comb_dbg((0..n).map(RFut).collect::<Vec<_>>().try_join(), TryOut),
        #[cfg(not(feature = "cfg-alloc"))]
        Kind::Vec => unreachable!(),
        Kind::Arr => {
            macro_rules! m {
                ($N:literal) => {
                    fut_comb_dbg(std::array::from_fn::<_, $N, _>(RFut).try_join(), TryOut)
                };
            }
            with_array_size!(n, m)
        }
        _ => {
            macro_rules! m {
                ($N:tt) => {
                    fut_comb(tuple_of!(RFut, $N).try_join(), TryOut)
                };
            }
            with_arity!(n, m)
        }
    }
}

pub fn build_race(kind: Kind, n: usize) -> Box<dyn Comb> {
    match kind {
        #[cfg(feature = "cfg-alloc")]
        Kind::Vec => fut_comb((0..n).map(SFut).collect::<Vec<_>>().race(), PlainOut),
        #[cfg(not(feature = "cfg-alloc"))]
        Kind::Vec => unreachable!(),
        Kind::Arr => {
            macro_rules! m {
                ($N:literal) => {
                    fut_comb(std::array::from_fn::<_, $N, _>(SFut).race(), PlainOut)
                };
            }
            with_array_size!(n, m)
        }
        Kind::Tup => {
            macro_rules! m {
                ($N:tt) => {
                    fut_comb(tuple_of!(SFut, $N).race(), PlainOut)
                };
            }
            with_arity!(n, m)
        }
        Kind::Ext => fut_comb(FutureExt::race(SFut(0), SFut(1)), PlainOut),
    }
}

pub fn build_race_ok(kind: Kind, n: usize) -> Box<dyn Comb> {
    match kind {
        #[cfg(feature = "cfg-alloc")]
        Kind::Vec => fut_comb((0..n).map(RFut).collect::<Vec<_>>().race_ok(), RaceOkOut),
        #[cfg(not(feature = "cfg-alloc"))]
        Kind::Vec => unreachable!(),
        Kind::Arr => {
            macro_rules! m {
                ($N:literal) => {
                    fut_comb(std::array::from_fn::<_, $N, _>(RFut).race_ok(), RaceOkOut)
                };
            }
            with_array_size!(n, m)
        }
        _ => {
            macro_rules! m {
                ($N:tt) => {
                    fut_comb(tuple_of!(RFut, $N).race_ok(), RaceOkOut)
                };
            }
            with_arity!(n, m)
        }
    }
}

pub fn build_merge(kind: Kind, n: usize) -> Box<dyn Comb> {
    match kind {
        #[cfg(feature = "cfg-alloc")]
        Kind::Vec => stream_comb((0..n).map(SStream).collect::<Vec<_>>().merge()),
        #[cfg(not(feature = "cfg-alloc"))]
        Kind::Vec => unreachable!(),
        Kind::Arr => {
            macro_rules! m {
                ($N:literal) => {
                    stream_comb(std::array::from_fn::<_, $N, _>(SStream).merge())
                };
            }
            with_array_size!(n, m)
        }
        Kind::Tup => {
            if n == 0 {
                return stream_comb(().merge());
            }
            macro_rules! m {
                ($N:tt) => {
                    stream_comb(tuple_of!(SStream, $N).merge())
                };
            }
            with_arity!(n, m)
        }
        Kind::Ext => stream_comb(StreamExt::merge(SStream(0), SStream(1))),
    }
}

pub fn build_zip(kind: Kind, n: usize) -> Box<dyn Comb> {
    match kind {
        #[cfg(feature = "cfg-alloc")]
        Kind::Vec => stream_comb((0..n).map(SStream).collect::<Vec<_>>().zip()),
        #[cfg(not(feature = "cfg-alloc"))]
        Kind::Vec => unreachable!(),
        Kind::Arr => {
            macro_rules! m {
                ($N:literal) => {
                    stream_comb(std::array::from_fn::<_, $N, _>(SStream).zip())
                };
            }
            with_array_size!(n, m)
        }
        Kind::Tup => {
            macro_rules! m {
                ($N:tt) => {
                    stream_comb(tuple_of!(SStream, $N).zip())
                };
            }
            with_arity!(n, m)
        }
        Kind::Ext => stream_comb(StreamExt::zip(SStream(0), SStream(1))),
    }
}

pub fn build_chain(kind: Kind, n: usize) -> Box<dyn Comb> {
    match kind {
        #[cfg(feature = "cfg-alloc")]
        Kind::Vec => stream_comb((0..n).map(SStream).collect::<Vec<_>>().chain()),
        #[cfg(not(feature = "cfg-alloc"))]
        Kind::Vec => unreachable!(),
        Kind::Arr => {
            macro_rules! m {
                ($N:literal) => {
                    stream_comb(std::array::from_fn::<_, $N, _>(SStream).chain())
                };
            }
            with_array_size!(n, m)
        }
        Kind::Tup => {
            macro_rules! m {
                ($N:tt) => {
                    stream_comb(tuple_of!(SStream, $N).chain())
                };
            }
            with_arity!(n, m)
        }
        Kind::Ext => stream_comb(StreamExt::chain(SStream(0), SStream(1))),
    }
}

/// child 0 = deadline, child 1 = inner
pub fn build_wait_f() -> Box<dyn Comb> {
    fut_comb(FutureExt::wait_until(SFut(1), SFut(0)), PlainOut)
}
pub fn build_wait_s() -> Box<dyn Comb> {
    stream_comb(StreamExt::wait_until(SStream(1), SFut(0)))
}
