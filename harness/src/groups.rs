//! FutureGroup / StreamGroup (plain and keyed) behind one object-safe trait.
#![cfg(feature = "cfg-alloc")]

use std::pin::Pin;
use std::task::{Context, Poll};

use futures_concurrency::future::FutureGroup;
use futures_concurrency::stream::StreamGroup;
use futures_core::Stream;

use crate::core::*;

fn key_num<K: std::fmt::Debug>(k: &K) -> usize {
    let s = format!("{:?}", k);
    s.trim_start_matches("Key(")
        .trim_end_matches(')')
        .parse()
        .expect("Key debug format")
}

pub trait GroupDyn {
    fn poll(&mut self, cx: &mut Context<'_>) -> String;
    /// insert child `c`; returns the key
    fn insert(&mut self, c: usize) -> usize;
    /// remove with the key returned by the j-th insert; `None` if there is no such insert
    fn remove(&mut self, j: usize) -> Option<(usize, bool)>;
    fn reserve(&mut self, k: usize);
    fn extend(&mut self, cs: &[usize]) -> bool;
    fn len(&self) -> usize;
    fn is_empty(&self) -> bool;
    fn contains(&mut self, j: usize) -> Option<(usize, bool)>;
    fn capacity(&self) -> usize;
}

fn item_text(key: usize, t: Tagged) -> String {
    let s = format!("S {} {}", key, t.0);
    set_mute(true);
    drop(t);
    set_mute(false);
    s
}

macro_rules! group_impl {
    ($Name:ident, $Inner:ty, $Child:ident, $KeyTy:ty, $keyed:expr, $is_future:tt) => {
        pub struct $Name {
            pub g: $Inner,
            pub keys: Vec<$KeyTy>,
        }
        impl GroupDyn for $Name {
            fn poll(&mut self, cx: &mut Context<'_>) -> String {
                match Pin::new(&mut self.g).poll_next(cx) {
                    Poll::Pending => "P".into(),
                    Poll::Ready(None) => "N".into(),
                    Poll::Ready(Some(item)) => {
                        let (k, t) = $keyed(item);
                        item_text(k, t)
                    }
                }
            }
            fn insert(&mut self, c: usize) -> usize {
                let key = self.g.insert($Child(c));
                self.keys.push(key);
                key_num(&key)
            }
            fn remove(&mut self, j: usize) -> Option<(usize, bool)> {
                let key = *self.keys.get(j)?;
                let present = self.g.remove(key);
                Some((key_num(&key), present))
            }
            fn reserve(&mut self, k: usize) {
                self.g.reserve(k);
            }
            fn extend(&mut self, cs: &[usize]) -> bool {
                group_impl!(@extend $is_future, self, cs, $Child)
            }
            fn len(&self) -> usize {
                self.g.len()
            }
            fn is_empty(&self) -> bool {
                self.g.is_empty()
            }
            fn contains(&mut self, j: usize) -> Option<(usize, bool)> {
                let key = *self.keys.get(j)?;
                let p = self.g.contains_key(key);
                Some((key_num(&key), p))
            }
            fn capacity(&self) -> usize {
                self.g.capacity()
            }
        }
    };
    (@extend true, $self:ident, $cs:ident, $Child:ident) => {{
        $self.g.extend($cs.iter().map(|c| $Child(*c)).collect::<Vec<_>>());
        true
    }};
    (@extend false, $self:ident, $cs:ident, $Child:ident) => {{
        let _ = $cs;
        false
    }};
}

group_impl!(
    FPlain,
    FutureGroup<SFut>,
    SFut,
    futures_concurrency::future::future_group::Key,
    |t: Tagged| (0usize, t),
    true
);
group_impl!(
    FKeyed,
    futures_concurrency::future::future_group::Keyed<SFut>,
    SFut,
    futures_concurrency::future::future_group::Key,
    |(k, t): (futures_concurrency::future::future_group::Key, Tagged)| (key_num(&k), t),
    true
);
group_impl!(
    SPlain,
    StreamGroup<SStream>,
    SStream,
    futures_concurrency::stream::stream_group::Key,
    |t: Tagged| (0usize, t),
    false
);
group_impl!(
    SKeyed,
    futures_concurrency::stream::stream_group::Keyed<SStream>,
    SStream,
    futures_concurrency::stream::stream_group::Key,
    |(k, t): (futures_concurrency::stream::stream_group::Key, Tagged)| (key_num(&k), t),
    false
);

/// runs every operation under `catch_unwind`: a panic inside a group operation (other than a
/// child's scripted panic during `poll`, which the caller handles) is logged as `an 99 0`, the
/// group is considered poisoned and all later operations are skipped.
pub struct Guarded {
    inner: Box<dyn GroupDyn>,
    pub poisoned: bool,
}

impl Guarded {
    fn run<T>(&mut self, default: T, f: impl FnOnce(&mut Box<dyn GroupDyn>) -> T) -> T {
        if self.poisoned {
            return default;
        }
        let inner = &mut self.inner;
        match std::panic::catch_unwind(std::panic::AssertUnwindSafe(|| f(inner))) {
            Ok(v) => v,
            Err(_) => {
                self.poisoned = true;
                log("an 99 0".into());
                default
            }
        }
    }
}

impl GroupDyn for Guarded {
    fn poll(&mut self, cx: &mut Context<'_>) -> String {
        // child panics unwind through here and are caught by `do_poll`
        if self.poisoned {
            return "P".into();
        }
        self.inner.poll(cx)
    }
    fn insert(&mut self, c: usize) -> usize {
        self.run(usize::MAX, |g| g.insert(c))
    }
    fn remove(&mut self, j: usize) -> Option<(usize, bool)> {
        self.run(None, |g| g.remove(j))
    }
    fn reserve(&mut self, k: usize) {
        self.run((), |g| g.reserve(k))
    }
    fn extend(&mut self, cs: &[usize]) -> bool {
        self.run(false, |g| g.extend(cs))
    }
    fn len(&self) -> usize {
        self.inner.len()
    }
    fn is_empty(&self) -> bool {
        self.inner.is_empty()
    }
    fn contains(&mut self, j: usize) -> Option<(usize, bool)> {
        self.run(None, |g| g.contains(j))
    }
    fn capacity(&self) -> usize {
        self.inner.capacity()
    }
}

/// how the group is constructed (all of them public API)
#[derive(Clone, Debug)]
pub enum Ctor {
    /// `new()` (30 %) / `default()`
    New,
    Default,
    /// `with_capacity(k)` — observably `new()` followed by `reserve(k)`
    WithCapacity(usize),
    /// `from_iter(children)` — FutureGroup: `new()` + `extend`; StreamGroup: `with_capacity(len)` + inserts
    FromIter(Vec<usize>),
}

pub fn build_group(stream: bool, keyed: bool) -> Box<dyn GroupDyn> {
    build_group_with(stream, keyed, Ctor::New)
}

pub fn build_group_with(stream: bool, keyed: bool, ctor: Ctor) -> Box<dyn GroupDyn> {
    let inner: Box<dyn GroupDyn> = match (stream, ctor) {
        (_, Ctor::New) => build_group_raw(stream, keyed),
        (false, Ctor::Default) => fgroup(FutureGroup::default(), keyed),
        (true, Ctor::Default) => sgroup(StreamGroup::new(), keyed),
        (false, Ctor::WithCapacity(k)) => fgroup(FutureGroup::with_capacity(k), keyed),
        (true, Ctor::WithCapacity(k)) => sgroup(StreamGroup::with_capacity(k), keyed),
        (false, Ctor::FromIter(cs)) => fgroup(cs.iter().map(|c| SFut(*c)).collect::<FutureGroup<SFut>>(), keyed),
        (true, Ctor::FromIter(cs)) => sgroup(cs.iter().map(|c| SStream(*c)).collect::<StreamGroup<SStream>>(), keyed),
    };
    Box::new(Guarded { inner, poisoned: false })
}

fn fgroup(g: FutureGroup<SFut>, keyed: bool) -> Box<dyn GroupDyn> {
    if keyed {
        Box::new(FKeyed { g: g.keyed(), keys: vec![] })
    } else {
        Box::new(FPlain { g, keys: vec![] })
    }
}
fn sgroup(g: StreamGroup<SStream>, keyed: bool) -> Box<dyn GroupDyn> {
    if keyed {
        Box::new(SKeyed { g: g.keyed(), keys: vec![] })
    } else {
        Box::new(SPlain { g, keys: vec![] })
    }
}

fn build_group_raw(stream: bool, keyed: bool) -> Box<dyn GroupDyn> {
    match (stream, keyed) {
        (false, false) => Box::new(FPlain {
            g: FutureGroup::new(),
            keys: vec![],
        }),
        (false, true) => Box::new(FKeyed {
            g: FutureGroup::new().keyed(),
            keys: vec![],
        }),
        (true, false) => Box::new(SPlain {
            g: StreamGroup::new(),
            keys: vec![],
        }),
        (true, true) => Box::new(SKeyed {
            g: StreamGroup::new().keyed(),
            keys: vec![],
        }),
    }
}

/// mirror of slab's key discipline, used only to label members inserted through `extend`
/// (whose keys the API does not return); every key the API does return is checked against it.
#[derive(Default)]
pub struct SlabMirror {
    entries: Vec<Option<usize>>, // None = occupied, Some(next) = vacant
    next: usize,
}
impl SlabMirror {
    pub fn insert(&mut self) -> usize {
        let key = self.next;
        if key == self.entries.len() {
            self.entries.push(None);
            self.next = key + 1;
        } else {
            self.next = self.entries[key].expect("vacant");
            self.entries[key] = None;
        }
        key
    }
    pub fn remove(&mut self, key: usize) {
        if key < self.entries.len() && self.entries[key].is_none() {
            self.entries[key] = Some(self.next);
            self.next = key;
        }
    }
}
