//! fc-harness — drives the real combinators of /repo with scripted children and logs the
//! canonical event trace the Lean model is compared with.
//!
//! usage: fc-harness <seed> <count> <families> [profile]
//!   families: comma separated subset of
//!     join,try_join,race,race_ok,merge,zip,chain,wait_f,wait_s,fgroup,sgroup
//!   profile: `random` (default) | `big` (boundary sizes) | a directed profile name
//! output (stdout): CASE / S / O / T / END blocks (see lean/Main.lean)

mod comb;
mod core;
#[cfg(feature = "co")]
mod costream;
#[cfg(feature = "cfg-alloc")]
mod groups;
#[cfg(feature = "cfg-alloc")]
mod nest;

use std::task::Context;

use crate::comb::*;
use crate::core::*;

#[cfg(feature = "cfg-std")]
const MODE: &str = "std";
#[cfg(not(feature = "cfg-std"))]
const MODE: &str = "direct";

#[cfg(feature = "cfg-alloc")]
const HAS_ALLOC: bool = true;
#[cfg(not(feature = "cfg-alloc"))]
const HAS_ALLOC: bool = false;

#[derive(Clone, Copy, PartialEq, Debug)]
enum ChildKind {
    Fut,
    Res,
    Stream,
}

struct Profile {
    name: String,
}

impl Profile {
    fn is(&self, s: &str) -> bool {
        self.name == s
    }
}

fn gen_fires(rng: &mut Rng, c: usize, n: usize) -> Vec<(usize, usize)> {
    let mut v = vec![];
    if rng.chance(30) {
        v.push((c, 0));
    }
    if n > 1 && rng.chance(22) {
        v.push((rng.below(n), rng.below(2)));
    }
    if rng.chance(4) {
        v.push((rng.below(n.max(1)), rng.below(3)));
    }
    v
}

thread_local! {
    /// `big` profile, "sparse" cases: no child has anything to say on its first poll, so that a poll of a wide
    /// container (more children than any per-poll budget or block size) has to visit every one of them
    static SPARSE: std::cell::Cell<bool> = const { std::cell::Cell::new(false) };
}

fn gen_script(rng: &mut Rng, kind: ChildKind, c: usize, n: usize, small: bool, prof: &Profile) -> Vec<Step> {
    let mut steps = vec![];
    let maxp = if small { 2 } else { 4 };
    let sparse = SPARSE.with(|s| s.get());
    match kind {
        ChildKind::Fut | ChildKind::Res => {
            let pend = rng.below(maxp).max(if sparse { 1 } else { 0 });
            for _ in 0..pend {
                steps.push(Step { res: Res::Pend, fires: gen_fires(rng, c, n) });
            }
            let never = !prof.is("drain") && rng.chance(if prof.is("stuck") { 35 } else { 7 });
            if !never {
                let ok = if kind == ChildKind::Res {
                    !rng.chance(if prof.is("errs") { 70 } else { 35 })
                } else {
                    true
                };
                let fires = if rng.chance(20) { gen_fires(rng, c, n) } else { vec![] };
                steps.push(Step { res: Res::Ready(ok, c * 100 + 1), fires });
                // what the child would answer if it were (wrongly) polled again after it resolved: a
                // second value.  A correct combinator never sees it; one that re-polls a finished child
                // then owns two values for one slot, which makes the ownership consequences observable.
                if zombie_steps(prof) && rng.chance(25) {
                    steps.push(Step { res: Res::Ready(ok, c * 100 + 51), fires: vec![] });
                }
            }
        }
        ChildKind::Stream => {
            let items = if prof.is("fair") && rng.chance(50) { 6 + rng.below(6) } else { rng.below(if small { 3 } else { 5 }) };
            let always = prof.is("fair") && rng.chance(60);
            if sparse {
                steps.push(Step { res: Res::Pend, fires: vec![] });
            }
            for k in 0..items {
                if !always {
                    let pend = rng.below(3).saturating_sub(if rng.chance(50) { 1 } else { 0 });
                    for _ in 0..pend {
                        steps.push(Step { res: Res::Pend, fires: gen_fires(rng, c, n) });
                    }
                }
                let fires = if rng.chance(15) { gen_fires(rng, c, n) } else { vec![] };
                steps.push(Step { res: Res::Item(c * 100 + k + 1), fires });
            }
            if rng.chance(30) {
                steps.push(Step { res: Res::Pend, fires: gen_fires(rng, c, n) });
            }
            if prof.is("drain") || !rng.chance(if prof.is("stuck") { 35 } else { 10 }) {
                steps.push(Step { res: Res::Fin, fires: vec![] });
                // as above: an item after the end, only ever seen by a combinator that polls an ended stream
                if zombie_steps(prof) && rng.chance(25) {
                    steps.push(Step { res: Res::Item(c * 100 + 51), fires: vec![] });
                    steps.push(Step { res: Res::Fin, fires: vec![] });
                }
            }
        }
    }
    steps
}

/// profiles whose scripts may continue after the child's final answer (never the executor-driven ones,
/// whose children are well-behaved by construction)
fn zombie_steps(prof: &Profile) -> bool {
    prof.is("random") || prof.is("stuck") || prof.is("panic") || prof.is("errs") || prof.is("big")
}

/// replace one step of one child by a panic (at most one per case)
fn inject_panic(rng: &mut Rng, scripts: &mut [Vec<Step>], pct: usize) {
    if scripts.is_empty() || !rng.chance(pct) {
        return;
    }
    let c = rng.below(scripts.len());
    if scripts[c].is_empty() {
        scripts[c].push(Step { res: Res::Panic, fires: vec![] });
    } else {
        let k = rng.below(scripts[c].len());
        scripts[c][k].res = Res::Panic;
        scripts[c].truncate(k + 1);
    }
}

/// the operations of the case, mirrored for the watchdog as they are decided
#[derive(Default)]
struct Ops(Vec<String>);

impl Ops {
    fn push(&mut self, s: String) {
        mirror_op(&s);
        self.0.push(s);
    }
}

struct Block {
    header: String,
    scripts: Vec<(usize, Vec<Step>)>,
    ops: Ops,
}

impl Block {
    /// mirror header and scripts for the watchdog (call again when they change)
    fn sync(&self) {
        let lines = self
            .scripts
            .iter()
            .map(|(c, s)| {
                let mut l = format!("S {c}");
                for st in s {
                    l.push(' ');
                    l.push_str(&st.text());
                }
                l
            })
            .collect();
        mirror_case(&self.header, lines);
    }

    fn print(&self, trace: &[String]) {
        let mut out = String::new();
        out.push_str(&self.header);
        out.push('\n');
        for (c, s) in &self.scripts {
            out.push_str(&format!("S {c}"));
            for st in s {
                out.push(' ');
                out.push_str(&st.text());
            }
            out.push('\n');
        }
        for o in &self.ops.0 {
            out.push_str("O ");
            out.push_str(o);
            out.push('\n');
        }
        for t in trace {
            out.push_str("T ");
            out.push_str(t);
            out.push('\n');
        }
        out.push_str("END\n");
        print!("{out}");
    }
}

fn pick_size(rng: &mut Rng, kind: Kind, min: usize, prof: &Profile) -> usize {
    let big = prof.is("big");
    match kind {
        Kind::Ext => 2,
        Kind::Tup => {
            let lo = min;
            if rng.chance(60) {
                lo + rng.below(4usize.saturating_sub(lo) + 1)
            } else {
                lo + rng.below(12 - lo + 1)
            }
        }
        Kind::Arr => {
            let opts: Vec<usize> = ARRAY_SIZES
                .iter()
                .cloned()
                .filter(|s| *s >= min && (big || *s <= 8))
                .collect();
            if big {
                *rng.pick(&opts)
            } else {
                *rng.pick(&opts)
            }
        }
        Kind::Vec => {
            if big {
                *rng.pick(&[22usize, 23, 63, 64, 65, 128, 129, 200])
            } else if rng.chance(75) {
                min + rng.below(5)
            } else {
                min + rng.below(13)
            }
        }
    }
}

fn final_outcome(o: &str, is_stream: bool) -> bool {
    if o == "X" {
        return true;
    }
    if is_stream {
        o == "N"
    } else {
        o.starts_with('R')
    }
}

/// poll the combinator once with task waker `w`, log `pb`/`pe`; returns the outcome text
fn do_poll(comb: &mut dyn FnMut(&mut Context<'_>) -> String, w: usize) -> String {
    let waker = task_waker(w);
    let mut cx = Context::from_waker(&waker);
    log(format!("pb {w}"));
    let r = std::panic::catch_unwind(std::panic::AssertUnwindSafe(|| comb(&mut cx)));
    let o = match r {
        Ok(s) => s,
        Err(_) => "X".to_string(),
    };
    settle();
    log(format!("pe {o}"));
    ks();
    o
}

/// poll a fixed-children combinator; afterwards log its poll-state table (`ps [..]`) where the crate's
/// `Debug` impl exposes it
fn poll_comb(c: &mut Box<dyn Comb>, w: usize) -> String {
    let o = do_poll(&mut |cx| c.poll(cx), w);
    if let Some(d) = c.dbg() {
        log(format!("ps {d}"));
    }
    o
}

/// directed profile `waves`: a block of "slow" children that pend the same number of times and are
/// woken together, so that many children resolve in the same poll (boundary sizes 22/23, 63/64/65,
/// 128/129, 200; slow block of boundary length at the front, the back or spread out); the others
/// are ready at once.
fn run_waves(rng: &mut Rng, fam: &str, id: &str) {
    reset();
    let (child_kind, is_stream) = match fam {
        "join" => (ChildKind::Fut, false),
        "try_join" | "race_ok" => (ChildKind::Res, false),
        "merge" | "zip" => (ChildKind::Stream, true),
        _ => (ChildKind::Fut, false),
    };
    let mut kinds = vec![Kind::Arr, Kind::Tup];
    if HAS_ALLOC {
        kinds.push(Kind::Vec);
        kinds.push(Kind::Vec);
    }
    let kind = *rng.pick(&kinds);
    // half of the cases: a slow block of boundary length inside a container that is at most two
    // children longer (the inline-state, bit-block and poll-budget style boundaries)
    let (n, k) = if kind == Kind::Vec && rng.chance(50) {
        let k = *rng.pick(&[22usize, 23, 63, 64, 65, 128]);
        let n = k + *rng.pick(&[0usize, 1, 1, 2, 3]);
        (n, k)
    } else {
        let n = match kind {
            Kind::Vec => *rng.pick(&[2usize, 3, 5, 8, 22, 23, 24, 63, 64, 65, 66, 127, 128, 129, 130, 200]),
            Kind::Arr => *rng.pick(&[2usize, 3, 5, 8, 22, 23, 64, 65, 200]),
            _ => 2 + rng.below(11),
        };
        let cands: Vec<usize> = [1usize, 2, n.saturating_sub(1), n, 21, 22, 23, 62, 63, 64, 65, 66, 128]
            .iter()
            .cloned()
            .filter(|k| *k >= 1 && *k <= n)
            .collect();
        let k = *rng.pick(&cands);
        (n, k)
    };
    let slow: Vec<usize> = match rng.below(3) {
        0 => (0..k).collect(),
        1 => (n - k..n).collect(),
        _ => {
            let mut all: Vec<usize> = (0..n).collect();
            for i in 0..n {
                let j = i + rng.below(n - i);
                all.swap(i, j);
            }
            let mut v = all[..k].to_vec();
            v.sort();
            v
        }
    };
    let m = 1 + rng.below(2);
    let err_child: Option<usize> = if child_kind == ChildKind::Res && rng.chance(25) { Some(rng.below(n)) } else { None };
    let model_fam = match (fam, kind) {
        ("join", Kind::Vec | Kind::Arr) => "joinSlice",
        ("join", _) => "joinTuple",
        ("try_join", Kind::Vec | Kind::Arr) => "tryJoinSlice",
        ("try_join", _) => "tryJoinTuple",
        ("race_ok", Kind::Arr) => "raceOkArr",
        ("race_ok", Kind::Vec) => "raceOkVec",
        ("race_ok", _) => "raceOkTup",
        ("merge", _) => "merge",
        ("zip", _) => "zip",
        _ => panic!("waves: unsupported family {fam}"),
    };
    let mut scripts: Vec<Vec<Step>> = vec![];
    for c in 0..n {
        let mut st = vec![];
        if slow.contains(&c) {
            for _ in 0..m {
                st.push(Step { res: Res::Pend, fires: vec![] });
            }
        }
        match child_kind {
            ChildKind::Fut => st.push(Step { res: Res::Ready(true, c * 100 + 1), fires: vec![] }),
            ChildKind::Res => {
                let ok = if fam == "race_ok" { Some(c) == err_child } else { Some(c) != err_child };
                st.push(Step { res: Res::Ready(ok, c * 100 + 1), fires: vec![] })
            }
            ChildKind::Stream => {
                st.push(Step { res: Res::Item(c * 100 + 1), fires: vec![] });
                if slow.contains(&c) && m > 1 {
                    st.push(Step { res: Res::Pend, fires: vec![] });
                }
                st.push(Step { res: Res::Item(c * 100 + 2), fires: vec![] });
                st.push(Step { res: Res::Fin, fires: vec![] });
            }
        }
        scripts.push(st);
    }
    for (c, s) in scripts.iter().enumerate() {
        let id = add_child(s.clone(), c);
        assert_eq!(id, c);
    }
    let mode = if fam == "race_ok" { "direct" } else { MODE };
    let mut block = Block {
        header: format!("CASE {id} {model_fam} {mode} 0 {n} {}", kind.name()),
        scripts: scripts.iter().cloned().enumerate().collect(),
        ops: Ops::default(),
    };
    block.sync();
    let mut comb: Option<Box<dyn Comb>> = Some(match fam {
        "join" => build_join(kind, n),
        "try_join" => build_try_join(kind, n),
        "race_ok" => build_race_ok(kind, n),
        "merge" => build_merge(kind, n),
        "zip" => build_zip(kind, n),
        _ => unreachable!(),
    });
    let mut finished = false;
    let mut w = 0usize;
    let rounds = if is_stream { 3 * m + 4 + if fam == "merge" { 2 * n.min(12) } else { 0 } } else { m + 2 };
    for round in 0..rounds {
        if finished {
            break;
        }
        if round > 0 {
            for c in &slow {
                block.ops.push(format!("f {c} 0"));
                fire_op(*c, 0);
            }
        }
        // poll, and keep polling as long as the poll itself woke its task (what a wake-driven
        // executor does), at most three extra times
        for _extra in 0..4 {
            w += 1;
            block.ops.push(format!("p {w}"));
            let from = CTX.with(|c| c.borrow().log.len());
            let c = comb.as_mut().unwrap();
            let o = poll_comb(c, w);
            finished = final_outcome(&o, is_stream);
            let woke_self = CTX.with(|c| c.borrow().log[from..].iter().any(|l| *l == format!("wo {w}")));
            if finished || !woke_self || (is_stream && o != "P") {
                break;
            }
        }
    }
    block.ops.push("d".into());
    log("db".into());
    drop(comb.take());
    log("de".into());
    let trace = CTX.with(|c| std::mem::take(&mut c.borrow_mut().log));
    block.print(&trace);
    reset();
}

/// size of the bounded space `exh` enumerates for the groups (see `run_exh_group`)
const EXHG_SPACE: u64 = 2 * 125 * 32768;

/// profile `exh` for FutureGroup / StreamGroup: bounded-exhaustive enumeration.  Case number `k` is
/// decoded into
///   plain | keyed,
///   three member scripts, each one of five (futures: Ready | Pending,Ready | Pending+self-wake,Ready |
///     Pending,Pending,Ready | never;  streams: End | item,End | Pending,item,End |
///     Pending+self-wake,item,End | never),
///   a history of 5 operations over {insert the next member, remove(key of the 1st insert), remove(key
///   of the 2nd insert), poll with a fresh waker, poll with the same waker, fire(0,0), fire(1,0),
///   extend with the next two members (FutureGroup) / reserve(2) (StreamGroup)}, then drop.
/// An insert / extend when the three members are used up is a poll with a fresh waker.
/// The case is executed through the replay path (the history is fixed in advance).
#[cfg(feature = "cfg-alloc")]
fn run_exh_group(stream: bool, id: &str, k: u64) {
    let mut x = (k % EXHG_SPACE).wrapping_mul(2_654_435_761) % EXHG_SPACE;
    let mut digit = |base: u64| -> u64 {
        let d = x % base;
        x /= base;
        d
    };
    let keyed = digit(2) == 1;
    let mut scripts: Vec<(usize, Vec<Step>)> = vec![];
    for c in 0..3usize {
        let code = digit(5);
        let p = |selfwake: bool| Step { res: Res::Pend, fires: if selfwake { vec![(c, 0)] } else { vec![] } };
        let st: Vec<Step> = if stream {
            let item = Step { res: Res::Item(c * 100 + 1), fires: vec![] };
            let fin = Step { res: Res::Fin, fires: vec![] };
            match code {
                0 => vec![fin],
                1 => vec![item, fin],
                2 => vec![p(false), item, fin],
                3 => vec![p(true), item, fin],
                _ => vec![p(false)],
            }
        } else {
            let r = Step { res: Res::Ready(true, c * 100 + 1), fires: vec![] };
            match code {
                0 => vec![r],
                1 => vec![p(false), r],
                2 => vec![p(true), r],
                3 => vec![p(false), p(false), r],
                _ => vec![p(false)],
            }
        };
        scripts.push((c, st));
    }
    let mut ops: Vec<String> = vec![];
    let mut next_child = 0usize;
    let mut w = 0usize;
    for _ in 0..5 {
        let mut fresh_poll = |ops: &mut Vec<String>| {
            w += 1;
            ops.push(format!("p {w}"));
        };
        match digit(8) {
            0 => {
                if next_child < 3 {
                    ops.push(format!("i {next_child}"));
                    next_child += 1;
                } else {
                    fresh_poll(&mut ops);
                }
            }
            1 => ops.push("r 0".into()),
            2 => ops.push("r 1".into()),
            3 => fresh_poll(&mut ops),
            4 => {
                if w == 0 {
                    w = 1;
                }
                ops.push(format!("p {w}"));
            }
            5 => ops.push("f 0 0".into()),
            6 => ops.push("f 1 0".into()),
            _ => {
                if stream {
                    ops.push("v 2".into());
                } else if next_child + 1 < 3 {
                    ops.push(format!("e {},{}", next_child, next_child + 1));
                    next_child += 2;
                } else if next_child < 3 {
                    ops.push(format!("e {next_child}"));
                    next_child += 1;
                } else {
                    fresh_poll(&mut ops);
                }
            }
        }
    }
    ops.push("d".into());
    let model_fam = if stream { "strGroup" } else { "futGroup" };
    let header = format!("CASE {id} {model_fam} {MODE} {} 0 group new", if keyed { 1 } else { 0 });
    replay_one(&header, &scripts, &ops);
}

/// size of the bounded space `exh` enumerates for a family (see `run_exh`)
fn exh_space(fam: &str) -> u64 {
    if fam == "fgroup" || fam == "sgroup" {
        return EXHG_SPACE;
    }
    let per_child: u64 = if matches!(fam, "merge" | "zip" | "chain") { 7 * 4 } else { 7 * 3 };
    // container kind (2) x n in {1, 2} x scripts x histories of 5 ops over an alphabet of 5
    2 * (per_child + per_child * per_child) * 3125
}

/// profile `exh`: bounded-exhaustive enumeration.  Case number `k` (taken modulo the size of the
/// space, in a fixed pseudo-random order so that a prefix is a fair sample) is decoded into
///   container kind ∈ {Vec | tuple}, n ∈ {1, 2},
///   per child: 0–2 Pending steps, each with or without a self-wake, then
///              futures: Ready(ok) | Ready(err) | never;  streams: End | item,End | item,Pending,item,End | never,
///   a history of 5 operations over {poll with a fresh waker, poll with the same waker, fire_op(0,0),
///   fire_op(1,0), fire_op(0,1)}, then drop.
/// Running `exh_space(fam)` consecutive cases covers every such case exactly once.
fn run_exh(fam: &str, id: &str, k: u64) {
    reset();
    let space = exh_space(fam);
    let mut x = (k % space).wrapping_mul(2_654_435_761) % space;
    let mut digit = |base: u64| -> u64 {
        let d = x % base;
        x /= base;
        d
    };
    let (child_kind, is_stream) = match fam {
        "join" | "race" => (ChildKind::Fut, false),
        "try_join" | "race_ok" => (ChildKind::Res, false),
        "merge" | "zip" | "chain" => (ChildKind::Stream, true),
        _ => panic!("exh: unsupported family {fam}"),
    };
    let kind = if HAS_ALLOC && digit(2) == 0 { Kind::Vec } else { Kind::Tup };
    let per_child: u64 = if is_stream { 28 } else { 21 };
    // n = 1 uses the first `per_child` codes, n = 2 the rest
    let code = digit(per_child + per_child * per_child);
    let (n, codes) = if code < per_child { (1usize, vec![code]) } else { (2usize, vec![(code - per_child) % per_child, (code - per_child) / per_child]) };
    let mut scripts: Vec<Vec<Step>> = vec![];
    for (c, &cc) in codes.iter().enumerate() {
        let pend = cc % 7;
        let fin = cc / 7;
        let mut st = vec![];
        let pends: &[bool] = match pend {
            0 => &[],
            1 => &[false],
            2 => &[true],
            3 => &[false, false],
            4 => &[false, true],
            5 => &[true, false],
            _ => &[true, true],
        };
        for &selfwake in pends {
            st.push(Step { res: Res::Pend, fires: if selfwake { vec![(c, 0)] } else { vec![] } });
        }
        match child_kind {
            ChildKind::Fut => {
                if fin < 2 {
                    st.push(Step { res: Res::Ready(true, c * 100 + 1), fires: vec![] })
                }
            }
            ChildKind::Res => {
                if fin < 2 {
                    st.push(Step { res: Res::Ready(fin == 0, c * 100 + 1), fires: vec![] })
                }
            }
            ChildKind::Stream => match fin {
                0 => st.push(Step { res: Res::Fin, fires: vec![] }),
                1 => {
                    st.push(Step { res: Res::Item(c * 100 + 1), fires: vec![] });
                    st.push(Step { res: Res::Fin, fires: vec![] });
                }
                2 => {
                    st.push(Step { res: Res::Item(c * 100 + 1), fires: vec![] });
                    st.push(Step { res: Res::Pend, fires: vec![] });
                    st.push(Step { res: Res::Item(c * 100 + 2), fires: vec![] });
                    st.push(Step { res: Res::Fin, fires: vec![] });
                }
                _ => {}
            },
        }
        scripts.push(st);
    }
    for (c, s) in scripts.iter().enumerate() {
        let id = add_child(s.clone(), c);
        assert_eq!(id, c);
    }
    let model_fam = match (fam, kind) {
        ("join", Kind::Vec) => "joinSlice",
        ("join", _) => "joinTuple",
        ("try_join", Kind::Vec) => "tryJoinSlice",
        ("try_join", _) => "tryJoinTuple",
        ("race", _) => "race",
        ("race_ok", Kind::Vec) => "raceOkVec",
        ("race_ok", _) => "raceOkTup",
        ("merge", _) => "merge",
        ("zip", _) => "zip",
        ("chain", _) => "chain",
        _ => unreachable!(),
    };
    let mode = if matches!(fam, "race" | "race_ok" | "chain") { "direct" } else { MODE };
    let mut block = Block {
        header: format!("CASE {id} {model_fam} {mode} 0 {n} {}", kind.name()),
        scripts: scripts.iter().cloned().enumerate().collect(),
        ops: Ops::default(),
    };
    block.sync();
    let mut comb: Option<Box<dyn Comb>> = Some(match fam {
        "join" => build_join(kind, n),
        "try_join" => build_try_join(kind, n),
        "race" => build_race(kind, n),
        "race_ok" => build_race_ok(kind, n),
        "merge" => build_merge(kind, n),
        "zip" => build_zip(kind, n),
        "chain" => build_chain(kind, n),
        _ => unreachable!(),
    });
    let mut w = 0usize;
    let mut finished = false;
    for _ in 0..5 {
        match digit(5) {
            d @ (0 | 1) => {
                if finished {
                    continue;
                }
                if d == 0 || w == 0 {
                    w += 1;
                }
                block.ops.push(format!("p {w}"));
                let c = comb.as_mut().unwrap();
                let o = poll_comb(c, w);
                finished = final_outcome(&o, is_stream);
            }
            2 => {
                block.ops.push("f 0 0".into());
                fire_op(0, 0);
            }
            3 => {
                block.ops.push("f 1 0".into());
                fire_op(1, 0);
            }
            _ => {
                block.ops.push("f 0 1".into());
                fire_op(0, 1);
            }
        }
    }
    block.ops.push("d".into());
    log("db".into());
    drop(comb.take());
    log("de".into());
    let trace = CTX.with(|c| std::mem::take(&mut c.borrow_mut().log));
    block.print(&trace);
    reset();
}

fn run_fixed(rng: &mut Rng, fam: &str, id: &str, prof: &Profile) {
    if prof.is("waves") {
        return run_waves(rng, fam, id);
    }
    reset();
    // container kind
    let mut kinds: Vec<Kind> = match fam {
        "join" | "race" | "merge" | "zip" | "chain" => vec![Kind::Vec, Kind::Arr, Kind::Tup, Kind::Ext],
        "try_join" | "race_ok" => vec![Kind::Vec, Kind::Arr, Kind::Tup],
        _ => vec![Kind::Tup],
    };
    if !HAS_ALLOC {
        kinds.retain(|k| *k != Kind::Vec);
    }
    if prof.is("big") {
        kinds.retain(|k| *k == Kind::Vec || *k == Kind::Arr);
    }
    let kind = *rng.pick(&kinds);
    let (min, child_kind, is_stream) = match fam {
        "join" => (0, ChildKind::Fut, false),
        "try_join" => (if kind == Kind::Tup { 1 } else { 0 }, ChildKind::Res, false),
        "race" => (1, ChildKind::Fut, false),
        "race_ok" => (if kind == Kind::Tup { 1 } else { 0 }, ChildKind::Res, false),
        "merge" => (0, ChildKind::Stream, true),
        "zip" => (1, ChildKind::Stream, true),
        "chain" => (if kind == Kind::Tup { 1 } else { 0 }, ChildKind::Stream, true),
        "wait_f" => (2, ChildKind::Fut, false),
        "wait_s" => (2, ChildKind::Stream, true),
        _ => panic!("unknown family {fam}"),
    };
    let n = if fam.starts_with("wait") { 2 } else { pick_size(rng, kind, min, prof) };
    let small = n > 12;
    let model_fam = match (fam, kind) {
        ("join", Kind::Vec | Kind::Arr) => "joinSlice",
        ("join", _) => "joinTuple",
        ("try_join", Kind::Vec | Kind::Arr) => "tryJoinSlice",
        ("try_join", _) => "tryJoinTuple",
        ("race", _) => "race",
        ("race_ok", Kind::Arr) => "raceOkArr",
        ("race_ok", Kind::Vec) => "raceOkVec",
        ("race_ok", _) => "raceOkTup",
        ("merge", _) => "merge",
        ("zip", _) => "zip",
        ("chain", _) => "chain",
        ("wait_f", _) => "waitF",
        ("wait_s", _) => "waitS",
        _ => unreachable!(),
    };
    // scripts
    SPARSE.with(|s| s.set(prof.is("big") && rng.chance(50)));
    let mut scripts: Vec<Vec<Step>> = (0..n)
        .map(|c| {
            let ck = if fam == "wait_s" && c == 0 { ChildKind::Fut } else { child_kind };
            gen_script(rng, ck, c, n, small, prof)
        })
        .collect();
    SPARSE.with(|s| s.set(false));
    inject_panic(rng, &mut scripts, if prof.is("panic") { 60 } else if prof.is("drain") { 0 } else { 6 });
    for (c, s) in scripts.iter().enumerate() {
        let id = add_child(s.clone(), c);
        assert_eq!(id, c);
    }
    let mode = if matches!(fam, "race" | "race_ok" | "chain" | "wait_f" | "wait_s") { "direct" } else { MODE };
    let mut block = Block {
        header: format!("CASE {id} {model_fam} {mode} 0 {n} {}", kind.name()),
        scripts: scripts.iter().cloned().enumerate().collect(),
        ops: Ops::default(),
    };
    block.sync();
    // the real combinator
    let mut comb: Option<Box<dyn Comb>> = Some(match fam {
        "join" => build_join(kind, n),
        "try_join" => build_try_join(kind, n),
        "race" => build_race(kind, n),
        "race_ok" => build_race_ok(kind, n),
        "merge" => build_merge(kind, n),
        "zip" => build_zip(kind, n),
        "chain" => build_chain(kind, n),
        "wait_f" => build_wait_f(),
        "wait_s" => build_wait_s(),
        _ => unreachable!(),
    });
    // history
    let mut next_w = 1usize;
    let mut cur_w = 1usize;
    let mut polls = 0usize;
    let max_polls = if small { 3 + rng.below(4) } else { 4 + rng.below(12) };
    let drop_after: Option<usize> = if rng.chance(30) { Some(rng.below(5)) } else { None };
    let mut finished = false;
    let mut last_pending = false;
    let mut steps = 0usize;
    if prof.is("drain") {
        // profile `drain`: a wake-only executor with a fresh waker per poll and a benign environment
        // (all scripts are finite and end in Ready / None): poll only when the task was woken since
        // the previous poll began (or after an item); otherwise let one waiting child make progress
        // by invoking the waker of its latest poll.  If nothing is left to do while the combinator
        // is still Pending, it is stuck: logged as `an 98 0` (a violation of C01's consequence).
        let mut woken = true;
        let mut last_item = false;
        // the model finishes within 3 * (scripted steps) + 1 rounds under every schedule of this
        // executor (FcProps/C01liveAny.lean); beyond a generous multiple of that the run is stuck
        let total: usize = CTX.with(|c| c.borrow().scripts.iter().map(|s| s.len()).sum());
        let budget = 4 * total + 8;
        while !finished {
            if steps >= budget {
                log("an 98 0".into());
                break;
            }
            steps += 1;
            if woken || last_item {
                cur_w = next_w;
                next_w += 1;
                block.ops.push(format!("p {cur_w}"));
                let from = CTX.with(|c| c.borrow().log.len());
                let c = comb.as_mut().unwrap();
                let o = poll_comb(c, cur_w);
                finished = final_outcome(&o, is_stream);
                last_item = o.starts_with('S');
                woken = CTX.with(|c| c.borrow().log[from..].iter().any(|l| *l == format!("wo {cur_w}")));
            } else {
                let waiting: Vec<usize> = CTX.with(|c| {
                    let c = c.borrow();
                    let mut last: Vec<Option<bool>> = vec![None; n];
                    for l in &c.log {
                        let ws: Vec<&str> = l.split(' ').collect();
                        if ws.len() == 3 && ws[0] == "ce" {
                            if let Ok(k) = ws[1].parse::<usize>() {
                                if k < n {
                                    last[k] = Some(ws[2] == "P");
                                }
                            }
                        }
                    }
                    // a child that has already invoked its current waker is not woken again: if the
                    // combinator lost that wake-up, nobody rescues it
                    (0..n)
                        .filter(|k| last[*k] == Some(true) && !c.scripts[*k].is_empty() && !c.owed.get(*k).copied().unwrap_or(false))
                        .collect()
                });
                if waiting.is_empty() {
                    log("an 98 0".into());
                    break;
                }
                let c = *rng.pick(&waiting);
                block.ops.push(format!("f {c} 0"));
                let from = CTX.with(|c| c.borrow().log.len());
                fire_op(c, 0);
                woken = CTX.with(|c| c.borrow().log[from..].iter().any(|l| *l == format!("wo {cur_w}")));
            }
        }
        polls = max_polls;
    }
    while !finished && polls < max_polls && steps < 80 {
        steps += 1;
        if let Some(d) = drop_after {
            if polls >= d {
                break;
            }
        }
        let do_poll_now = if last_pending { rng.chance(45) } else { rng.chance(80) };
        if do_poll_now {
            if polls == 0 || !rng.chance(20) {
                cur_w = next_w;
                next_w += 1;
            }
            block.ops.push(format!("p {cur_w}"));
            let c = comb.as_mut().unwrap();
            let o = poll_comb(c, cur_w);
            polls += 1;
            finished = final_outcome(&o, is_stream);
            last_pending = o == "P";
        } else if n > 0 {
            let c = rng.below(n);
            let age = if rng.chance(75) { 0 } else { rng.below(3) };
            block.ops.push(format!("f {c} {age}"));
            fire_op(c, age);
        }
    }
    for _ in 0..rng.below(3) {
        if n > 0 {
            let c = rng.below(n);
            let age = rng.below(2);
            block.ops.push(format!("f {c} {age}"));
            fire_op(c, age);
        }
    }
    block.ops.push("d".into());
    log("db".into());
    drop(comb.take());
    log("de".into());
    for _ in 0..rng.below(3) {
        if n > 0 {
            let c = rng.below(n);
            let age = rng.below(2);
            block.ops.push(format!("f {c} {age}"));
            fire_op(c, age);
        }
    }
    let trace = CTX.with(|c| std::mem::take(&mut c.borrow_mut().log));
    block.print(&trace);
    reset();
}

#[cfg(feature = "cfg-alloc")]
fn run_group(rng: &mut Rng, stream: bool, id: &str, prof: &Profile) {
    use crate::groups::*;
    reset();
    let keyed = rng.chance(50);
    let model_fam = if stream { "strGroup" } else { "futGroup" };
    let mut block = Block {
        header: String::new(),
        scripts: vec![],
        ops: Ops::default(),
    };
    block.sync();
    let mut mirror = SlabMirror::default();
    let mut key_of: Vec<Option<usize>> = vec![]; // child -> current key (None once gone)
    // constructor: new() / default() / with_capacity(k) (= new + reserve k) / from_iter (= new + extend)
    let ctor_roll = rng.below(100);
    // `big` profile, half of the cases: a WIDE group - built from an iterator of 33..72 members none of which has
    // anything to say on its first poll (more members than any per-poll budget or bit block)
    let wide = prof.is("big") && rng.chance(50);
    // `drain`: also groups built by `with_capacity(k)` for a small k > 0 (the readiness set then starts with a partly used
    // last word, and the group grows past it while it is being drained)
    let ctor_kind = if wide { 3 } else if prof.is("drain") { if ctor_roll < 60 { 0 } else { 2 } } else if prof.is("refill") || ctor_roll < 55 { 0 } else if ctor_roll < 65 { 1 } else if ctor_roll < 82 { 2 } else { 3 };
    let cap0 = rng.below(7);
    let iter_n = if wide { 33 + rng.below(40) } else { rng.below(4) };
    let mut inserts = 0usize;
    let mut next_w = 1usize;
    let mut cur_w = 1usize;
    let mut polls = 0usize;
    let mut poisoned = false;
    let nops = if prof.is("drain") { 4000 } else { 6 + rng.below(if prof.is("big") || prof.is("refill") { 60 } else { 22 }) };
    let mut fill_left = if prof.is("refill") || prof.is("drain") { 1 + rng.below(4) } else { 0 };
    let mut last_o = String::new();
    let mut g_woken = true;
    let mut refills = 0usize;
    let mut drain_target: Option<usize> = None;
    // rounds (polls and prods) of the current draining episode, and its budget: a generous multiple of
    // the model's bound 3 * (scripted steps of the members) + 1 (FcProps/C01liveG.lean)
    let mut drain_rounds = 0usize;
    let mut drain_budget = usize::MAX;
    let ck = if stream { ChildKind::Stream } else { ChildKind::Fut };
    let panic_child: Option<usize> =
        if !prof.is("drain") && rng.chance(if prof.is("panic") { 50 } else { 5 }) { Some(rng.below(4)) } else { None };
    let mut new_child = |rng: &mut Rng, block: &mut Block, key_of: &mut Vec<Option<usize>>| -> usize {
        let c = key_of.len();
        let mut s = gen_script(rng, ck, c, c + 2, prof.is("refill"), prof);
        if Some(c) == panic_child {
            let mut v = vec![s];
            inject_panic(rng, &mut v, 100);
            s = v.pop().unwrap();
        }
        let id = add_child(s.clone(), 0);
        assert_eq!(id, c);
        block.scripts.push((c, s));
        block.sync();
        key_of.push(None);
        c
    };
    // free the keys of the members that completed during the poll that just ran
    let mut settle = |from: usize, mirror: &mut SlabMirror, key_of: &mut Vec<Option<usize>>| {
        let done: Vec<usize> = CTX.with(|c| {
            c.borrow().log[from..]
                .iter()
                .filter_map(|l| {
                    let ws: Vec<&str> = l.split(' ').collect();
                    if ws.len() == 3 && ws[0] == "ce" && (ws[2].starts_with('R') || ws[2] == "F") {
                        ws[1].parse().ok()
                    } else {
                        None
                    }
                })
                .collect()
        });
        for c in done {
            if let Some(k) = key_of[c].take() {
                mirror.remove(k);
            }
        }
    };
    let ctor = match ctor_kind {
        0 => Ctor::New,
        1 => Ctor::Default,
        2 => {
            block.ops.push(format!("v {cap0}"));
            Ctor::WithCapacity(cap0)
        }
        _ => {
            SPARSE.with(|s| s.set(wide));
            let cs: Vec<usize> = (0..iter_n).map(|_| new_child(rng, &mut block, &mut key_of)).collect();
            SPARSE.with(|s| s.set(false));
            block.ops.push(format!(
                "e {}",
                if cs.is_empty() { "-".to_string() } else { cs.iter().map(|c| c.to_string()).collect::<Vec<_>>().join(",") }
            ));
            Ctor::FromIter(cs)
        }
    };
    let ctor_text = match &ctor {
        Ctor::New => "new".to_string(),
        Ctor::Default => "default".to_string(),
        Ctor::WithCapacity(k) => format!("cap:{k}"),
        Ctor::FromIter(cs) => format!("iter:{}", if cs.is_empty() { "-".to_string() } else { cs.iter().map(|c| c.to_string()).collect::<Vec<_>>().join(",") }),
    };
    block.header = format!("CASE {id} {model_fam} {MODE} {} 0 group {ctor_text}", if keyed { 1 } else { 0 });
    block.sync();
    if let Ctor::FromIter(cs) = &ctor {
        // label the members with the keys slab hands out, as for `extend`
        for c in cs {
            let k = mirror.insert();
            set_slot(*c, k);
            key_of[*c] = Some(k);
        }
    }
    let mut g: Option<Box<dyn GroupDyn>> = Some(build_group_with(stream, keyed, ctor.clone()));
    if let Ctor::FromIter(cs) = &ctor {
        for c in cs {
            log(format!("in {c} {}", key_of[*c].unwrap()));
        }
        inserts += 0;
    }
    if ctor_kind >= 2 {
        ks();
    }
    for _ in 0..nops {
        if poisoned {
            break;
        }
        let grp = g.as_mut().unwrap();
        // profile `refill`: fill the group, drive it until it reports None (polls follow wake-ups),
        // refill (the new members land in reused slots), and so on
        let r = if prof.is("drain") {
            // fair wake-only executor over a group (see the fixed-family `drain`): fill, then poll only
            // when woken (or after an item / an insert), otherwise prod a waiting member; after
            // `None` refill (twice at most); stuck = `an 98 0`
            if fill_left > 0 {
                fill_left -= 1;
                g_woken = true;
                drain_budget = usize::MAX;
                0
            } else if last_o == "N" {
                refills += 1;
                if refills > 2 {
                    break;
                }
                last_o.clear();
                fill_left = rng.below(3);
                g_woken = true;
                drain_budget = usize::MAX;
                0
            } else if {
                if drain_budget == usize::MAX {
                    let left: usize = CTX.with(|c| {
                        let c = c.borrow();
                        (0..key_of.len()).filter(|k| key_of[*k].is_some()).map(|k| c.scripts[k].len()).sum()
                    });
                    drain_budget = 4 * left + 8;
                    drain_rounds = 0;
                }
                drain_rounds += 1;
                drain_rounds > drain_budget
            } {
                log("an 98 0".into());
                break;
            } else if !last_o.is_empty() && rng.chance(7) {
                // the membership changes while the group is being drained: an insert, an extend (into
                // whatever slots are vacant by now), a removal, or an explicit reserve that really grows the
                // tables (while live members sit behind holes of the slab); the consumer polls again afterwards
                g_woken = true;
                drain_budget = usize::MAX;
                *rng.pick(&[0usize, 75, 86, 82])
            } else if g_woken || last_o.starts_with('S') || last_o.is_empty() {
                30
            } else {
                let waiting: Vec<usize> = CTX.with(|c| {
                    let c = c.borrow();
                    let mut last: Vec<Option<bool>> = vec![None; key_of.len()];
                    for l in &c.log {
                        let ws: Vec<&str> = l.split(' ').collect();
                        if ws.len() == 3 && ws[0] == "ce" {
                            if let Ok(k) = ws[1].parse::<usize>() {
                                if k < last.len() {
                                    last[k] = Some(ws[2] == "P");
                                }
                            }
                        }
                    }
                    (0..key_of.len())
                        .filter(|k| {
                            key_of[*k].is_some() && last[*k] == Some(true) && !c.scripts[*k].is_empty() && !c.owed.get(*k).copied().unwrap_or(false)
                        })
                        .collect()
                });
                if waiting.is_empty() {
                    log("an 98 0".into());
                    break;
                }
                drain_target = Some(*rng.pick(&waiting));
                60
            }
        } else if prof.is("refill") {
            if fill_left > 0 {
                fill_left -= 1;
                0
            } else if last_o == "N" {
                last_o.clear();
                fill_left = rng.below(3);
                0
            } else if rng.chance(6) {
                rng.below(100)
            } else if rng.chance(50) {
                30
            } else {
                60
            }
        } else {
            rng.below(100)
        };
        if r < 22 || inserts == 0 {
            let c = new_child(rng, &mut block, &mut key_of);
            block.ops.push(format!("i {c}"));
            let k = grp.insert(c);
            if k == usize::MAX {
                poisoned = true;
                continue;
            }
            let mk = mirror.insert();
            set_slot(c, k);
            key_of[c] = Some(k);
            inserts += 1;
            log(format!("in {c} {k}"));
            if mk != k {
                log(format!("mirror-mismatch {mk} {k}"));
            }
            ks();
        } else if r < 50 {
            if polls == 0 || prof.is("drain") || !rng.chance(20) {
                cur_w = next_w;
                next_w += 1;
            }
            block.ops.push(format!("p {cur_w}"));
            let from = CTX.with(|c| c.borrow().log.len());
            let o = do_poll(&mut |cx| grp.poll(cx), cur_w);
            last_o = o.clone();
            g_woken = CTX.with(|c| c.borrow().log[from..].iter().any(|l| *l == format!("wo {cur_w}")));
            polls += 1;
            settle(from, &mut mirror, &mut key_of);
            if o == "X" {
                poisoned = true;
            }
        } else if r < 72 {
            let live: Vec<usize> = (0..key_of.len()).filter(|c| key_of[*c].is_some()).collect();
            let c = if let Some(t) = drain_target.take() {
                t
            } else if prof.is("refill") && !live.is_empty() && rng.chance(85) {
                *rng.pick(&live)
            } else {
                rng.below(key_of.len())
            };
            let age = if prof.is("drain") || rng.chance(75) { 0 } else { rng.below(3) };
            block.ops.push(format!("f {c} {age}"));
            let from_f = CTX.with(|c| c.borrow().log.len());
            fire_op(c, age);
            if CTX.with(|c| c.borrow().log[from_f..].iter().any(|l| *l == format!("wo {cur_w}"))) {
                g_woken = true;
            }
        } else if r < 80 {
            let j = rng.below(inserts + 1);
            block.ops.push(format!("r {j}"));
            if let Some((k, present)) = grp.remove(j) {
                if present {
                    mirror.remove(k);
                    for ko in key_of.iter_mut() {
                        if *ko == Some(k) {
                            *ko = None;
                        }
                    }
                }
                log(format!("rm {k} {}", if present { 1 } else { 0 }));
            }
            ks();
        } else if r < 85 {
            let k = if prof.is("drain") { grp.capacity() + 1 + rng.below(3) } else { rng.below(6) };
            block.ops.push(format!("v {k}"));
            grp.reserve(k);
            ks();
        } else if r < 89 && !stream {
            let m = rng.below(4);
            let cs: Vec<usize> = (0..m).map(|_| new_child(rng, &mut block, &mut key_of)).collect();
            block.ops.push(format!(
                "e {}",
                if cs.is_empty() { "-".to_string() } else { cs.iter().map(|c| c.to_string()).collect::<Vec<_>>().join(",") }
            ));
            // label the members with the keys slab will hand out (reserve does not touch keys)
            let mut probe = vec![];
            for c in &cs {
                let k = mirror.insert();
                set_slot(*c, k);
                key_of[*c] = Some(k);
                probe.push((*c, k));
            }
            grp.extend(&cs);
            for (c, k) in probe {
                log(format!("in {c} {k}"));
            }
            ks();
        } else if r < 92 {
            block.ops.push("ql".into());
            log(format!("an 0 {}", grp.len()));
            ks();
        } else if r < 94 {
            block.ops.push("qe".into());
            log(format!("an 1 {}", if grp.is_empty() { 1 } else { 0 }));
            ks();
        } else if r < 98 {
            let j = rng.below(inserts + 1);
            block.ops.push(format!("qc {j}"));
            if let Some((k, p)) = grp.contains(j) {
                log(format!("an {} {}", 100 + k, if p { 1 } else { 0 }));
            }
            ks();
        } else {
            block.ops.push("qk".into());
            log(format!("an 3 {}", grp.capacity()));
            ks();
        }
    }
    for _ in 0..rng.below(3) {
        if !key_of.is_empty() {
            let c = rng.below(key_of.len());
            block.ops.push(format!("f {c} 0"));
            fire_op(c, 0);
        }
    }
    block.ops.push("d".into());
    log("db".into());
    drop(g.take());
    log("de".into());
    for _ in 0..rng.below(3) {
        if !key_of.is_empty() {
            let c = rng.below(key_of.len());
            block.ops.push(format!("f {c} 0"));
            fire_op(c, 0);
        }
    }
    let trace = CTX.with(|c| std::mem::take(&mut c.borrow_mut().log));
    block.print(&trace);
    reset();
}

/// scripts of a co-stream case: source (child 0) and one work future per (item, closure stage)
#[cfg(feature = "co")]
fn gen_co_scripts(rng: &mut Rng, term: &str, shape: &str, items: usize, prof: &Profile) -> Vec<Vec<Step>> {
    use crate::costream::*;
    let stages = stages_of(term, shape);
    let mut scripts: Vec<Vec<Step>> = vec![];
    // source
    let mut src = vec![];
    let src_ready = rng.chance(35);
    for j in 0..items {
        if !src_ready {
            for _ in 0..rng.below(3).saturating_sub(if rng.chance(50) { 1 } else { 0 }) {
                src.push(Step { res: Res::Pend, fires: vec![] });
            }
        }
        src.push(Step { res: Res::Item(item_id(j)), fires: vec![] });
    }
    if rng.chance(25) {
        src.push(Step { res: Res::Pend, fires: vec![] });
    }
    if !rng.chance(if prof.is("stuck") { 40 } else { 8 }) {
        src.push(Step { res: Res::Fin, fires: vec![] });
    }
    scripts.push(src);
    // work futures
    let fallible_last = term == "tfe" || term == "cr";
    let err_pct = if prof.is("errs") { 45 } else { 18 };
    let work_ready = rng.chance(25);
    for j in 0..items {
        for st in 0..stages {
            let mut w = vec![];
            if !work_ready {
                for _ in 0..rng.below(3) {
                    let fires = if rng.chance(25) { vec![(work_child(stages, st, j), 0)] } else { vec![] };
                    w.push(Step { res: Res::Pend, fires });
                }
            }
            let is_last_closure = st + 1 == stages;
            let never = rng.chance(if prof.is("stuck") { 25 } else { 4 });
            if !never {
                let ok = !(fallible_last && is_last_closure && rng.chance(err_pct));
                let v = if ok { item_id(j) } else { 500_000 + j };   // error ids: disjoint from the item ids
                w.push(Step { res: Res::Ready(ok, v), fires: vec![] });
            }
            scripts.push(w);
        }
    }
    scripts
}

#[cfg(feature = "co")]
fn run_co(rng: &mut Rng, id: &str, prof: &Profile) {
    use crate::costream::*;
    reset();
    let term = *rng.pick(&["fe", "fe", "tfe", "tfe", "cv", "cr"]);
    let shape = if term == "cr" { *rng.pick(RES_SHAPES) } else { *rng.pick(PLAIN_SHAPES) };
    let items = if rng.chance(15) { 0 } else { 1 + rng.below(6) };
    let takes: Vec<usize> = shape
        .chars()
        .filter(|c| *c == 'T')
        .map(|_| if rng.chance(12) { 0 } else { rng.below(items + 2) })
        .collect();
    let limits: Vec<usize> = shape.chars().filter(|c| *c == 'L').map(|_| rng.below(4)).collect();
    let vec_src = rng.chance(25);
    let mut scripts = gen_co_scripts(rng, term, shape, items, prof);
    if vec_src {
        // the Vec source is always ready; its script is only kept as documentation of the items
        scripts[0] = (0..items).map(|j| Step { res: Res::Item(crate::costream::item_id(j)), fires: vec![] }).collect();
        scripts[0].push(Step { res: Res::Fin, fires: vec![] });
    }
    for (c, s) in scripts.iter().enumerate() {
        let k = add_child(s.clone(), c);
        assert_eq!(k, c);
    }
    let lt = |v: &Vec<usize>| if v.is_empty() { "-".to_string() } else { v.iter().map(|x| x.to_string()).collect::<Vec<_>>().join(",") };
    let mut block = Block {
        header: format!("CASE {id} co {MODE} {term} {shape} {} {} {items} {}", lt(&takes), lt(&limits), if vec_src { "v" } else { "s" }),
        scripts: scripts.iter().cloned().enumerate().collect(),
        ops: Ops::default(),
    };
    block.sync();
    let mut top: Option<CoComb> =
        Some(CoComb { top: build_co(term, shape, &takes, &limits, if vec_src { Some(items) } else { None }) });
    let nchild = scripts.len();
    let mut next_w = 1usize;
    let mut cur_w = 1usize;
    let mut polls = 0usize;
    let max_polls = 6 + rng.below(20);
    let drop_after: Option<usize> = if rng.chance(25) { Some(rng.below(6)) } else { None };
    let mut finished = false;
    let mut steps = 0usize;
    let mut woken = true;
    while !finished && polls < max_polls && steps < 150 {
        steps += 1;
        if let Some(d) = drop_after {
            if polls >= d {
                break;
            }
        }
        // mostly wake-driven: poll when the task was woken, sometimes spuriously
        let do_poll_now = if woken { rng.chance(85) } else { rng.chance(12) };
        if do_poll_now {
            if polls == 0 || !rng.chance(20) {
                cur_w = next_w;
                next_w += 1;
            }
            block.ops.push(format!("p {cur_w}"));
            let from = CTX.with(|c| c.borrow().log.len());
            let t = top.as_mut().unwrap();
            let o = do_poll(&mut |cx| t.poll(cx), cur_w);
            polls += 1;
            finished = o != "P";
            woken = CTX.with(|c| c.borrow().log[from..].iter().any(|l| *l == format!("wo {cur_w}")));
        } else {
            // fire the latest waker of a child that is currently waiting, if any; else any child
            let waiting: Vec<usize> = CTX.with(|c| {
                let c = c.borrow();
                let mut last: Vec<Option<bool>> = vec![None; nchild];
                for l in &c.log {
                    let ws: Vec<&str> = l.split(' ').collect();
                    if ws.len() == 3 && ws[0] == "ce" {
                        if let Ok(k) = ws[1].parse::<usize>() {
                            if k < nchild {
                                last[k] = Some(ws[2] == "P");
                            }
                        }
                    }
                }
                (0..nchild).filter(|k| last[*k] == Some(true)).collect()
            });
            let c = if !waiting.is_empty() && rng.chance(85) { *rng.pick(&waiting) } else { rng.below(nchild.max(1)) };
            let age = if rng.chance(85) { 0 } else { rng.below(3) };
            block.ops.push(format!("f {c} {age}"));
            let from = CTX.with(|c| c.borrow().log.len());
            fire_op(c, age);
            if CTX.with(|c| c.borrow().log[from..].iter().any(|l| *l == format!("wo {cur_w}"))) {
                woken = true;
            }
        }
    }
    block.ops.push("d".into());
    log("db".into());
    drop(top.take());
    log("de".into());
    let trace = CTX.with(|c| std::mem::take(&mut c.borrow_mut().log));
    block.print(&trace);
    reset();
}

#[cfg(feature = "co")]
fn replay_co(header: &str, scripts: &[(usize, Vec<Step>)], ops: &[String]) {
    use crate::costream::*;
    reset();
    let hw: Vec<&str> = header.split_whitespace().collect();
    // CASE id co mode term shape takes limits items
    let term = hw[4];
    let shape = hw[5];
    let plist = |s: &str| -> Vec<usize> { if s == "-" { vec![] } else { s.split(',').map(|x| x.parse().unwrap()).collect() } };
    let takes = plist(hw[6]);
    let limits = plist(hw[7]);
    let nch = scripts.iter().map(|(c, _)| c + 1).max().unwrap_or(0);
    for c in 0..nch {
        let s = scripts.iter().find(|(c2, _)| *c2 == c).map(|(_, s)| s.clone()).unwrap_or_default();
        add_child(s, c);
    }
    let block = Block { header: header.to_string(), scripts: scripts.to_vec(), ops: Ops(ops.to_vec()) };
    block.sync();
    for o in ops {
        mirror_op(o);
    }
    let vec_items: Option<usize> = if hw.get(9).cloned() == Some("v") { Some(hw[8].parse().unwrap()) } else { None };
    let mut top: Option<CoComb> = Some(CoComb { top: build_co(term, shape, &takes, &limits, vec_items) });
    let mut finished = false;
    for o in ops {
        let ws: Vec<&str> = o.split(' ').collect();
        match ws[0] {
            "p" => {
                if let Some(t) = top.as_mut() {
                    if !finished {
                        let r = do_poll(&mut |cx| t.poll(cx), ws[1].parse().unwrap());
                        finished = r != "P";
                    }
                }
            }
            "f" => fire_op(ws[1].parse().unwrap(), ws[2].parse().unwrap()),
            "d" => {
                log("db".into());
                drop(top.take());
                log("de".into());
            }
            _ => {}
        }
    }
    if top.is_some() {
        set_mute(true);
        drop(top.take());
        set_mute(false);
    }
    let trace = CTX.with(|c| std::mem::take(&mut c.borrow_mut().log));
    block.print(&trace);
    reset();
}

/// one level of nesting: an outer combinator over a Vec of boxed children, some of which are inner
/// combinators over scripted leaves (see nest.rs)
#[cfg(feature = "cfg-alloc")]
fn run_nest(rng: &mut Rng, id: &str, prof: &Profile) {
    use crate::nest::*;
    reset();
    let outer = *rng.pick(&["join", "join", "race", "merge", "merge", "chain", "zip"]);
    let is_stream = matches!(outer, "merge" | "chain" | "zip");
    let n = 1 + rng.below(4);
    let mut spec: Vec<Option<(String, usize)>> = (0..n)
        .map(|_| {
            if rng.chance(55) {
                let fam = if is_stream { *rng.pick(&["merge", "chain", "zip"]) } else { *rng.pick(&["join", "race", "tryjoin"]) };
                Some((fam.to_string(), 1 + rng.below(3)))
            } else {
                None
            }
        })
        .collect();
    if spec.iter().all(|s| s.is_none()) {
        let fam = if is_stream { "merge" } else { "join" };
        spec[0] = Some((fam.to_string(), 2));
    }
    // scripts of the leaves
    let mut leaves: Vec<(usize, usize, ChildKind)> = vec![]; // (id, slot, kind)
    for c in 0..n {
        match &spec[c] {
            None => leaves.push((c, c, if is_stream { ChildKind::Stream } else { ChildKind::Fut })),
            Some((fam, k)) => {
                for g in 0..*k {
                    let kind = if is_stream { ChildKind::Stream } else if fam == "tryjoin" { ChildKind::Res } else { ChildKind::Fut };
                    leaves.push((leaf_id(c, g), g, kind));
                }
            }
        }
    }
    let ids: Vec<usize> = leaves.iter().map(|l| l.0).collect();
    let mut block = Block {
        header: format!(
            "CASE {id} nest {MODE} {outer} {n} {}",
            spec.iter()
                .map(|s| match s {
                    None => "-".to_string(),
                    Some((f, k)) => format!("{f}:{k}"),
                })
                .collect::<Vec<_>>()
                .join(",")
        ),
        scripts: vec![],
        ops: Ops::default(),
    };
    block.sync();
    for c in 0..n {
        add_child_at(c, vec![], c);
    }
    for (lid, slot, kind) in &leaves {
        let mut s = gen_script(rng, *kind, *lid, 1, false, prof);
        // in-poll wake-ups target this leaf itself, or a child of the same combinator instance
        // (a leaf of the same inner combinator / a direct child of the outer one)
        let mates: Vec<usize> = if *lid >= 100 {
            ids.iter().cloned().filter(|i| *i >= 100 && i / 100 == lid / 100).collect()
        } else {
            (0..n).collect()
        };
        for st in s.iter_mut() {
            for f in st.fires.iter_mut() {
                if f.0 != *lid {
                    f.0 = *rng.pick(&mates);
                }
            }
        }
        add_child_at(*lid, s.clone(), *slot);
        block.scripts.push((*lid, s));
    }
    block.sync();
    let mut top: Option<NestTop> = Some(build_nest(outer, &spec));
    let mut next_w = 1usize;
    let mut cur_w = 1usize;
    let mut polls = 0usize;
    let max_polls = 5 + rng.below(14);
    let drop_after: Option<usize> = if rng.chance(25) { Some(rng.below(5)) } else { None };
    let mut finished = false;
    let mut woken = true;
    let mut steps = 0usize;
    while !finished && polls < max_polls && steps < 100 {
        steps += 1;
        if let Some(d) = drop_after {
            if polls >= d {
                break;
            }
        }
        let do_poll_now = if woken { rng.chance(80) } else { rng.chance(15) };
        if do_poll_now {
            if polls == 0 || !rng.chance(20) {
                cur_w = next_w;
                next_w += 1;
            }
            block.ops.push(format!("p {cur_w}"));
            let from = CTX.with(|c| c.borrow().log.len());
            let t = top.as_mut().unwrap();
            let o = do_poll(&mut |cx| t.poll(cx), cur_w);
            polls += 1;
            finished = final_outcome(&o, is_stream);
            woken = CTX.with(|c| c.borrow().log[from..].iter().any(|l| *l == format!("wo {cur_w}")));
        } else {
            // mostly leaves, sometimes the waker handed to a nested child itself (a stale / spurious wake)
            let c = if rng.chance(88) { *rng.pick(&ids) } else { rng.below(n) };
            let age = if rng.chance(75) { 0 } else { rng.below(3) };
            block.ops.push(format!("f {c} {age}"));
            let from = CTX.with(|c| c.borrow().log.len());
            fire_op(c, age);
            if CTX.with(|c| c.borrow().log[from..].iter().any(|l| *l == format!("wo {cur_w}"))) {
                woken = true;
            }
        }
    }
    block.ops.push("d".into());
    log("db".into());
    drop(top.take());
    log("de".into());
    for _ in 0..rng.below(3) {
        let c = *rng.pick(&ids);
        block.ops.push(format!("f {c} 0"));
        fire_op(c, 0);
    }
    let trace = CTX.with(|c| std::mem::take(&mut c.borrow_mut().log));
    block.print(&trace);
    reset();
}

#[cfg(feature = "cfg-alloc")]
fn replay_nest(header: &str, scripts: &[(usize, Vec<Step>)], ops: &[String]) {
    use crate::nest::*;
    reset();
    let hw: Vec<&str> = header.split_whitespace().collect();
    // CASE id nest mode outer n spec
    let outer = hw[4];
    let is_stream = matches!(outer, "merge" | "chain" | "zip");
    let n: usize = hw[5].parse().unwrap();
    let spec: Vec<Option<(String, usize)>> = hw[6]
        .split(',')
        .map(|s| {
            if s == "-" {
                None
            } else {
                let mut it = s.split(':');
                Some((it.next().unwrap().to_string(), it.next().unwrap().parse().unwrap()))
            }
        })
        .collect();
    for c in 0..n {
        add_child_at(c, vec![], c);
    }
    for c in 0..n {
        if let Some((_, k)) = &spec[c] {
            for g in 0..*k {
                add_child_at(leaf_id(c, g), vec![], g);
            }
        }
    }
    for (lid, s) in scripts {
        let slot = if *lid >= 100 { lid % 100 } else { *lid };
        add_child_at(*lid, s.clone(), slot);
    }
    let block = Block { header: header.to_string(), scripts: scripts.to_vec(), ops: Ops(ops.to_vec()) };
    block.sync();
    for o in ops {
        mirror_op(o);
    }
    let mut top: Option<NestTop> = Some(build_nest(outer, &spec));
    let mut finished = false;
    for o in ops {
        let ws: Vec<&str> = o.split(' ').collect();
        match ws[0] {
            "p" => {
                if let Some(t) = top.as_mut() {
                    if !finished {
                        let r = do_poll(&mut |cx| t.poll(cx), ws[1].parse().unwrap());
                        finished = final_outcome(&r, is_stream);
                    }
                }
            }
            "f" => fire_op(ws[1].parse().unwrap(), ws[2].parse().unwrap()),
            "d" => {
                log("db".into());
                drop(top.take());
                log("de".into());
            }
            _ => {}
        }
    }
    if top.is_some() {
        set_mute(true);
        drop(top.take());
        set_mute(false);
    }
    let trace = CTX.with(|c| std::mem::take(&mut c.borrow_mut().log));
    block.print(&trace);
    reset();
}

fn parse_step(s: &str) -> Step {
    let mut parts = s.split('@');
    let r = parts.next().unwrap();
    let res = match r.chars().next().unwrap() {
        'P' => Res::Pend,
        'F' => Res::Fin,
        'X' => Res::Panic,
        'R' => Res::Ready(true, r[1..].parse().unwrap()),
        'E' => Res::Ready(false, r[1..].parse().unwrap()),
        'I' => Res::Item(r[1..].parse().unwrap()),
        _ => panic!("bad step {s}"),
    };
    let fires = parts
        .map(|f| {
            let mut it = f.split('.');
            (it.next().unwrap().parse().unwrap(), it.next().unwrap().parse().unwrap())
        })
        .collect();
    Step { res, fires }
}

/// re-execute the cases given on stdin (CASE / S / O lines; T lines are ignored)
fn replay() {
    use std::io::BufRead;
    let stdin = std::io::stdin();
    let mut header: Option<String> = None;
    let mut scripts: Vec<(usize, Vec<Step>)> = vec![];
    let mut ops: Vec<String> = vec![];
    for line in stdin.lock().lines() {
        let line = line.unwrap();
        let ws: Vec<&str> = line.split_whitespace().collect();
        if ws.is_empty() {
            continue;
        }
        match ws[0] {
            "CASE" => {
                header = Some(line.clone());
                scripts.clear();
                ops.clear();
            }
            "S" => scripts.push((ws[1].parse().unwrap(), ws[2..].iter().map(|s| parse_step(s)).collect())),
            "O" => ops.push(ws[1..].join(" ")),
            "END" => {
                if let Some(h) = header.take() {
                    replay_one(&h, &scripts, &ops);
                }
            }
            _ => {}
        }
    }
}

fn replay_one(header: &str, scripts: &[(usize, Vec<Step>)], ops: &[String]) {
    // a case of the `mt` mode (recognisable by its id) is replayed in that mode
    let is_mt = header.split_whitespace().nth(1).map(|id| id.contains("-mt-")).unwrap_or(false);
    MT.store(is_mt, std::sync::atomic::Ordering::Relaxed);
    if header.split_whitespace().nth(2) == Some("co") {
        #[cfg(feature = "co")]
        replay_co(header, scripts, ops);
        return;
    }
    if header.split_whitespace().nth(2) == Some("nest") {
        #[cfg(feature = "cfg-alloc")]
        replay_nest(header, scripts, ops);
        return;
    }
    reset();
    let hw: Vec<&str> = header.split_whitespace().collect();
    let fam = hw[2];
    let keyed = hw[4] == "1";
    let n: usize = hw[5].parse().unwrap();
    let kind = match hw.get(6).cloned().unwrap_or("vec") {
        "vec" => Kind::Vec,
        "arr" => Kind::Arr,
        "tup" => Kind::Tup,
        "ext" => Kind::Ext,
        _ => Kind::Vec,
    };
    let nch = scripts.iter().map(|(c, _)| c + 1).max().unwrap_or(0).max(n);
    for c in 0..nch {
        let s = scripts.iter().find(|(c2, _)| *c2 == c).map(|(_, s)| s.clone()).unwrap_or_default();
        add_child(s, c);
    }
    let block = Block { header: header.to_string(), scripts: scripts.to_vec(), ops: Ops(ops.to_vec()) };
    block.sync();
    for o in ops {
        mirror_op(o);
    }
    let is_group = fam == "futGroup" || fam == "strGroup";
    if is_group {
        #[cfg(feature = "cfg-alloc")]
        replay_group(fam == "strGroup", keyed, ops, hw.get(7).cloned().unwrap_or("new"));
    } else {
        let _ = keyed;
        let mut comb: Option<Box<dyn Comb>> = Some(match fam {
            "joinSlice" | "joinTuple" => build_join(kind, n),
            "tryJoinSlice" | "tryJoinTuple" => build_try_join(kind, n),
            "race" => build_race(kind, n),
            "raceOkArr" | "raceOkVec" | "raceOkTup" => build_race_ok(kind, n),
            "merge" => build_merge(kind, n),
            "zip" => build_zip(kind, n),
            "chain" => build_chain(kind, n),
            "waitF" => build_wait_f(),
            "waitS" => build_wait_s(),
            _ => panic!("unknown family {fam}"),
        });
        for o in ops {
            let ws: Vec<&str> = o.split(' ').collect();
            match ws[0] {
                "p" => {
                    if let Some(c) = comb.as_mut() {
                        poll_comb(c, ws[1].parse().unwrap());
                    }
                }
                "f" => fire_op(ws[1].parse().unwrap(), ws[2].parse().unwrap()),
                "d" => {
                    log("db".into());
                    drop(comb.take());
                    log("de".into());
                }
                _ => {}
            }
        }
        if comb.is_some() {
            set_mute(true);
            drop(comb.take());
            set_mute(false);
        }
    }
    let trace = CTX.with(|c| std::mem::take(&mut c.borrow_mut().log));
    block.print(&trace);
    reset();
}

#[cfg(feature = "cfg-alloc")]
fn replay_group(stream: bool, keyed: bool, ops: &[String], ctor_text: &str) {
    use crate::groups::*;
    let mut mirror = SlabMirror::default();
    let nch = CTX.with(|c| c.borrow().scripts.len());
    let mut key_of: Vec<Option<usize>> = vec![None; nch];
    let ctor = if ctor_text == "default" {
        Ctor::Default
    } else if let Some(k) = ctor_text.strip_prefix("cap:") {
        Ctor::WithCapacity(k.parse().unwrap())
    } else if let Some(cs) = ctor_text.strip_prefix("iter:") {
        Ctor::FromIter(if cs == "-" { vec![] } else { cs.split(',').map(|x| x.parse().unwrap()).collect() })
    } else {
        Ctor::New
    };
    if let Ctor::FromIter(cs) = &ctor {
        for c in cs {
            let k = mirror.insert();
            set_slot(*c, k);
            key_of[*c] = Some(k);
        }
    }
    let mut g: Option<Box<dyn GroupDyn>> = Some(build_group_with(stream, keyed, ctor.clone()));
    if let Ctor::FromIter(cs) = &ctor {
        for c in cs {
            log(format!("in {c} {}", key_of[*c].unwrap()));
        }
    }
    // the first operation of the history is the one the constructor stands for
    let skip = match ctor {
        Ctor::WithCapacity(_) | Ctor::FromIter(_) => 1,
        _ => 0,
    };
    if skip == 1 {
        ks();
    }
    for o in ops.iter().skip(skip) {
        let ws: Vec<&str> = o.split(' ').collect();
        if ws[0] == "f" {
            fire_op(ws[1].parse().unwrap(), ws[2].parse().unwrap());
            continue;
        }
        if ws[0] == "d" {
            log("db".into());
            drop(g.take());
            log("de".into());
            continue;
        }
        let grp = match g.as_mut() {
            Some(g) => g,
            None => continue,
        };
        match ws[0] {
            "i" => {
                let c: usize = ws[1].parse().unwrap();
                let k = grp.insert(c);
                if k == usize::MAX {
                    continue;
                }
                let mk = mirror.insert();
                set_slot(c, k);
                key_of[c] = Some(k);
                log(format!("in {c} {k}"));
                if mk != k {
                    log(format!("mirror-mismatch {mk} {k}"));
                }
            }
            "p" => {
                let from = CTX.with(|c| c.borrow().log.len());
                do_poll(&mut |cx| grp.poll(cx), ws[1].parse().unwrap());
                let done: Vec<usize> = CTX.with(|c| {
                    c.borrow().log[from..]
                        .iter()
                        .filter_map(|l| {
                            let ws: Vec<&str> = l.split(' ').collect();
                            if ws.len() == 3 && ws[0] == "ce" && (ws[2].starts_with('R') || ws[2] == "F") {
                                ws[1].parse().ok()
                            } else {
                                None
                            }
                        })
                        .collect()
                });
                for c in done {
                    if let Some(k) = key_of[c].take() {
                        mirror.remove(k);
                    }
                }
            }
            "r" => {
                if let Some((k, present)) = grp.remove(ws[1].parse().unwrap()) {
                    if present {
                        mirror.remove(k);
                        for ko in key_of.iter_mut() {
                            if *ko == Some(k) {
                                *ko = None;
                            }
                        }
                    }
                    log(format!("rm {k} {}", if present { 1 } else { 0 }));
                }
            }
            "v" => grp.reserve(ws[1].parse().unwrap()),
            "e" => {
                let cs: Vec<usize> = if ws[1] == "-" { vec![] } else { ws[1].split(',').map(|x| x.parse().unwrap()).collect() };
                let mut probe = vec![];
                for c in &cs {
                    let k = mirror.insert();
                    set_slot(*c, k);
                    key_of[*c] = Some(k);
                    probe.push((*c, k));
                }
                grp.extend(&cs);
                for (c, k) in probe {
                    log(format!("in {c} {k}"));
                }
            }
            "ql" => log(format!("an 0 {}", grp.len())),
            "qe" => log(format!("an 1 {}", if grp.is_empty() { 1 } else { 0 })),
            "qc" => {
                if let Some((k, p)) = grp.contains(ws[1].parse().unwrap()) {
                    log(format!("an {} {}", 100 + k, if p { 1 } else { 0 }));
                }
            }
            "qk" => log(format!("an 3 {}", grp.capacity())),
            _ => {}
        }
        // the poll has logged its own snapshot
        if ws[0] != "p" {
            ks();
        }
    }
    if g.is_some() {
        set_mute(true);
        drop(g.take());
        set_mute(false);
    }
}

fn main() {
    let args: Vec<String> = std::env::args().collect();
    std::panic::set_hook(Box::new(|_| {}));
    // a case that stops making progress (deadlock) is printed as far as it got and ends the run
    start_watchdog(std::env::var("FC_WATCHDOG_SECS").ok().and_then(|s| s.parse().ok()).unwrap_or(30));
    if args.get(1).map(|s| s.as_str()) == Some("replay") {
        replay();
        return;
    }
    if args.get(1).map(|s| s.as_str()) == Some("exh-space") {
        println!("{}", exh_space(args.get(2).map(|s| s.as_str()).unwrap_or("join")));
        return;
    }
    let seed: u64 = args.get(1).and_then(|s| s.parse().ok()).unwrap_or(1);
    let count: usize = args.get(2).and_then(|s| s.parse().ok()).unwrap_or(10);
    let fams: Vec<String> = args
        .get(3)
        .map(|s| s.split(',').map(|x| x.to_string()).collect())
        .unwrap_or_else(|| vec!["join".to_string()]);
    // `mt` / `mt-<profile>`: the profile's cases with in-poll wake-ups issued from a second thread
    let pname: String = args.get(4).cloned().unwrap_or_else(|| "random".into());
    let prof = if pname == "mt" || pname.starts_with("mt-") {
        MT.store(true, std::sync::atomic::Ordering::Relaxed);
        Profile { name: pname.strip_prefix("mt-").unwrap_or("random").to_string() }
    } else {
        Profile { name: pname.clone() }
    };
    // injected panics are part of the cases; keep stderr quiet
    std::panic::set_hook(Box::new(|_| {}));
    let mut rng = Rng(seed.wrapping_mul(0x2545F4914F6CDD1D) ^ 0xD1B54A32D192ED03);
    let cfg = if cfg!(feature = "verif") { "stdv" } else if cfg!(feature = "cfg-std") { "std" } else if cfg!(feature = "cfg-alloc") { "alloc" } else { "nostd" };
    for k in 0..count {
        let fam = fams[k % fams.len()].clone();
        let id = format!("{cfg}-{pname}-{fam}-{seed}-{k}");
        match fam.as_str() {
            "fgroup" | "sgroup" if prof.is("exh") => {
                #[cfg(feature = "cfg-alloc")]
                run_exh_group(fam == "sgroup", &id, seed.wrapping_mul(count as u64).wrapping_add(k as u64) / fams.len() as u64);
            }
            "fgroup" | "sgroup" => {
                #[cfg(feature = "cfg-alloc")]
                run_group(&mut rng, fam == "sgroup", &id, &prof);
            }
            "co" => {
                #[cfg(feature = "co")]
                run_co(&mut rng, &id, &prof);
            }
            "nest" => {
                #[cfg(feature = "cfg-alloc")]
                run_nest(&mut rng, &id, &prof);
            }
            _ if prof.is("exh") => run_exh(&fam, &id, seed.wrapping_mul(count as u64).wrapping_add(k as u64) / fams.len() as u64),
            _ => run_fixed(&mut rng, &fam, &id, &prof),
        }
    }
}
