//! One level of nesting: an outer combinator (join / race / merge / chain / zip over a Vec, or a
//! group) some of whose children are themselves combinators over scripted leaves.
//!
//! A nested child `c` is wrapped so that the outer combinator sees an ordinary child: the wrapper
//! logs `cb c <slot> <waker class>` before polling the inner combinator and `ce c <result>` after,
//! exactly like a scripted child; the leaves of the inner combinator have ids `100*(c+1)+g` and log
//! their own events in between.  The flattened log is what the monitors are evaluated on.
#![cfg(feature = "cfg-alloc")]

use std::future::Future;
use std::pin::Pin;
use std::task::{Context, Poll};

use futures_concurrency::prelude::*;
use futures_core::Stream;

use crate::core::*;

pub type BFut = Pin<Box<dyn Future<Output = Tagged>>>;
pub type BStream = Pin<Box<dyn Stream<Item = Tagged>>>;

pub fn leaf_id(c: usize, g: usize) -> usize {
    100 * (c + 1) + g
}

/// value a nested future child hands to the outer combinator
pub fn nest_val(c: usize) -> usize {
    9000 + c
}

/// wrapper around an inner future whose output is a container of `Tagged`
pub struct NestFut<F: Future> {
    id: usize,
    inner: Option<Pin<Box<F>>>,
}
impl<F: Future> Unpin for NestFut<F> {}
impl<F: Future> Future for NestFut<F> {
    type Output = Tagged;
    fn poll(mut self: Pin<&mut Self>, cx: &mut Context<'_>) -> Poll<Tagged> {
        let id = self.id;
        child_begin(id, cx);
        let r = self.inner.as_mut().expect("nested future polled after completion").as_mut().poll(cx);
        match r {
            Poll::Pending => {
                log(format!("ce {id} P"));
                Poll::Pending
            }
            Poll::Ready(out) => {
                // the inner combinator's outputs are dropped here; the (finished) inner combinator
                // itself lives as long as the wrapper
                drop(out);
                log(format!("ce {id} R{}", nest_val(id)));
                Poll::Ready(Tagged(nest_val(id)))
            }
        }
    }
}
impl<F: Future> Drop for NestFut<F> {
    fn drop(&mut self) {
        drop(self.inner.take());
        log_child_drop(self.id);
    }
}

/// wrapper around an inner stream; every inner item is passed on as it is (`Tagged`) or, for rows,
/// replaced by a fresh value
pub struct NestStream<S: Stream> {
    id: usize,
    inner: Option<Pin<Box<S>>>,
    seq: usize,
}
impl<S: Stream> Unpin for NestStream<S> {}
pub trait IntoTagged {
    /// `Some(id)`: the item is itself a tagged value with that id
    fn single(&self) -> Option<usize>;
}
impl IntoTagged for Tagged {
    fn single(&self) -> Option<usize> {
        Some(self.0)
    }
}
impl IntoTagged for Vec<Tagged> {
    fn single(&self) -> Option<usize> {
        None
    }
}
impl<S: Stream> Stream for NestStream<S>
where
    S::Item: IntoTagged,
{
    type Item = Tagged;
    fn poll_next(mut self: Pin<&mut Self>, cx: &mut Context<'_>) -> Poll<Option<Tagged>> {
        let id = self.id;
        child_begin(id, cx);
        let r = self.inner.as_mut().expect("nested stream polled after end").as_mut().poll_next(cx);
        match r {
            Poll::Pending => {
                log(format!("ce {id} P"));
                Poll::Pending
            }
            Poll::Ready(None) => {
                log(format!("ce {id} F"));
                Poll::Ready(None)
            }
            Poll::Ready(Some(item)) => {
                self.seq += 1;
                let v = 9000 + 100 * id + self.seq;
                drop(item);
                log(format!("ce {id} I{v}"));
                Poll::Ready(Some(Tagged(v)))
            }
        }
    }
}
impl<S: Stream> Drop for NestStream<S> {
    fn drop(&mut self) {
        drop(self.inner.take());
        log_child_drop(self.id);
    }
}

/// inner future combinator of outer child `c` over `k` leaves
pub fn inner_fut(fam: &str, c: usize, k: usize) -> BFut {
    let leaves = || (0..k).map(|g| SFut(leaf_id(c, g))).collect::<Vec<_>>();
    match fam {
        "join" => Box::pin(NestFut { id: c, inner: Some(Box::pin(leaves().join())) }),
        "race" => Box::pin(NestFut { id: c, inner: Some(Box::pin(leaves().race())) }),
        "tryjoin" => {
            let l = (0..k).map(|g| RFut(leaf_id(c, g))).collect::<Vec<_>>();
            Box::pin(NestFut { id: c, inner: Some(Box::pin(l.try_join())) })
        }
        other => panic!("unknown inner future family {other}"),
    }
}

pub fn inner_stream(fam: &str, c: usize, k: usize) -> BStream {
    let leaves = || (0..k).map(|g| SStream(leaf_id(c, g))).collect::<Vec<_>>();
    match fam {
        "merge" => Box::pin(NestStream { id: c, inner: Some(Box::pin(leaves().merge())), seq: 0 }),
        "chain" => Box::pin(NestStream { id: c, inner: Some(Box::pin(leaves().chain())), seq: 0 }),
        "zip" => Box::pin(NestStream { id: c, inner: Some(Box::pin(leaves().zip())), seq: 0 }),
        other => panic!("unknown inner stream family {other}"),
    }
}

pub enum NestTop {
    Fut(Pin<Box<dyn Future<Output = Vec<usize>>>>),
    Stream(Pin<Box<dyn Stream<Item = Vec<usize>>>>),
}

impl NestTop {
    pub fn poll(&mut self, cx: &mut Context<'_>) -> String {
        let list = |v: &[usize]| {
            if v.is_empty() {
                "-".to_string()
            } else {
                v.iter().map(|x| x.to_string()).collect::<Vec<_>>().join(",")
            }
        };
        match self {
            NestTop::Fut(f) => match f.as_mut().poll(cx) {
                Poll::Pending => "P".into(),
                Poll::Ready(v) => format!("R 1 {}", list(&v)),
            },
            NestTop::Stream(s) => match s.as_mut().poll_next(cx) {
                Poll::Pending => "P".into(),
                Poll::Ready(None) => "N".into(),
                Poll::Ready(Some(v)) => format!("S 0 {}", list(&v)),
            },
        }
    }
}

fn ids_muted(v: Vec<Tagged>) -> Vec<usize> {
    let ids = v.iter().map(|t| t.0).collect();
    set_mute(true);
    drop(v);
    set_mute(false);
    ids
}

/// the outer combinator; `spec[c]` = `None` for a scripted leaf child `c`, `Some((fam, k))` for a nested one
pub fn build_nest(outer: &str, spec: &[Option<(String, usize)>]) -> NestTop {
    let n = spec.len();
    let fut_children = || -> Vec<BFut> {
        (0..n)
            .map(|c| match &spec[c] {
                None => Box::pin(SFut(c)) as BFut,
                Some((fam, k)) => inner_fut(fam, c, *k),
            })
            .collect()
    };
    let stream_children = || -> Vec<BStream> {
        (0..n)
            .map(|c| match &spec[c] {
                None => Box::pin(SStream(c)) as BStream,
                Some((fam, k)) => inner_stream(fam, c, *k),
            })
            .collect()
    };
    match outer {
        "join" => NestTop::Fut(Box::pin(MapFut { f: Box::pin(fut_children().join()), conv: ids_muted })),
        "race" => NestTop::Fut(Box::pin(MapFut { f: Box::pin(fut_children().race()), conv: |t| ids_muted(vec![t]) })),
        "merge" => {
            let s = stream_children().merge();
            NestTop::Stream(Box::pin(MapIds { s: Box::pin(s) }))
        }
        "chain" => {
            let s = stream_children().chain();
            NestTop::Stream(Box::pin(MapIds { s: Box::pin(s) }))
        }
        "zip" => {
            let s = stream_children().zip();
            NestTop::Stream(Box::pin(MapRow { s: Box::pin(s) }))
        }
        other => panic!("unknown outer family {other}"),
    }
}

/// polls the combinator in place (it is dropped only when the harness drops the top-level future)
struct MapFut<F: Future> {
    f: Pin<Box<F>>,
    conv: fn(F::Output) -> Vec<usize>,
}
impl<F: Future> Future for MapFut<F> {
    type Output = Vec<usize>;
    fn poll(mut self: Pin<&mut Self>, cx: &mut Context<'_>) -> Poll<Vec<usize>> {
        match self.f.as_mut().poll(cx) {
            Poll::Pending => Poll::Pending,
            Poll::Ready(o) => Poll::Ready((self.conv)(o)),
        }
    }
}

struct MapIds<S> {
    s: Pin<Box<S>>,
}
impl<S: Stream<Item = Tagged>> Stream for MapIds<S> {
    type Item = Vec<usize>;
    fn poll_next(mut self: Pin<&mut Self>, cx: &mut Context<'_>) -> Poll<Option<Vec<usize>>> {
        match self.s.as_mut().poll_next(cx) {
            Poll::Pending => Poll::Pending,
            Poll::Ready(None) => Poll::Ready(None),
            Poll::Ready(Some(t)) => Poll::Ready(Some(ids_muted(vec![t]))),
        }
    }
}
struct MapRow<S> {
    s: Pin<Box<S>>,
}
impl<S: Stream<Item = Vec<Tagged>>> Stream for MapRow<S> {
    type Item = Vec<usize>;
    fn poll_next(mut self: Pin<&mut Self>, cx: &mut Context<'_>) -> Poll<Option<Vec<usize>>> {
        match self.s.as_mut().poll_next(cx) {
            Poll::Pending => Poll::Pending,
            Poll::Ready(None) => Poll::Ready(None),
            Poll::Ready(Some(row)) => Poll::Ready(Some(ids_muted(row))),
        }
    }
}
