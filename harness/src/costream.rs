//! Concurrent streams: `stream.co()` → adapter stack (map / enumerate / take / limit) → terminal
//! operation (for_each / try_for_each / collect::<Vec> / collect::<Result<Vec,_>>), driven like
//! every other case: scripted source (child 0), scripted work futures (one per closure call),
//! explicit polls with fresh task wakers, explicit wake-ups, explicit drop.
//!
//! Extra event: `cc <stage> <j> <idxs|-> <child>` — closure `stage` (maps in stack order, then the
//! terminal closure) was called with source item `j` (carrying the enumerate indices `idxs`,
//! source→sink order) and returned work future `child`.
//! Top-level outcomes: `P`, `R-` (unit), `RO` / `RE <e>` (try_for_each), `RV <items>` (collect Vec;
//! item = `<j>` or `<j>:<idx>.<idx>`), `RK <items>` / `RF <e>` (collect Result).
#![cfg(feature = "co")]

use std::cell::RefCell;
use std::future::Future;
use std::num::NonZeroUsize;
use std::pin::Pin;
use std::task::{Context, Poll};

use futures_concurrency::concurrent_stream::ConcurrentStream;
use futures_concurrency::prelude::*;

use crate::core::*;

/// item id of source item `j`
pub fn item_id(j: usize) -> usize {
    1000 * (j + 1)
}

#[derive(Default)]
struct CoCtx {
    stages: usize,
    next_stage: usize,
    takes: Vec<usize>,
    limits: Vec<usize>,
}

thread_local! {
    static CO: RefCell<CoCtx> = RefCell::new(CoCtx::default());
}

fn next_stage() -> usize {
    CO.with(|c| {
        let mut c = c.borrow_mut();
        c.next_stage += 1;
        c.next_stage - 1
    })
}
fn next_take() -> usize {
    CO.with(|c| c.borrow_mut().takes.remove(0))
}
fn next_limit() -> Option<NonZeroUsize> {
    CO.with(|c| NonZeroUsize::new(c.borrow_mut().limits.remove(0)))
}
/// the child id of the work future of closure `stage` for item `j`
pub fn work_child(stages: usize, stage: usize, j: usize) -> usize {
    1 + j * stages + stage
}

/// a (possibly enumerated) item
pub trait Flat {
    fn base(&self) -> usize;
    /// enumerate indices, source → sink order
    fn idxs(&self) -> Vec<usize>;
    fn text(&self) -> String {
        let j = self.base() / 1000 - 1;
        let ix = self.idxs();
        if ix.is_empty() {
            format!("{j}")
        } else {
            format!("{j}:{}", ix.iter().map(|x| x.to_string()).collect::<Vec<_>>().join("."))
        }
    }
}
impl Flat for Tagged {
    fn base(&self) -> usize {
        self.0
    }
    fn idxs(&self) -> Vec<usize> {
        vec![]
    }
}
impl<T: Flat> Flat for (usize, T) {
    fn base(&self) -> usize {
        self.1.base()
    }
    fn idxs(&self) -> Vec<usize> {
        let mut v = self.1.idxs();
        v.push(self.0);
        v
    }
}

fn called<T: Flat>(stage: usize, item: &T) -> usize {
    let j = item.base() / 1000 - 1;
    let stages = CO.with(|c| c.borrow().stages);
    let k = work_child(stages, stage, j);
    let ix = item.idxs();
    let ixt = if ix.is_empty() { "-".to_string() } else { ix.iter().map(|x| x.to_string()).collect::<Vec<_>>().join(".") };
    log(format!("cc {stage} {j} {ixt} {k}"));
    k
}

/// work future of a `map` closure: hands the item on once its script resolves
pub struct WorkFut<T> {
    child: usize,
    item: Option<T>,
}
impl<T> Unpin for WorkFut<T> {}
impl<T> Future for WorkFut<T> {
    type Output = T;
    fn poll(mut self: Pin<&mut Self>, cx: &mut Context<'_>) -> Poll<T> {
        match poll_child(self.child, cx) {
            Res::Ready(_, _) => Poll::Ready(self.item.take().expect("work future polled after completion")),
            _ => Poll::Pending,
        }
    }
}
impl<T> Drop for WorkFut<T> {
    fn drop(&mut self) {
        log(format!("cd {}", self.child));
    }
}

/// work future of a fallible `map` closure (only in front of `collect::<Result<..>>`)
pub struct ResFut<T> {
    child: usize,
    item: Option<T>,
}
impl<T> Unpin for ResFut<T> {}
impl<T> Future for ResFut<T> {
    type Output = Result<T, Tagged>;
    fn poll(mut self: Pin<&mut Self>, cx: &mut Context<'_>) -> Poll<Self::Output> {
        match poll_child(self.child, cx) {
            Res::Ready(true, _) => Poll::Ready(Ok(self.item.take().expect("polled after completion"))),
            Res::Ready(false, e) => {
                drop(self.item.take());
                Poll::Ready(Err(Tagged(e)))
            }
            _ => Poll::Pending,
        }
    }
}
impl<T> Drop for ResFut<T> {
    fn drop(&mut self) {
        log(format!("cd {}", self.child));
    }
}

/// work future of a `for_each` closure: consumes the item when it resolves
pub struct UnitFut<T> {
    child: usize,
    item: Option<T>,
}
impl<T> Unpin for UnitFut<T> {}
impl<T> Future for UnitFut<T> {
    type Output = ();
    fn poll(mut self: Pin<&mut Self>, cx: &mut Context<'_>) -> Poll<()> {
        match poll_child(self.child, cx) {
            Res::Ready(_, _) => {
                drop(self.item.take());
                Poll::Ready(())
            }
            _ => Poll::Pending,
        }
    }
}
impl<T> Drop for UnitFut<T> {
    fn drop(&mut self) {
        log(format!("cd {}", self.child));
    }
}

/// work future of a `try_for_each` closure
pub struct TryFut<T> {
    child: usize,
    item: Option<T>,
}
impl<T> Unpin for TryFut<T> {}
impl<T> Future for TryFut<T> {
    type Output = Result<(), Tagged>;
    fn poll(mut self: Pin<&mut Self>, cx: &mut Context<'_>) -> Poll<Self::Output> {
        match poll_child(self.child, cx) {
            Res::Ready(true, _) => {
                drop(self.item.take());
                Poll::Ready(Ok(()))
            }
            Res::Ready(false, e) => {
                drop(self.item.take());
                Poll::Ready(Err(Tagged(e)))
            }
            _ => Poll::Pending,
        }
    }
}
impl<T> Drop for TryFut<T> {
    fn drop(&mut self) {
        log(format!("cd {}", self.child));
    }
}

fn mapper<T: Flat>(stage: usize) -> impl Fn(T) -> WorkFut<T> + Clone {
    move |item: T| {
        let child = called(stage, &item);
        WorkFut { child, item: Some(item) }
    }
}
fn res_mapper<T: Flat>(stage: usize) -> impl Fn(T) -> ResFut<T> + Clone {
    move |item: T| {
        let child = called(stage, &item);
        ResFut { child, item: Some(item) }
    }
}
fn unit_closure<T: Flat>(stage: usize) -> impl Fn(T) -> UnitFut<T> + Clone {
    move |item: T| {
        let child = called(stage, &item);
        UnitFut { child, item: Some(item) }
    }
}
fn try_closure<T: Flat>(stage: usize) -> impl Fn(T) -> TryFut<T> + Clone {
    move |item: T| {
        let child = called(stage, &item);
        TryFut { child, item: Some(item) }
    }
}

pub type Top = Pin<Box<dyn Future<Output = String>>>;

fn items_text<T: Flat>(v: &[T]) -> String {
    if v.is_empty() {
        "-".into()
    } else {
        v.iter().map(|t| t.text()).collect::<Vec<_>>().join(",")
    }
}

async fn run_for_each<CS: ConcurrentStream>(cs: CS) -> String
where
    CS::Item: Flat,
{
    let stage = next_stage();
    cs.for_each(unit_closure::<CS::Item>(stage)).await;
    "R-".into()
}

async fn run_try_for_each<CS: ConcurrentStream>(cs: CS) -> String
where
    CS::Item: Flat,
{
    let stage = next_stage();
    let r: Result<(), Tagged> = cs.try_for_each(try_closure::<CS::Item>(stage)).await;
    match r {
        Ok(()) => "RO".into(),
        Err(e) => {
            let t = format!("RE {}", e.0);
            set_mute(true);
            drop(e);
            set_mute(false);
            t
        }
    }
}

async fn run_collect<CS: ConcurrentStream>(cs: CS) -> String
where
    CS::Item: Flat,
{
    let v: Vec<CS::Item> = cs.collect().await;
    let t = format!("RV {}", items_text(&v));
    set_mute(true);
    drop(v);
    set_mute(false);
    t
}

async fn run_collect_res<CS, T>(cs: CS) -> String
where
    CS: ConcurrentStream<Item = Result<T, Tagged>>,
    T: Flat,
{
    let r: Result<Vec<T>, Tagged> = cs.collect().await;
    let t = match &r {
        Ok(v) => format!("RK {}", items_text(v)),
        Err(e) => format!("RF {}", e.0),
    };
    set_mute(true);
    drop(r);
    set_mute(false);
    t
}

macro_rules! chain {
    ($s:expr; ) => { $s };
    ($s:expr; M $($rest:tt)*) => { chain!($s.map(mapper(next_stage())); $($rest)*) };
    ($s:expr; R $($rest:tt)*) => { chain!($s.map(res_mapper(next_stage())); $($rest)*) };
    ($s:expr; E $($rest:tt)*) => { chain!($s.enumerate(); $($rest)*) };
    ($s:expr; T $($rest:tt)*) => { chain!($s.take(next_take()); $($rest)*) };
    ($s:expr; L $($rest:tt)*) => { chain!($s.limit(next_limit()); $($rest)*) };
}

/// adapter stacks the harness instantiates (source → sink); `R` = fallible map (collect-Result only)
macro_rules! plain_shapes {
    ($run:ident, $shape:expr, $src:expr) => {
        match $shape {
            "-" => Box::pin($run(chain!($src; ))) as Top,
            "M" => Box::pin($run(chain!($src; M))) as Top,
            "E" => Box::pin($run(chain!($src; E))) as Top,
            "T" => Box::pin($run(chain!($src; T))) as Top,
            "L" => Box::pin($run(chain!($src; L))) as Top,
            "MM" => Box::pin($run(chain!($src; M M))) as Top,
            "ME" => Box::pin($run(chain!($src; M E))) as Top,
            "EM" => Box::pin($run(chain!($src; E M))) as Top,
            "MT" => Box::pin($run(chain!($src; M T))) as Top,
            "TM" => Box::pin($run(chain!($src; T M))) as Top,
            "ML" => Box::pin($run(chain!($src; M L))) as Top,
            "LM" => Box::pin($run(chain!($src; L M))) as Top,
            "ET" => Box::pin($run(chain!($src; E T))) as Top,
            "TE" => Box::pin($run(chain!($src; T E))) as Top,
            "EL" => Box::pin($run(chain!($src; E L))) as Top,
            "LE" => Box::pin($run(chain!($src; L E))) as Top,
            "EE" => Box::pin($run(chain!($src; E E))) as Top,
            "TT" => Box::pin($run(chain!($src; T T))) as Top,
            "TL" => Box::pin($run(chain!($src; T L))) as Top,
            "LT" => Box::pin($run(chain!($src; L T))) as Top,
            "LL" => Box::pin($run(chain!($src; L L))) as Top,
            "MET" => Box::pin($run(chain!($src; M E T))) as Top,
            "TME" => Box::pin($run(chain!($src; T M E))) as Top,
            "EMT" => Box::pin($run(chain!($src; E M T))) as Top,
            "LMT" => Box::pin($run(chain!($src; L M T))) as Top,
            "MTL" => Box::pin($run(chain!($src; M T L))) as Top,
            "TEM" => Box::pin($run(chain!($src; T E M))) as Top,
            "MMM" => Box::pin($run(chain!($src; M M M))) as Top,
            "ETM" => Box::pin($run(chain!($src; E T M))) as Top,
            "LEM" => Box::pin($run(chain!($src; L E M))) as Top,
            "MLE" => Box::pin($run(chain!($src; M L E))) as Top,
            "TLM" => Box::pin($run(chain!($src; T L M))) as Top,
            "EET" => Box::pin($run(chain!($src; E E T))) as Top,
            "LTL" => Box::pin($run(chain!($src; L T L))) as Top,
            "MEM" => Box::pin($run(chain!($src; M E M))) as Top,
            other => panic!("unknown adapter stack {other}"),
        }
    };
}

pub const PLAIN_SHAPES: &[&str] = &[
    "-", "M", "E", "T", "L", "MM", "ME", "EM", "MT", "TM", "ML", "LM", "ET", "TE", "EL", "LE", "EE", "TT", "TL", "LT",
    "LL", "MET", "TME", "EMT", "LMT", "MTL", "TEM", "MMM", "ETM", "LEM", "MLE", "TLM", "EET", "LTL", "MEM",
];

macro_rules! res_shapes {
    ($shape:expr, $src:expr) => {
        match $shape {
            "R" => Box::pin(run_collect_res(chain!($src; R))) as Top,
            "RT" => Box::pin(run_collect_res(chain!($src; R T))) as Top,
            "TR" => Box::pin(run_collect_res(chain!($src; T R))) as Top,
            "MR" => Box::pin(run_collect_res(chain!($src; M R))) as Top,
            "ER" => Box::pin(run_collect_res(chain!($src; E R))) as Top,
            "LR" => Box::pin(run_collect_res(chain!($src; L R))) as Top,
            "RL" => Box::pin(run_collect_res(chain!($src; R L))) as Top,
            "MRT" => Box::pin(run_collect_res(chain!($src; M R T))) as Top,
            "TMR" => Box::pin(run_collect_res(chain!($src; T M R))) as Top,
            "EMR" => Box::pin(run_collect_res(chain!($src; E M R))) as Top,
            "ERT" => Box::pin(run_collect_res(chain!($src; E R T))) as Top,
            other => panic!("unknown adapter stack {other}"),
        }
    };
}

pub const RES_SHAPES: &[&str] = &["R", "RT", "TR", "MR", "ER", "LR", "RL", "MRT", "TMR", "EMR", "ERT"];

/// number of closure stages of a case
pub fn stages_of(term: &str, shape: &str) -> usize {
    let maps = shape.chars().filter(|c| *c == 'M' || *c == 'R').count();
    maps + if term == "fe" || term == "tfe" { 1 } else { 0 }
}

/// build the real top-level future.  `vec_items = None`: the source is scripted child 0 through
/// `.co()`; `Some(j)`: the source is `Vec::into_co_stream()` over `j` items (its polls are not
/// observable: the driver reconstructs them, see Fc/CoText.lean `withHiddenSource`)
pub fn build_co(term: &str, shape: &str, takes: &[usize], limits: &[usize], vec_items: Option<usize>) -> Top {
    CO.with(|c| {
        *c.borrow_mut() =
            CoCtx { stages: stages_of(term, shape), next_stage: 0, takes: takes.to_vec(), limits: limits.to_vec() }
    });
    match vec_items {
        None => {
            let src = SStream(0).co();
            match term {
                "fe" => plain_shapes!(run_for_each, shape, src),
                "tfe" => plain_shapes!(run_try_for_each, shape, src),
                "cv" => plain_shapes!(run_collect, shape, src),
                "cr" => res_shapes!(shape, src),
                other => panic!("unknown terminal {other}"),
            }
        }
        Some(j) => {
            let items: Vec<Tagged> = (0..j).map(|i| Tagged(item_id(i))).collect();
            let src = items.into_co_stream();
            match term {
                "fe" => plain_shapes!(run_for_each, shape, src),
                "tfe" => plain_shapes!(run_try_for_each, shape, src),
                "cv" => plain_shapes!(run_collect, shape, src),
                "cr" => res_shapes!(shape, src),
                other => panic!("unknown terminal {other}"),
            }
        }
    }
}

pub struct CoComb {
    pub top: Top,
}
impl CoComb {
    pub fn poll(&mut self, cx: &mut Context<'_>) -> String {
        match self.top.as_mut().poll(cx) {
            Poll::Pending => "P".into(),
            Poll::Ready(s) => s,
        }
    }
}
