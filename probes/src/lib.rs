//! C18 probes: rustc's trait solver as the oracle for "Send/Sync in, Send/Sync out".
//!
//! Everything here is checked at compile time (`cargo check`); nothing runs.  Three kinds:
//!  * parametric obligations `fn _<F: Future + Send>() where F::Output: Send { is_send::<T<F>>() }`
//!    for every public combinator type — the solver proves them for EVERY instantiation;
//!  * concrete instantiations with children that are Send but not Sync (and vice versa);
//!  * the opaque futures of the concurrent-stream terminal operations (async fns), with closures
//!    and work futures that are Send but not Sync.
#![allow(dead_code, clippy::all)]
#![cfg_attr(not(feature = "cfg-std"), no_std)]

#[cfg(feature = "cfg-alloc")]
extern crate alloc;

use core::cell::Cell;
use core::future::Future;
use core::marker::PhantomData;
use core::pin::Pin;
use core::task::{Context, Poll};

use futures_concurrency::prelude::*;
use futures_core::Stream;

fn is_send<T: Send>() {}
fn is_sync<T: Sync>() {}
fn val_send<T: Send>(_: &T) {}

/// a future that is Send but not Sync, with an output that is Send but not Sync
pub struct SendOnlyFut(PhantomData<Cell<()>>);
impl Future for SendOnlyFut {
    type Output = Cell<u8>;
    fn poll(self: Pin<&mut Self>, _: &mut Context<'_>) -> Poll<Self::Output> {
        Poll::Pending
    }
}
/// a future that is Sync but not Send
pub struct SyncOnlyFut(PhantomData<SyncOnly>);
pub struct SyncOnly(PhantomData<*const ()>);
unsafe impl Sync for SyncOnly {}
impl Future for SyncOnlyFut {
    type Output = SyncOnly;
    fn poll(self: Pin<&mut Self>, _: &mut Context<'_>) -> Poll<Self::Output> {
        Poll::Pending
    }
}
pub struct SendOnlyResFut(PhantomData<Cell<()>>);
impl Future for SendOnlyResFut {
    type Output = Result<Cell<u8>, Cell<u16>>;
    fn poll(self: Pin<&mut Self>, _: &mut Context<'_>) -> Poll<Self::Output> {
        Poll::Pending
    }
}
pub struct SendOnlyStream(PhantomData<Cell<()>>);
impl Stream for SendOnlyStream {
    type Item = Cell<u8>;
    fn poll_next(self: Pin<&mut Self>, _: &mut Context<'_>) -> Poll<Option<Self::Item>> {
        Poll::Pending
    }
}
pub struct SyncOnlyStream(PhantomData<SyncOnly>);
impl Stream for SyncOnlyStream {
    type Item = SyncOnly;
    fn poll_next(self: Pin<&mut Self>, _: &mut Context<'_>) -> Poll<Option<Self::Item>> {
        Poll::Pending
    }
}

// ------------------------------------------------------------------ parametric obligations

mod parametric {
    use super::*;
    use futures_concurrency::{array, future, stream};

    fn join_array<F: Future + Send, const N: usize>()
    where
        F::Output: Send,
    {
        is_send::<array::Join<F, N>>();
        is_send::<array::Race<F, N>>();
        is_send::<future::WaitUntil<F, F>>();
    }
    fn join_array_sync<F: Future + Sync, const N: usize>()
    where
        F::Output: Sync,
    {
        is_sync::<array::Join<F, N>>();
        is_sync::<array::Race<F, N>>();
    }
    fn try_array<F, T, E, const N: usize>()
    where
        F: Future<Output = Result<T, E>> + Send,
        T: Send,
        E: Send,
    {
        is_send::<array::TryJoin<F, T, E, N>>();
        is_send::<array::RaceOk<F, T, E, N>>();
    }
    fn try_array_sync<F, T, E, const N: usize>()
    where
        F: Future<Output = Result<T, E>> + Sync,
        T: Sync,
        E: Sync,
    {
        is_sync::<array::TryJoin<F, T, E, N>>();
        is_sync::<array::RaceOk<F, T, E, N>>();
    }
    fn stream_array<S: Stream + Send, const N: usize>()
    where
        S::Item: Send,
    {
        is_send::<array::Merge<S, N>>();
        is_send::<array::Zip<S, N>>();
        is_send::<array::Chain<S, N>>();
    }
    fn stream_array_sync<S: Stream + Sync, const N: usize>()
    where
        S::Item: Sync,
    {
        is_sync::<array::Merge<S, N>>();
        is_sync::<array::Zip<S, N>>();
        is_sync::<array::Chain<S, N>>();
    }
    fn wait_until_stream<S: Stream + Send, D: Future + Send>()
    where
        S::Item: Send,
        D::Output: Send,
    {
        is_send::<stream::WaitUntil<S, D>>();
    }

    #[cfg(feature = "cfg-alloc")]
    mod with_alloc {
        use super::*;
        use futures_concurrency::future::future_group;
        use futures_concurrency::stream::stream_group;
        use futures_concurrency::vec;

        fn vecs<F: Future + Send>()
        where
            F::Output: Send,
        {
            is_send::<vec::Join<F>>();
            is_send::<vec::Race<F>>();
            is_send::<future::FutureGroup<F>>();
            is_send::<future_group::Keyed<F>>();
        }
        fn vecs_sync<F: Future + Sync>()
        where
            F::Output: Sync,
        {
            is_sync::<vec::Join<F>>();
            is_sync::<vec::Race<F>>();
            is_sync::<future::FutureGroup<F>>();
            is_sync::<future_group::Keyed<F>>();
        }
        fn try_vecs<F, T, E>()
        where
            F: Future<Output = Result<T, E>> + Send,
            T: Send,
            E: Send,
        {
            is_send::<vec::TryJoin<F, T, E>>();
            is_send::<vec::RaceOk<F, T, E>>();
        }
        fn stream_vecs<S: Stream + Send>()
        where
            S::Item: Send,
        {
            is_send::<vec::Merge<S>>();
            is_send::<vec::Zip<S>>();
            is_send::<vec::Chain<S>>();
            is_send::<stream::StreamGroup<S>>();
            is_send::<stream_group::Keyed<S>>();
        }
        fn stream_vecs_sync<S: Stream + Sync>()
        where
            S::Item: Sync,
        {
            is_sync::<vec::Merge<S>>();
            is_sync::<vec::Zip<S>>();
            is_sync::<vec::Chain<S>>();
            is_sync::<stream::StreamGroup<S>>();
            is_sync::<stream_group::Keyed<S>>();
        }
    }
}

// ------------------------------------------------------------------ concrete instantiations

/// tuple arities 1..12 through the public traits (the tuple types themselves are not nameable)
macro_rules! tuple_probes {
    ($($name:ident: ($($x:tt)*);)*) => {
        $(
            fn $name() {
                let f = || SendOnlyFut(PhantomData);
                let r = || SendOnlyResFut(PhantomData);
                let s = || SendOnlyStream(PhantomData);
                val_send(&($(tuple_probes!(@e f $x),)*).join());
                val_send(&($(tuple_probes!(@e f $x),)*).race());
                val_send(&($(tuple_probes!(@e r $x),)*).try_join());
                val_send(&($(tuple_probes!(@e r $x),)*).race_ok());
                val_send(&($(tuple_probes!(@e s $x),)*).merge());
                val_send(&($(tuple_probes!(@e s $x),)*).zip());
                val_send(&($(tuple_probes!(@e s $x),)*).chain());
            }
        )*
    };
    (@e $f:ident $x:tt) => { $f() };
}
tuple_probes! {
    t1: (a);
    t2: (a b);
    t3: (a b c);
    t4: (a b c d);
    t5: (a b c d e);
    t6: (a b c d e f);
    t7: (a b c d e f g);
    t8: (a b c d e f g h);
    t9: (a b c d e f g h i);
    t10: (a b c d e f g h i j);
    t11: (a b c d e f g h i j k);
    t12: (a b c d e f g h i j k l);
}

fn sync_tuples() {
    fn val_sync<T: Sync>(_: &T) {}
    let f = || SyncOnlyFut(PhantomData);
    let s = || SyncOnlyStream(PhantomData);
    val_sync(&(f(), f(), f()).join());
    val_sync(&(f(), f()).race());
    val_sync(&(s(), s(), s()).merge());
    val_sync(&(s(), s()).zip());
    val_sync(&(s(), s()).chain());
    val_sync(&[f(), f()].join());
    val_sync(&[s(), s()].merge());
}

fn ext_methods() {
    use futures_concurrency::future::FutureExt as _;
    use futures_concurrency::stream::StreamExt as _;
    val_send(&SendOnlyFut(PhantomData).join(SendOnlyFut(PhantomData)));
    val_send(&SendOnlyFut(PhantomData).race(SendOnlyFut(PhantomData)));
    val_send(&SendOnlyFut(PhantomData).wait_until(SendOnlyFut(PhantomData)));
    val_send(&SendOnlyStream(PhantomData).merge(SendOnlyStream(PhantomData)));
    val_send(&SendOnlyStream(PhantomData).chain(SendOnlyStream(PhantomData)));
    val_send(&SendOnlyStream(PhantomData).zip(SendOnlyStream(PhantomData)));
    val_send(&SendOnlyStream(PhantomData).wait_until(SendOnlyFut(PhantomData)));
}

// ------------------------------------------------------------------ concurrent streams (opaque async-fn futures)

#[cfg(feature = "cfg-alloc")]
mod co {
    use super::*;
    use alloc::vec;
    use alloc::vec::Vec;
    use core::num::NonZeroUsize;

    /// a closure capture that is Send + Clone but not Sync
    fn cap() -> Cell<u32> {
        Cell::new(0)
    }

    fn terminal_ops() {
        let c = cap();
        val_send(&SendOnlyStream(PhantomData).co().for_each(move |x| {
            let c = c.clone();
            async move {
                c.set(1);
                drop(x);
            }
        }));
        let c = cap();
        val_send(&SendOnlyStream(PhantomData).co().limit(NonZeroUsize::new(2)).try_for_each(move |x| {
            let c = c.clone();
            async move {
                c.set(1);
                drop(x);
                Ok::<(), Cell<u8>>(())
            }
        }));
        let c = cap();
        val_send(
            &SendOnlyStream(PhantomData)
                .co()
                .enumerate()
                .take(3)
                .map(move |(i, x)| {
                    let c = c.clone();
                    async move {
                        c.set(i as u32);
                        x
                    }
                })
                .collect::<Vec<_>>(),
        );
        val_send(
            &vec![Cell::new(1u8), Cell::new(2u8)]
                .into_co_stream()
                .map(|x| async move { Ok::<Cell<u8>, Cell<u16>>(x) })
                .collect::<Result<Vec<_>, _>>(),
        );
        val_send(&vec![Cell::new(1u8)].into_co_stream().for_each(|x| async move { drop(x) }));
    }

    fn adapters<CS: futures_concurrency::concurrent_stream::ConcurrentStream + Send>() {
        is_send::<futures_concurrency::concurrent_stream::Enumerate<CS>>();
        is_send::<futures_concurrency::concurrent_stream::Take<CS>>();
        is_send::<futures_concurrency::concurrent_stream::Limit<CS>>();
    }
    fn from_stream<S: Stream + Send>() {
        is_send::<futures_concurrency::concurrent_stream::FromStream<S>>();
    }
}
