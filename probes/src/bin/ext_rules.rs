//! rustc as the oracle for the rule table of external type constructors that the C18 model assumes
//! (tools/gen_autotraits.py `EXT`).  For every constructor and every marker argument
//! (B = Send+Sync, S = Send only, Y = Sync only, N = neither) prints `<ctor> <marker> <send> <sync>`
//! as decided by the trait solver; tools/c18_runner.py compares the table with `Rule.eval`.
use std::cell::{Cell, RefCell, UnsafeCell};
use std::marker::PhantomData;
use std::mem::{ManuallyDrop, MaybeUninit};
use std::pin::Pin;
use std::rc::Rc;
use std::sync::{Arc, Mutex};

struct B;
struct S(PhantomData<Cell<()>>);
struct Y(PhantomData<*const ()>);
unsafe impl Sync for Y {}
struct N(PhantomData<*const ()>);

/// a future whose auto traits are exactly those of `T`
struct Fut<T>(PhantomData<T>);
impl<T> std::future::Future for Fut<T> {
    type Output = ();
    fn poll(self: Pin<&mut Self>, _: &mut std::task::Context<'_>) -> std::task::Poll<()> {
        std::task::Poll::Pending
    }
}

struct IsSend<T: ?Sized>(PhantomData<T>);
impl<T: ?Sized + Send> IsSend<T> {
    const VALUE: bool = true;
}
struct IsSync<T: ?Sized>(PhantomData<T>);
impl<T: ?Sized + Sync> IsSync<T> {
    const VALUE: bool = true;
}
trait Fallback {
    const VALUE: bool = false;
}
impl<T: ?Sized> Fallback for IsSend<T> {}
impl<T: ?Sized> Fallback for IsSync<T> {}

macro_rules! row {
    ($name:literal, $m:literal, $t:ty) => {
        println!("{} {} {} {}", $name, $m, <IsSend<$t>>::VALUE as u8, <IsSync<$t>>::VALUE as u8);
    };
}
macro_rules! ctor {
    ($name:literal, $c:ident) => {
        row!($name, "B", $c<B>);
        row!($name, "S", $c<S>);
        row!($name, "Y", $c<Y>);
        row!($name, "N", $c<N>);
    };
}

type SmallVec4<T> = smallvec::SmallVec<[T; 4]>;
type FuturesUnordered<T> = futures_buffered::FuturesUnordered<Fut<T>>;
type PinBox<T> = Pin<Box<T>>;
type Result2<T> = Result<T, T>;
type VecIntoIter<T> = std::vec::IntoIter<T>;
type Ready<T> = std::future::Ready<T>;
type Slab<T> = slab::Slab<T>;
type BTreeSet<T> = std::collections::BTreeSet<T>;
type Array3<T> = [T; 3];
type Tuple2<T> = (T, u8);
type Ref<T> = &'static T;
type RefMut<T> = &'static mut T;
type Ptr<T> = *const T;

fn main() {
    ctor!("Arc", Arc);
    ctor!("Mutex", Mutex);
    ctor!("Vec", Vec);
    ctor!("Box", Box);
    ctor!("Option", Option);
    ctor!("ManuallyDrop", ManuallyDrop);
    ctor!("MaybeUninit", MaybeUninit);
    ctor!("PhantomData", PhantomData);
    ctor!("SmallVec", SmallVec4);
    ctor!("Slab", Slab);
    ctor!("BTreeSet", BTreeSet);
    ctor!("Pin", PinBox);
    ctor!("Result", Result2);
    ctor!("IntoIter", VecIntoIter);
    ctor!("Ready", Ready);
    ctor!("FuturesUnordered", FuturesUnordered);
    ctor!("Cell", Cell);
    ctor!("RefCell", RefCell);
    ctor!("UnsafeCell", UnsafeCell);
    ctor!("Rc", Rc);
    ctor!("array", Array3);
    ctor!("tuple", Tuple2);
    ctor!("ref", Ref);
    ctor!("refMut", RefMut);
    ctor!("ptr", Ptr);
    row!("Waker", "-", std::task::Waker);
    row!("AtomicUsize", "-", std::sync::atomic::AtomicUsize);
    row!("FixedBitSet", "-", fixedbitset::FixedBitSet);
    row!("NonZeroUsize", "-", std::num::NonZeroUsize);
    row!("Range", "-", std::ops::Range<usize>);
}
