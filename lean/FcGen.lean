import FcGen.Types
