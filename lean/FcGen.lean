import FcGen.Types
import FcGen.KSrcStd
import FcGen.KSrcDir
import FcGen.KSrcIdx
import FcGen.KSrcPS
import FcGen.KSrcGrp
import FcGen.KSrcFam
import FcGen.KSrcFam2
