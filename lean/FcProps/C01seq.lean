/-
  C01 — No lost wake-ups, for the strictly sequential pass-through families
  (stream `chain`, `wait_until` over a future, `wait_until` over a stream).

  Monitor `Mon.holds_C01 n` (Fc/Monitors.lean):
    * `c01Boundaries`: at every operation boundary (an event that starts a top-level operation
      — poll, wake-up between polls, drop — while no poll is in progress) at which the combinator
      is alive (not dropped) and its last poll returned Pending — `quiet`: for every child c < n
      whose last result was Pending (`lastRes`), that was not released (`gone`), and a waker equal
      to the one handed to it in its latest poll (`lastWk`) has been invoked since that poll of
      the child began (`owes`): the task waker of the most recent top-level poll (`cur`) has been
      invoked since that poll began (`wokeSince`);
    * the same at the end of the trace (unless it ends inside a poll);
    * `c01NoPanic`: no waker invocation panics, and a poll only unwinds if a child panicked in it.

  These families pass the caller's `Context` to their children (`Fam.passThrough`, mode `direct`
  whatever `c.mode` says), so a child may hold a *stale* task waker if it was not polled by the
  latest poll.  The proof (FcLemmas/C01Seq.lean) shows that this never happens to a waiting
  child: at every moment at most one child has `lastRes = pend`, it is the head of the scan
  order of the current state, and a poll that returns Pending has polled it.

  No restriction on the scripts (`Case.kindOk` is NOT needed: a chain input that "resolves" or a
  deadline that "yields" makes the model return Pending without `lastRes = pend`, which the
  monitor ignores) and none on the number of children (`wait_until` with `n ≠ 2` only ever polls
  the slots `< min n 2`).
-/
import FcLemmas.C01Seq
import Fc.Holds

namespace Fc
open Mon

/-- C01 for chain, wait_until (future) and wait_until (stream): every number of children, every
    child script (Pending steps with wake-ups of any handed-out waker — current or stale — of any
    child during the poll, items, ends, resolutions, panics), every history of polls with
    arbitrary task wakers, wake-ups between polls (current, stale, repeated, after completion,
    after the drop) and the drop. -/
theorem C01_no_lost_wake_seq (c : Case)
    (hf : c.fam = .chain ∨ c.fam = .waitF ∨ c.fam = .waitS) (n : Nat) :
    holds_C01 n c.trace = true := by
  have hs : c.fam.isSeq = true := by
    rcases hf with h | h | h <;> simp [h, Fam.isSeq]
  have hg : c.fam.isGroup = false := by
    rcases hf with h | h | h <;> simp [h, Fam.isGroup]
  unfold Case.trace
  rw [hg]
  simp only [Bool.false_eq_true, if_false]
  exact C01S.bs_holds _ (C01S.bs_run (seq_policy c.fam hs) c.ops _
    (C01S.bs_init c.fam c.n c.scripts c.mode (seq_direct c.fam hs c.mode)))

/-! ### non-vacuity -/

/-- a chain of three inputs.  Input 0 pends in poll 1 (holding task waker 1); the chain is polled
    again spuriously with task waker 2; then the OLD waker of input 0 (age 1) and its current one
    (age 0) are invoked; poll 3: input 0 ends, input 1 yields 7; poll 4: input 1 pends and, from
    inside its poll, invokes the last waker of the finished input 0 (stale: task waker 3); its own
    waker is invoked; poll 5: inputs 1 and 2 end, the chain ends; poll 6 is a misuse; drop; a
    wake-up after the drop. -/
def C01seq_ops : List Op :=
  [.poll 1, .poll 2, .fire 0 1, .fire 0 0, .poll 3, .poll 4, .fire 1 0, .poll 5, .poll 6, .drop,
   .fire 1 0]

def C01seq_example (ops : List Op) : Case :=
  { fam := .chain, mode := .std, keyed := false, n := 3,
    scripts := fun c => if c = 0 then [⟨.pend, []⟩, ⟨.pend, []⟩, ⟨.fin, []⟩]
                        else if c = 1 then [⟨.item 7, []⟩, ⟨.pend, [(0, 0)]⟩, ⟨.fin, []⟩]
                        else if c = 2 then [⟨.fin, []⟩] else [],
    ops := ops }

def isWoke : Ev → Bool
  | .woke _ => true
  | _ => false

/-- the wake-ups, oldest first: stale 1, current 2, stale 3 (inside poll 4), current 4, 5 after
    the drop -/
example : (C01seq_example C01seq_ops).run.filter isWoke
    = [.woke 1, .woke 2, .woke 3, .woke 4, .woke 5] := by decide
example : (C01seq_example C01seq_ops).run.contains (.pollEnd (.some 0 [7])) = true := by decide
example : (C01seq_example C01seq_ops).run.contains (.pollEnd .none) = true := by decide
example : (C01seq_example C01seq_ops).run.contains (.pollEnd .misuse) = true := by decide
/-- although the case says `std`, the children get the task waker itself -/
example : (C01seq_example C01seq_ops).run.contains (.childBegin 0 0 (.par 2)) = true := by decide

/-- after the stale waker (task waker 1) was invoked: input 0 waits, but its CURRENT waker was
    not invoked, so nothing is owed — and indeed the current task (2) was not woken -/
example : lastRes (C01seq_example (C01seq_ops.take 3)).trace 0 = some .pend := by decide
example : owes (C01seq_example (C01seq_ops.take 3)).trace 0 = false := by decide
example : wokeSince (C01seq_example (C01seq_ops.take 3)).trace = false := by decide
/-- after the current waker was invoked: a wake-up is owed, and the task waker 2 was woken -/
example : owes (C01seq_example (C01seq_ops.take 4)).trace 0 = true := by decide
example : wokeSince (C01seq_example (C01seq_ops.take 4)).trace = true := by decide
/-- inside poll 4 the finished input 0 still "owes" (its last waker was invoked) but its last
    result is `fin`, so the monitor does not ask for a wake-up of task 4; input 1 then owes -/
example : owes (C01seq_example (C01seq_ops.take 6)).trace 0 = true := by decide
example : lastRes (C01seq_example (C01seq_ops.take 6)).trace 0 = some .fin := by decide
example : wokeSince (C01seq_example (C01seq_ops.take 6)).trace = false := by decide
example : owes (C01seq_example (C01seq_ops.take 7)).trace 1 = true := by decide
example : wokeSince (C01seq_example (C01seq_ops.take 7)).trace = true := by decide

/-- a `wait_until` over a stream: the deadline pends, is woken, resolves; the inner stream pends
    while invoking the deadline's waker, yields, pends, ends -/
def C01seq_example_wait : Case :=
  { fam := .waitS, mode := .std, keyed := false, n := 2,
    scripts := fun c => if c = 0 then [⟨.pend, []⟩, ⟨.ready true 5, []⟩]
                        else if c = 1 then [⟨.pend, [(0, 0)]⟩, ⟨.item 7, []⟩, ⟨.pend, []⟩, ⟨.fin, []⟩]
                        else [],
    ops := [.poll 1, .fire 0 0, .poll 2, .fire 0 1, .fire 1 0, .poll 3, .poll 4, .fire 1 0,
            .poll 5, .drop] }

example : C01seq_example_wait.run.filter isWoke
    = [.woke 1, .woke 2, .woke 1, .woke 2, .woke 4] := by decide
example : C01seq_example_wait.run.contains (.pollEnd (.some 0 [7])) = true := by decide

/-- the monitor rejects a lost wake-up: the waiting child's current waker was invoked (`fired`)
    but the task was not woken (traces are NEWEST FIRST) -/
example : holds_C01 1
    [.fired 0 0 (some (.par 1)),
     .pollEnd .pending, .childEnd 0 .pend, .childBegin 0 0 (.par 1), .pollBegin 1] = false := by
  decide

/-- … accepts it when the task is woken … -/
example : holds_C01 1
    [.woke 1, .fired 0 0 (some (.par 1)),
     .pollEnd .pending, .childEnd 0 .pend, .childBegin 0 0 (.par 1), .pollBegin 1] = true := by
  decide

/-- … and rejects what a sequential combinator would produce if a poll that returns Pending did
    NOT re-poll its waiting child: poll 2 (task waker 2) leaves input 0 with the waker of poll 1,
    so invoking it wakes task 1, not the current task 2 -/
example : holds_C01 1
    [.woke 1, .fired 0 0 (some (.par 1)),
     .pollEnd .pending, .pollBegin 2,
     .pollEnd .pending, .childEnd 0 .pend, .childBegin 0 0 (.par 1), .pollBegin 1] = false := by
  decide

/-- … also when the violation is in the middle of a longer history (the boundary check) -/
example : holds_C01 1
    [.pollEnd (.some 0 [3]), .childEnd 0 (.item 3), .childBegin 0 0 (.par 2), .pollBegin 2,
     .fired 0 0 (some (.par 1)),
     .pollEnd .pending, .childEnd 0 .pend, .childBegin 0 0 (.par 1), .pollBegin 1] = false := by
  decide

/-- a poll that unwinds without a child panic, and a panicking wake-up, are rejected -/
example : holds_C01 1 [.pollEnd .panicked, .pollBegin 1] = false := by decide
example : holds_C01 1 [.wakePanic, .fired 0 0 (some (.sub 0))] = false := by decide

end Fc

#print axioms Fc.C01_no_lost_wake_seq
