/-
  C19 — `future.wait_until(deadline)` and `stream.wait_until(deadline)` leave the inner future /
  stream alone until the deadline has resolved, never poll the deadline again afterwards, and from
  the very poll in which the deadline resolved behave exactly like the inner future / stream.

  Monitor `Mon.holds_C19` (Fc/MonFun.lean); child 0 = deadline, child 1 = inner.  With
  `deadlineDone t` = "child 0's most recent answer (its `childEnd`) was `Ready`" and
  `innerOutcome t` = the caller-side reading of child 1's most recent answer
  (`Pending ↦ Pending`, `Ready v ↦ Ready [v]`, `item v ↦ Some [v]`, end ↦ `None`), it demands
    * at every `childBegin c`: we are inside a top-level poll, and
        `c = 0` (deadline) ⇒ the deadline has not resolved yet (never polled again afterwards),
        `c ≠ 0` (inner)    ⇒ the deadline has resolved (inner untouched before);
    * at every `pollEnd o` (`t` = trace before it), for `o` other than `panicked` / `misuse`:
        deadline not resolved ⇒ `o = Pending` and the inner child was never polled so far;
        deadline resolved     ⇒ the inner child was polled in THIS top-level poll and `o` is exactly
                                what it answered (so the poll in which the deadline resolves already
                                returns the inner child's answer, and every later poll is the inner
                                child's: same outputs / items in the same order, same end);
    * `o = panicked` is unconstrained here (C01: only by a child's panic); `o = misuse` (polling a
      finished / unwound / dropped combinator) only after the final result (`Ready` / `None`), an
      unwind, or the drop.
-/
import FcLemmas.C19
import Fc.Holds

namespace Fc
open Mon

/-- C19 for `wait_until` over a future (`waitF`) and over a stream (`waitS`): all child scripts of
    the right kind (futures resolve, streams yield / end; `Case.kindOk`), all histories (polls with
    any waker, wake-ups at any time, drop at any point, polls after completion, an injected child
    panic), every build mode. -/
theorem C19_wait_until (c : Case) (hf : c.fam = .waitF ∨ c.fam = .waitS) (hn : c.n = 2)
    (hk : c.kindOk) : holds_C19 c.trace = true := by
  unfold Case.trace
  have hs := Sim.scriptsOk_kind c hk (FEng.init c.fam c.mode c.n c.scripts).w rfl
  rcases hf with hf | hf
  · rw [hf, hn] at hs
    simp only [hf, hn, Fam.isGroup, Bool.false_eq_true, if_false, Case.finalFix, Fam.policy]
    exact (Sim.runFix C19.sim_waitF c.ops _ rfl hs
      (by simpa [FEng.init, Fam.initCnt, World.init] using C19.inv_init)).mon
  · rw [hf, hn] at hs
    simp only [hf, hn, Fam.isGroup, Bool.false_eq_true, if_false, Case.finalFix, Fam.policy]
    exact (Sim.runFix C19.sim_waitS c.ops _ rfl hs
      (by simpa [FEng.init, Fam.initCnt, World.init] using C19.inv_init)).mon

/-- non-vacuity: a stream with a deadline.  The deadline pends twice (the caller polls spuriously
    in between) and resolves to 7 in the third poll; the inner stream yields 20 in that same poll,
    then pends, is woken, yields 21, ends; the caller polls once more (misuse) and drops. -/
def C19_example : Case :=
  { fam := .waitS, mode := .std, keyed := false, n := 2,
    scripts := fun c => if c = 0 then [⟨.pend, []⟩, ⟨.pend, [(0, 0)]⟩, ⟨.ready true 7, []⟩]
                        else if c = 1 then [⟨.item 20, []⟩, ⟨.pend, []⟩, ⟨.item 21, []⟩, ⟨.fin, []⟩]
                        else [],
    ops := [.poll 1, .poll 2, .fire 0 0, .poll 3, .poll 4, .fire 1 0, .poll 5, .poll 6, .poll 7,
            .drop] }

example : C19_example.kindOk := by
  intro ch st hm
  simp only [C19_example] at hm
  split at hm
  · subst_vars; simp at hm; rcases hm with rfl | rfl | rfl <;> rfl
  · split at hm
    · subst_vars; simp at hm; rcases hm with rfl | rfl | rfl | rfl <;> rfl
    · simp at hm

/-- the third poll: the deadline resolves and the inner stream's first item is returned at once -/
example : (C19_example.run.drop 12).take 7 =
    [.pollBegin 3, .childBegin 0 0 (.par 3), .childEnd 0 (.ready true 7), .childBegin 1 1 (.par 3),
     .childEnd 1 (.item 20), .valDropped 7, .pollEnd (.some 0 [20])] := by decide
/-- what the caller sees: nothing before the deadline, then exactly the inner stream -/
example : C19_example.run.filterMap (fun e => match e with | .pollEnd o => some o | _ => none) =
    [.pending, .pending, .some 0 [20], .pending, .some 0 [21], .none, .misuse] := by decide
/-- the deadline is polled three times (never after it resolved), the inner stream four times -/
example : (C19_example.run.filter (fun e => match e with | .childBegin 0 _ _ => true | _ => false)).length = 3 := by
  decide
example : (C19_example.run.filter (fun e => match e with | .childBegin 1 _ _ => true | _ => false)).length = 4 := by
  decide
example : holds_C19 C19_example.trace = true := by decide

/-- a future with a deadline: nothing until the deadline resolved, then the inner future's output -/
def C19_exampleF : Case :=
  { fam := .waitF, mode := .std, keyed := false, n := 2,
    scripts := fun c => if c = 0 then [⟨.pend, []⟩, ⟨.ready true 7, []⟩]
                        else if c = 1 then [⟨.pend, []⟩, ⟨.ready true 9, []⟩] else [],
    ops := [.poll 1, .fire 0 0, .poll 2, .fire 1 0, .poll 3, .drop] }

example : C19_exampleF.run.filterMap (fun e => match e with | .pollEnd o => some o | _ => none) =
    [.pending, .pending, .ready true [9]] := by decide
example : (C19_exampleF.run.filter (fun e => match e with | .childBegin 0 _ _ => true | _ => false)).length = 2 := by
  decide
example : holds_C19 C19_exampleF.trace = true := by decide

/-- why `kindOk` is a hypothesis: an inner "future" that answers with a stream item is passed on
    as `Pending` by the model (the Rust types rule this out), which the monitor rejects -/
example : holds_C19 ({ C19_exampleF with
    scripts := fun c => if c = 0 then [⟨.ready true 7, []⟩] else [⟨.item 5, []⟩],
    ops := [.poll 1] } : Case).trace = false := by decide

/-! the monitor is not trivially true (traces NEWEST FIRST) -/

/-- the inner child polled although the deadline is still pending -/
example : holds_C19 [.childBegin 1 1 (.par 1), .childEnd 0 .pend, .childBegin 0 0 (.par 1),
    .pollBegin 1] = false := by decide
/-- the deadline polled again after it resolved (the trace is fine up to that event) -/
example : holds_C19 [.childBegin 0 0 (.par 2), .pollBegin 2, .pollEnd .pending, .childEnd 1 .pend,
    .childBegin 1 1 (.par 1), .childEnd 0 (.ready true 7), .childBegin 0 0 (.par 1),
    .pollBegin 1] = false := by decide
example : holds_C19 [.pollBegin 2, .pollEnd .pending, .childEnd 1 .pend,
    .childBegin 1 1 (.par 1), .childEnd 0 (.ready true 7), .childBegin 0 0 (.par 1),
    .pollBegin 1] = true := by decide
/-- an outcome that is not the inner child's answer (wrong item; `Pending` instead of the item) -/
example : holds_C19 [.pollEnd (.some 0 [99]), .childEnd 1 (.item 20), .childBegin 1 1 (.par 1),
    .childEnd 0 (.ready true 7), .childBegin 0 0 (.par 1), .pollBegin 1] = false := by decide
example : holds_C19 [.pollEnd .pending, .childEnd 1 (.item 20), .childBegin 1 1 (.par 1),
    .childEnd 0 (.ready true 7), .childBegin 0 0 (.par 1), .pollBegin 1] = false := by decide
example : holds_C19 [.pollEnd (.some 0 [20]), .childEnd 1 (.item 20), .childBegin 1 1 (.par 1),
    .childEnd 0 (.ready true 7), .childBegin 0 0 (.par 1), .pollBegin 1] = true := by decide
/-- returning `Pending` from the poll in which the deadline resolved, without polling the inner -/
example : holds_C19 [.pollEnd .pending, .childEnd 0 (.ready true 7), .childBegin 0 0 (.par 1),
    .pollBegin 1] = false := by decide
/-- repeating the inner child's previous answer in a later poll without polling it again -/
example : holds_C19 [.pollEnd (.some 0 [20]), .pollBegin 2, .pollEnd (.some 0 [20]),
    .childEnd 1 (.item 20), .childBegin 1 1 (.par 1), .childEnd 0 (.ready true 7),
    .childBegin 0 0 (.par 1), .pollBegin 1] = false := by decide
/-- a future with a deadline: the output must be the inner future's -/
example : holds_C19 [.pollEnd (.ready true [8]), .childEnd 1 (.ready true 9),
    .childBegin 1 1 (.par 1), .childEnd 0 (.ready true 7), .childBegin 0 0 (.par 1),
    .pollBegin 1] = false := by decide

end Fc

#print axioms Fc.C19_wait_until
