/-
  Kernel tie, the TUPLE container of `race` — `(A, B, …).race()` and `FutureExt::race` (src/future/race/tuple.rs,
  `impl_race_tuple!`, the structs `Race1 … Race12`).  The source of this unit is rustc's macro expansion of the CURRENT
  tuple.rs, normalised by tools/tuple_norm.py over a const generic `N` after checking that the twelve arities agree (the
  children are fields of the struct itself and are read as one array; the dispatch `if i == Indexes::F as usize { match
  <poll F> { Ready(o) => { done = true; return Ready(o) } _ => continue } }` over the local `#[repr(usize)] enum Indexes`
  is folded into one indexed body; `Indexer::new(0 + 1 + … + 1)` = `Indexer::new(N)`) → tools/rs2lean.py →
  FcGen/KSrcTup5.lean, namespace `RaceT`.  The translated `Race::poll` refines one `Eng.poll race` of the model, as for the
  array container (FcProps/KTieRaceArr.lean).  Proofs: FcProps/KTieRaceT.lean.
-/
import FcGen.KSrcTup5
import FcProps.KTieCore
import FcProps.KTieIdx
import Fc.Families

namespace Fc
open Rs Src

namespace TieRaceT
open RaceT

/-- race hands the caller's context to its children: the model's `direct` strategy, no readiness set -/
def absR (g : Race) (b : Eng Fix) : Eng Fix :=
  { w := { b.w with mode := .direct },
    s := { b.s with n := g.roleKids.len, off := g.roleIndexer.roleOffset, dead := g.roleDone } }

structure WfR (N : Nat) (g : Race) : Prop where
  kn : g.roleKids.len = N
  mx : g.roleIndexer.roleMax = N
  pos : 0 < N

def poll_tie_statement : Prop :=
  ∀ (N : Nat) (g : Race) (b : Eng Fix) (w : Nat),
    WfR N g → FutStepsF b.w → g.roleDone = false →
    ∃ g' env' ret,
      Race.poll N g w (((absR g b).w.emit (.pollBegin w)).setWaker w) = some (g', env', ret) ∧
      WfR N g' ∧
      (absR g' b).s.n = (Eng.poll race (absR g b) w).s.n ∧
      (absR g' b).s.off = (Eng.poll race (absR g b) w).s.off ∧
      (absR g' b).s.dead = (Eng.poll race (absR g b) w).s.dead ∧
      env'.scripts = (Eng.poll race (absR g b) w).w.scripts ∧
      env'.handed = (Eng.poll race (absR g b) w).w.handed ∧
      (Eng.poll race (absR g b) w).w.trace = .pollEnd (outcomeOfRace ret) :: env'.trace

end TieRaceT
end Fc
