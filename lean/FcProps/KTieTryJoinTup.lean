/-
  Kernel tie, the TUPLE container of `try_join` — `(A, B, …).try_join()` (src/future/try_join/tuple.rs,
  `impl_try_join_tuple!`, the structs `TryJoin1 … TryJoin12`).  As for the tuple `join` (FcProps/KTieJoinTup.lean) the
  source of this unit is rustc's macro expansion of the CURRENT tuple.rs, normalised by tools/tuple_norm.py over a const
  generic `N` after checking that the twelve arities agree (→ tools/rs2lean.py → FcGen/KSrcTup2.lean, namespace
  `TryJoinT`).  The statements say that the translated `TryJoin::poll` (incl. the short-circuit on the first `Err`, from
  inside the index dispatch) and the `PinnedDrop` destructor refine `Eng.poll tryJoinTuple` / `Eng.drop tryJoinTuple` for
  every `0 < N`.  The tuple try_join differs from the array / Vec one as the tuple join does (in-loop `any_ready`,
  `!clear_ready(i) || is_ready`, return from inside the loop when `completed == LEN`); unlike the tuple join it keeps a
  `consumed` flag, and `completed` also counts the child that failed.
  Proofs: FcProps/KTieTryJoinT.lean.
-/
import FcGen.KSrcTup2
import FcProps.KTieCore
import FcProps.KTieStd
import FcProps.KTiePS

namespace Fc
open Rs Src

namespace TieTryJoinT
open TryJoinT

def absT (g : TryJoin) (b : Eng Fix) : Eng Fix :=
  { w := TieArr.abs g.roleWakers.readiness b.w,
    s := { b.s with n := g.roleKids.len, st := fun i => TiePS.abs (g.roleStates.get i), out := g.roleItems.get,
                    cnt := g.roleCount, dead := g.roleDone } }

/-- the tuple holds `N ≥ 1` children; while the try_join has not completed `completed` counts the `Ready` slots (fewer
    than `N`), and a `Ready` slot holds an output -/
structure WfT (N : Nat) (g : TryJoin) : Prop where
  pos : 0 < N
  kn : g.roleKids.len = N
  rd : TieArr.Wf N g.roleWakers.readiness
  sl : g.roleStates.len = N
  ic : g.roleItems.cap = N
  pc : g.roleCount = ((List.range N).filter (fun i => g.roleStates.get i = PS.PollState.ready)).length
  lt : g.roleCount < N
  rs : ∀ i, i < N → (g.roleStates.get i = PS.PollState.pending ∨
        (g.roleStates.get i = PS.PollState.ready ∧ ∃ v, g.roleItems.get i = some v))

/-- `jcore` verbatim for `Pending` and `Ready(Err(_))`, `jcoreDone` for `Ready(Ok(_))` (as for the array / Vec containers:
    the completing poll moves the outputs out and resets only the slots it has) -/
def poll_tie_statement : Prop :=
  ∀ (N : Nat) (g : TryJoin) (b : Eng Fix) (w : Nat),
    WfT N g → FutStepsF b.w → (∀ c i, Wk.sub i ∈ b.w.handed c → i < N) → g.roleDone = false →
    ∃ g' env' ret,
      TryJoin.poll N g w ((absT g b).w.emit (.pollBegin w)) = some (g', env', ret) ∧
      (ret = .pending → WfT N g' ∧ g'.roleDone = false) ∧
      ((∀ vs, ret ≠ .ready (.ok vs)) → jcore (absT g' b) = jcore (Eng.poll tryJoinTuple (absT g b) w)) ∧
      ((∃ vs, ret = .ready (.ok vs)) → TieTryJoinV.jcoreDone N (absT g' b) (Eng.poll tryJoinTuple (absT g b) w)) ∧
      env'.scripts = (Eng.poll tryJoinTuple (absT g b) w).w.scripts ∧
      env'.handed = (Eng.poll tryJoinTuple (absT g b) w).w.handed ∧
      (Eng.poll tryJoinTuple (absT g b) w).w.trace = .pollEnd (outcomeOfTryJoin ret) :: env'.trace

/-- dropping a try_join that has not completed -/
def drop_tie_statement : Prop :=
  ∀ (N : Nat) (g : TryJoin) (b : Eng Fix),
    WfT N g → g.roleDone = false →
    ∃ g' env',
      TryJoin.drop N g ((absT g b).w.emit .dropBegin) = some (g', env', ()) ∧
      (Eng.drop tryJoinTuple (absT g b)).w.trace = .dropEnd :: env'.trace ∧
      env'.scripts = b.w.scripts ∧ env'.handed = b.w.handed

/-- the states a failed try_join is left in (one slot `None`, the others `Pending` or `Ready` with an output) -/
structure WfFailed (N : Nat) (g : TryJoin) : Prop where
  kn : g.roleKids.len = N
  sl : g.roleStates.len = N
  ic : g.roleItems.cap = N
  rs : ∀ i, i < N → (g.roleStates.get i = PS.PollState.pending ∨ g.roleStates.get i = PS.PollState.none_ ∨
        (g.roleStates.get i = PS.PollState.ready ∧ ∃ v, g.roleItems.get i = some v))

/-- dropping a try_join after it failed: the values already produced by the other children are released (not returned),
    and the children still pending are dropped -/
def drop_failed_tie_statement : Prop :=
  ∀ (N : Nat) (g : TryJoin) (b : Eng Fix),
    WfFailed N g →
    ∃ g' env',
      TryJoin.drop N g ((absT g b).w.emit .dropBegin) = some (g', env', ()) ∧
      (Eng.drop tryJoinTuple (absT g b)).w.trace = .dropEnd :: env'.trace

end TieTryJoinT
end Fc
