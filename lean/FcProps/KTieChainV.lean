/-
  Kernel tie, fixed families — `Vec<S>::chain()` (src/stream/chain/vec.rs), direct strategy, policy `chain`.

  `TieChainV.poll_tie` proves `TieChainV.poll_tie_statement` of FcProps/KTieZipChain.lean, unchanged: for every
  translated `Chain` value `g` that is well-formed (`WfC`: `len` is the number of inputs and `index ≤ len`) and not yet
  `done`, and every environment whose children are scripted streams (`StreamStepsF`), the `poll_next` function
  TRANSLATED FROM THE SOURCE (`ChainV.Chain.poll_next`, FcGen/KSrcFam5.lean; the Rust `loop` is `Rs.loopFuel` with fuel
  `index + len + 1`) does not panic and does not run out of fuel, returns a well-formed `g'`, and agrees with one
  `Eng.poll chain` of the model on: number of inputs, current index, `done` flag, the remaining scripts, the wakers
  handed out, and the whole event trace (the model's trace is the translated code's trace plus the closing `pollEnd`
  of the returned value).
  `poll_tie_strong` adds what is needed to apply the theorem to the next poll: `StreamStepsF env'`, same inputs.
  (`Chain` has no `PinnedDrop` in the source and KTieZipChain.lean states no drop tie for it: there is no `drop_tie`.)

  Proof structure (helpers in FcLemmas/KTieChainEnv.lean, FcLemmas/KTieChainLoop.lean):
    (a) `TieDirect.pollChild_tie` (race's direct-strategy lemma) lifted to `Rs.pollStream`:
        `ch_pollStream_pend/item/fin`   `Rs.pollStream … (Wk.par cx)` = `World.pollChild c c`;
    (b) `ch_visit_pend/item/fin`, `ch_poll_live`, `ch_close_some/none`   the model side unfolded for chain;
    (c) `BodySpec`   what one iteration of the translated loop body does, by cases, through roles only;
        `body_spec` below proves it for the body taken from the generated definition by unification;
    (d) `ch_loop`    `Rs.loopFuel` with that body refines `Eng.close chain ∘ Eng.scan chain` over
        `List.range' index (len - index)` (induction on the number of inputs still to visit; fuel suffices).
  The proofs address the generated structure through its `role…` abbreviations only.
-/
import FcProps.KTieZipChain
import FcLemmas.KTieChainLoop
import FcLemmas.KTieLoopCore

set_option linter.unusedSimpArgs false
set_option linter.unusedVariables false

namespace Fc
open Rs Src

namespace TieChainV
open ChainV TieDirect TieLoop TieChainEnv

local macro "unroles" : tactic =>
  `(tactic| try simp only [absC, Chain.roleKids, Chain.roleIndex, Chain.roleLen, Chain.roleDone] at *)

/-- the statement, plus: the environment handed back is again one of scripted streams (so the theorem applies to the
    next poll as well) and the number of inputs is unchanged -/
theorem poll_tie_strong (g : Chain) (b : Eng Fix) (w : Nat) (hwf : WfC g) (hfs : StreamStepsF b.w)
    (hd : g.roleDone = false) :
    ∃ g' env' ret,
      Chain.poll_next g w (((absC g b).w.emit (.pollBegin w)).setWaker w) = some (g', env', ret) ∧
      (WfC g' ∧
      (absC g' b).s.n = (Eng.poll chain (absC g b) w).s.n ∧
      (absC g' b).s.cnt = (Eng.poll chain (absC g b) w).s.cnt ∧
      (absC g' b).s.dead = (Eng.poll chain (absC g b) w).s.dead ∧
      env'.scripts = (Eng.poll chain (absC g b) w).w.scripts ∧
      env'.handed = (Eng.poll chain (absC g b) w).w.handed ∧
      (Eng.poll chain (absC g b) w).w.trace = .pollEnd (outcomeOfStream ret) :: env'.trace) ∧
      StreamStepsF env' ∧ g'.roleKids.len = g.roleKids.len := by
  obtain ⟨hln, hix⟩ := hwf
  have hlive : (absC g b).s.dead = false := hd
  rw [ch_poll_live _ _ hlive]
  generalize he0 : ({ w := ((absC g b).w.emit (.pollBegin w)).setWaker w, s := (absC g b).s } : Eng Fix) = e0
  have hcnt : (absC g b).s.cnt = g.roleIndex := rfl
  have hn : (absC g b).s.n = g.roleLen := rfl
  rw [hcnt, hn]
  generalize hE : Eng.close chain (Eng.scan chain (List.range' g.roleIndex (g.roleLen - g.roleIndex)) e0) = E
  suffices hs : ∃ y : Chain × World × Rs.Poll (Option Nat),
      Chain.poll_next g w (((absC g b).w.emit (.pollBegin w)).setWaker w) = some y ∧
      (WfC y.1 ∧ (absC y.1 b).s.n = E.s.n ∧ (absC y.1 b).s.cnt = E.s.cnt ∧ (absC y.1 b).s.dead = E.s.dead ∧
        y.2.1.scripts = E.w.scripts ∧ y.2.1.handed = E.w.handed ∧
        E.w.trace = .pollEnd (outcomeOfStream y.2.2) :: y.2.1.trace) ∧
        StreamStepsF y.2.1 ∧ y.1.roleKids.len = g.roleKids.len by
    obtain ⟨⟨g', env', ret⟩, h1, h2⟩ := hs
    exact ⟨g', env', ret, h1, h2⟩
  unfold Chain.poll_next
  have hd' := hd
  unroles
  simp only [hd', Bool.not_false, if_true, Option.pure_def, Option.bind_eq_bind, Option.bind_some]
  refine bind_spec _ _ (Post g.roleLen E) _ ?_ ?_
  · -- the loop
    rw [← hE]
    refine ch_loop w g.roleLen _ ?hb (g.roleLen - g.roleIndex) g _ e0 _ ?_ ?_ rfl hln.symm hd ?_ ?_ ?_ ?_ rfl rfl hfs
    case hb =>
      refine ⟨?_, ?_, ?_, ?_⟩
      · intro g env h
        unroles
        simp only [h, beq_self_eq_true, if_true]
        exact ⟨_, rfl, rfl, rfl, rfl, rfl⟩
      · intro g env env' hne hlt hp
        have hb : (g.roleIndex == g.roleLen) = false := by simpa using hne
        unroles
        simp [hb, Kids.get, hlt, expect, hp]
      · intro g env env' v hne hlt hp
        have hb : (g.roleIndex == g.roleLen) = false := by simpa using hne
        unroles
        simp [hb, Kids.get, hlt, expect, hp]
      · intro g env env' hne hlt hp
        have hb : (g.roleIndex == g.roleLen) = false := by simpa using hne
        refine ⟨?g', ?h, ?_, ?_, ?_, ?_⟩
        case h =>
          unroles
          simp only [hb, Kids.get, hlt, expect, hp, uadd, Bool.false_eq_true, if_false, if_true, Option.pure_def,
            Option.bind_eq_bind, Option.bind_some]
          rfl
        all_goals rfl
    · unroles; omega
    · unroles; omega
    · subst he0; rfl
    · subst he0; rfl
    · subst he0; rfl
    · subst he0; exact hd
  · -- after the loop
    rintro ⟨⟨self, env⟩, r⟩ ⟨v, hr, hl, hk, hi, hEn, hEc, hEd, hsc, hha, htr, hss⟩
    simp only at hr hl hk hi hEn hEc hEd hsc hha htr hss
    subst hr
    exact ⟨(self, env, v), rfl, ⟨⟨hl.trans hk.symm, by rw [hl]; exact hi⟩, hl.trans hEn.symm, hEc.symm, hEd.symm,
      hsc, hha, htr⟩, hss, hk.trans hln⟩

theorem poll_tie : poll_tie_statement := by
  intro g b w hwf hfs hd
  obtain ⟨g', env', ret, h1, h2, -, -⟩ := poll_tie_strong g b w hwf hfs hd
  exact ⟨g', env', ret, h1, h2⟩

/-! ### a concrete run: the hypotheses hold, the conclusion is checked by evaluation -/

def scr : Nat → List Step := fun c =>
  if c = 0 then [⟨.item 1, []⟩, ⟨.pend, [(0, 0)]⟩, ⟨.item 2, []⟩, ⟨.fin, []⟩]
  else if c = 1 then [⟨.fin, []⟩] else [⟨.item 7, []⟩, ⟨.fin, []⟩]

def b0 : Eng Fix := { w := World.init .direct 3 scr, s := Fix.init 3 0 }
/-- three inputs, at the first one, not done -/
def g0 : Chain := ⟨⟨3⟩, 0, 3, false⟩

example : WfC g0 := ⟨rfl, by decide⟩
example : g0.roleDone = false := rfl
example : StreamStepsF b0.w := by
  intro c st h
  simp only [b0, World.init, scr] at h
  split at h
  · simp at h; rcases h with rfl | rfl | rfl | rfl <;> simp
  · split at h
    · simp at h; subst h; simp
    · simp at h; rcases h with rfl | rfl <;> simp

/-- everything the theorem's conclusion compares, as a Boolean -/
def agrees (g : Chain) (b : Eng Fix) (w : Nat) : Option Bool :=
  (Chain.poll_next g w (((absC g b).w.emit (.pollBegin w)).setWaker w)).map fun y =>
    decide ((absC y.1 b).s.n = (Eng.poll chain (absC g b) w).s.n) &&
    decide ((absC y.1 b).s.cnt = (Eng.poll chain (absC g b) w).s.cnt) &&
    decide ((absC y.1 b).s.dead = (Eng.poll chain (absC g b) w).s.dead) &&
    decide ((Eng.poll chain (absC g b) w).w.trace = .pollEnd (outcomeOfStream y.2.2) :: y.2.1.trace) &&
    decide ((List.range 4).map (fun c => (y.2.1.scripts c).map fun st => (st.res, st.fires)) =
      (List.range 4).map (fun c => ((Eng.poll chain (absC g b) w).w.scripts c).map fun st => (st.res, st.fires))) &&
    decide ((List.range 4).map y.2.1.handed = (List.range 4).map (Eng.poll chain (absC g b) w).w.handed)

/-- the translated code, iterated: the state after the polls with the given task wakers -/
def runT : List Nat → Option (Chain × World)
  | [] => some (g0, b0.w)
  | w :: ws => do
    let (g, env) ← runT ws
    let (g', env', r) ← Chain.poll_next g w ((env.emit (.pollBegin w)).setWaker w)
    pure (g', env'.emit (.pollEnd (outcomeOfStream r)))

/-- first poll: input 0 yields 1 -/
example : agrees g0 b0 1 = some true := by decide
example : (Eng.poll chain (absC g0 b0) 1).w.trace =
    [.pollEnd (.some 0 [1]), .childEnd 0 (.item 1), .childBegin 0 0 (.par 1), .pollBegin 1] := by decide
/-- fourth poll (item, pending + self-wake, item before): input 0 ends, input 1 ends at once, input 2 yields 7 —
    three turns of the `loop` in one `poll_next`, the index moves from 0 to 2 -/
def g3 : Chain := ⟨⟨3⟩, 0, 3, false⟩
def b3 : Eng Fix := Eng.poll chain (Eng.poll chain (Eng.poll chain (absC g0 b0) 1) 2) 3
example : agrees g3 b3 4 = some true := by decide
/-- `g3`, `b3` are where the translated code itself stands after three polls -/
example : (runT [3, 2, 1]).map (fun x => (x.1.roleIndex, x.1.roleDone, decide (x.2.trace = b3.w.trace))) =
    some (g3.roleIndex, g3.roleDone, true) := by decide
example : ((Chain.poll_next g3 4 (((absC g3 b3).w.emit (.pollBegin 4)).setWaker 4)).map
    fun y => (y.1.roleIndex, y.1.roleDone, outcomeOfStream y.2.2)) = some (2, false, .some 0 [7]) := by decide
/-- fifth poll: input 2 ends, nothing is left: `done` is set, `Ready(None)` -/
def g4 : Chain := ⟨⟨3⟩, 2, 3, false⟩
def b4 : Eng Fix := Eng.poll chain (absC g3 b3) 4
example : agrees g4 b4 5 = some true := by decide
example : (runT [4, 3, 2, 1]).map (fun x => (x.1.roleIndex, x.1.roleDone, decide (x.2.trace = b4.w.trace))) =
    some (g4.roleIndex, g4.roleDone, true) := by decide
example : ((Chain.poll_next g4 5 (((absC g4 b4).w.emit (.pollBegin 5)).setWaker 5)).map
    fun y => (y.1.roleIndex, y.1.roleDone, outcomeOfStream y.2.2)) = some (3, true, .none) := by decide
/-- the hypothesis `StreamStepsF` is needed: a child answering like a future is ill-typed for `Stream::poll_next`, the
    translated code panics there -/
example : (Chain.poll_next g0 1 (World.init .direct 3 (fun _ => [⟨.ready true 5, []⟩]))).isNone = true := by decide
/-- so is `WfC.ln`: with `len` beyond the inputs actually present the indexing `streams[index]` panics -/
example : (Chain.poll_next ⟨⟨1⟩, 1, 2, false⟩ 1 (World.init .direct 1 scr)).isNone = true := by decide
/-- and `roleDone = false`: polling a finished chain is the `assert!` at the top of `poll_next` -/
example : (Chain.poll_next ⟨⟨3⟩, 3, 3, true⟩ 1 (World.init .direct 3 scr)).isNone = true := by decide

end TieChainV

#print axioms TieChainV.poll_tie_strong
#print axioms TieChainV.poll_tie

end Fc
