/-
  Kernel tie, `[Fut; N]::race()` (src/future/race/array.rs): `Race::poll`, TRANSLATED FROM THE CURRENT SOURCE
  (tools/rs2lean.py → FcGen/KSrcArr6.lean), refines one `Eng.poll race` of the model.  The array counterpart of
  `TieRaceV` in FcProps/KTieFam.lean.  Proofs: FcProps/KTieRaceA.lean.
-/
import FcGen.KSrcArr6
import FcProps.KTieCore
import FcProps.KTieIdx
import Fc.Families

namespace Fc
open Rs Src

namespace TieRaceA
open RaceA

/-- race hands the caller's context to its children: the model's `direct` strategy, no readiness set -/
def absR (g : Race) (b : Eng Fix) : Eng Fix :=
  { w := { b.w with mode := .direct },
    s := { b.s with n := g.roleKids.len, off := g.roleIndexer.roleOffset, dead := g.roleDone } }

structure WfR (N : Nat) (g : Race) : Prop where
  kn : g.roleKids.len = N
  mx : g.roleIndexer.roleMax = N
  pos : 0 < N

def poll_tie_statement : Prop :=
  ∀ (N : Nat) (g : Race) (b : Eng Fix) (w : Nat),
    WfR N g → FutStepsF b.w → g.roleDone = false →
    ∃ g' env' ret,
      Race.poll N g w (((absR g b).w.emit (.pollBegin w)).setWaker w) = some (g', env', ret) ∧
      WfR N g' ∧
      (absR g' b).s.n = (Eng.poll race (absR g b) w).s.n ∧
      (absR g' b).s.off = (Eng.poll race (absR g b) w).s.off ∧
      (absR g' b).s.dead = (Eng.poll race (absR g b) w).s.dead ∧
      env'.scripts = (Eng.poll race (absR g b) w).w.scripts ∧
      env'.handed = (Eng.poll race (absR g b) w).w.handed ∧
      (Eng.poll race (absR g b) w).w.trace = .pollEnd (outcomeOfRace ret) :: env'.trace

end TieRaceA
end Fc
