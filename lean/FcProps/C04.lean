/-
  C04 — join waits for all children and returns each output at its own position.

  Monitor `Mon.holds_C04 n` (Fc/MonFun.lean), evaluated at every `pollEnd o` of the trace, where
  `resolvedVal t c` is the value child `c`'s most recent poll resolved to (from its `childEnd`):
    * `o = Ready vals`  ⇒ every child `c < n` has resolved and `vals[c] = resolvedVal c` for all c;
    * `o = Pending`     ⇒ some child `c < n` has not resolved
      (so the join resolves in the very poll in which the last child resolves, and for `n = 0` on
      the first poll, with the empty container);
    * `o = panicked` only by a child's panic (C01); `misuse` (polling a finished/dropped join)
      only after the final result, an unwind or the drop.
-/
import FcLemmas.C04
import Fc.Holds

namespace Fc
open Mon

/-- C04 for both join models (array/Vec and tuple, arity 0 included), every number of children,
    all child scripts, all histories (polls with any waker, wake-ups at any time, drop at any
    point, an injected child panic), both waker strategies. -/
theorem C04_join (c : Case) (hf : c.fam = .joinSlice ∨ c.fam = .joinTuple) :
    holds_C04 c.n c.trace = true := by
  unfold Case.trace
  rcases hf with hf | hf
  · simp only [hf, Fam.isGroup, Bool.false_eq_true, if_false, Case.finalFix, Fam.policy]
    exact (Sim.runFix (C04.sim_joinSlice c.n (Fam.joinSlice.modeOf c.mode)) c.ops _ rfl (Sim.scriptsOk_any _)
      (by simpa [FEng.init, Fam.initCnt, World.init] using C04.inv_init true c.n)).mon
  · simp only [hf, Fam.isGroup, Bool.false_eq_true, if_false, Case.finalFix, Fam.policy]
    exact (Sim.runFix (C04.sim_joinTuple c.n (Fam.joinTuple.modeOf c.mode)) c.ops _ rfl (Sim.scriptsOk_any _)
      (by simpa [FEng.init, Fam.initCnt, World.init] using C04.inv_init false c.n)).mon

/-- non-vacuity: three children completing out of order (2, then 0, then 1) over four polls -/
def C04_example : Case :=
  { fam := .joinTuple, mode := .std, keyed := false, n := 3,
    scripts := fun c => if c = 0 then [⟨.pend, []⟩, ⟨.ready true 10, []⟩]
                        else if c = 1 then [⟨.pend, []⟩, ⟨.pend, [(1, 0)]⟩, ⟨.ready true 11, []⟩]
                        else if c = 2 then [⟨.ready true 12, []⟩] else [],
    ops := [.poll 1, .fire 0 0, .poll 2, .fire 1 0, .poll 3, .poll 4, .drop] }

example : C04_example.run.contains (.pollEnd (.ready true [10, 11, 12])) = true := by decide
example : (C04_example.run.filter (fun e => e == .pollEnd .pending)).length = 3 := by decide
/-- the monitor is not trivially true: it rejects a join that answers too early or swaps slots -/
example : holds_C04 2 [.pollEnd (.ready true [5, 0]), .childEnd 0 (.ready true 5), .pollBegin 1] = false := by
  decide
example : holds_C04 2 [.pollEnd (.ready true [6, 5]), .childEnd 1 (.ready true 6),
    .childEnd 0 (.ready true 5), .pollBegin 1] = false := by decide

end Fc

#print axioms Fc.C04_join
