/-
  Kernel tie, `Vec<Fut>::join()` (src/future/join/vec.rs): `Join::poll` and the `PinnedDrop` destructor `Join::drop`,
  TRANSLATED FROM THE CURRENT SOURCE (tools/rs2lean.py → FcGen/KSrcFam2.lean), refine `Eng.poll joinSlice` and
  `Eng.drop joinSlice` of the model (Fc/Engine.lean + Fc/Families.lean).  See FcProps/KTieGrpPoll.lean for the set-up.

  `absJ g b` reads a translated join as a model state: the number of children, the `PollState` table, the output
  slots (`OutputVec`), the `pending` counter, the `consumed` flag, the readiness set through `TieVec.abs`.

  Proofs and the counterexample that made the `jcore` clause conditional on `ret = Pending` (`doneAgree` for the
  completing poll): FcProps/KTieJoinV.lean.
-/
import FcGen.KSrcFam2
import FcProps.KTieCore
import FcProps.KTieStd
import FcProps.KTiePS

namespace Fc
open Rs Src

namespace TieJoinV
open JoinV

def absJ (g : Join) (b : Eng Fix) : Eng Fix :=
  { w := TieVec.abs g.roleWakers.readiness b.w,
    s := { b.s with n := g.roleKids.len, st := fun i => TiePS.abs (g.roleStates.get i), out := g.roleItems.get,
                    cnt := g.roleCount, dead := g.roleDone } }

/-- `pending` counts the children whose state is `Pending`; a `Ready` slot holds an output -/
structure WfJ (g : Join) : Prop where
  rd : TieVec.Wf g.roleKids.len g.roleWakers.readiness
  nw : g.roleWakers.nwakers = g.roleKids.len
  sl : g.roleStates.len = g.roleKids.len
  ic : g.roleItems.cap = g.roleKids.len
  pc : g.roleCount = ((List.range g.roleKids.len).filter (fun i => g.roleStates.get i = PS.PollState.pending)).length
  rs : ∀ i, i < g.roleKids.len → (g.roleStates.get i = PS.PollState.pending ∨
        (g.roleStates.get i = PS.PollState.ready ∧ ∃ v, g.roleItems.get i = some v))

def poll_tie_statement : Prop :=
  ∀ (g : Join) (b : Eng Fix) (w : Nat),
    WfJ g → FutStepsF b.w → (∀ c i, Wk.sub i ∈ b.w.handed c → i < g.roleKids.len) → g.roleDone = false →
    ∃ g' env' ret,
      Join.poll g w ((absJ g b).w.emit (.pollBegin w)) = some (g', env', ret) ∧
      (ret = .pending → WfJ g') ∧
      (ret = .pending → jcore (absJ g' b) = jcore (Eng.poll joinSlice (absJ g b) w)) ∧
      (ret ≠ .pending → doneAgree (absJ g' b) (Eng.poll joinSlice (absJ g b) w)) ∧
      env'.scripts = (Eng.poll joinSlice (absJ g b) w).w.scripts ∧
      env'.handed = (Eng.poll joinSlice (absJ g b) w).w.handed ∧
      (Eng.poll joinSlice (absJ g b) w).w.trace = .pollEnd (outcomeOfJoin ret) :: env'.trace

/-- dropping a join that has not completed: the outputs already produced are released, then the children still pending -/
def drop_tie_statement : Prop :=
  ∀ (g : Join) (b : Eng Fix),
    WfJ g → g.roleDone = false →
    ∃ g' env',
      Join.drop g ((absJ g b).w.emit .dropBegin) = some (g', env', ()) ∧
      (Eng.drop joinSlice (absJ g b)).w.trace = .dropEnd :: env'.trace ∧
      env'.scripts = b.w.scripts ∧ env'.handed = b.w.handed

end TieJoinV
end Fc
