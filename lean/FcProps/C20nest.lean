/-
  C20 — concurrent evaluation, for ONE LEVEL OF NESTING: an outer combinator some of whose children
  are themselves combinators ("inner instances") over scripted leaves (model: Fc/Nest.lean, the
  lock-step composition of the existing engine instances).

  "All children are started; none waits for a sibling."

  Monitor (flat) `Mon.holds_C20 true n` (Fc/Monitors.lean): at every `pollEnd Pending` of an
  instance, for every child `c < n`
    (a) `c` has been polled at least once, and
    (b) if `c` was waiting (last result Pending) and its waker had been invoked when this poll
        began, then `c` was polled during this poll.

  THE NAIVE STATEMENT FOR A NEST IS FALSE.  "Whenever the nest answers Pending, every leaf of every
  live inner instance of a concurrently evaluating family has been polled at least once"
  (`Nest.c20Naive`) fails
    * for an inner instance the outer instance has not polled yet (outer `chain`: the second child
      is only started when the first one has ended) — `C20nest_naive_chain` below; and also
    * for inner instances that HAVE been polled (`Nest.c20NaivePolled`, the version "every inner
      instance that has been polled at least once has polled all its leaves"): an inner `merge`
      whose first leaf yields an item returns that item without polling its second leaf; an outer
      `zip` stores the item and answers Pending because its other child is not ready; the second
      leaf of the `merge` is not started until the `zip` has delivered its row —
      `C20nest_naive_zip` below.  (The Rust code behaves the same way: this is what `zip` of a
      `merge` means, not a defect.)
  In both cases the nested child is not WAITING: flat C20 says something about an instance only at
  the moments it answers Pending.

  THE CORRECT STATEMENT (`Nest.c20At` at every operation boundary, `Nest.wokenLeafAt` for every
  top-level poll; FcLemmas/C20Nest.lean, FcLemmas/C20NestStep.lean), `s` = state of the nest,
  `to` = trace of the outer instance, `ti` = trace of the inner instance of nested child `c`:

    (1) `holds_C20 true n to` — the flat monitor on the OUTER instance's own trace, if the outer
        family evaluates concurrently (join, try_join, race, race_ok, merge, zip): whenever the
        nest answers Pending every child — plain or nested — has been polled, and every waiting
        child whose waker had been invoked was polled in that poll;
    (2) `holds_C20 true k ti` — the same for every concurrently evaluating INNER instance and its
        leaves, at the moments the inner instance answers Pending (whatever the outer family);
    (3) at a boundary: if the latest answer of a concurrently evaluating nest was Pending, every
        child `c < n` has been polled (a corollary of (1));
    (4) at a boundary: a WAITING nested child (its latest answer to the outer instance was
        Pending) of a concurrently evaluating family has polled every leaf `g < k` at least once —
        through the link "a nested child answers Pending only if the inner instance's poll
        returned Pending" (`Nest.LinkC.l2`);
    (5) across one top-level poll, THROUGH BOTH LEVELS (the nest form of (b)): if the nest is a
        live concurrently evaluating instance, nested child `c` (concurrently evaluating family)
        was waiting and not released, leaf `g` of its inner instance was waiting and the waker the
        leaf holds had been invoked when the poll began, and both the nest and the nested child
        answer Pending to this poll, then the outer instance polled `c` and the inner instance
        polled `g` during this poll.  No sibling at either level — however long it stays Pending —
        keeps the woken leaf from running.

  Hypotheses: the outer family and every inner family is one of the 13 fixed-children models
  (concurrently evaluating or sequential) — needed for the link, which comes from the C01 nest
  invariant `Nest.NInv`; (1)–(3) need no hypothesis (`C20_nest_instances`).  No kind hypothesis.

  Proof: (1), (2): the projection lemma `Nest.proj_foldl` (FcLemmas/C16NestProj.lean) applied to the
  flat C20 invariant carried next to the flat C01 invariant (`C20.F20`; closed under
  `Eng.poll / fire / drop`, does not look at the scripts).  (4): `everPolled_of_c20` + `LinkC.l2`.
  (5) (`Nest.woken_leaf_polled`): leaf owes ⇒ [flat C01 of the inner instance, `Flat.quiet_pt`] the
  inner task waker was woken ⇒ [`LinkC.l3`] the nested child owes on the outer trace ⇒ [(1) for
  the poll] the outer instance polls `c` ⇒ [`Nest.poll`] the speculative inner poll is committed;
  it answered Pending [`LinkC.l2` after the poll] ⇒ [(2) for that inner poll] it polled `g`.
-/
import FcLemmas.C20NestStep
import FcProps.C20
import Fc.NestMon

namespace Fc
open Mon

/-- (1)–(3): every concurrently evaluating instance of a nest satisfies the flat monitor on its own
    trace — every nest whatsoever (all families, sizes, nesting patterns, scripts, histories, both
    waker strategies) -/
theorem C20_nest_instances (nc : Nest.NCase) (k : Nat) :
    let s := (nc.ops.take k).foldl (Nest.step nc) (Nest.init nc)
    (nc.outer.isConc = true → holds_C20 true nc.n s.out.w.trace = true) ∧
    (∀ c fam j, nc.inner c = some (fam, j) → fam.isConc = true →
      holds_C20 true j (s.inn c).w.trace = true) ∧
    (nc.outer.isConc = true → lastOut s.out.w.trace = some .pending →
      ∀ c, c < nc.n → everPolled s.out.w.trace c = true) := by
  intro s
  have h := Nest.proj20_prefix nc k
  have h1 : nc.outer.isConc = true → holds_C20 true nc.n s.out.w.trace = true := by
    intro hf
    have := (h.o hf).b.m20; rw [(h.o hf).n] at this; exact this
  refine ⟨h1, ?_, fun hf hlo c hc => everPolled_of_c20 nc.n _ (h1 hf) hlo c hc⟩
  intro c fam j hin hf
  have hi := h.i c
  rw [hin] at hi
  have := (hi hf).b.m20; rw [(hi hf).n] at this; exact this

/-- C20 for a nest with one level of nesting, at every operation boundary (after every prefix of the
    history) and for every top-level poll issued there: every outer and inner family among join,
    try_join (array/Vec and tuple models), race, race_ok (all variants), merge, zip, chain,
    wait_until; every number of children and of leaves, every nesting pattern, all leaf and child
    scripts (in particular: any number of children / leaves that never complete), all histories,
    both waker strategies. -/
theorem C20_nest (nc : Nest.NCase)
    (ho : nc.outer.isConc = true ∨ nc.outer.isSeq = true)
    (hi : ∀ c fam k, nc.inner c = some (fam, k) → fam.isConc = true ∨ fam.isSeq = true) (k : Nat) :
    let s := (nc.ops.take k).foldl (Nest.step nc) (Nest.init nc)
    let to := s.out.w.trace
    -- (4) a waiting nested child has started all its leaves
    (∀ c fam j, c < nc.n → nc.inner c = some (fam, j) → fam.isConc = true →
      lastRes to c = some .pend → ∀ g, g < j → everPolled (s.inn c).w.trace g = true) ∧
    -- (5) a woken leaf is polled by the next top-level poll that leaves it waiting
    (∀ w, nc.outer.isConc = true → alive to = true →
      lastOut (Nest.poll nc s w).out.w.trace = some .pending →
      ∀ c fam j, c < nc.n → nc.inner c = some (fam, j) → fam.isConc = true →
        lastRes to c = some .pend → gone to c = false →
        lastRes (Nest.poll nc s w).out.w.trace c = some .pend →
        ∀ g, g < j → lastRes (s.inn c).w.trace g = some .pend → owes (s.inn c).w.trace g = true →
          polledSince (Nest.poll nc s w).out.w.trace c = true ∧
          polledSince ((Nest.poll nc s w).inn c).w.trace g = true) := by
  intro s to
  have hp := Nest.proj20_prefix nc k
  have hn := Nest.ninv_foldl (order_nodup nc.outer ho) (nc.ops.take k) _ (Nest.ninv_init nc ho hi)
  constructor
  · intro c fam j hc hin hf hl g hg
    have hs : (nc.inner c).isSome = true := by simp [hin]
    have f := hp.i c
    rw [hin] at f
    have hm : holds_C20 true j (s.inn c).w.trace = true := by
      have := (f hf).b.m20; rw [(f hf).n] at this; exact this
    exact everPolled_of_c20 j _ hm ((hn.lk c hc hs).l2 hl) g hg
  · intro w hfo ha hlo c fam j hc hin hf hl hg hl' g hgj hlg hog
    exact Nest.woken_leaf_polled hp hn (order_nodup nc.outer ho) w hfo ha hlo c hc fam j hin hf hl hg
      hl' g hgj hlg hog

/-- the executable form: the monitor `Nest.c20At` (the conjunction of (1)–(4) for all nested
    children) accepts every operation boundary, and `Nest.wokenLeafAt` ((5)) every poll of the
    history -/
theorem C20_nest_holds (nc : Nest.NCase)
    (ho : nc.outer.isConc = true ∨ nc.outer.isSeq = true)
    (hi : ∀ c fam k, nc.inner c = some (fam, k) → fam.isConc = true ∨ fam.isSeq = true) :
    Nest.holdsC20NestFull nc = true := by
  unfold Nest.holdsC20NestFull
  simp only [List.all_eq_true, List.mem_range, Bool.and_eq_true]
  intro k _
  have hp := Nest.proj20_prefix nc k
  have hn := Nest.ninv_foldl (order_nodup nc.outer ho) (nc.ops.take k) _ (Nest.ninv_init nc ho hi)
  refine ⟨Nest.c20At_of hp hn, ?_⟩
  unfold Nest.nextPollOk
  split
  · exact Nest.wokenLeafAt_of hp hn (order_nodup nc.outer ho) _
  · rfl

/-- … in particular at the end of the history -/
theorem C20_nest_run (nc : Nest.NCase)
    (ho : nc.outer.isConc = true ∨ nc.outer.isSeq = true)
    (hi : ∀ c fam k, nc.inner c = some (fam, k) → fam.isConc = true ∨ fam.isSeq = true) :
    Nest.c20At nc (Nest.run nc) = true := by
  have hp := Nest.proj20_prefix nc nc.ops.length
  have hn := Nest.ninv_foldl (order_nodup nc.outer ho) (nc.ops.take nc.ops.length) _
    (Nest.ninv_init nc ho hi)
  rw [List.take_length] at hp hn
  exact Nest.c20At_of hp hn

/-- (2) again, as a corollary of the flat theorem through the projection `Nest.inner_flat`: the
    trace of an inner instance is the trace of a flat case -/
theorem C20_nest_inner_via_flat (nc : Nest.NCase) (c : Nat) (fam : Fam) (j : Nat)
    (hin : nc.inner c = some (fam, j)) (hf : fam.isConc = true) (k : Nat) :
    holds_C20 true j (((nc.ops.take k).foldl (Nest.step nc) (Nest.init nc)).inn c).w.trace = true := by
  have hg : fam.isGroup = false := by cases fam <;> simp_all [Fam.isConc, Fam.isGroup]
  obtain ⟨ops', h⟩ := Nest.inner_flat nc c fam j hin (nc.ops.take k)
  rw [h]
  have := C20_concurrent_fixed (Nest.innerCase nc c fam j ops') hf
  unfold Case.trace at this
  simpa [Nest.innerCase, hg] using this

/-! ### the naive statements are false -/

/-- outer `chain` over [plain stream, `merge` of 2 leaves]: the first poll polls the plain child,
    which pends; the `merge` has not been polled yet, so none of its leaves has -/
def C20nest_naive_chain : Nest.NCase :=
  { mode := .std, outer := .chain, n := 2,
    inner := fun c => if c = 1 then some (.merge, 2) else none,
    scripts := fun id => if id = 0 then [⟨.pend, []⟩] else [],
    ops := [.poll 1] }

example : Nest.kindOk C20nest_naive_chain = true := by decide
example : lastOut (Nest.run C20nest_naive_chain).out.w.trace = some .pending := by decide
example : Nest.c20Naive C20nest_naive_chain (Nest.run C20nest_naive_chain) = false := by decide
/-- … while the correct statement holds of it -/
example : Nest.holdsC20NestFull C20nest_naive_chain = true := by decide

/-- outer `zip` over [`merge` of 2 leaves, plain stream]: leaf 100 yields an item at once, the
    `merge` returns it without polling leaf 101; the `zip` keeps the item and answers Pending
    because the plain child pends.  The `merge` is live, has been polled, and leaf 101 has never
    been polled. -/
def C20nest_naive_zip : Nest.NCase :=
  { mode := .std, outer := .zip, n := 2,
    inner := fun c => if c = 0 then some (.merge, 2) else none,
    scripts := fun id =>
      if id = 100 then [⟨.item 3, []⟩] else if id = 101 then [⟨.item 4, []⟩]
      else if id = 1 then [⟨.pend, []⟩] else [],
    ops := [.poll 1] }

example : Nest.kindOk C20nest_naive_zip = true := by decide
example : lastOut (Nest.run C20nest_naive_zip).out.w.trace = some .pending := by decide
example : everPolled (Nest.run C20nest_naive_zip).out.w.trace 0 = true := by decide
example : everPolled ((Nest.run C20nest_naive_zip).inn 0).w.trace 1 = false := by decide
example : Nest.c20Naive C20nest_naive_zip (Nest.run C20nest_naive_zip) = false := by decide
example : Nest.c20NaivePolled C20nest_naive_zip (Nest.run C20nest_naive_zip) = false := by decide
/-- the nested child is not waiting: its latest answer was an item -/
example : lastRes (Nest.run C20nest_naive_zip).out.w.trace 0 = some (.item 9001) := by decide
/-- … and the correct statement holds of it -/
example : Nest.holdsC20NestFull C20nest_naive_zip = true := by decide
/-- the same with a direct-strategy build -/
example : Nest.c20NaivePolled { C20nest_naive_zip with mode := .direct }
    (Nest.run { C20nest_naive_zip with mode := .direct }) = false := by decide

/-! ### non-vacuity -/

/-- Outer instance over 2 children: child 0 = an inner instance over the leaves 100, 101; child 1
    plain.  Leaf 100 and the plain child never complete.  Poll 1: everything is started and pends.
    Leaf 101 is woken; poll 2: the outer instance polls child 0, the inner instance polls leaf 101
    (which pends again) — the never-completing siblings at both levels do not keep it from
    running.  Poll 3 is spurious.  The plain child 1 is woken; poll 4.  Drop. -/
def C20nest_ops : List Op :=
  [.poll 1, .fire 101 0, .poll 2, .poll 3, .fire 1 0, .poll 4, .drop]

def C20nest_example (m : Mode) (outer inner : Fam) (ops : List Op) : Nest.NCase :=
  { mode := m, outer := outer, n := 2,
    inner := fun c => if c = 0 then some (inner, 2) else none,
    scripts := fun id =>
      if id = 100 then [⟨.pend, []⟩, ⟨.pend, []⟩, ⟨.pend, []⟩]
      else if id = 101 then [⟨.pend, []⟩, ⟨.pend, []⟩, ⟨.item 7, []⟩]
      else if id = 1 then [⟨.pend, []⟩, ⟨.pend, []⟩]
      else [],
    ops := ops }

/-- `merge` of [`merge` of 2 leaves, plain stream] — a nest of matching kinds -/
abbrev C20nest_mm (m : Mode) : Nest.NCase := C20nest_example m .merge .merge C20nest_ops

example : Nest.kindOk (C20nest_mm .std) = true := by decide
example : Nest.holdsC20NestFull (C20nest_mm .std) = true := by decide
example : Nest.holdsC20NestFull (C20nest_mm .direct) = true := by decide
/-- the theorem applies to the example whatever the mode and the history -/
example (m : Mode) (ops : List Op) :
    Nest.holdsC20NestFull (C20nest_example m .merge .merge ops) = true :=
  C20_nest_holds _ (Or.inl rfl) (fun c fam k h => by
    by_cases hc : c = 0
    · simp [C20nest_example, hc] at h; rw [← h.1]; exact Or.inl rfl
    · simp [C20nest_example, hc] at h)

def isPendEnd : Ev → Bool
  | .pollEnd .pending => true
  | _ => false

/-- the nest answered Pending 4 times, the inner instance twice (it was polled by polls 1 and 2
    only, in std mode) -/
example : ((Nest.run (C20nest_mm .std)).out.w.trace.filter isPendEnd).length = 4 := by decide
example : (((Nest.run (C20nest_mm .std)).inn 0).w.trace.filter isPendEnd).length = 2 := by decide
/-- after poll 1 the nested child is waiting and both leaves have been started -/
example : lastRes (Nest.run (C20nest_example .std .merge .merge (C20nest_ops.take 1))).out.w.trace 0
    = some .pend := by decide
example : everPolled ((Nest.run (C20nest_example .std .merge .merge (C20nest_ops.take 1))).inn 0).w.trace 0
    = true ∧
    everPolled ((Nest.run (C20nest_example .std .merge .merge (C20nest_ops.take 1))).inn 0).w.trace 1
    = true := by decide
/-- (5) is exercised: after `.fire 101 0` leaf 101 is waiting and owes (on the inner trace), the
    nested child is waiting; poll 2 answers Pending at both levels … -/
example : lastRes ((Nest.run (C20nest_example .std .merge .merge (C20nest_ops.take 2))).inn 0).w.trace 1
    = some .pend ∧
    owes ((Nest.run (C20nest_example .std .merge .merge (C20nest_ops.take 2))).inn 0).w.trace 1 = true ∧
    lastRes (Nest.run (C20nest_example .std .merge .merge (C20nest_ops.take 2))).out.w.trace 0
    = some .pend := by decide
example : lastOut (Nest.run (C20nest_example .std .merge .merge (C20nest_ops.take 3))).out.w.trace
    = some .pending ∧
    lastRes (Nest.run (C20nest_example .std .merge .merge (C20nest_ops.take 3))).out.w.trace 0
    = some .pend := by decide
/-- … and polled the nested child and leaf 101 — but not the unwoken leaf 100 -/
example : polledSince (Nest.run (C20nest_example .std .merge .merge (C20nest_ops.take 3))).out.w.trace 0
    = true ∧
    polledSince ((Nest.run (C20nest_example .std .merge .merge (C20nest_ops.take 3))).inn 0).w.trace 1
    = true ∧
    polledSince ((Nest.run (C20nest_example .std .merge .merge (C20nest_ops.take 3))).inn 0).w.trace 0
    = false := by decide

/-- the example named in the task: `join` of [`merge` of 2 leaves, plain child] (the kinds do not
    match — a `join` takes futures — but the theorem does not depend on the kinds) -/
example : Nest.holdsC20NestFull (C20nest_example .std .joinSlice .merge C20nest_ops) = true := by decide
/-- `join` of [`race` of 2 futures, plain future], `race` of [`join` …] -/
example : Nest.holdsC20NestFull (C20nest_example .std .joinSlice .race C20nest_ops) = true := by decide
example : Nest.holdsC20NestFull (C20nest_example .direct .race .joinSlice C20nest_ops) = true := by decide

/-! the monitors reject wrong composed states: hand-made states of a nest `merge [merge [·,·]]` -/

def C20nest_nc1 : Nest.NCase :=
  { mode := .std, outer := .merge, n := 1, inner := fun c => if c = 0 then some (.merge, 2) else none,
    scripts := fun _ => [], ops := [] }

def C20nest_st (outerTrace innerTrace : List Ev) : Nest.St :=
  { out := { w := { World.init .std 1 (fun _ => []) with trace := outerTrace }, s := Fix.init 1 0 },
    inn := fun _ => { w := { World.init .std 2 (fun _ => []) with trace := innerTrace },
                      s := Fix.init 2 0 },
    polls := fun _ => 1, gone := fun _ => false }

/-- a correct state: one poll, everything started and pending -/
example : Nest.c20At C20nest_nc1 (C20nest_st
    [.pollEnd .pending, .childEnd 0 .pend, .childBegin 0 0 (.sub 0), .pollBegin 7]
    [.pollEnd .pending, .childEnd 1 .pend, .childBegin 1 1 (.sub 1),
     .childEnd 0 .pend, .childBegin 0 0 (.sub 0), .pollBegin 1]) = true := by decide
/-- the inner instance answered Pending without having started leaf 1 (it waited for leaf 0) -/
example : Nest.c20At C20nest_nc1 (C20nest_st
    [.pollEnd .pending, .childEnd 0 .pend, .childBegin 0 0 (.sub 0), .pollBegin 7]
    [.pollEnd .pending, .childEnd 0 .pend, .childBegin 0 0 (.sub 0), .pollBegin 1]) = false := by decide
/-- the nest answered Pending without having started the nested child -/
example : Nest.c20At C20nest_nc1 (C20nest_st [.pollEnd .pending, .pollBegin 7] []) = false := by decide
/-- the nested child is waiting for the outer instance, but the inner instance has not started
    leaf 1 — each trace on its own is accepted by the flat monitor (the inner trace has no
    `pollEnd Pending`); the composed check (4) rejects the state -/
example : holds_C20 true 1
    [.pollEnd .pending, .childEnd 0 .pend, .childBegin 0 0 (.sub 0), .pollBegin 7] = true ∧
    holds_C20 true 2 [.pollEnd (.some 0 [5]), .childEnd 0 (.item 5), .childBegin 0 0 (.sub 0),
      .pollBegin 1] = true := by decide
example : Nest.c20At C20nest_nc1 (C20nest_st
    [.pollEnd .pending, .childEnd 0 .pend, .childBegin 0 0 (.sub 0), .pollBegin 7]
    [.pollEnd (.some 0 [5]), .childEnd 0 (.item 5), .childBegin 0 0 (.sub 0), .pollBegin 1])
    = false := by decide

end Fc

#print axioms Fc.C20_nest_instances
#print axioms Fc.C20_nest
#print axioms Fc.C20_nest_holds
#print axioms Fc.C20_nest_run
#print axioms Fc.C20_nest_inner_via_flat
