/-
  Kernel tie, `[S; N]::chain()` (src/stream/chain/array.rs: `poll_next`, a `loop` over the current input), TRANSLATED FROM
  THE CURRENT SOURCE (tools/rs2lean.py → FcGen/KSrcArr5.lean), refines `Eng.poll chain` of the model.  The array
  counterpart of `TieChainV` in FcProps/KTieZipChain.lean.  Proofs: FcProps/KTieChainA.lean.
-/
import FcGen.KSrcArr5
import FcProps.KTieCore

namespace Fc
open Rs Src

namespace TieChainA
open ChainA

/-- chain hands the caller's context to the current input: the model's `direct` strategy -/
def absC (g : Chain) (b : Eng Fix) : Eng Fix :=
  { w := { b.w with mode := .direct },
    s := { b.s with n := g.roleLen, cnt := g.roleIndex, dead := g.roleDone } }

structure WfC (N : Nat) (g : Chain) : Prop where
  kn : g.roleKids.len = N
  ln : g.roleLen = N
  ix : g.roleIndex ≤ g.roleLen

def poll_tie_statement : Prop :=
  ∀ (N : Nat) (g : Chain) (b : Eng Fix) (w : Nat),
    WfC N g → StreamStepsF b.w → g.roleDone = false →
    ∃ g' env' ret,
      Chain.poll_next N g w (((absC g b).w.emit (.pollBegin w)).setWaker w) = some (g', env', ret) ∧
      WfC N g' ∧
      (absC g' b).s.n = (Eng.poll chain (absC g b) w).s.n ∧
      (absC g' b).s.cnt = (Eng.poll chain (absC g b) w).s.cnt ∧
      (absC g' b).s.dead = (Eng.poll chain (absC g b) w).s.dead ∧
      env'.scripts = (Eng.poll chain (absC g b) w).w.scripts ∧
      env'.handed = (Eng.poll chain (absC g b) w).w.handed ∧
      (Eng.poll chain (absC g b) w).w.trace = .pollEnd (outcomeOfStream ret) :: env'.trace

end TieChainA
end Fc
