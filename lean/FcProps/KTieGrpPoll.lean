/-
  Kernel tie, groups — the POLL functions.  `FutureGroup::poll_next_inner` and `StreamGroup::poll_next_inner`,
  TRANSLATED FROM THE CURRENT SOURCE (tools/rs2lean.py → FcGen/KSrcGrp.lean: the scan over the key set with its
  `break`, the gate `states[i].is_pending() && readiness.clear_ready(i)`, the child poll with the sub-waker of the
  slot, the bookkeeping of each answer, the key clean-up after the loop), refine one `Eng.poll group` of the model
  (Fc/Engine.lean + Fc/Groups.lean) — the function every group theorem (C01g, C02g, C03g, C11, C12, C16g, C20g and
  the liveness theorems) is about.

  A child is a scripted child of the environment (`Fc/RustEnv.lean`: `Rs.pollFut` / `Rs.pollStream`; the wakers a
  child invokes during its poll run the crate's own `InlineWakerVec::wake`, translated, on the group's readiness set).

  `poll_tie`: from a well-formed group (`WfG`) whose keys are occupied slab entries below the capacity (`GoodKeys`,
  C11's structural invariant) and whose members answer like futures / streams without panicking, one call of the
  translated function with task waker `w`
    * does not panic,
    * returns the `Poll` value that corresponds to the model's outcome (`outcomeOf`),
    * leaves a group and an environment whose reading is the model's state after `Eng.poll group · w`: same
      readiness bits / count / parent waker, capacity, states, slab, keys, queue (`core`), same remaining scripts,
      same handed-out wakers, and the same event trace (the model's additional `pollEnd` is logged by the caller),
    * and preserves `WfG` and `GoodKeys`.
-/
import FcProps.KTieGrp

namespace Fc
open Rs Src

/-- the model outcome a returned `Poll` value stands for (`keyed`: the `Keyed` view keeps the key) -/
def outcomeOf (keyed : Bool) : Rs.Poll (Option (Nat × Nat)) → Outcome
  | .pending => .pending
  | .ready none => .none
  | .ready (some (k, v)) => .some (if keyed then k else 0) [v]

/-- every scripted step answers like a future and does not panic -/
def FutSteps (w : World) : Prop :=
  ∀ c st, st ∈ w.scripts c → st.res = .pend ∨ ∃ ok v, st.res = .ready ok v

/-- every scripted step answers like a stream and does not panic -/
def StreamSteps (w : World) : Prop :=
  ∀ c st, st ∈ w.scripts c → st.res = .pend ∨ st.res = .fin ∨ ∃ v, st.res = .item v

namespace TieGrpF
open GrpF

/-- the keys are pairwise distinct occupied slab entries below the capacity (C11's structural invariant) -/
structure GoodKeys (g : FutureGroup) : Prop where
  nodup : g.roleKeys.elems.Nodup
  occ : ∀ k ∈ g.roleKeys.elems, k < g.roleCapacity ∧ k < g.roleSlab.entries ∧ ∃ c, g.roleSlab.member k = some c
  /-- `len` counts the occupied entries: the group is empty exactly when it has no key -/
  emp : g.roleSlab.len = 0 ↔ g.roleKeys.elems = []

/-- the statement of the refinement (see the file header) -/
def poll_tie_statement : Prop :=
  ∀ (g : FutureGroup) (b : Eng Grp) (w : Nat),
    WfG g → GoodKeys g → FutSteps b.w → b.s.stream = false → b.s.dead = false → b.s.queue = [] →
    ∃ g' env' ret,
      FutureGroup.poll_next_inner g w ((absF g b).w.emit (.pollBegin w)) = some (g', env', ret) ∧
      WfG g' ∧ GoodKeys g' ∧
      core (absF g' b) = core (Eng.poll group (absF g b) w) ∧
      env'.scripts = (Eng.poll group (absF g b) w).w.scripts ∧
      env'.handed = (Eng.poll group (absF g b) w).w.handed ∧
      (Eng.poll group (absF g b) w).w.trace = .pollEnd (outcomeOf b.s.keyed ret) :: env'.trace

end TieGrpF

namespace TieGrpS
open GrpS

structure GoodKeys (g : StreamGroup) : Prop where
  nodup : g.roleKeys.elems.Nodup
  occ : ∀ k ∈ g.roleKeys.elems, k < g.roleCapacity ∧ k < g.roleSlab.entries ∧ ∃ c, g.roleSlab.member k = some c
  emp : g.roleSlab.len = 0 ↔ g.roleKeys.elems = []
  /-- `len` is the number of keys (what makes `done_count == stream_count` mean "every member ended") -/
  cnt : g.roleSlab.len = g.roleKeys.elems.length
  /-- between polls the removal queue is empty -/
  q : g.roleQueue = []

def poll_tie_statement : Prop :=
  ∀ (g : StreamGroup) (b : Eng Grp) (w : Nat),
    WfG g → GoodKeys g → StreamSteps b.w → b.s.stream = true → b.s.dead = false →
    ∃ g' env' ret,
      StreamGroup.poll_next_inner g w ((absS g b).w.emit (.pollBegin w)) = some (g', env', ret) ∧
      WfG g' ∧ GoodKeys g' ∧
      core (absS g' b) = core (Eng.poll group (absS g b) w) ∧
      env'.scripts = (Eng.poll group (absS g b) w).w.scripts ∧
      env'.handed = (Eng.poll group (absS g b) w).w.handed ∧
      (Eng.poll group (absS g b) w).w.trace = .pollEnd (outcomeOf b.s.keyed ret) :: env'.trace

end TieGrpS

end Fc
