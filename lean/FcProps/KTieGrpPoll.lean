/-
  Kernel tie, groups — the POLL functions.  `FutureGroup::poll_next_inner` and `StreamGroup::poll_next_inner`,
  TRANSLATED FROM THE CURRENT SOURCE (tools/rs2lean.py → FcGen/KSrcGrp.lean: the scan over the key set with its
  `break`, the gate `states[i].is_pending() && readiness.clear_ready(i)`, the child poll with the sub-waker of the
  slot, the bookkeeping of each answer, the key clean-up after the loop), refine one `Eng.poll group` of the model
  (Fc/Engine.lean + Fc/Groups.lean) — the function every group theorem (C01g, C02g, C03g, C11, C12, C16g, C20g and
  the liveness theorems) is about.

  A child is a scripted child of the environment (`Fc/RustEnv.lean`: `Rs.pollFut` / `Rs.pollStream`; the wakers a
  child invokes during its poll run the crate's own `InlineWakerVec::wake`, translated, on the group's readiness set).

  `poll_tie`: from a well-formed group (`WfG`) whose keys are occupied slab entries below the capacity (`GoodKeys`,
  C11's structural invariant), whose members answer like futures / streams without panicking, and whose handed-out
  sub-wakers belong to slots below the capacity (`HandedOk`), one call of the translated function with task waker `w`
    * does not panic,
    * returns the `Poll` value that corresponds to the model's outcome (`outcomeOf`),
    * leaves a group and an environment whose reading is the model's state after `Eng.poll group · w`: same
      readiness bits / count / parent waker, capacity, states, slab, keys, queue (`core`), same remaining scripts,
      same handed-out wakers, and the same event trace (the model's additional `pollEnd` is logged by the caller),
    * and preserves `WfG` and `GoodKeys` (and `HandedOk`: `poll_tie_inv`, the same statement with that conjunct).

  The vocabulary (`outcomeOf`, `FutSteps`, `StreamSteps`, `HandedOk`, `GoodKeys`) is in FcLemmas/KTieGrpPollDefs.lean
  and FcLemmas/KTieGrpPollBase.lean, the proofs in FcLemmas/KTieGrpPoll{Base,F,S}.lean.

  TWO CHANGES with respect to the statement as first written (`poll_tie_statement_v0` below keeps it):

  (1) new hypothesis `HandedOk g.roleCapacity b.w`.  Without it the statement is false (`v0_false`): a member that was
      handed `Wk.sub 5` earlier and invokes it during its poll makes the translated `InlineWakerVec::wake` run
      `set_ready(5)` on a readiness set of length 2 — `FixedBitSet::set` panics out of bounds (`BitSet.set` = `none`),
      while the model's `World.fireWk` sets bit 5 and forwards the wake-up.  In the crate a sub-waker only exists
      for a slot below the capacity and the capacity only grows, so the hypothesis holds in every reachable state.
  (2) `TieGrpF.GoodKeys` gets the field `cnt : len = number of keys` that `TieGrpS.GoodKeys` already had.  Without it
      `GoodKeys g'` is not implied: a group with keys [0, 1] (both occupied) and slab `len = 1` satisfies
      `nodup`, `occ`, `emp`; after a poll in which member 0 finishes, `len = 0` but the key set is [1], so `emp`
      fails for `g'` (evaluated: `len' = 0`, `keys' = [1]`, `ret = Ready(Some((0, 7)))`).  `emp` alone is not
      inductive; `cnt` is (and implies `emp`).
-/
import FcLemmas.KTieGrpPollF
import FcLemmas.KTieGrpPollS

namespace Fc
open Rs Src

namespace TieGrpF
open GrpF

/-- the statement of the refinement (see the file header) -/
def poll_tie_statement : Prop :=
  ∀ (g : FutureGroup) (b : Eng Grp) (w : Nat),
    WfG g → GoodKeys g → FutSteps b.w → HandedOk g.roleCapacity b.w →
    b.s.stream = false → b.s.dead = false → b.s.queue = [] →
    ∃ g' env' ret,
      FutureGroup.poll_next_inner g w ((absF g b).w.emit (.pollBegin w)) = some (g', env', ret) ∧
      WfG g' ∧ GoodKeys g' ∧
      core (absF g' b) = core (Eng.poll group (absF g b) w) ∧
      env'.scripts = (Eng.poll group (absF g b) w).w.scripts ∧
      env'.handed = (Eng.poll group (absF g b) w).w.handed ∧
      (Eng.poll group (absF g b) w).w.trace = .pollEnd (outcomeOf b.s.keyed ret) :: env'.trace

/-- `poll_tie` together with the preservation of the hypothesis that was added (`HandedOk`), so that the theorem
    can be chained over a sequence of polls -/
theorem poll_tie_inv (g : FutureGroup) (b : Eng Grp) (w : Nat)
    (hw : WfG g) (hk : GoodKeys g) (hf : FutSteps b.w) (hh : HandedOk g.roleCapacity b.w)
    (hst : b.s.stream = false) (hd : b.s.dead = false) (hq : b.s.queue = []) :
    ∃ g' env' ret,
      FutureGroup.poll_next_inner g w ((absF g b).w.emit (.pollBegin w)) = some (g', env', ret) ∧
      WfG g' ∧ GoodKeys g' ∧
      core (absF g' b) = core (Eng.poll group (absF g b) w) ∧
      env'.scripts = (Eng.poll group (absF g b) w).w.scripts ∧
      env'.handed = (Eng.poll group (absF g b) w).w.handed ∧
      (Eng.poll group (absF g b) w).w.trace = .pollEnd (outcomeOf b.s.keyed ret) :: env'.trace ∧
      HandedOk g'.roleCapacity env' :=
  poll_tie_main g b w hw hk hf hh hst hd hq

theorem poll_tie : poll_tie_statement := by
  intro g b w hw hk hf hh hst hd hq
  obtain ⟨g', env', ret, h1, h2, h3, h4, h5, h6, h7, _⟩ := poll_tie_inv g b w hw hk hf hh hst hd hq
  exact ⟨g', env', ret, h1, h2, h3, h4, h5, h6, h7⟩

/-- the statement as first written: no assumption on the wakers handed out earlier (and `GoodKeys` without `cnt`,
    which only makes its hypothesis weaker and its conclusion weaker) -/
def poll_tie_statement_v0 : Prop :=
  ∀ (g : FutureGroup) (b : Eng Grp) (w : Nat),
    WfG g → GoodKeys g → FutSteps b.w → b.s.stream = false → b.s.dead = false → b.s.queue = [] →
    ∃ g' env' ret,
      FutureGroup.poll_next_inner g w ((absF g b).w.emit (.pollBegin w)) = some (g', env', ret)

/-! ### non-vacuity: the hypotheses on a concrete group, the conclusion by evaluation -/

def exScripts : Nat → List Step := fun c =>
  if c = 100 then [⟨.pend, [(100, 0)]⟩, ⟨.ready true 7, []⟩]
  else if c = 101 then [⟨.ready true 8, [(100, 0)]⟩] else []

/-- capacity 2, members 100 and 101 under the keys 0 and 1 -/
def exG : Option FutureGroup := do
  let g ← FutureGroup.with_capacity 2
  let (g, _) ← FutureGroup.insert g 100
  let (g, _) ← FutureGroup.insert g 101
  pure g

def exB : Eng Grp := { w := World.init .std 0 exScripts, s := Grp.init false true }

theorem exG_some : exG.isSome = true := by rfl

/-- the concrete group satisfies the structural hypotheses of `poll_tie` … -/
theorem ex_wf (g : FutureGroup) (h : exG = some g) : WfG g ∧ GoodKeys g := by
  have h' : some g = exG := h.symm
  simp [exG, FutureGroup.with_capacity, FutureGroup.insert, WakerVec.new, StdVec.ReadinessVec.new,
    FutureGroup.len, Slab.insert, Slab.empty, BTree.insert, BTree.empty, BTree.insertSorted, PVec.idx, PVec.set,
    PVec.replicate, PS.PollState.set_pending, StdVec.ReadinessVec.set_ready, BitSet.idx, BitSet.ones, BitSet.set,
    uadd, FutureGroup.reserve, show wordCeil 2 = 64 from rfl] at h'
  subst h'
  refine ⟨⟨⟨rfl, ?_, ?_, rfl⟩, rfl, rfl, ?_⟩, ⟨by decide, ?_, by decide, rfl⟩⟩
  · intro i hi
    have hi' : 2 ≤ i := hi
    exact TieVec.idx_ge hi'
  · rfl
  · intro j hj
    have hj' : 2 ≤ j := hj
    show (if j = 1 then PS.PollState.pending else if j = 0 then PS.PollState.pending else PS.PollState.none_) = _
    rw [if_neg (by omega), if_neg (by omega)]
  · intro k hk
    have hk' : k ∈ [0, 1] := hk
    simp at hk'
    rcases hk' with rfl | rfl
    · exact ⟨by decide, by decide, 100, rfl⟩
    · exact ⟨by decide, by decide, 101, rfl⟩

theorem ex_env (N : Nat) : FutSteps exB.w ∧ HandedOk N exB.w := by
  refine ⟨?_, ?_⟩
  · intro c st hm
    have hm' : st ∈ exScripts c := hm
    unfold exScripts at hm'
    split at hm'
    · simp at hm'; rcases hm' with rfl | rfl
      · exact Or.inl rfl
      · exact Or.inr ⟨_, _, rfl⟩
    · split at hm'
      · simp at hm'; subst hm'; exact Or.inr ⟨_, _, rfl⟩
      · cases hm'
  · intro c i hm
    cases hm

/-- … so `poll_tie` applies to it … -/
example (g : FutureGroup) (h : exG = some g) :
    ∃ g' env' ret, FutureGroup.poll_next_inner g 1 ((absF g exB).w.emit (.pollBegin 1)) = some (g', env', ret) ∧
      (Eng.poll group (absF g exB) 1).w.trace = .pollEnd (outcomeOf exB.s.keyed ret) :: env'.trace := by
  obtain ⟨g', env', ret, h1, _, _, _, _, _, h2⟩ :=
    poll_tie g exB 1 (ex_wf g h).1 (ex_wf g h).2 (ex_env 0).1 (ex_env g.roleCapacity).2 rfl rfl rfl
  exact ⟨g', env', ret, h1, h2⟩

/-- … and its conclusion, checked by evaluation on that group: poll with task waker 1 — member 100 is pending and wakes
    itself, member 101 finishes with 8 and is removed (key 1); one key, one member and one set flag remain; the
    environment's trace has 9 events, the model's is the same plus `pollEnd (some 1 [8])` -/
example :
    exG.bind (fun g =>
      (FutureGroup.poll_next_inner g 1 ((absF g exB).w.emit (.pollBegin 1))).map (fun (g', env', ret) =>
        let m := Eng.poll group (absF g exB) 1
        (decide (m.w.trace = Ev.pollEnd (outcomeOf exB.s.keyed ret) :: env'.trace),
         decide (ret matches .ready (some (1, 8))),
         decide ((absF g' exB).s.keys = m.s.keys), m.s.keys, decide ((absF g' exB).s.len = m.s.len), m.s.len,
         decide ((absF g' exB).w.count = m.w.count), m.w.count,
         decide ((env'.scripts 100).length = (m.w.scripts 100).length), decide (env'.handed 100 = m.w.handed 100),
         env'.trace.length)))
      = some (true, true, true, [0], true, 1, true, 1, true, true, 9) := by rfl

/-! ### the counterexample to the statement as first written (change (1) of the header) -/

/-- member 100 was handed the sub-waker of slot 5 earlier (a slot the group of capacity 2 does not have) … -/
def badB : Eng Grp :=
  { w := { World.init .std 0 (fun c => if c = 100 then [⟨.pend, [(100, 1)]⟩] else []) with
             handed := fun c => if c = 100 then [.sub 5] else [] },
    s := Grp.init false true }

/-- … and invokes it during its poll: the translated code panics (`FixedBitSet::set` out of bounds) … -/
theorem bad_panics :
    exG.bind (fun g => FutureGroup.poll_next_inner g 1 ((absF g badB).w.emit (.pollBegin 1))) = none := by rfl

/-- … while the model sets bit 5 and forwards the wake-up -/
example : exG.map (fun g => (Eng.poll group (absF g badB) 1).w.trace.take 4) =
    some [.pollEnd .pending, .childEnd 101 .pend, .childBegin 101 1 (.sub 1), .childEnd 100 .pend] := by rfl

theorem v0_false : ¬ poll_tie_statement_v0 := by
  intro h
  cases hg : exG with
  | none => have := exG_some; rw [hg] at this; cases this
  | some g =>
    have hf : FutSteps badB.w := by
      intro c st hm
      have hm' : st ∈ (if c = 100 then [(⟨.pend, [(100, 1)]⟩ : Step)] else []) := hm
      split at hm'
      · simp at hm'; subst hm'; exact Or.inl rfl
      · cases hm'
    obtain ⟨g', env', ret, h1⟩ := h g badB 1 (ex_wf g hg).1 (ex_wf g hg).2 hf rfl rfl rfl
    have := bad_panics
    rw [hg] at this
    simp only [Option.bind_some] at this
    rw [this] at h1
    cases h1

end TieGrpF

namespace TieGrpS
open GrpS

def poll_tie_statement : Prop :=
  ∀ (g : StreamGroup) (b : Eng Grp) (w : Nat),
    WfG g → GoodKeys g → StreamSteps b.w → HandedOk g.roleCapacity b.w → b.s.stream = true → b.s.dead = false →
    ∃ g' env' ret,
      StreamGroup.poll_next_inner g w ((absS g b).w.emit (.pollBegin w)) = some (g', env', ret) ∧
      WfG g' ∧ GoodKeys g' ∧
      core (absS g' b) = core (Eng.poll group (absS g b) w) ∧
      env'.scripts = (Eng.poll group (absS g b) w).w.scripts ∧
      env'.handed = (Eng.poll group (absS g b) w).w.handed ∧
      (Eng.poll group (absS g b) w).w.trace = .pollEnd (outcomeOf b.s.keyed ret) :: env'.trace

theorem poll_tie_inv (g : StreamGroup) (b : Eng Grp) (w : Nat)
    (hw : WfG g) (hk : GoodKeys g) (hf : StreamSteps b.w) (hh : HandedOk g.roleCapacity b.w)
    (hst : b.s.stream = true) (hd : b.s.dead = false) :
    ∃ g' env' ret,
      StreamGroup.poll_next_inner g w ((absS g b).w.emit (.pollBegin w)) = some (g', env', ret) ∧
      WfG g' ∧ GoodKeys g' ∧
      core (absS g' b) = core (Eng.poll group (absS g b) w) ∧
      env'.scripts = (Eng.poll group (absS g b) w).w.scripts ∧
      env'.handed = (Eng.poll group (absS g b) w).w.handed ∧
      (Eng.poll group (absS g b) w).w.trace = .pollEnd (outcomeOf b.s.keyed ret) :: env'.trace ∧
      HandedOk g'.roleCapacity env' :=
  poll_tie_main g b w hw hk hf hh hst hd

theorem poll_tie : poll_tie_statement := by
  intro g b w hw hk hf hh hst hd
  obtain ⟨g', env', ret, h1, h2, h3, h4, h5, h6, h7, _⟩ := poll_tie_inv g b w hw hk hf hh hst hd
  exact ⟨g', env', ret, h1, h2, h3, h4, h5, h6, h7⟩

/-! ### non-vacuity: a concrete run (two polls of a group of two streams), model and translation side by side -/

def exScripts : Nat → List Step := fun c =>
  if c = 200 then [⟨.item 5, [(201, 0)]⟩, ⟨.fin, []⟩]
  else if c = 201 then [⟨.pend, []⟩, ⟨.fin, []⟩] else []

def exG : Option StreamGroup := do
  let g ← StreamGroup.with_capacity 2
  let (g, _) ← StreamGroup.insert g 200
  let (g, _) ← StreamGroup.insert g 201
  pure g

def exB : Eng Grp := { w := World.init .std 0 exScripts, s := Grp.init true true }

theorem ex_wf (g : StreamGroup) (h : exG = some g) : WfG g ∧ GoodKeys g := by
  have h' : some g = exG := h.symm
  simp [exG, StreamGroup.with_capacity, StreamGroup.insert, WakerVec.new, StdVec.ReadinessVec.new,
    StreamGroup.len, Slab.insert, Slab.empty, BTree.insert, BTree.empty, BTree.insertSorted, PVec.idx, PVec.set,
    PVec.replicate, PS.PollState.set_pending, StdVec.ReadinessVec.set_ready, BitSet.idx, BitSet.ones, BitSet.set,
    uadd, StreamGroup.reserve, show wordCeil 2 = 64 from rfl] at h'
  subst h'
  refine ⟨⟨⟨rfl, ?_, ?_, rfl⟩, rfl, rfl, ?_⟩, ⟨by decide, ?_, by decide, rfl, rfl⟩⟩
  · intro i hi
    have hi' : 2 ≤ i := hi
    exact TieVec.idx_ge hi'
  · rfl
  · intro j hj
    have hj' : 2 ≤ j := hj
    show (if j = 1 then PS.PollState.pending else if j = 0 then PS.PollState.pending else PS.PollState.none_) = _
    rw [if_neg (by omega), if_neg (by omega)]
  · intro k hk
    have hk' : k ∈ [0, 1] := hk
    simp at hk'
    rcases hk' with rfl | rfl
    · exact ⟨by decide, by decide, 200, rfl⟩
    · exact ⟨by decide, by decide, 201, rfl⟩

theorem ex_env (N : Nat) : StreamSteps exB.w ∧ HandedOk N exB.w := by
  refine ⟨?_, ?_⟩
  · intro c st hm
    have hm' : st ∈ exScripts c := hm
    unfold exScripts at hm'
    split at hm'
    · simp at hm'; rcases hm' with rfl | rfl
      · exact Or.inr (Or.inr ⟨_, rfl⟩)
      · exact Or.inr (Or.inl rfl)
    · split at hm'
      · simp at hm'; rcases hm' with rfl | rfl
        · exact Or.inl rfl
        · exact Or.inr (Or.inl rfl)
      · cases hm'
  · intro c i hm
    cases hm

/-- the hypotheses of `poll_tie` hold for the concrete group, so it applies … -/
example (g : StreamGroup) (h : exG = some g) :
    ∃ g' env' ret, StreamGroup.poll_next_inner g 1 ((absS g exB).w.emit (.pollBegin 1)) = some (g', env', ret) ∧
      (Eng.poll group (absS g exB) 1).w.trace = .pollEnd (outcomeOf exB.s.keyed ret) :: env'.trace := by
  obtain ⟨g', env', ret, h1, _, _, _, _, _, h2⟩ :=
    poll_tie g exB 1 (ex_wf g h).1 (ex_wf g h).2 (ex_env 0).1 (ex_env g.roleCapacity).2 rfl rfl
  exact ⟨g', env', ret, h1, h2⟩

/-- … and the conclusion by evaluation.  poll 1: member 200 yields 5 (and is re-armed); poll 2: 200 ends, 201 is pending — `Pending`, key 0 leaves through the
    removal queue; after each poll the translation's trace + `pollEnd` is the model's trace, keys / len / count agree -/
example :
    exG.bind (fun g =>
      (StreamGroup.poll_next_inner g 1 ((absS g exB).w.emit (.pollBegin 1))).bind (fun (g1, env1, ret1) =>
        let m1 := Eng.poll group (absS g exB) 1
        let b1 : Eng Grp := { w := env1, s := m1.s }
        (StreamGroup.poll_next_inner g1 2 ((absS g1 b1).w.emit (.pollBegin 2))).map (fun (g2, env2, ret2) =>
          let m2 := Eng.poll group (absS g1 b1) 2
          (decide (m1.w.trace = Ev.pollEnd (outcomeOf true ret1) :: env1.trace),
           decide (ret1 matches .ready (some (0, 5))),
           decide (m2.w.trace = Ev.pollEnd (outcomeOf true ret2) :: env2.trace),
           decide (ret2 matches .pending),
           decide ((absS g2 b1).s.keys = m2.s.keys), m2.s.keys, decide ((absS g2 b1).s.len = m2.s.len), m2.s.len,
           decide ((absS g2 b1).s.queue = m2.s.queue), decide ((absS g2 b1).w.count = m2.w.count), m2.w.count))))
      = some (true, true, true, true, true, [1], true, 1, true, true, 0) := by rfl

end TieGrpS

#print axioms TieGrpF.poll_tie
#print axioms TieGrpF.poll_tie_inv
#print axioms TieGrpS.poll_tie_inv
#print axioms TieGrpS.poll_tie
#print axioms TieGrpF.v0_false
#print axioms TieGrpF.exG_some
#print axioms TieGrpF.ex_wf
#print axioms TieGrpF.ex_env
#print axioms TieGrpF.bad_panics
#print axioms TieGrpS.ex_wf
#print axioms TieGrpS.ex_env

end Fc
