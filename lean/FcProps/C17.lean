/-
  C17 — merge fairness: no input of a merge is starved.

  Property: if an input has an item available every time it is polled, then among any N
  consecutive items yielded by a merge of N inputs at least one comes from that input, whatever
  the other inputs do.

  Monitor `Mon.holds_C17 n` (Fc/MonFun.lean), evaluated at every `pollEnd (some ..)` (a yield) of
  the trace, on the trace `t` before that `pollEnd`:  `c17At n t` =
    for every input `a < n` with `alwaysItem t a` (every `childEnd a r` so far has `r = item _`;
    vacuously true for an input that was never polled):
      fewer than `n` items were produced so far (`srcs t`, the children of the `childEnd _ (item _)`
      events, newest first),  or  `a` is among the sources of the latest `n` items.
  Since a merge yields an item in the very poll it takes it (C08), the latest `n` sources are the
  sources of the latest `n` yields, and checking every yield checks every window of `n` yields.

  Proof (FcLemmas/C17.lean): invariant over the engine state INCLUDING the readiness bits: an
  always-item input `a` is armed and live and  miss a + dist a ≤ n - 1  (`miss` = latest items not
  from `a`, `dist = (a + n - offset) % n` = slots scanned before `a` by the next poll); the cached
  ready count never under-counts the set bits, so `!any_ready` cannot cut a poll short while such
  an input is armed.
-/
import FcLemmas.C17
import Fc.Holds

namespace Fc
open Mon

/-- C17 for merge (array / Vec / tuple share the model): every number of inputs (0 included),
    all input scripts (also ill-kinded ones: `Case.kindOk` is not needed), all histories (polls
    with any waker, wake-ups of any handed-out waker at any time and inside any child poll,
    spurious polls, an injected child panic, drop at any point, polling after the end), both waker
    strategies (`std`: sub-wakers + readiness bits; `direct`: every slot polled on every scan). -/
theorem C17_merge_fair (c : Case) (hf : c.fam = .merge) : holds_C17 c.n c.trace = true := by
  unfold Case.trace
  simp only [hf, Fam.isGroup, Bool.false_eq_true, if_false, Case.finalFix, Fam.policy]
  exact (C17.bd_run c.n c.ops _ (C17.bd_init c.mode c.n c.scripts)).mon

/-- non-vacuity: a merge of 3 inputs over 9 polls.  Input 2 always has an item; inputs 0 and 1
    each answer `Pending` once (input 1 wakes itself inside that poll, input 0 is woken between
    two polls) and therefore lose their claim. -/
def C17_example : Case :=
  { fam := .merge, mode := .std, keyed := false, n := 3,
    scripts := fun c =>
      if c = 0 then [⟨.item 1, []⟩, ⟨.pend, []⟩, ⟨.item 2, []⟩, ⟨.item 3, []⟩, ⟨.item 4, []⟩]
      else if c = 1 then
        [⟨.item 11, []⟩, ⟨.item 12, []⟩, ⟨.pend, [(1, 0)]⟩, ⟨.item 13, []⟩, ⟨.fin, []⟩]
      else if c = 2 then
        [⟨.item 21, []⟩, ⟨.item 22, []⟩, ⟨.item 23, []⟩, ⟨.item 24, []⟩, ⟨.item 25, []⟩,
         ⟨.item 26, []⟩]
      else [],
    ops := [.poll 1, .poll 1, .poll 1, .poll 1, .fire 0 0, .poll 2, .poll 2, .poll 2, .poll 2,
            .poll 2] }

/-- nine yields; their sources, oldest first (not a plain round-robin) -/
example : (srcs C17_example.trace).reverse = [0, 1, 2, 1, 2, 2, 0, 1, 2] := by decide
example : (yielded C17_example.trace).reverse = [1, 11, 21, 12, 22, 23, 2, 13, 24] := by decide
/-- input 2 is the always-item input; 0 and 1 are not -/
example : alwaysItem C17_example.trace 2 = true ∧ alwaysItem C17_example.trace 0 = false ∧
    alwaysItem C17_example.trace 1 = false := by decide
/-- every window of 3 consecutive yields contains input 2 … -/
example : (List.range 7).all (fun k => (((srcs C17_example.trace).drop k).take 3).contains 2) = true := by
  decide
/-- … while input 0 (which was `Pending` once) is missing from the window `1, 2, 2` -/
example : (List.range 7).all (fun k => (((srcs C17_example.trace).drop k).take 3).contains 0) = false := by
  decide

/-- the same history with the `direct` waker strategy (no readiness bits) -/
example : (List.range 7).all (fun k =>
    (((srcs { C17_example with mode := .direct }.trace).drop k).take 3).contains 2) = true := by
  decide

/-- the monitor is not trivially true.  Two inputs, three yields all taken from input 0, input 1
    never even polled: rejected. -/
example : holds_C17 2
    [.pollEnd (.some 0 [3]), .childEnd 0 (.item 3), .pollBegin 1,
     .pollEnd (.some 0 [2]), .childEnd 0 (.item 2), .pollBegin 1,
     .pollEnd (.some 0 [1]), .childEnd 0 (.item 1), .pollBegin 1] = false := by decide
/-- three inputs; input 1 delivered an item whenever it was polled, then three yields in a row
    come from inputs 0 and 2: rejected … -/
example : holds_C17 3
    [.pollEnd (.some 0 [4]), .childEnd 0 (.item 4), .pollBegin 1,
     .pollEnd (.some 0 [3]), .childEnd 2 (.item 3), .pollBegin 1,
     .pollEnd (.some 0 [2]), .childEnd 0 (.item 2), .pollBegin 1,
     .pollEnd (.some 0 [1]), .childEnd 1 (.item 1), .pollBegin 1] = false := by decide
/-- … but accepted if input 1 had answered `Pending` in between (and input 2, polled once with an
    item, is in the window) -/
example : holds_C17 3
    [.pollEnd (.some 0 [4]), .childEnd 0 (.item 4), .pollBegin 1,
     .pollEnd (.some 0 [3]), .childEnd 2 (.item 3), .pollBegin 1,
     .pollEnd (.some 0 [2]), .childEnd 0 (.item 2), .childEnd 1 .pend, .pollBegin 1,
     .pollEnd (.some 0 [1]), .childEnd 1 (.item 1), .pollBegin 1] = true := by decide

end Fc

#print axioms Fc.C17_merge_fair
