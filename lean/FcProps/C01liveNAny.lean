/-
  C01 (second sentence) — liveness of a NEST of combinators (one level of nesting) under a wake-only
  executor, for EVERY environment schedule.

  FcProps/C01liveN.lean proves "the run from `Nest.init nc` reaches the final outcome of the outer
  instance within `3 * stepsLeft + 1` rounds" for ONE deterministic environment: when the task has
  not been woken, `ExecN.round` prods `ExecN.firstWaiting`, the FIRST waiting plain child or leaf in
  scan order.  The property (no lost wake-up at either level ⇒ progress under any wake-only executor)
  quantifies over every schedule.  Here the environment is a parameter (Fc/ExecNAny.lean):

    * a schedule is a function `pick : Nat → Nest.St → Nat`: round number and current state ↦ the
      GLOBAL id of the scripted child the environment would like to let progress next — a plain
      outer child `c` (id `c < 100`) or leaf `g` of the inner instance in outer slot `c`
      (id `Nest.leafId c g = 100 * (c + 1) + g`);
    * `ExecNAny.round nc pick r s`: `none` if the latest outcome is final; a poll of the nest with a
      FRESH task waker if `Exec.shouldPoll` (never polled, woken since the latest top-level poll
      began, or the latest poll yielded an item); otherwise, if `pick r s` names a waiting child
      (`ExecNAny.isWaiting`: an existing plain child passing `ExecN.waitingPlain`, or an existing
      leaf of an existing nested child passing `ExecN.waitingLeaf` — exactly the ids
      `ExecN.firstWaiting` chooses from, `C01_nest_any_isWaiting_iff`) it is prodded
      (`Nest.fire nc s (pick r s) 0`), else the environment falls back to `ExecN.firstWaiting` — a
      schedule cannot simply refuse to make progress: fairness is not the point, safety of ANY
      choice is;
    * `ExecNAny.runFor nc pick k r s`: up to `k` rounds, starting with round number `r`.
  With `pick := first waiting child` this is exactly the executor of Fc/ExecN.lean
  (`C01_nest_any_firstWaiting`).

  Theorems `C01_nest_*_any`: for EVERY `pick`, the statements of `C01_nest_fut_resolves`,
  `C01_nest_stream_ends` (and the special cases `C01_nest_join_resolves`, `C01_nest_race_resolves`)
  — same hypotheses, same conclusions, same bound `3 * stepsLeft + 1` — with
  `ExecN.runFor nc k (Nest.init nc)` replaced by `ExecNAny.runFor nc pick k 0 (Nest.init nc)`.

  Theorems `C01_nest_*_busy` (stronger; the `_any` ones are the special case without extra
  wake-ups, `C01_nest_any_busy_nil`): the environment may, in the same round, also invoke arbitrary
  further wakers before (`pre r s`) and after (`post r s`) the prod — lists of `(global id, age)`
  as for `Nest.fire`: plain children, a nested child's own waker (id `c < 100` of a nested slot),
  leaves, children and leaves that have resolved / ended, STALE wakers (age > 0), leaves of inner
  instances the outer instance has already RELEASED, ids that name nothing at all (`Nest.fire` then
  logs a `fired … none` event in the — dummy or released — inner instance's trace and forwards
  nothing) — and the run may start at any round number.  Same bound.  NO side condition on the lists
  is needed: `LiveN.lbn_fire`, `LiveN.sbn_fire` (run invariants) and `LiveN.mu_fire`,
  `LiveN.muS_fire` (measures) hold for every `(id, age)`.

  Proof (FcLemmas/LiveNAny.lean, LiveNAnyInst.lean).  The proofs behind FcProps/C01liveN.lean used
  `ExecN.firstWaiting` only to NAME a waiting child: `LiveN.lbn_prod` / `LiveN.sbn_prod` (after
  `Nest.fire nc s id 0` the task has been woken — the wake-up travelled through both levels — and
  the prodded child's wake-up is owed) are stated for any id with `LiveN.Waiting nc s id`, and
  `LiveN.lbn_poll` / `LiveN.sbn_poll` (a `Pending` top-level poll in a state with an owed wake-up
  consumes a scripted step) do not mention the environment.  `LiveNAny.ProgN` packages these facts
  once for an abstract invariant / measure / goal; `LiveNAny.ends_aux` is the induction on the round
  budget for `ExecNAny.runForB`.  What it needs across the extra wake-ups are facts about
  `Nest.fire` alone (`LiveNAny.fire_shape`: the outer instance sees a list of `World.fire`s, every
  inner instance none or one): `lastOut`, `lastRes` and the scripts at both levels do not change —
  so a waiting child stays waiting (`fire_waiting`) — and owed wake-ups and "the task has been
  woken" are monotone (`fire_owed`, `fire_wokeSince_mono`).
-/
import FcLemmas.LiveNAnyInst
import FcProps.C01liveN
import Fc.Holds

namespace Fc
open Mon

/-! ### sanity -/

/-- the schedule "first waiting child" (an id that names nothing if none is waiting) gives the
    executor of Fc/ExecN.lean -/
theorem C01_nest_any_firstWaiting (nc : Nest.NCase) (k : Nat) (s : Nest.St) :
    ExecNAny.runFor nc (fun _ s => (ExecN.firstWaiting nc s).getD (100 * (nc.n + 1))) k 0 s
      = ExecN.runFor nc k s :=
  LiveNAny.runFor_firstPick nc k 0 s

/-- the executor without extra wake-ups is the busy one with empty lists -/
theorem C01_nest_any_busy_nil (nc : Nest.NCase) (pick : Nat → Nest.St → Nat) (k r : Nat)
    (s : Nest.St) :
    ExecNAny.runFor nc pick k r s
      = ExecNAny.runForB nc pick (fun _ _ => []) (fun _ _ => []) k r s :=
  LiveNAny.runFor_eq_runForB nc pick k r s

/-- `ExecNAny.isWaiting` accepts exactly the ids `ExecN.firstWaiting` chooses from (when global
    ids decode) -/
theorem C01_nest_any_isWaiting_iff (nc : Nest.NCase) (hwf : ExecN.wellFormed nc = true)
    (s : Nest.St) (id : Nat) :
    ExecNAny.isWaiting nc s id = true ↔ id ∈ (List.range nc.n).flatMap (ExecN.waitingIn nc s) :=
  ⟨LiveNAny.mem_of_isWaiting, LiveNAny.isWaiting_of_mem hwf⟩

/-! ### any schedule, any extra wake-ups (`ExecNAny.runForB`) -/

/-- outer = any future family, children = any mix of plain futures and nested future combinators:
    the nest resolves within `3 * stepsLeft + 1` rounds, whatever the schedule and whatever further
    wakers the environment invokes -/
theorem C01_nest_fut_resolves_busy (pick : Nat → Nest.St → Nat)
    (pre post : Nat → Nest.St → List (Nat × Nat)) (r : Nat)
    (nc : Nest.NCase) (ho : ExecN.futFam nc.outer nc.n = true)
    (hi : ∀ c fam k, nc.inner c = some (fam, k) → ExecN.futFam fam k = true)
    (hwf : ExecN.wellFormed nc = true) (hs : ExecN.futScripts nc = true) :
    ∃ k, k ≤ 3 * ExecN.stepsLeft nc (Nest.init nc) + 1 ∧
      ∃ ok vals, lastOut (ExecNAny.runForB nc pick pre post k r (Nest.init nc)).out.w.trace
        = some (.ready ok vals) := by
  obtain ⟨k, hk, ok, vals, hv, _⟩ := LiveNAny.nest_fut_resolvesB pick pre post r nc ho hi hwf hs
  exact ⟨k, hk, ok, vals, hv⟩

/-- outer ∈ {merge, chain, zip} over any mix of plain streams and nested stream combinators: the
    nest ends within `3 * stepsLeft + 1` rounds, whatever the schedule and whatever further wakers
    the environment invokes -/
theorem C01_nest_stream_ends_busy (pick : Nat → Nest.St → Nat)
    (pre post : Nat → Nest.St → List (Nat × Nat)) (r : Nat)
    (nc : Nest.NCase) (ho : ExecN.strFam nc.outer nc.n = true)
    (hi : ∀ c fam k, nc.inner c = some (fam, k) → ExecN.strFam fam k = true)
    (hwf : ExecN.wellFormed nc = true) (hs : LiveN.strScripts nc = true) :
    ∃ k, k ≤ 3 * ExecN.stepsLeft nc (Nest.init nc) + 1 ∧
      lastOut (ExecNAny.runForB nc pick pre post k r (Nest.init nc)).out.w.trace = some .none :=
  LiveNAny.nest_str_endsB pick pre post r nc ho hi hwf hs

/-- outer = join (both models): `Ready` with `ok = true` -/
theorem C01_nest_join_resolves_busy (pick : Nat → Nest.St → Nat)
    (pre post : Nat → Nest.St → List (Nat × Nat)) (r : Nat)
    (nc : Nest.NCase) (ho : nc.outer = .joinSlice ∨ nc.outer = .joinTuple)
    (hi : ∀ c fam k, nc.inner c = some (fam, k) → ExecN.futFam fam k = true)
    (hwf : ExecN.wellFormed nc = true) (hs : ExecN.futScripts nc = true) :
    ∃ k, k ≤ 3 * ExecN.stepsLeft nc (Nest.init nc) + 1 ∧
      ∃ vals, lastOut (ExecNAny.runForB nc pick pre post k r (Nest.init nc)).out.w.trace
        = some (.ready true vals) := by
  have hof : ExecN.futFam nc.outer nc.n = true := by
    rcases ho with h | h <;> rw [h] <;> rfl
  obtain ⟨k, hk, ok, vals, hv, hF⟩ := LiveNAny.nest_fut_resolvesB pick pre post r nc hof hi hwf hs
  have hok : ok = true := by
    rcases ho with h | h <;> rw [h] at hF <;> exact hF
  subst hok
  exact ⟨k, hk, vals, hv⟩

/-- outer = race with at least one child: the nest resolves to one value -/
theorem C01_nest_race_resolves_busy (pick : Nat → Nest.St → Nat)
    (pre post : Nat → Nest.St → List (Nat × Nat)) (r : Nat)
    (nc : Nest.NCase) (ho : nc.outer = .race) (hn : 0 < nc.n)
    (hi : ∀ c fam k, nc.inner c = some (fam, k) → ExecN.futFam fam k = true)
    (hwf : ExecN.wellFormed nc = true) (hs : ExecN.futScripts nc = true) :
    ∃ k, k ≤ 3 * ExecN.stepsLeft nc (Nest.init nc) + 1 ∧
      ∃ v, lastOut (ExecNAny.runForB nc pick pre post k r (Nest.init nc)).out.w.trace
        = some (.ready true [v]) := by
  have hof : ExecN.futFam nc.outer nc.n = true := by
    rw [ho]; simpa [ExecN.futFam] using hn
  obtain ⟨k, hk, ok, vals, hv, hF⟩ := LiveNAny.nest_fut_resolvesB pick pre post r nc hof hi hwf hs
  rw [ho] at hF
  obtain ⟨hok, v, hvals⟩ := hF
  subst hok; subst hvals
  exact ⟨k, hk, v, hv⟩

/-! ### any schedule (`ExecNAny.runFor`): the statements of FcProps/C01liveN.lean -/

/-- liveness of a nest of future combinators under every schedule -/
theorem C01_nest_fut_resolves_any (pick : Nat → Nest.St → Nat)
    (nc : Nest.NCase) (ho : ExecN.futFam nc.outer nc.n = true)
    (hi : ∀ c fam k, nc.inner c = some (fam, k) → ExecN.futFam fam k = true)
    (hwf : ExecN.wellFormed nc = true) (hs : ExecN.futScripts nc = true) :
    ∃ k, k ≤ 3 * ExecN.stepsLeft nc (Nest.init nc) + 1 ∧
      ∃ ok vals, lastOut (ExecNAny.runFor nc pick k 0 (Nest.init nc)).out.w.trace
        = some (.ready ok vals) := by
  simp only [C01_nest_any_busy_nil]
  exact C01_nest_fut_resolves_busy pick _ _ 0 nc ho hi hwf hs

/-- liveness of a nest of stream combinators under every schedule -/
theorem C01_nest_stream_ends_any (pick : Nat → Nest.St → Nat)
    (nc : Nest.NCase) (ho : ExecN.strFam nc.outer nc.n = true)
    (hi : ∀ c fam k, nc.inner c = some (fam, k) → ExecN.strFam fam k = true)
    (hwf : ExecN.wellFormed nc = true) (hs : LiveN.strScripts nc = true) :
    ∃ k, k ≤ 3 * ExecN.stepsLeft nc (Nest.init nc) + 1 ∧
      lastOut (ExecNAny.runFor nc pick k 0 (Nest.init nc)).out.w.trace = some .none := by
  simp only [C01_nest_any_busy_nil]
  exact C01_nest_stream_ends_busy pick _ _ 0 nc ho hi hwf hs

/-- outer = join (both models) under every schedule -/
theorem C01_nest_join_resolves_any (pick : Nat → Nest.St → Nat)
    (nc : Nest.NCase) (ho : nc.outer = .joinSlice ∨ nc.outer = .joinTuple)
    (hi : ∀ c fam k, nc.inner c = some (fam, k) → ExecN.futFam fam k = true)
    (hwf : ExecN.wellFormed nc = true) (hs : ExecN.futScripts nc = true) :
    ∃ k, k ≤ 3 * ExecN.stepsLeft nc (Nest.init nc) + 1 ∧
      ∃ vals, lastOut (ExecNAny.runFor nc pick k 0 (Nest.init nc)).out.w.trace
        = some (.ready true vals) := by
  simp only [C01_nest_any_busy_nil]
  exact C01_nest_join_resolves_busy pick _ _ 0 nc ho hi hwf hs

/-- outer = race (at least one child) under every schedule -/
theorem C01_nest_race_resolves_any (pick : Nat → Nest.St → Nat)
    (nc : Nest.NCase) (ho : nc.outer = .race) (hn : 0 < nc.n)
    (hi : ∀ c fam k, nc.inner c = some (fam, k) → ExecN.futFam fam k = true)
    (hwf : ExecN.wellFormed nc = true) (hs : ExecN.futScripts nc = true) :
    ∃ k, k ≤ 3 * ExecN.stepsLeft nc (Nest.init nc) + 1 ∧
      ∃ v, lastOut (ExecNAny.runFor nc pick k 0 (Nest.init nc)).out.w.trace
        = some (.ready true [v]) := by
  simp only [C01_nest_any_busy_nil]
  exact C01_nest_race_resolves_busy pick _ _ 0 nc ho hn hi hwf hs

/-- the original theorem is the instance `pick := first waiting child` -/
example (nc : Nest.NCase) (ho : ExecN.futFam nc.outer nc.n = true)
    (hi : ∀ c fam k, nc.inner c = some (fam, k) → ExecN.futFam fam k = true)
    (hwf : ExecN.wellFormed nc = true) (hs : ExecN.futScripts nc = true) :
    ∃ k, k ≤ 3 * ExecN.stepsLeft nc (Nest.init nc) + 1 ∧
      ∃ ok vals, lastOut (ExecN.runFor nc k (Nest.init nc)).out.w.trace = some (.ready ok vals) := by
  have h := C01_nest_fut_resolves_any
    (fun _ s => (ExecN.firstWaiting nc s).getD (100 * (nc.n + 1))) nc ho hi hwf hs
  simp only [C01_nest_any_firstWaiting] at h
  exact h

/-! ### non-vacuity: schedules that differ from "first waiting child" -/

/-- prod the LAST waiting child in scan order (an id that names nothing if none is waiting) -/
def C01nany_pickLast (nc : Nest.NCase) : Nat → Nest.St → Nat :=
  fun _ s => (((List.range nc.n).flatMap (ExecN.waitingIn nc s)).getLast?).getD (100 * (nc.n + 1))

/-- alternate by round parity: first waiting child in even rounds, last waiting child in odd ones -/
def C01nany_pickAlt (nc : Nest.NCase) : Nat → Nest.St → Nat :=
  fun r s => if r % 2 = 0 then (ExecN.firstWaiting nc s).getD (100 * (nc.n + 1))
    else C01nany_pickLast nc r s

/-- a schedule that never names a waiting child (a leaf of a slot that does not exist): every prod
    goes through the fallback -/
def C01nany_pickNobody (nc : Nest.NCase) : Nat → Nest.St → Nat :=
  fun r _ => 100 * (nc.n + 1) + r % 100

/-- the global ids the environment prods in the first `k` rounds (starting with round `r`), in
    order -/
def C01nany_prodded (nc : Nest.NCase) (pick : Nat → Nest.St → Nat) : Nat → Nat → Nest.St → List Nat
  | 0, _, _ => []
  | k + 1, r, s =>
    match ExecNAny.round nc pick r s with
    | none => []
    | some s' =>
      (if Exec.shouldPoll s.out.w.trace then [] else (ExecNAny.choose nc pick r s).toList)
        ++ C01nany_prodded nc pick k (r + 1) s'

/-! join over a nested join (leaves 100, 101) and the plain child 1 (`C01liveN_example`, std mode):
    6 scripted steps, bound 19 -/

set_option maxRecDepth 100000 in
/-- first waiting child: leaf 101 twice, then the plain child 1 … -/
example : C01nany_prodded (C01liveN_example .std)
      (fun _ s => (ExecN.firstWaiting (C01liveN_example .std) s).getD 300) 19 0
      (Nest.init (C01liveN_example .std)) = [101, 101, 1] := by decide
set_option maxRecDepth 100000 in
/-- … last waiting child: the plain child first, then the leaf; alternating: leaf, plain, leaf -/
example : C01nany_prodded (C01liveN_example .std) (C01nany_pickLast (C01liveN_example .std)) 19 0
      (Nest.init (C01liveN_example .std)) = [1, 101, 101] ∧
    C01nany_prodded (C01liveN_example .std) (C01nany_pickAlt (C01liveN_example .std)) 19 0
      (Nest.init (C01liveN_example .std)) = [101, 1, 101] := by decide
set_option maxRecDepth 100000 in
/-- another run, another trace (of the outer instance) … -/
example : (ExecNAny.runFor (C01liveN_example .std) (C01nany_pickLast (C01liveN_example .std)) 19 0
      (Nest.init (C01liveN_example .std))).out.w.trace
    ≠ (ExecN.runFor (C01liveN_example .std) 19 (Nest.init (C01liveN_example .std))).out.w.trace := by
  decide
set_option maxRecDepth 100000 in
/-- … which resolves all the same, within the bound (in fact in round 9, not before) -/
example : lastOut (ExecNAny.runFor (C01liveN_example .std) (C01nany_pickLast (C01liveN_example .std))
      19 0 (Nest.init (C01liveN_example .std))).out.w.trace = some (.ready true [9000, 5]) ∧
    (∀ k, k ≤ 8 → Exec.finalOut (lastOut (ExecNAny.runFor (C01liveN_example .std)
      (C01nany_pickLast (C01liveN_example .std)) k 0
      (Nest.init (C01liveN_example .std))).out.w.trace) = false) := by decide
set_option maxRecDepth 100000 in
/-- a schedule that names nobody: the fallback makes it the first-waiting run -/
example : (ExecNAny.runFor (C01liveN_example .std) (C01nany_pickNobody (C01liveN_example .std)) 19 0
      (Nest.init (C01liveN_example .std))).out.w.trace
    = (ExecN.runFor (C01liveN_example .std) 19 (Nest.init (C01liveN_example .std))).out.w.trace := by
  decide

/-! race over a nested try_join (leaves 100, 101) and the plain child 1 (`C01liveN_race`): the
    schedule decides who wins -/

set_option maxRecDepth 100000 in
/-- first waiting child: the leaves 100, 101 are prodded, the nested try_join fails (leaf 101) and
    wins the race in round 5 … -/
example : lastOut (ExecN.runFor C01liveN_race 5 (Nest.init C01liveN_race)).out.w.trace
      = some (.ready true [9000]) ∧
    C01nany_prodded C01liveN_race (fun _ s => (ExecN.firstWaiting C01liveN_race s).getD 300) 25 0
      (Nest.init C01liveN_race) = [100, 101] := by decide
set_option maxRecDepth 100000 in
/-- … last waiting child: the plain child is prodded three times and wins in round 7 (8 scripted
    steps: bound 25) -/
example : lastOut (ExecNAny.runFor C01liveN_race (C01nany_pickLast C01liveN_race) 25 0
      (Nest.init C01liveN_race)).out.w.trace = some (.ready true [5]) ∧
    C01nany_prodded C01liveN_race (C01nany_pickLast C01liveN_race) 25 0 (Nest.init C01liveN_race)
      = [1, 1, 1] ∧
    (∀ k, k ≤ 6 → Exec.finalOut (lastOut (ExecNAny.runFor C01liveN_race
      (C01nany_pickLast C01liveN_race) k 0 (Nest.init C01liveN_race)).out.w.trace) = false) := by
  decide

/-! streams (`C01liveN_streams`, std mode; 10 scripted steps: bound 31) -/

set_option maxRecDepth 100000 in
/-- merge over a nested merge: first waiting child yields 9001, 9002, 9003, 5 … -/
example : yieldedItems (ExecN.runFor (C01liveN_streams .std .merge .merge) 31
      (Nest.init (C01liveN_streams .std .merge .merge))).out.w.trace
    = [[9001], [9002], [9003], [5]] := by decide
set_option maxRecDepth 100000 in
/-- … last waiting child another interleaving (prods 1, 101, 100 instead of 100, 101, 1), ending
    with `None` within the bound -/
example : yieldedItems (ExecNAny.runFor (C01liveN_streams .std .merge .merge)
      (C01nany_pickLast (C01liveN_streams .std .merge .merge)) 31 0
      (Nest.init (C01liveN_streams .std .merge .merge))).out.w.trace
      = [[9001], [5], [9002], [9003]] ∧
    lastOut (ExecNAny.runFor (C01liveN_streams .std .merge .merge)
      (C01nany_pickLast (C01liveN_streams .std .merge .merge)) 31 0
      (Nest.init (C01liveN_streams .std .merge .merge))).out.w.trace = some .none ∧
    C01nany_prodded (C01liveN_streams .std .merge .merge)
      (C01nany_pickLast (C01liveN_streams .std .merge .merge)) 31 0
      (Nest.init (C01liveN_streams .std .merge .merge)) = [1, 101, 100] := by decide
set_option maxRecDepth 100000 in
/-- merge over a nested zip: the plain input's item comes first under "last waiting child" -/
example : yieldedItems (ExecNAny.runFor (C01liveN_streams .std .merge .zip)
      (C01nany_pickLast (C01liveN_streams .std .merge .zip)) 31 0
      (Nest.init (C01liveN_streams .std .merge .zip))).out.w.trace = [[5], [9001]] ∧
    lastOut (ExecNAny.runFor (C01liveN_streams .std .merge .zip)
      (C01nany_pickLast (C01liveN_streams .std .merge .zip)) 31 0
      (Nest.init (C01liveN_streams .std .merge .zip))).out.w.trace = some .none := by decide
set_option maxRecDepth 100000 in
/-- chain over a nested merge: the outer chain fixes the order of the items, the schedule only the
    order in which the leaves are prodded (101, 100, 1 instead of 100, 101, 1) -/
example : yieldedItems (ExecNAny.runFor (C01liveN_streams .std .chain .merge)
      (C01nany_pickLast (C01liveN_streams .std .chain .merge)) 31 0
      (Nest.init (C01liveN_streams .std .chain .merge))).out.w.trace
      = [[9001], [9002], [9003], [5]] ∧
    C01nany_prodded (C01liveN_streams .std .chain .merge)
      (C01nany_pickLast (C01liveN_streams .std .chain .merge)) 31 0
      (Nest.init (C01liveN_streams .std .chain .merge)) = [101, 100, 1] := by decide

/-! a busy environment: in every environment round, before the prod it invokes the current and a
    stale waker of leaf 100 and the current waker of the nested child 0 itself; after it the current
    waker of leaf 101, a stale waker of the plain child 1, a leaf of a slot that does not exist
    (250), a child that does not exist (7), and a stale waker of the nested child -/

def C01nany_pre : Nat → Nest.St → List (Nat × Nat) := fun _ _ => [(100, 0), (100, 1), (0, 0)]
def C01nany_post : Nat → Nest.St → List (Nat × Nat) :=
  fun _ _ => [(101, 0), (1, 1), (250, 0), (7, 3), (0, 1)]

/-- `fired` events in a trace -/
def C01nany_fired (t : List Ev) : Nat :=
  (t.filter (fun e => match e with | .fired _ _ _ => true | _ => false)).length

set_option maxRecDepth 100000 in
/-- the join of `C01liveN_example` under "first waiting child" plus these wake-ups: the same result
    within the bound; after round 7 the nested join has resolved and the outer join has RELEASED it
    (`gone 0`), the task has not been woken, so round 8 is an environment round in which the wakers
    of the leaves 100, 101 of the released inner instance (and both wakers of the resolved nested
    child) are invoked — harmless -/
example : lastOut (ExecNAny.runForB (C01liveN_example .std)
      (fun _ s => (ExecN.firstWaiting (C01liveN_example .std) s).getD 300)
      C01nany_pre C01nany_post 19 0 (Nest.init (C01liveN_example .std))).out.w.trace
      = some (.ready true [9000, 5]) ∧
    (ExecNAny.runForB (C01liveN_example .std)
      (fun _ s => (ExecN.firstWaiting (C01liveN_example .std) s).getD 300)
      C01nany_pre C01nany_post 7 0 (Nest.init (C01liveN_example .std))).gone 0 = true ∧
    Exec.shouldPoll (ExecNAny.runForB (C01liveN_example .std)
      (fun _ s => (ExecN.firstWaiting (C01liveN_example .std) s).getD 300)
      C01nany_pre C01nany_post 7 0 (Nest.init (C01liveN_example .std))).out.w.trace = false ∧
    (∀ k, k ≤ 8 → Exec.finalOut (lastOut (ExecNAny.runForB (C01liveN_example .std)
      (fun _ s => (ExecN.firstWaiting (C01liveN_example .std) s).getD 300)
      C01nany_pre C01nany_post k 0 (Nest.init (C01liveN_example .std))).out.w.trace) = false) := by
  decide
set_option maxRecDepth 100000 in
/-- chain over a nested merge, "last waiting child": the same items, `None` within the bound, with
    13 instead of 3 wake-ups reaching the outer instance and 9 instead of 4 the inner one -/
example : yieldedItems (ExecNAny.runForB (C01liveN_streams .std .chain .merge)
      (C01nany_pickLast (C01liveN_streams .std .chain .merge)) C01nany_pre C01nany_post 31 0
      (Nest.init (C01liveN_streams .std .chain .merge))).out.w.trace
      = [[9001], [9002], [9003], [5]] ∧
    lastOut (ExecNAny.runForB (C01liveN_streams .std .chain .merge)
      (C01nany_pickLast (C01liveN_streams .std .chain .merge)) C01nany_pre C01nany_post 31 0
      (Nest.init (C01liveN_streams .std .chain .merge))).out.w.trace = some .none ∧
    C01nany_fired (ExecNAny.runForB (C01liveN_streams .std .chain .merge)
      (C01nany_pickLast (C01liveN_streams .std .chain .merge)) C01nany_pre C01nany_post 31 0
      (Nest.init (C01liveN_streams .std .chain .merge))).out.w.trace = 13 ∧
    C01nany_fired (ExecNAny.runFor (C01liveN_streams .std .chain .merge)
      (C01nany_pickLast (C01liveN_streams .std .chain .merge)) 31 0
      (Nest.init (C01liveN_streams .std .chain .merge))).out.w.trace = 3 ∧
    C01nany_fired ((ExecNAny.runForB (C01liveN_streams .std .chain .merge)
      (C01nany_pickLast (C01liveN_streams .std .chain .merge)) C01nany_pre C01nany_post 31 0
      (Nest.init (C01liveN_streams .std .chain .merge))).inn 0).w.trace = 9 ∧
    C01nany_fired ((ExecNAny.runFor (C01liveN_streams .std .chain .merge)
      (C01nany_pickLast (C01liveN_streams .std .chain .merge)) 31 0
      (Nest.init (C01liveN_streams .std .chain .merge))).inn 0).w.trace = 4 := by decide

set_option maxRecDepth 100000 in
/-- the hypothesis is still needed: with leaves that stay `Pending` for ever (`C01liveN_stuck`) the
    nest stays pending and no schedule has anything to prod (the fallback finds nobody either) -/
example : lastOut (ExecNAny.runFor C01liveN_stuck (C01nany_pickLast C01liveN_stuck) 30 0
      (Nest.init C01liveN_stuck)).out.w.trace = some .pending ∧
    (ExecNAny.round C01liveN_stuck (C01nany_pickLast C01liveN_stuck) 30
      (ExecNAny.runFor C01liveN_stuck (C01nany_pickLast C01liveN_stuck) 30 0
        (Nest.init C01liveN_stuck))).isNone = true := by
  decide

end Fc

#print axioms Fc.C01_nest_any_firstWaiting
#print axioms Fc.C01_nest_any_busy_nil
#print axioms Fc.C01_nest_any_isWaiting_iff
#print axioms Fc.C01_nest_fut_resolves_any
#print axioms Fc.C01_nest_stream_ends_any
#print axioms Fc.C01_nest_join_resolves_any
#print axioms Fc.C01_nest_race_resolves_any
#print axioms Fc.C01_nest_fut_resolves_busy
#print axioms Fc.C01_nest_stream_ends_busy
#print axioms Fc.C01_nest_join_resolves_busy
#print axioms Fc.C01_nest_race_resolves_busy
