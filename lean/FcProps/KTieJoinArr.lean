/-
  Kernel tie, `[Fut; N]::join()` (src/future/join/array.rs): `Join::poll` and the `PinnedDrop` destructor `Join::drop`,
  TRANSLATED FROM THE CURRENT SOURCE (tools/rs2lean.py → FcGen/KSrcArr1.lean), refine `Eng.poll joinSlice` and
  `Eng.drop joinSlice` of the model.  The array container differs from the Vec one (FcProps/KTieJoin.lean) in its types
  only: the length is the const generic `N` (a parameter of every translated function), the readiness set is
  `ReadinessArray<N>` (`TieArr.abs`), and `WakerArray<N>` hands out the sub-wakers `0..N`.
  Proofs: FcProps/KTieJoinA.lean.
-/
import FcGen.KSrcArr1
import FcProps.KTieCore
import FcProps.KTieStd
import FcProps.KTiePS

namespace Fc
open Rs Src

namespace TieJoinA
open JoinA

def absJ (g : Join) (b : Eng Fix) : Eng Fix :=
  { w := TieArr.abs g.roleWakers.readiness b.w,
    s := { b.s with n := g.roleKids.len, st := fun i => TiePS.abs (g.roleStates.get i), out := g.roleItems.get,
                    cnt := g.roleCount, dead := g.roleDone } }

/-- the array holds `N` children; `pending` counts those whose state is `Pending`; a `Ready` slot holds an output -/
structure WfJ (N : Nat) (g : Join) : Prop where
  kn : g.roleKids.len = N
  rd : TieArr.Wf N g.roleWakers.readiness
  sl : g.roleStates.len = N
  ic : g.roleItems.cap = N
  pc : g.roleCount = ((List.range N).filter (fun i => g.roleStates.get i = PS.PollState.pending)).length
  rs : ∀ i, i < N → (g.roleStates.get i = PS.PollState.pending ∨
        (g.roleStates.get i = PS.PollState.ready ∧ ∃ v, g.roleItems.get i = some v))

def poll_tie_statement : Prop :=
  ∀ (N : Nat) (g : Join) (b : Eng Fix) (w : Nat),
    WfJ N g → FutStepsF b.w → (∀ c i, Wk.sub i ∈ b.w.handed c → i < N) → g.roleDone = false →
    ∃ g' env' ret,
      Join.poll N g w ((absJ g b).w.emit (.pollBegin w)) = some (g', env', ret) ∧
      (ret = .pending → WfJ N g') ∧
      (ret = .pending → jcore (absJ g' b) = jcore (Eng.poll joinSlice (absJ g b) w)) ∧
      (ret ≠ .pending → TieJoinV.doneAgree (absJ g' b) (Eng.poll joinSlice (absJ g b) w)) ∧
      env'.scripts = (Eng.poll joinSlice (absJ g b) w).w.scripts ∧
      env'.handed = (Eng.poll joinSlice (absJ g b) w).w.handed ∧
      (Eng.poll joinSlice (absJ g b) w).w.trace = .pollEnd (outcomeOfJoin ret) :: env'.trace

/-- dropping a join that has not completed: the outputs already produced are released, then the children still pending -/
def drop_tie_statement : Prop :=
  ∀ (N : Nat) (g : Join) (b : Eng Fix),
    WfJ N g → g.roleDone = false →
    ∃ g' env',
      Join.drop N g ((absJ g b).w.emit .dropBegin) = some (g', env', ()) ∧
      (Eng.drop joinSlice (absJ g b)).w.trace = .dropEnd :: env'.trace ∧
      env'.scripts = b.w.scripts ∧ env'.handed = b.w.handed

end TieJoinA
end Fc
