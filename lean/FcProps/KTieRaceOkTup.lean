/-
  Kernel tie, the TUPLE container of `race_ok` — `(A, B, …).race_ok()` (src/future/race_ok/tuple/mod.rs,
  `impl_race_ok_tuple!`, the structs `RaceOk1 … RaceOk12`).  The source of this unit is rustc's macro expansion of the CURRENT
  source, normalised by tools/tuple_norm.py over a const generic `N` after checking that the twelve arities agree (children
  = fields of the struct, read as one array; the dispatch over the local `#[repr(usize)] enum Indexes` folded into one indexed
  body; the arity constant `RaceOk<k> = 0 + 1 + … + 1` checked and read as `N`; the destructor's `.filter(..).for_each(..)`
  written as a `for`) → tools/rs2lean.py → FcGen/KSrcTup7.lean, namespace `RaceOkT`.  The tuple race_ok differs from the
  array one (FcProps/KTieRaceOkArr.lean): it scans in the ROTATING order of its `Indexer` and keeps a `done` flag — the
  model policy `raceOk true false`; `completed` also counts the winner (the `cnt` clause is stated for the polls that do
  not return `Ok`).  Proofs: FcProps/KTieRaceOkT.lean.
-/
import FcGen.KSrcTup7
import FcProps.KTieCore
import FcProps.KTiePS
import FcProps.KTieIdx

namespace Fc
open Rs Src

namespace TieRaceOkT
open RaceOkT

/-- the model outcome a returned `Poll<Result<T, AggregateError<E, N>>>` stands for (inside the namespace, as the Vec
    container's: FcProps/KTieRaceOkArr.lean owns the name `Fc.outcomeOfRaceOk`) -/
def outcomeOfRaceOk : Rs.Poll (Rs.ResultE Nat (List Nat)) → Outcome
  | .pending => .pending
  | .ready (.ok v) => .ready true [v]
  | .ready (.err es) => .ready false es

def absK (g : RaceOk) (b : Eng Fix) : Eng Fix :=
  { w := { b.w with mode := .direct },
    s := { b.s with n := g.roleKids.len, st := fun i => TiePS.abs (g.roleStates.get i), out := g.roleItems.get,
                    cnt := g.roleCount, off := g.roleIndexer.roleOffset, dead := g.roleDone } }

/-- a slot is `Ready` exactly when it stores the error of its (failed) child; `completed` counts them -/
structure WfK (N : Nat) (g : RaceOk) : Prop where
  kn : g.roleKids.len = N
  sl : g.roleStates.len = N
  ic : g.roleItems.cap = N
  mx : g.roleIndexer.roleMax = N
  pos : 0 < N
  pc : g.roleCount = ((List.range N).filter (fun i => g.roleStates.get i = PS.PollState.ready)).length
  rs : ∀ i, i < N → ((g.roleStates.get i = PS.PollState.pending ∧ g.roleItems.get i = none) ∨
        (g.roleStates.get i = PS.PollState.ready ∧ ∃ v, g.roleItems.get i = some v))

def poll_tie_statement : Prop :=
  ∀ (N : Nat) (g : RaceOk) (b : Eng Fix) (w : Nat),
    WfK N g → FutStepsF b.w → g.roleDone = false →
    ∃ g' env' ret,
      RaceOk.poll N g w (((absK g b).w.emit (.pollBegin w)).setWaker w) = some (g', env', ret) ∧
      (ret = .pending → WfK N g') ∧
      (absK g' b).s.n = (Eng.poll (raceOk true false) (absK g b) w).s.n ∧
      ((∀ v, ret ≠ .ready (.ok v)) → (absK g' b).s.cnt = (Eng.poll (raceOk true false) (absK g b) w).s.cnt) ∧
      (absK g' b).s.off = (Eng.poll (raceOk true false) (absK g b) w).s.off ∧
      (absK g' b).s.dead = (Eng.poll (raceOk true false) (absK g b) w).s.dead ∧
      (∀ i, i < N → (absK g' b).s.st i = (Eng.poll (raceOk true false) (absK g b) w).s.st i) ∧
      /- the stored errors: the same until the aggregate is returned (then the crate has moved them out to the caller,
         the model keeps its copies, never read again) -/
      ((∀ es, ret ≠ .ready (.err es)) → (absK g' b).s.out = (Eng.poll (raceOk true false) (absK g b) w).s.out) ∧
      ((∃ es, ret = .ready (.err es)) → ∀ i, (absK g' b).s.out i = none) ∧
      ((Eng.poll (raceOk true false) (absK g b) w).s.dead = true ↔ ret ≠ .pending) ∧
      env'.scripts = (Eng.poll (raceOk true false) (absK g b) w).w.scripts ∧
      env'.handed = (Eng.poll (raceOk true false) (absK g b) w).w.handed ∧
      (Eng.poll (raceOk true false) (absK g b) w).w.trace = .pollEnd (outcomeOfRaceOk ret) :: env'.trace

/-- `PinnedDrop::drop` releases the stored errors (they were never returned); the children are plain fields, dropped
    by the struct's drop glue right after, in order -/
def drop_tie_statement : Prop :=
  ∀ (N : Nat) (g : RaceOk) (b : Eng Fix),
    WfK N g →
    ∃ g' env',
      RaceOk.drop N g ((absK g b).w.emit .dropBegin) = some (g', env', ()) ∧
      (Eng.drop (raceOk true false) (absK g b)).w.trace =
        .dropEnd :: (((List.range N).map (fun i => Ev.childDropped i)).reverse ++ env'.trace)

/-- the state a race_ok is left in by the poll that returned the aggregate: every slot `None`, nothing stored -/
structure WfFailed (N : Nat) (g : RaceOk) : Prop where
  kn : g.roleKids.len = N
  sl : g.roleStates.len = N
  ic : g.roleItems.cap = N
  rs : ∀ i, i < N → g.roleStates.get i = PS.PollState.none_

/-- dropping it then releases nothing but the children -/
def drop_failed_tie_statement : Prop :=
  ∀ (N : Nat) (g : RaceOk) (b : Eng Fix),
    WfFailed N g →
    ∃ g' env',
      RaceOk.drop N g ((absK g b).w.emit .dropBegin) = some (g', env', ()) ∧
      (Eng.drop (raceOk true false) (absK g b)).w.trace =
        .dropEnd :: (((List.range N).map (fun i => Ev.childDropped i)).reverse ++ env'.trace)

end TieRaceOkT
end Fc
