/-
  C02 for the concurrent-stream drivers — ownership of values.

  C02's quantifier lists the "concurrent-stream drivers" among the combinator families.  Their children
  are the work futures the closures return (created, polled, dropped: covered by `Fc/CoSpec.lean`, which
  accepts a `workDrop k` only for a live future, never lets a future that is still running be dropped
  except by cancellation, and accepts `dropEnd` only when none is left — C13 clause iv, C14) and the
  VALUES that flow through the pipeline: the source's items, the errors work futures return, and what the
  operation hands back.  `Fc/CoVal.lean` is the ownership model for those values (`vstep`: a value can be
  dropped or returned only while it exists, is created once, and nothing is left when the operation's own
  drop returns), `holds_C02co` the property as a predicate over the trace alone:

    * at every `valDrop v`:  (times `v` was dropped or returned before) + 1 ≤ (times `v` was created);
    * at every `topEnd o`:   for every value `v` the outcome hands to the caller, (times dropped or returned,
                             this outcome included) ≤ (times created) — nothing is returned that was not
                             produced, or that was dropped already;
    * at `dropEnd`:          for every value that occurs anywhere, dropped + returned = created — no leak.

  `C02_co_values`: every trace the ownership acceptor accepts satisfies the predicate, for every set of
  pre-existing items (`Vec::into_co_stream()`), every adapter stack and terminal (the acceptor does not
  depend on them), every interleaving and every drop point.  The harness logs every drop of a value
  (`Tagged::drop`), so acceptance of the real traces (checked on every run of the C02 check, in the std and
  alloc-only builds) transfers the conclusion to them.

  Proof: FcLemmas/CoVal.lean — invariant (live occurrences) + (gone) = (created), per value.
-/
import FcLemmas.CoVal

namespace Fc
open Co

theorem C02_co_values (pre : List Nat) (t : List Co.CoEv) (h : Co.vaccepts pre t = true) :
    Co.holds_C02co pre t = true :=
  Co.vaccepts_holds pre t h

/-! ### non-vacuity -/

/-- `stream.co().limit(1).try_for_each(g)`, three items; item 1's future fails while item 2 waits in `send`
    (back-pressure): item 0 is consumed by its future, item 1 is dropped by its failing future, item 2 is
    dropped by the cancelled `send`, the error is returned.  OLDEST FIRST. -/
def C02co_log : List CoEv :=
  [ .topBegin,
    .src (.item 1000), .call 0 0 [] 1,
    .work 1 (.ready true 1000), .valDrop 1000, .workDrop 1,
    .src (.item 2000), .call 0 1 [] 2,
    .src (.item 3000),                      -- waits in `send`
    .topEnd .pending,
    .topBegin,
    .work 2 (.ready false 500001), .valDrop 2000, .workDrop 2,
    .valDrop 3000,                          -- the item `send` was holding
    .topEnd (.err 500001),
    .dropBegin, .srcDrop, .dropEnd ]

example : vaccepts [] C02co_log.reverse = true := by decide
example : holds_C02co [] C02co_log.reverse = true := by decide
example : accepts { stack := [.limit 1], term := .tryForEach } C02co_log.reverse = true := by decide

/-- a leak is refused: the same run without the drop of the item `send` was holding -/
example : vaccepts [] (C02co_log.filter (· != .valDrop 3000)).reverse = false := by decide
example : holds_C02co [] (C02co_log.filter (· != .valDrop 3000)).reverse = false := by decide
/-- a double drop is refused -/
example : holds_C02co [] ([.src (.item 1000), .valDrop 1000, .valDrop 1000] : List CoEv).reverse = false := by decide
/-- returning a value that was dropped is refused -/
example : holds_C02co [] ([.src (.item 1000), .valDrop 1000, .topEnd (.vec [(0, [])])] : List CoEv).reverse = false := by
  decide
/-- `Vec::into_co_stream()`: the items exist from the start; the ones never taken are dropped with the source -/
example : vaccepts [1000, 2000] ([.topBegin, .src (.item 1000), .topEnd (.vec [(0, [])]), .dropBegin, .valDrop 2000,
    .dropEnd] : List CoEv).reverse = true := by decide

#print axioms C02_co_values

end Fc
