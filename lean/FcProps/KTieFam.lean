/-
  Kernel tie, fixed families — the POLL functions of `Vec<S>::merge()` (src/stream/merge/vec.rs) and `Vec<Fut>::race()`
  (src/future/race/vec.rs), TRANSLATED FROM THE CURRENT SOURCE (tools/rs2lean.py → FcGen/KSrcFam.lean), refine one
  `Eng.poll merge` / `Eng.poll race` of the model (Fc/Engine.lean + Fc/Families.lean).  See FcProps/KTieGrpPoll.lean
  for the set-up (environment, child polls, what is compared).

  `absM g b` / `absR g b` read a translated combinator as a model state: the number of children, the `PollState`
  table, the `complete` counter, the indexer's offset, the `done` flag; for merge the readiness set through
  `TieVec.abs` (std strategy), for race the caller's waker is handed straight to the children (direct strategy).
-/
import FcGen.KSrcFam
import FcProps.KTieCore
import FcProps.KTieStd
import FcProps.KTiePS
import FcProps.KTieIdx
import Fc.Families

namespace Fc
open Rs Src

namespace TieMergeV
open MergeV

def absM (g : Merge) (b : Eng Fix) : Eng Fix :=
  { w := TieVec.abs g.roleWakers.readiness b.w,
    s := { b.s with n := g.roleKids.len, st := fun i => TiePS.abs (g.roleStates.get i), cnt := g.roleCount,
                    off := g.roleIndexer.roleOffset } }

structure WfM (g : Merge) : Prop where
  rd : TieVec.Wf g.roleKids.len g.roleWakers.readiness
  nw : g.roleWakers.nwakers = g.roleKids.len
  sl : g.roleStates.len = g.roleKids.len
  mx : g.roleIndexer.roleMax = g.roleKids.len
  /-- `complete` counts the inputs that have ended, and not all have -/
  cn : g.roleCount < g.roleKids.len ∨ g.roleKids.len = 0

def poll_tie_statement : Prop :=
  ∀ (g : Merge) (b : Eng Fix) (w : Nat),
    WfM g → StreamStepsF b.w → (∀ c i, Wk.sub i ∈ b.w.handed c → i < g.roleKids.len) → b.s.dead = false →
    ∃ g' env' ret,
      Merge.poll_next g w ((absM g b).w.emit (.pollBegin w)) = some (g', env', ret) ∧
      (ret ≠ .ready none ∨ g.roleKids.len = 0 → WfM g') ∧
      fcore (absM g' b) = fcore (Eng.poll merge (absM g b) w) ∧
      env'.scripts = (Eng.poll merge (absM g b) w).w.scripts ∧
      env'.handed = (Eng.poll merge (absM g b) w).w.handed ∧
      (Eng.poll merge (absM g b) w).w.trace = .pollEnd (outcomeOfStream ret) :: env'.trace

end TieMergeV

namespace TieRaceV
open RaceV

/-- race hands the caller's context to its children: the model's `direct` strategy, no readiness set -/
def absR (g : Race) (b : Eng Fix) : Eng Fix :=
  { w := { b.w with mode := .direct },
    s := { b.s with n := g.roleKids.len, off := g.roleIndexer.roleOffset, dead := g.roleDone } }

structure WfR (g : Race) : Prop where
  mx : g.roleIndexer.roleMax = g.roleKids.len
  pos : 0 < g.roleKids.len

def poll_tie_statement : Prop :=
  ∀ (g : Race) (b : Eng Fix) (w : Nat),
    WfR g → FutStepsF b.w → g.roleDone = false →
    ∃ g' env' ret,
      Race.poll g w (((absR g b).w.emit (.pollBegin w)).setWaker w) = some (g', env', ret) ∧
      WfR g' ∧
      (absR g' b).s.n = (Eng.poll race (absR g b) w).s.n ∧
      (absR g' b).s.off = (Eng.poll race (absR g b) w).s.off ∧
      (absR g' b).s.dead = (Eng.poll race (absR g b) w).s.dead ∧
      env'.scripts = (Eng.poll race (absR g b) w).w.scripts ∧
      env'.handed = (Eng.poll race (absR g b) w).w.handed ∧
      (Eng.poll race (absR g b) w).w.trace = .pollEnd (outcomeOfRace ret) :: env'.trace

end TieRaceV

end Fc
