/-
  Kernel tie, `Vec<Fut>::try_join()` (src/future/try_join/vec.rs): `TryJoin::poll` (incl. the short-circuit on the
  first `Err`) and the `PinnedDrop` destructor `TryJoin::drop`, TRANSLATED FROM THE CURRENT SOURCE
  (tools/rs2lean.py → FcGen/KSrcFam3.lean), refine `Eng.poll tryJoinSlice` / `Eng.drop tryJoinSlice` of the model.
  See FcProps/KTieJoin.lean (the same for `join`) and FcProps/KTieGrpPoll.lean for the set-up.
-/
import FcGen.KSrcFam3
import FcProps.KTieCore
import FcProps.KTieStd
import FcProps.KTiePS

namespace Fc
open Rs Src

namespace TieTryJoinV
open TryJoinV

def absT (g : TryJoin) (b : Eng Fix) : Eng Fix :=
  { w := TieVec.abs g.roleWakers.readiness b.w,
    s := { b.s with n := g.roleKids.len, st := fun i => TiePS.abs (g.roleStates.get i), out := g.roleItems.get,
                    cnt := g.roleCount, dead := g.roleDone } }

/-- `pending` counts the children whose state is `Pending`; a `Ready` slot holds an output -/
structure WfT (g : TryJoin) : Prop where
  rd : TieVec.Wf g.roleKids.len g.roleWakers.readiness
  nw : g.roleWakers.nwakers = g.roleKids.len
  sl : g.roleStates.len = g.roleKids.len
  ic : g.roleItems.cap = g.roleKids.len
  pc : g.roleCount = ((List.range g.roleKids.len).filter (fun i => g.roleStates.get i = PS.PollState.pending)).length
  rs : ∀ i, i < g.roleKids.len → (g.roleStates.get i = PS.PollState.pending ∨
        (g.roleStates.get i = PS.PollState.ready ∧ ∃ v, g.roleItems.get i = some v))

/- STATEMENT FIXED (W7): the clause `jcore (absT g' b) = jcore (Eng.poll tryJoinSlice (absT g b) w)` was stated for every
   return value; it is false when the poll completes with `Ready(Ok(_))` (see `jcoreDone` and the counterexample in
   FcProps/KTieTryJoinV.lean).  It is kept verbatim for `Pending` and `Ready(Err(_))`; for `Ready(Ok(_))` it is `jcoreDone`. -/
def poll_tie_statement : Prop :=
  ∀ (g : TryJoin) (b : Eng Fix) (w : Nat),
    WfT g → FutStepsF b.w → (∀ c i, Wk.sub i ∈ b.w.handed c → i < g.roleKids.len) → g.roleDone = false →
    ∃ g' env' ret,
      TryJoin.poll g w ((absT g b).w.emit (.pollBegin w)) = some (g', env', ret) ∧
      (ret = .pending → WfT g') ∧
      ((∀ vs, ret ≠ .ready (.ok vs)) → jcore (absT g' b) = jcore (Eng.poll tryJoinSlice (absT g b) w)) ∧
      ((∃ vs, ret = .ready (.ok vs)) → jcoreDone g.roleKids.len (absT g' b) (Eng.poll tryJoinSlice (absT g b) w)) ∧
      env'.scripts = (Eng.poll tryJoinSlice (absT g b) w).w.scripts ∧
      env'.handed = (Eng.poll tryJoinSlice (absT g b) w).w.handed ∧
      (Eng.poll tryJoinSlice (absT g b) w).w.trace = .pollEnd (outcomeOfTryJoin ret) :: env'.trace

/-- dropping a try_join that has not completed -/
def drop_tie_statement : Prop :=
  ∀ (g : TryJoin) (b : Eng Fix),
    WfT g → g.roleDone = false →
    ∃ g' env',
      TryJoin.drop g ((absT g b).w.emit .dropBegin) = some (g', env', ()) ∧
      (Eng.drop tryJoinSlice (absT g b)).w.trace = .dropEnd :: env'.trace ∧
      env'.scripts = b.w.scripts ∧ env'.handed = b.w.handed

/-- the states a failed try_join is left in (one slot `None`, the others `Pending` or `Ready` with an output) -/
structure WfFailed (g : TryJoin) : Prop where
  sl : g.roleStates.len = g.roleKids.len
  ic : g.roleItems.cap = g.roleKids.len
  rs : ∀ i, i < g.roleKids.len → (g.roleStates.get i = PS.PollState.pending ∨ g.roleStates.get i = PS.PollState.none_ ∨
        (g.roleStates.get i = PS.PollState.ready ∧ ∃ v, g.roleItems.get i = some v))

/-- dropping a try_join after it failed: the values already produced by the other children are released (not returned),
    and the children still pending are dropped -/
def drop_failed_tie_statement : Prop :=
  ∀ (g : TryJoin) (b : Eng Fix),
    WfFailed g →
    ∃ g' env',
      TryJoin.drop g ((absT g b).w.emit .dropBegin) = some (g', env', ()) ∧
      (Eng.drop tryJoinSlice (absT g b)).w.trace = .dropEnd :: env'.trace

end TieTryJoinV
end Fc
