/-
  Kernel tie, direct strategy — see FcProps/KTieStd.lean for the description.
-/
import FcGen.KSrcDir
import Fc.Kernel

namespace Fc
open Rs Src

/-! ## direct strategy (alloc-only / no_std builds): `no_std.rs`

The readiness set of these builds has no flags: `clear_ready` always answers `true` (every
unfinished child is polled on every poll), `set_ready` answers `false`, `any_ready` is `true`,
`resize` does nothing, and only the parent waker is stored — the constants of `Mode.direct`. -/
namespace TieDir

def absA (r : DirArr.ReadinessArray) (b : World) : World := { b with mode := .direct, parent := r.roleParent }
def absV (r : DirVec.ReadinessVec) (b : World) : World := { b with mode := .direct, parent := r.roleParent }

theorem arr_tie (N : Nat) (r : DirArr.ReadinessArray) (b : World) (i p : Nat) :
    (∃ r0, DirArr.ReadinessArray.new N = some r0 ∧ r0.roleParent = none) ∧
    DirArr.ReadinessArray.clear_ready N r i = some (r, (absA r b).isSet i) ∧
    absA r b = (absA r b).clearReady i ∧
    DirArr.ReadinessArray.set_ready N r i = some (r, false) ∧
    absA r b = (absA r b).setReady i ∧
    DirArr.ReadinessArray.set_all_ready N r = some (r, ()) ∧
    absA r b = (absA r b).setAllReady ∧
    DirArr.ReadinessArray.any_ready N r = some (absA r b).anyReady ∧
    (∃ r', DirArr.ReadinessArray.set_waker N r p = some (r', ()) ∧ absA r' b = (absA r b).setWaker p) ∧
    DirArr.ReadinessArray.parent_waker_fn N r = some (absA r b).parent := by
  refine ⟨⟨_, rfl, rfl⟩, rfl, rfl, rfl, rfl, rfl, rfl, rfl, ?_, rfl⟩
  unfold DirArr.ReadinessArray.set_waker
  cases hp : r.roleParent <;>
    simp only [DirArr.ReadinessArray.roleParent] at * <;> simp [hp, absA, World.setWaker]

theorem vec_tie (r : DirVec.ReadinessVec) (b : World) (i p len : Nat) :
    (∃ r0, DirVec.ReadinessVec.new = some r0 ∧ r0.roleParent = none) ∧
    DirVec.ReadinessVec.clear_ready r i = some (r, (absV r b).isSet i) ∧
    absV r b = (absV r b).clearReady i ∧
    DirVec.ReadinessVec.set_ready r i = some (r, false) ∧
    absV r b = (absV r b).setReady i ∧
    DirVec.ReadinessVec.set_all_ready r = some (r, ()) ∧
    absV r b = (absV r b).setAllReady ∧
    DirVec.ReadinessVec.any_ready r = some (absV r b).anyReady ∧
    (∃ r', DirVec.ReadinessVec.set_waker r p = some (r', ()) ∧ absV r' b = (absV r b).setWaker p) ∧
    DirVec.ReadinessVec.parent_waker_fn r = some (absV r b).parent ∧
    DirVec.ReadinessVec.resize r len = some (r, ()) := by
  refine ⟨⟨_, rfl, rfl⟩, rfl, rfl, rfl, rfl, rfl, rfl, rfl, ?_, rfl, rfl⟩
  unfold DirVec.ReadinessVec.set_waker
  cases hp : r.roleParent <;>
    simp only [DirVec.ReadinessVec.roleParent] at * <;> simp [hp, absV, World.setWaker]

end TieDir

#print axioms TieDir.arr_tie
#print axioms TieDir.vec_tie

end Fc
