/-
  Kernel tie, groups, alloc-only build (no `std` feature) — the POLL function of `FutureGroup`.
  `FutureGroup::poll_next_inner`, TRANSLATED FROM THE CURRENT SOURCE in the flavour that is compiled without `std`
  (tools/rs2lean.py → FcGen/KSrcGrpD.lean: the text of FcGen/KSrcGrp.lean with the flag-less readiness set of
  utils/wakers/vec/no_std.rs, FcGen/KSrcDir.lean, the hand model `WakerVecD` whose `get` hands out the stored parent
  waker, and the child-poll wake function `fun _ r => some (r, [], ())`), refines one `Eng.poll group` of the model
  in `direct` mode (Fc/Engine.lean + Fc/Groups.lean + Fc/Kernel.lean `Mode.direct`).

  `poll_tie`: from a well-formed group (`WfG`: the state table has the length of the capacity) whose keys are occupied
  slab entries below the capacity (`GoodKeys`, C11's structural invariant) and whose members answer like futures
  without panicking (`FutSteps`), one call of the translated function with task waker `w`
    * does not panic,
    * returns the `Poll` value that corresponds to the model's outcome (`outcomeOf`),
    * leaves a group and an environment whose reading (`TieGrpFD.absF`) is the model's state after
      `Eng.poll group · w`: same mode / flag fields / parent waker, capacity, states, slab, keys, queue (`core`), same
      remaining scripts, same handed-out wakers (every polled member was handed `Wk.par w`), and the same event trace
      UP TO THE SLOT ANNOTATION OF `childBegin` EVENTS (`eraseSlot`; the model's additional `pollEnd` is logged by
      the caller),
    * and preserves `WfG` and `GoodKeys`.
  No hypothesis on the wakers handed out earlier is needed (the std flavour needs `HandedOk`): a `.par` waker only
  logs `woke`, a stale `.sub` waker does nothing on either side.

  ONE CHANGE with respect to the statement as first written (`poll_tie_statement_v0`, FcProps/KTieGrpDir.lean; it is
  FALSE: `v0_false` below).  It asked for EQUAL traces.  The environment of translated code (Fc/RustEnv.lean,
  `Rs.pollChild`) logs `childBegin c (Rs.slotOf wk c) wk`, and for a child that is handed the caller's own waker
  `Rs.slotOf (.par _) c = c`: the slot is named by the CHILD's number (right for the fixed-children families, where
  child `c` sits at position `c`).  The model's `Eng.visit group` logs `World.pollChild c k`: slot = the KEY `k` of the
  member.  Counterexample (`exG`, `exB`): capacity 2, members 100 and 101 under the keys 0 and 1 — the model logs
  `childBegin 100 0 (par 1)`, `childBegin 101 1 (par 1)`, the translated side `childBegin 100 100 (par 1)`,
  `childBegin 101 101 (par 1)`; every other event, and every other clause, agrees.  Only this annotation is concerned:
  the statement now compares the traces after `List.map eraseSlot` (`eraseSlot (childBegin c _ wk) = childBegin c 0 wk`).
  Nothing else was changed; no hypothesis was added.

  `poll_tie_inv`: `poll_tie` together with what the next poll needs again: the members still answer like futures
  (`FutSteps env'`), the environment's flag fields are untouched (the frame fact that `core` needs: the abstraction
  shows `cap` / `bits` / `count` of the environment), the model state is still a live future group with an empty
  removal queue, and the reading of the new group over the new environment IS the model's new state with the
  environment's trace in place of the model's (so the next `poll_tie` applies to `b' := ⟨env', m.s⟩`).

  `poll_tie_chain`: the same as ONE STEP OF A SIMULATION between the translated group over its environment and the
  model's own run: the invariant `PollInv g env m` (structural hypotheses + "`g` over `env` reads as `m` up to the trace,
  the traces agree up to `eraseSlot`") is re-established for `Eng.poll group m w` itself after the caller has logged
  the `pollEnd`; `pollInv_init` starts it.  This needs that `Eng.poll P` does not read the trace (`rtE_poll`, proved for
  every policy in FcLemmas/KTieGrpPollDFChain.lean), because the two traces are no longer equal.

  The vocabulary (`outcomeOf`, `FutSteps`) is in FcLemmas/KTieGrpPollDefs.lean, `absF` / `WfG` / `GoodKeys` /
  `eraseSlot` in FcProps/KTieGrpDir.lean, the proofs in FcLemmas/KTieGrpPollDF{Env,,Chain}.lean.
-/
import FcProps.KTieGrpDir
import FcLemmas.KTieGrpPollDF
import FcLemmas.KTieGrpPollDFChain

namespace Fc
open Rs Src

namespace TieGrpFD
open GrpFD

theorem poll_tie_inv (g : FutureGroup) (b : Eng Grp) (w : Nat)
    (hw : WfG g) (hk : GoodKeys g) (hf : FutSteps b.w)
    (hst : b.s.stream = false) (hd : b.s.dead = false) (hq : b.s.queue = []) :
    ∃ g' env' ret,
      FutureGroup.poll_next_inner g w ((absF g b).w.emit (.pollBegin w)) = some (g', env', ret) ∧
      WfG g' ∧ GoodKeys g' ∧
      core (absF g' b) = core (Eng.poll group (absF g b) w) ∧
      env'.scripts = (Eng.poll group (absF g b) w).w.scripts ∧
      env'.handed = (Eng.poll group (absF g b) w).w.handed ∧
      (Eng.poll group (absF g b) w).w.trace.map eraseSlot
        = (Ev.pollEnd (outcomeOf b.s.keyed ret) :: env'.trace).map eraseSlot ∧
      FutSteps env' ∧
      (env'.cap = b.w.cap ∧ env'.bits = b.w.bits ∧ env'.count = b.w.count) ∧
      ((Eng.poll group (absF g b) w).s.stream = false ∧ (Eng.poll group (absF g b) w).s.dead = false ∧
        (Eng.poll group (absF g b) w).s.queue = [] ∧ (Eng.poll group (absF g b) w).s.keyed = b.s.keyed) ∧
      absF g' ⟨env', (Eng.poll group (absF g b) w).s⟩ =
        { (Eng.poll group (absF g b) w) with
            w := { (Eng.poll group (absF g b) w).w with trace := env'.trace } } :=
  poll_tie_main g b w hw hk hf hst hd hq

theorem poll_tie : poll_tie_statement := by
  intro g b w hw hk hf hst hd hq
  obtain ⟨g', env', ret, h1, h2, h3, h4, h5, h6, h7, _⟩ := poll_tie_inv g b w hw hk hf hst hd hq
  exact ⟨g', env', ret, h1, h2, h3, h4, h5, h6, h7⟩

/-! ### chaining: the simulation invariant between polls -/

/-- what holds between two polls: the translated group `g` over the environment `env` reads as the model state `m` —
    up to the trace, which agrees with the model's up to the slot annotation of `childBegin` events -/
structure PollInv (g : FutureGroup) (env : World) (m : Eng Grp) : Prop where
  wf : WfG g
  keys : GoodKeys g
  steps : FutSteps env
  stream : m.s.stream = false
  dead : m.s.dead = false
  queue : m.s.queue = []
  reads : absF g ⟨env, m.s⟩ = { m with w := { m.w with trace := env.trace } }
  trace : m.w.trace.map eraseSlot = env.trace.map eraseSlot

/-- `poll_tie` as a simulation step: the invariant is re-established for THE MODEL'S OWN next state `Eng.poll group m w`
    (not for a re-abstraction), the caller having logged the `pollEnd`.  Uses that `Eng.poll` does not read the trace
    (`rtE_poll`, FcLemmas/KTieGrpPollDFChain.lean). -/
theorem poll_tie_chain (g : FutureGroup) (env : World) (m : Eng Grp) (w : Nat) (h : PollInv g env m) :
    ∃ g' env' ret,
      FutureGroup.poll_next_inner g w ((absF g ⟨env, m.s⟩).w.emit (.pollBegin w)) = some (g', env', ret) ∧
      PollInv g' (env'.emit (.pollEnd (outcomeOf m.s.keyed ret))) (Eng.poll group m w) := by
  obtain ⟨g', env', ret, h1, h2, h3, _, _, _, h7, h8, _, ⟨h9, h10, h11, _⟩, h12⟩ :=
    poll_tie_main g ⟨env, m.s⟩ w h.wf h.keys h.steps h.stream h.dead h.queue
  have hr : absF g ⟨env, m.s⟩ = rtE m env.trace := h.reads
  obtain ⟨tr', hp, ht⟩ := rtE_poll group m env.trace w
  rw [hr, hp] at h7 h9 h10 h11 h12
  have ht' : TrEq tr' (Eng.poll group m w).w.trace := ht h.trace.symm
  refine ⟨g', env', ret, h1, h2, h3, h8, h9, h10, h11, ?_, ?_⟩
  · exact congrArg (fun e : Eng Grp => rtE e (Ev.pollEnd (outcomeOf m.s.keyed ret) :: env'.trace)) h12
  · have h7' : TrEq tr' (Ev.pollEnd (outcomeOf m.s.keyed ret) :: env'.trace) := h7
    exact ht'.symm.trans h7'

/-- the invariant holds initially for a structurally good group over any environment of future-like members -/
theorem pollInv_init (g : FutureGroup) (b : Eng Grp) (hw : WfG g) (hk : GoodKeys g) (hf : FutSteps b.w)
    (hst : b.s.stream = false) (hd : b.s.dead = false) (hq : b.s.queue = []) :
    PollInv g b.w (absF g b) :=
  ⟨hw, hk, hf, hst, hd, hq, rfl, rfl⟩

/-! ### non-vacuity: the hypotheses on a concrete group, the conclusion by evaluation -/

def exScripts : Nat → List Step := fun c =>
  if c = 100 then [⟨.pend, [(100, 0)]⟩, ⟨.ready true 7, []⟩]
  else if c = 101 then [⟨.ready true 8, [(100, 0)]⟩] else []

/-- capacity 2, members 100 and 101 under the keys 0 and 1 -/
def exG : Option FutureGroup := do
  let g ← FutureGroup.with_capacity 2
  let (g, _) ← FutureGroup.insert g 100
  let (g, _) ← FutureGroup.insert g 101
  pure g

def exB : Eng Grp := { w := World.init .direct 0 exScripts, s := Grp.init false true }

theorem exG_some : exG.isSome = true := by rfl

/-- the concrete group satisfies the structural hypotheses of `poll_tie` … -/
theorem ex_wf (g : FutureGroup) (h : exG = some g) : WfG g ∧ GoodKeys g := by
  have h' : some g = exG := h.symm
  simp [exG, FutureGroup.with_capacity, FutureGroup.insert, WakerVecD.new, DirVec.ReadinessVec.new,
    FutureGroup.len, Slab.insert, Slab.empty, BTree.insert, BTree.empty, BTree.insertSorted, PVec.idx, PVec.set,
    PVec.replicate, PS.PollState.set_pending, DirVec.ReadinessVec.set_ready,
    uadd, FutureGroup.reserve] at h'
  subst h'
  refine ⟨⟨rfl, ?_⟩, ⟨by decide, ?_, by decide, rfl⟩⟩
  · intro j hj
    have hj' : 2 ≤ j := hj
    show (if j = 1 then PS.PollState.pending else if j = 0 then PS.PollState.pending else PS.PollState.none_) = _
    rw [if_neg (by omega), if_neg (by omega)]
  · intro k hk
    have hk' : k ∈ [0, 1] := hk
    simp at hk'
    rcases hk' with rfl | rfl
    · exact ⟨by decide, by decide, 100, rfl⟩
    · exact ⟨by decide, by decide, 101, rfl⟩

theorem ex_env : FutSteps exB.w := by
  intro c st hm
  have hm' : st ∈ exScripts c := hm
  unfold exScripts at hm'
  split at hm'
  · simp at hm'; rcases hm' with rfl | rfl
    · exact Or.inl rfl
    · exact Or.inr ⟨_, _, rfl⟩
  · split at hm'
    · simp at hm'; subst hm'; exact Or.inr ⟨_, _, rfl⟩
    · cases hm'

/-- … so `poll_tie` applies to it … -/
example (g : FutureGroup) (h : exG = some g) :
    ∃ g' env' ret, FutureGroup.poll_next_inner g 1 ((absF g exB).w.emit (.pollBegin 1)) = some (g', env', ret) ∧
      (Eng.poll group (absF g exB) 1).w.trace.map eraseSlot
        = (Ev.pollEnd (outcomeOf exB.s.keyed ret) :: env'.trace).map eraseSlot := by
  obtain ⟨g', env', ret, h1, _, _, _, _, _, h2⟩ :=
    poll_tie g exB 1 (ex_wf g h).1 (ex_wf g h).2 ex_env rfl rfl rfl
  exact ⟨g', env', ret, h1, h2⟩

/-- … and its conclusion, checked by evaluation on that group: poll with task waker 1 — member 100 is pending and wakes
    the task (its own waker IS the task waker: `woke 1`), member 101 finishes with 8 and is removed (key 1); one key
    and one member remain; both polled members were handed `par 1`; the environment's trace has 10 events, the
    model's is the same up to the slot of `childBegin`, plus `pollEnd (some 1 [8])` -/
example :
    exG.bind (fun g =>
      (FutureGroup.poll_next_inner g 1 ((absF g exB).w.emit (.pollBegin 1))).map (fun (g', env', ret) =>
        let m := Eng.poll group (absF g exB) 1
        (decide (m.w.trace.map eraseSlot = (Ev.pollEnd (outcomeOf exB.s.keyed ret) :: env'.trace).map eraseSlot),
         decide (ret matches .ready (some (1, 8))),
         decide ((absF g' exB).s.keys = m.s.keys), m.s.keys, decide ((absF g' exB).s.len = m.s.len), m.s.len,
         decide ((absF g' exB).w.parent = m.w.parent), m.w.parent, decide (m.w.mode = .direct),
         decide ((env'.scripts 100).length = (m.w.scripts 100).length), decide (env'.handed 100 = m.w.handed 100),
         m.w.handed 100, env'.trace.length)))
      = some (true, true, true, [0], true, 1, true, some 1, true, true, true, [.par 1], 10) := by rfl

/-- a second poll of the same group (task waker 2, the environment and the model state the first poll left):
    member 100 finishes with 7, the group is empty afterwards -/
example :
    exG.bind (fun g =>
      (FutureGroup.poll_next_inner g 1 ((absF g exB).w.emit (.pollBegin 1))).bind (fun (g1, env1, _) =>
        let m1 := Eng.poll group (absF g exB) 1
        let b1 : Eng Grp := { w := env1, s := m1.s }
        (FutureGroup.poll_next_inner g1 2 ((absF g1 b1).w.emit (.pollBegin 2))).map (fun (g2, env2, ret2) =>
          let m2 := Eng.poll group (absF g1 b1) 2
          (decide (m2.w.trace.map eraseSlot = (Ev.pollEnd (outcomeOf true ret2) :: env2.trace).map eraseSlot),
           decide (ret2 matches .ready (some (0, 7))),
           decide ((absF g2 b1).s.keys = m2.s.keys), m2.s.keys, decide ((absF g2 b1).s.len = m2.s.len), m2.s.len,
           decide (env2.handed 100 = m2.w.handed 100), m2.w.handed 100))))
      = some (true, true, true, [], true, 0, true, [.par 2, .par 1]) := by rfl

/-! ### the counterexample to the statement as first written (the header's ONE CHANGE) -/

/-- on the concrete group the translated function runs, and the two traces differ exactly in the slot annotation of the
    two `childBegin` events: the model names the key, the environment the member -/
theorem v0_traces :
    exG.bind (fun g =>
      (FutureGroup.poll_next_inner g 1 ((absF g exB).w.emit (.pollBegin 1))).map (fun (_, env', ret) =>
        let m := Eng.poll group (absF g exB) 1
        (decide (m.w.trace = Ev.pollEnd (outcomeOf exB.s.keyed ret) :: env'.trace),
         m.w.trace.filter (fun e => e matches .childBegin ..),
         env'.trace.filter (fun e => e matches .childBegin ..))))
      = some (false,
          [.childBegin 101 1 (.par 1), .childBegin 100 0 (.par 1)],
          [.childBegin 101 101 (.par 1), .childBegin 100 100 (.par 1)]) := by rfl

theorem v0_false : ¬ poll_tie_statement_v0 := by
  intro h
  cases hg : exG with
  | none => have := exG_some; rw [hg] at this; cases this
  | some g =>
    obtain ⟨g', env', ret, h1, _, _, _, _, _, h7⟩ := h g exB 1 (ex_wf g hg).1 (ex_wf g hg).2 ex_env rfl rfl rfl
    have := v0_traces
    rw [hg] at this
    simp only [Option.bind_some, h1, Option.map_some, Option.some.injEq, Prod.mk.injEq] at this
    have h8 := this.1
    rw [decide_eq_false_iff_not] at h8
    exact h8 h7

end TieGrpFD

#print axioms TieGrpFD.poll_tie
#print axioms TieGrpFD.poll_tie_inv
#print axioms TieGrpFD.poll_tie_chain
#print axioms TieGrpFD.pollInv_init
#print axioms TieGrpFD.v0_false
#print axioms TieGrpFD.v0_traces
#print axioms TieGrpFD.exG_some
#print axioms TieGrpFD.ex_wf
#print axioms TieGrpFD.ex_env

end Fc
