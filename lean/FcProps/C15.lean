/-
  C15 — collect on a concurrent stream returns exactly the multiset of outputs of the per-item
  futures; enumerate pairs each item with its source position; take(n) processes exactly the first
  min(n, len) items — however limit, map, enumerate and take are stacked.

  Monitor `Co.holds_C15 c` (Fc/CoMon.lean) over a concurrent-stream trace (`List Co.CoEv`, newest
  first) of the pipeline `c : Co.Cfg` (adapter stack, source → sink, and terminal), evaluated at
  every event, with `takenItems t` = number of `src (item _)` events so far:
    * `src (item v)`            ⇒ every `take n` of the stack still has room: `takenItems t < n`
                                  (so no item at all when some `take 0` is present, and never more
                                  than the smallest `n`);
    * `call stage j idx k`      ⇒ closure `stage` was not called for item `j` before, item `j` was
                                  taken from the source (`j < takenItems t`), and `idx` is
                                  `c.idxAt stage j` = `j` repeated once per `enumerate` in front of
                                  that closure (the source position, whatever the completion order);
    * `topEnd (vec items)` /
      `topEnd (resOk items)`    ⇒ every taken item went through every closure stage exactly once and
                                  the future it returned resolved (`allProcessed`), the source was
                                  drained as far as the adapters allow (`drained`: it ended, or some
                                  `take` is full — with the first clause: exactly min(n, len) items),
                                  and `items` is a permutation of one entry `(j, c.idxAt c.stages j)`
                                  per taken item `j`;
    * `topEnd unit` / `topEnd ok` ⇒ `drained`.

  The theorem is about the operational model `Co.step` / `Co.run` of Fc/CoSpec.lean (the algorithm
  of from_stream.rs / for_each.rs / try_for_each.rs / from_concurrent_stream.rs / take.rs /
  enumerate.rs / map.rs / limit.rs written as a trace acceptor): every trace the acceptor accepts —
  any adapter stack of any depth, any terminal, any completion order, any interleaving of top-level
  polls, drop at any point — satisfies the monitor.
-/
import FcLemmas.C15

namespace Fc
open Co

/-- C15 for every adapter stack, every terminal and every accepted interleaving. -/
theorem C15_adapters (c : Co.Cfg) (t : List Co.CoEv) (h : Co.accepts c t = true) :
    Co.holds_C15 c t = true :=
  CoC15.accepts_holds c t h

/-! ### non-vacuity -/

/-- `stream.co().map(f).enumerate().take(2).collect::<Vec<_>>()` -/
def C15_cfg : Cfg := { stack := [.map, .enum, .take 2], term := .collectVec }

/-- a source with three items (10, 11, 12) of which `take(2)` lets two through; the future of
    item 1 completes in the first top-level poll, that of item 0 in the second (oldest first) -/
def C15_prefix : List CoEv :=
  [.topBegin, .src (.item 10), .src (.item 11), .call 0 0 [] 100, .call 0 1 [] 101,
   .work 100 .pend, .work 101 (.ready true 7), .topEnd .pending,
   .topBegin, .work 100 (.ready true 8)]

def C15_example : List CoEv :=
  (C15_prefix ++ [CoEv.topEnd (.vec [(1, [1]), (0, [0])]), .workDrop 101, .workDrop 100]).reverse

example : accepts C15_cfg C15_example = true := by decide
example : holds_C15 C15_cfg C15_example = true := by decide
/-- the acceptor does not accept everything: a third item is never taken, -/
example : accepts C15_cfg [.src (.item 12), .src (.item 11), .src (.item 10), .topBegin] = false := by
  decide
/-- a closure never sees a wrong enumerate index (here: `map` sits in front of `enumerate` and sees
    none; below the same with `enumerate` in front of `map`), -/
example : accepts C15_cfg
    [.call 0 1 [0] 101, .call 0 0 [] 100, .src (.item 11), .src (.item 10), .topBegin] = false := by
  decide
/-- collect neither loses nor duplicates nor renumbers an item, nor returns early. -/
example : accepts C15_cfg (.topEnd (.vec [(1, [1])]) :: C15_prefix.reverse) = false := by decide
example : accepts C15_cfg (.topEnd (.vec [(1, [1]), (1, [1])]) :: C15_prefix.reverse) = false := by
  decide
example : accepts C15_cfg (.topEnd (.vec [(1, [1]), (0, [0]), (0, [0])]) :: C15_prefix.reverse) = false := by
  decide
example : accepts C15_cfg (.topEnd (.vec [(1, [0]), (0, [1])]) :: C15_prefix.reverse) = false := by
  decide
example : accepts C15_cfg
    [.topEnd (.vec [(1, [1])]), .work 101 (.ready true 7), .call 0 1 [] 101, .call 0 0 [] 100,
     .src (.item 11), .src (.item 10), .topBegin] = false := by decide

/-- `stream.co().enumerate().map(f).take(2).collect()`: the closure sees `(j, item)` -/
def C15_cfg2 : Cfg := { stack := [.enum, .map, .take 2], term := .collectVec }

example : accepts C15_cfg2
    [.topEnd (.vec [(1, [1]), (0, [0])]), .work 100 (.ready true 8), .work 101 (.ready true 7),
     .call 0 0 [0] 100, .call 0 1 [1] 101, .src (.item 11), .src (.item 10), .topBegin] = true := by
  decide
example : accepts C15_cfg2
    [.call 0 1 [0] 101, .call 0 0 [0] 100, .src (.item 11), .src (.item 10), .topBegin] = false := by
  decide

/-- `take(0)`: the source is not polled at all and the empty collection is returned at once -/
def C15_cfg0 : Cfg := { stack := [.map, .take 0], term := .collectVec }

example : accepts C15_cfg0 [.topEnd (.vec []), .topBegin] = true := by decide
example : accepts C15_cfg0 [.src .pend, .topBegin] = false := by decide
example : accepts C15_cfg0 [.src (.item 10), .topBegin] = false := by decide
example : accepts C15_cfg0 [.src .fin, .topBegin] = false := by decide
example : accepts { stack := [.take 0], term := .forEach } [.src (.item 10), .topBegin] = false := by
  decide
example : accepts { stack := [.take 0], term := .collectVec } [.topEnd (.vec []), .topBegin] = true := by
  decide
example : accepts { stack := [.take 0], term := .collectVec } [.src .pend, .topBegin] = false := by
  decide
example : accepts { stack := [.take 0], term := .collectVec } [.src (.item 10), .topBegin] = false := by
  decide
example : accepts { stack := [.take 0], term := .collectVec } [.src .fin, .topBegin] = false := by
  decide

/-- the monitor is not trivially true: it rejects a third item under `take(2)`, any item under
    `take(0)`, a closure called twice / for an item never taken / with the completion order as
    index, a collection that misses, duplicates or renumbers an item, and a result before the
    source was drained. -/
example : holds_C15 C15_cfg [.src (.item 12), .src (.item 11), .src (.item 10), .topBegin] = false := by
  decide
example : holds_C15 C15_cfg0 [.src (.item 10), .topBegin] = false := by decide
example : holds_C15 C15_cfg [.call 0 0 [] 101, .call 0 0 [] 100, .src (.item 10), .topBegin] = false := by
  decide
example : holds_C15 C15_cfg [.call 0 1 [] 100, .src (.item 10), .topBegin] = false := by decide
example : holds_C15 C15_cfg2
    [.call 0 1 [0] 101, .call 0 0 [0] 100, .src (.item 11), .src (.item 10), .topBegin] = false := by
  decide
example : holds_C15 C15_cfg (.topEnd (.vec [(1, [1])]) :: C15_prefix.reverse) = false := by decide
example : holds_C15 C15_cfg (.topEnd (.vec [(1, [1]), (1, [1])]) :: C15_prefix.reverse) = false := by
  decide
example : holds_C15 C15_cfg (.topEnd (.vec [(1, [0]), (0, [1])]) :: C15_prefix.reverse) = false := by
  decide
/-- item 0 was taken but its future never resolved -/
example : holds_C15 C15_cfg
    [.topEnd (.vec [(1, [1]), (0, [0])]), .work 101 (.ready true 7), .call 0 1 [] 101, .call 0 0 [] 100,
     .src (.item 11), .src (.item 10), .topBegin] = false := by decide
/-- one item taken, the source has not ended and `take(2)` is not full -/
example : holds_C15 C15_cfg
    [.topEnd (.vec [(0, [0])]), .work 100 (.ready true 8), .call 0 0 [] 100, .src (.item 10),
     .topBegin] = false := by decide
example : holds_C15 { stack := [.take 2], term := .forEach }
    [.topEnd .unit, .work 100 (.ready true 8), .call 0 0 [] 100, .src (.item 10), .topBegin] = false := by
  decide

end Fc

#print axioms Fc.C15_adapters
