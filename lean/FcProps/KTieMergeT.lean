/-
  Kernel tie, fixed families, TUPLE container — `(A, B, …).merge()` / `StreamExt::merge`: the translated
  `Merge::poll_next` (FcGen/KSrcTup3.lean, generated from rustc's expansion of `impl_merge_tuple!` in
  src/stream/merge/tuple.rs after the normalisation of tools/tuple_norm.py, namespace `MergeT`) refines one
  `Eng.poll merge` of the model, for every arity `0 < N`.  Statement: FcProps/KTieMergeTup.lean
  (`TieMergeT.poll_tie_statement`, proved here UNCHANGED); proof: FcLemmas/KTieMergeT{Loop,Main}.lean — the port of the
  array proof (FcProps/KTieMergeA.lean, FcLemmas/KTieMergeA{Loop,Main}.lean).  The container-independent lemmas are
  imported, not copied: the model side of the Vec proof (`TieMergeV.visit_*`, `poll_unfold`, `close_*`,
  `TieIdx.iter_collect`, `HandedIn`, `StreamStepsF.*`) and the environment lemmas of the readiness array
  (FcLemmas/KTieMergeAEnv.lean — the readiness set of a tuple is `ReadinessArray<N>`; that file speaks about
  `StdArr.ReadinessArray` only and does not depend on the generated source of the array merge).

  What differs from the array merge: there is no `N == 0` early return and no `done` flag (arity 0 is the separate struct
  `Merge0`; `WfM.cn : completed < N` gives `0 < N`), the stream has ended when `N == completed` (the array compares
  `complete == streams.len()`), and the child poll sits under the folded dispatch `if index < N`, true of every index the
  indexer yields (the `else` branch — "no stream has this index" — is unreachable under `WfM`).

  From a well-formed `Merge` of `N` streams (`WfM N`: the number of children, the readiness array, the state table and the
  indexer all have size `N`; not all streams have ended), an environment whose scripted children answer like streams
  (`StreamStepsF`) and whose handed-out sub-wakers all belong to one of the `N` slots, one call of the translated function
  with task waker `w` does not panic, returns the `Poll` value of the model's outcome, and leaves a combinator + environment
  whose reading (`absM`) is the model state after `Eng.poll merge · w`: same readiness bits / count / parent waker /
  capacity, states, `completed` counter, indexer offset (`fcore`), same remaining scripts, same handed-out wakers, same
  trace (the model's closing `pollEnd` is logged by the caller); `WfM N` is kept unless the stream has just ended.

  As for the other containers the hypothesis on the handed-out wakers is needed: see the counterexample at the end of this
  file (a stale sub-waker of a slot that does not exist: the crate's `wake` indexes the flag array out of bounds and
  panics, the model sets a bit beyond the capacity).
-/
import FcProps.KTieMergeTup
import FcLemmas.KTieMergeTMain

namespace Fc
open Rs Src

namespace TieMergeT
open MergeT

theorem poll_tie : poll_tie_statement := poll_tie_main

/-- the same refinement, and in addition what the NEXT call needs again: the children are the same, every sub-waker
    handed out so far (including those of this poll) belongs to a slot, the remaining scripts still answer like streams -/
theorem poll_tie_strong (N : Nat) (g : Merge) (b : Eng Fix) (w : Nat) (hW : WfM N g) (hS : StreamStepsF b.w)
    (hH : HandedIn N b.w) (hd : b.s.dead = false) :
    ∃ g' env' ret,
      Merge.poll_next N g w ((absM g b).w.emit (.pollBegin w)) = some (g', env', ret) ∧
      (ret ≠ .ready none → WfM N g') ∧
      (fcore (absM g' b) = fcore (Eng.poll merge (absM g b) w) ∧
       env'.scripts = (Eng.poll merge (absM g b) w).w.scripts ∧
       env'.handed = (Eng.poll merge (absM g b) w).w.handed ∧
       (Eng.poll merge (absM g b) w).w.trace = .pollEnd (outcomeOfStream ret) :: env'.trace) ∧
      g'.roleKids.len = g.roleKids.len ∧ HandedIn N env' ∧ StreamStepsF env' :=
  poll_tie_core N g b w hW hS hH hd

/-- `Merge::new` on a tuple of `0 < N` streams builds a well-formed merge (the hypothesis `WfM N` of `poll_tie` holds
    initially) over these children -/
theorem new_wf (N : Nat) (kids : Rs.Kids) (hk : kids.len = N) (hN : 0 < N) :
    ∃ g, Merge.new N kids = some g ∧ WfM N g ∧ g.roleKids = kids ∧ g.roleCount = 0 := by
  obtain ⟨r, hr, hwf, _⟩ := TieArr.new_tie N (World.init .std N (fun _ => []))
  have h : ∃ g, Merge.new N kids = some g ∧ g.roleCount = 0 ∧ g.roleWakers = ⟨r⟩ ∧
      g.roleStates = Rs.PVec.replicate N PS.PollState.pending ∧ g.roleKids = kids ∧
      g.roleIndexer.roleMax = N := by
    simp only [Merge.new, WakerArray.new, hr, Idx.Indexer.new, Option.bind_eq_bind, Option.bind_some, Option.pure_def]
    exact ⟨_, rfl, rfl, rfl, rfl, rfl, rfl⟩
  obtain ⟨g, h0, h1, h2, h3, h4, h5⟩ := h
  refine ⟨g, h0, ⟨?_, ?_, ?_, h5, ?_⟩, h4, h1⟩
  · rw [h4, hk]
  · rw [h2]; exact hwf
  · rw [h3]; rfl
  · rw [h1]; omega

end TieMergeT

/-! ## non-vacuity: concrete instances of the hypotheses, and the conclusion checked by evaluation -/
namespace TieMergeTEx
open MergeT TieMergeT

/-- three streams; the first poll finds child 0 pending (it wakes itself during the poll), child 1 yields 8 -/
def sc : Nat → List Step := fun c =>
  if c = 0 then [⟨.pend, [(0, 0)]⟩, ⟨.item 7, []⟩, ⟨.fin, []⟩]
  else if c = 1 then [⟨.item 8, []⟩, ⟨.fin, []⟩]
  else if c = 2 then [⟨.fin, []⟩] else []

def b0 : Eng Fix := { w := World.init .std 3 sc, s := Fix.init 3 0 }

example : StreamStepsF b0.w := by
  intro c st h
  simp only [b0, World.init, sc] at h
  split at h
  · simp at h; rcases h with rfl | rfl | rfl <;> simp
  · split at h
    · simp at h; rcases h with rfl | rfl <;> simp
    · split at h
      · simp at h; subst h; simp
      · simp at h

example : ∀ c i, Wk.sub i ∈ b0.w.handed c → i < 3 := by
  intro c i h; simp [b0, World.init] at h

example : b0.s.dead = false := rfl

/-- the hypothesis `WfM 3` holds of `Merge::new((s0, s1, s2))` -/
example : ∃ g, Merge.new 3 ⟨3⟩ = some g ∧ WfM 3 g ∧ g.roleKids = ⟨3⟩ ∧ g.roleCount = 0 := new_wf 3 ⟨3⟩ rfl (by decide)

/-- the conclusion on `Merge::new((s0, s1, s2))`, checked by evaluation: the translated function does not panic, the
    returned value is the model's outcome, and trace, counters, offset, readiness count and parent waker, the flags and
    states of the three slots, the remaining scripts and the handed-out wakers of the three children agree -/
example :
    (do let g ← Merge.new 3 ⟨3⟩
        let (g', env', ret) ← Merge.poll_next 3 g 1 ((absM g b0).w.emit (.pollBegin 1))
        let m := Eng.poll merge (absM g b0) 1
        let a := absM g' b0
        pure (decide (m.w.trace = .pollEnd (outcomeOfStream ret) :: env'.trace) &&
              decide (outcomeOfStream ret = .some 0 [8]) &&
              decide (a.s.n = m.s.n ∧ a.s.cnt = m.s.cnt ∧ a.s.off = m.s.off ∧ m.s.off = 1) &&
              decide (a.w.count = m.w.count ∧ a.w.cap = m.w.cap ∧ a.w.parent = m.w.parent ∧ m.w.parent = some 1) &&
              (List.range 3).all (fun i => a.w.bits i == m.w.bits i && decide (a.s.st i = m.s.st i) &&
                decide (env'.handed i = m.w.handed i) &&
                decide ((env'.scripts i).map (·.res) = (m.w.scripts i).map (·.res))) &&
              decide (env'.trace.length = 7)))
      = some true := by decide

/-- two streams that have both ended: two polls; the first sees stream 0 end (and stream 1 pending), the second is woken
    by stream 1 and sees it end — the merge returns `Ready(None)`, the model's outcome `.none`; all compared components
    agree after the SECOND poll too (the state the first poll leaves is the one the second starts from) -/
def sc2 : Nat → List Step := fun c =>
  if c = 0 then [⟨.fin, []⟩] else if c = 1 then [⟨.pend, [(1, 0)]⟩, ⟨.fin, []⟩] else []

def b2 : Eng Fix := { w := World.init .std 2 sc2, s := Fix.init 2 0 }

example :
    (do let g ← Merge.new 2 ⟨2⟩
        let (g1, env1, ret1) ← Merge.poll_next 2 g 1 ((absM g b2).w.emit (.pollBegin 1))
        let m1 := Eng.poll merge (absM g b2) 1
        let b2' : Eng Fix := { w := env1.emit (.pollEnd (outcomeOfStream ret1)), s := b2.s }
        let (g2, env2, ret2) ← Merge.poll_next 2 g1 4 ((absM g1 b2').w.emit (.pollBegin 4))
        let m2 := Eng.poll merge (absM g1 b2') 4
        let a := absM g2 b2'
        pure (decide (outcomeOfStream ret1 = .pending ∧ outcomeOfStream ret2 = .none) &&
              decide (m1.w.trace = .pollEnd (outcomeOfStream ret1) :: env1.trace) &&
              decide (m2.w.trace = .pollEnd (outcomeOfStream ret2) :: env2.trace) &&
              decide (a.s.n = m2.s.n ∧ a.s.cnt = m2.s.cnt ∧ m2.s.cnt = 2 ∧ a.s.off = m2.s.off) &&
              decide (a.w.count = m2.w.count ∧ a.w.cap = m2.w.cap ∧ a.w.parent = m2.w.parent ∧ m2.w.parent = some 4) &&
              (List.range 2).all (fun i => a.w.bits i == m2.w.bits i && decide (a.s.st i = m2.s.st i) &&
                decide (env2.handed i = m2.w.handed i) &&
                decide ((env2.scripts i).map (·.res) = (m2.w.scripts i).map (·.res)))))
      = some true := by decide

/-- there is no well-formed tuple merge of arity 0 (`Merge0` is a different struct) -/
example (g : Merge) : ¬ WfM 0 g := fun h => Nat.not_lt_zero _ h.cn

/-- the statement without the hypothesis on the handed-out wakers is false: child 0 was handed the sub-waker of a
    slot 5 that a one-stream merge does not have and invokes it during its poll — the translated `wake` panics
    (`set` out of bounds), the model does not -/
def bC : Eng Fix :=
  { w := { World.init .std 1 (fun c => if c = 0 then [⟨.pend, [(0, 1)]⟩] else []) with
           handed := fun c => if c = 0 then [.sub 5] else [] },
    s := Fix.init 1 0 }

example : ((Merge.new 1 ⟨1⟩).map fun g => (Merge.poll_next 1 g 9 ((absM g bC).w.emit (.pollBegin 9))).isSome)
    = some false := by decide

end TieMergeTEx

#print axioms TieMergeT.poll_tie
#print axioms TieMergeT.poll_tie_strong
#print axioms TieMergeT.new_wf

end Fc
