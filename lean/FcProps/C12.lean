/-
  C12 — StreamGroup: every item of every member stream is yielded exactly once, in the member's own
  order, tagged (keyed mode) with the key its insert returned; a member is dropped and forgotten in
  the poll in which it returns `None`, or at removal, and never polled afterwards.

  Monitor `Mon.holds_C12 keyed nch = Mon.holds_G true keyed nch` (Fc/MonGrp.lean): the checks of C11
  (see FcProps/C11.lean) with items in place of outputs:
    * `childBegin c k _` ⇒ `c` is the live member under key `k` — `memberAt` forgets a member at its
                           `childEnd c fin` and at `removed k true` — and no item was taken earlier
                           in this poll;
    * `pollEnd (Some(key, v))` ⇒ the latest child answer of this poll is `item v` of a member `c`, and
                           (keyed) `key = keyOf c`;  `pollEnd Pending` ⇒ members remain and no item was
                           taken in this poll;  `pollEnd None` ⇒ no member remains (exactly then: a
                           poll in which the last members end answers `None`; the group can be
                           refilled and polled again);
    * at every `pollEnd`: the sequence of yielded values IS the sequence of items the members
                           produced (each exactly once, per-member order kept), and every member
                           `c < nch` that ended has been dropped;
    * `inserted` / `removed` / `answer`: as for C11 (`len`, `is_empty`, `contains_key`, `capacity`).
  Hypotheses: `kindOk` (a stream never resolves like a future), `insertsFresh` (every inserted
  stream is a new object).
-/
import FcLemmas.C11
import Fc.Holds

namespace Fc
open Mon

/-- C12 for keyed and unkeyed polling, every history of `insert` / `remove` / `reserve` / `extend` /
    queries / polls / wake-ups / drop / an injected member panic, all member scripts, both waker
    strategies, every bound `nch` on the member ids. -/
theorem C12_stream_group (c : Case) (hf : c.fam = .strGroup) (hk : c.kindOk) (hw : c.insertsFresh)
    (nch : Nat) : holds_C12 c.keyed nch c.trace = true := by
  unfold Case.trace holds_C12 Case.finalGrp
  simp only [hf, Fam.isGroup, if_true, decide_true]
  exact G11.main true c.keyed nch c.mode c.scripts c.ops
    (fun ch st hm => by have := hk ch st hm; rw [hf] at this; exact this) hw

/-- `insertsFresh` cannot be dropped -/
def C12_notFresh : Case :=
  { fam := .strGroup, mode := .std, keyed := true, n := 0, scripts := fun _ => [],
    ops := [.extend [5, 5]] }
example : ¬ C12_notFresh.insertsFresh := by decide
example : holds_C12 true 8 C12_notFresh.trace = false := by decide

/-- `kindOk` cannot be dropped either: a member "stream" that resolves like a future makes the
    group answer `Some` for something that is not an item -/
def C12_notKind : Case :=
  { fam := .strGroup, mode := .std, keyed := true, n := 0,
    scripts := fun c => if c = 5 then [⟨.ready true 1, []⟩] else [],
    ops := [.insert 5, .poll 1] }
example : C12_notKind.insertsFresh := by decide
example : holds_C12 true 8 C12_notKind.trace = false := by decide

/-- non-vacuity (keyed): members 10 11 12 under keys 0 1 2; 10 and 11 end in the same (first) poll
    — both are dropped and forgotten in it — while 12 is pending; later 12 yields 7, 8 and ends
    (`None`); the empty group answers `None` again, is refilled with member 13 (into a reused key),
    which yields 9 and ends. -/
def C12_example : Case :=
  { fam := .strGroup, mode := .std, keyed := true, n := 0,
    scripts := fun c => if c = 10 then [⟨.fin, []⟩]
                        else if c = 11 then [⟨.fin, []⟩]
                        else if c = 12 then [⟨.pend, [(12, 0)]⟩, ⟨.item 7, []⟩, ⟨.item 8, []⟩, ⟨.fin, []⟩]
                        else if c = 13 then [⟨.item 9, []⟩, ⟨.fin, []⟩] else [],
    ops := [.insert 10, .insert 11, .insert 12, .poll 1, .qLen, .qContains 0, .qContains 2, .poll 2,
            .poll 2, .poll 2, .poll 3, .qIsEmpty, .insert 13, .poll 3, .poll 3, .drop] }

example : C12_example.insertsFresh := by decide
set_option maxRecDepth 100000 in
example : (C12_example.run.filter (fun e => match e with
      | .pollEnd _ | .childDropped _ | .answer _ _ | .inserted _ _ => true | _ => false))
    = [.inserted 10 0, .inserted 11 1, .inserted 12 2,
       .childDropped 10, .childDropped 11, .pollEnd .pending, .answer 0 1, .answer 100 0, .answer 102 1,
       .pollEnd (.some 2 [7]), .pollEnd (.some 2 [8]), .childDropped 12, .pollEnd .none,
       .pollEnd .none, .answer 1 1, .inserted 13 2, .pollEnd (.some 2 [9]), .childDropped 13,
       .pollEnd .none] := by decide
set_option maxRecDepth 100000 in
example : (C12_example.run.filter (fun e => match e with | .childBegin 10 _ _ => true | _ => false)).length
    = 1 := by decide

/-- the monitor is not trivially true -/
-- an item yielded twice / an item lost
example : holds_C12 true 4 [.pollEnd (.some 0 [7]), .pollBegin 1, .pollEnd (.some 0 [7]),
    .childEnd 1 (.item 7), .childBegin 1 0 (.sub 0), .pollBegin 1, .inserted 1 0] = false := by decide
example : holds_C12 true 4 [.pollEnd .pending, .childEnd 1 (.item 7), .childBegin 1 0 (.sub 0),
    .pollBegin 1, .inserted 1 0] = false := by decide
-- the wrong key
example : holds_C12 true 4 [.pollEnd (.some 0 [7]), .childEnd 2 (.item 7), .childBegin 2 1 (.sub 1),
    .pollBegin 1, .inserted 2 1, .inserted 1 0] = false := by decide
example : holds_C12 true 4 [.pollEnd (.some 1 [7]), .childEnd 2 (.item 7), .childBegin 2 1 (.sub 1),
    .pollBegin 1, .inserted 2 1, .inserted 1 0] = true := by decide
-- `len` wrong after a member ended
example : holds_C12 true 4 [.answer 0 2, .pollEnd .pending, .childDropped 2, .childEnd 2 .fin,
    .childBegin 2 1 (.sub 1), .pollBegin 1, .inserted 2 1, .inserted 1 0] = false := by decide
-- a member that ended (or was removed) is polled again
example : holds_C12 true 4 [.childBegin 2 1 (.sub 1), .pollBegin 2, .pollEnd .pending, .childDropped 2,
    .childEnd 2 .fin, .childBegin 2 1 (.sub 1), .pollBegin 1, .inserted 2 1, .inserted 1 0] = false := by
  decide
example : holds_C12 true 4 [.childBegin 1 0 (.sub 0), .pollBegin 1, .removed 0 true, .childDropped 1,
    .inserted 2 1, .inserted 1 0] = false := by decide
-- `None` while a member is live; `Pending` when the last member has just ended
example : holds_C12 true 4 [.pollEnd .none, .childDropped 2, .childEnd 2 .fin, .childBegin 2 1 (.sub 1),
    .pollBegin 1, .inserted 2 1, .inserted 1 0] = false := by decide
example : holds_C12 true 4 [.pollEnd .pending, .childDropped 1, .childEnd 1 .fin,
    .childBegin 1 0 (.sub 0), .pollBegin 1, .inserted 1 0] = false := by decide
-- an ended member that is not dropped
example : holds_C12 true 4 [.pollEnd .none, .childEnd 1 .fin, .childBegin 1 0 (.sub 0), .pollBegin 1,
    .inserted 1 0] = false := by decide

end Fc

#print axioms Fc.C12_stream_group
