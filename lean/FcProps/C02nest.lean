/-
  C02 — exactly-once ownership, for ONE LEVEL OF NESTING: an outer combinator some of whose children
  are themselves combinators ("inner instances") over scripted leaves (model: Fc/Nest.lean).

  "Every child handed to a combinator, and every value a child produces, is dropped exactly once —
   either after being returned to the caller or by the combinator — no matter at which point the
   combinator completes, is dropped mid-flight, or unwinds …  When a combinator is dropped, every
   child it still owns is dropped before that drop returns."

  For a nest, at every operation boundary of every history (`Nest.c02At`, Fc/NestMon.lean; `to` =
  trace of the outer instance, `ti` = trace of the inner instance of nested child `c`, `k` = its
  number of leaves):

    (1) `holds_C02 true n to` — the flat monitor on the OUTER instance's trace: once its drop has
        returned, every child `c < n` — plain or nested — was dropped exactly once
        (`childDropped c`), nothing is released after the drop returned, and every value a child
        handed to the outer instance (for a nested child: the value `9000+…` standing for the inner
        instance's output) is returned or dropped exactly once;
    (2) `holds_C02 true k ti` — the same for every INNER instance, its leaves and their values;
    (3) the LINK (`Nest.linkC02`): for every nested child `c`
          * `s.gone c = gone to c` — the nest has released `c` iff the outer instance dropped
            child `c` (in place when it finished, or by its drop glue);
          * `dropCompleted ti = s.gone c` — iff the inner instance has performed its drop
            (`dropBegin … dropEnd` in its own trace, inside which (2) puts the drop of every leaf
            the inner instance still owned);
          * `cntDE ti = if s.gone c then 1 else 0` — exactly once.
        So when the drop of the nest has returned (`dropCompleted to`), every nested child has been
        dropped by the outer instance, every inner instance has been dropped exactly once, and
        inside that drop every leaf exactly once (`C02_nest_dropped`).

  Hypotheses (all decidable predicates on the nest, Fc/NestMon.lean):
    * `Nest.kindOk nc` — as for C03 (FcProps/C03nest.lean): matching kinds at both levels;
    * `Nest.waitOk nc` — a `wait_until` (at either level) has exactly its two children (as in the
      flat theorem `C02_exactly_once_plain`);
    * `Nest.dropsOk nc` — the history drops the nest at most once (as in the flat theorems: the
      models whose children are plain fields release all of them in every `drop`; a Rust value is
      dropped once).  An inner instance is dropped at most once by construction of the nest.

  Proof (FcLemmas/NestC02*.lean): the flat C02 invariants of FcLemmas/C02a.lean / C02b.lean are
  `Sim` instances, so they are carried along `Nest.poll / fire / drop` for the outer and for every
  inner instance exactly like the C03 invariants (`VSI`), together with the number of drops each
  instance has performed; the link comes from the C03 link (`alive ti = !gone c`,
  `gone c = gone to c || !alive to`) and from (1): a dropped outer instance has dropped all its
  children.
-/
import FcLemmas.NestC02Inv

namespace Fc
open Mon

/-- C02 for a nest with one level of nesting, at every operation boundary: every outer and inner
    family among the 13 fixed-children models, every nesting pattern of matching kinds, all scripts
    of the right kind, all histories with at most one drop of the nest (at any point: before the
    first poll, mid-flight, after completion, after a panic), both waker strategies. -/
theorem C02_nest (nc : Nest.NCase) (hk : Nest.kindOk nc = true) (hw : Nest.waitOk nc = true)
    (hd : Nest.dropsOk nc = true) (k : Nat) :
    let s := (nc.ops.take k).foldl (Nest.step nc) (Nest.init nc)
    -- (1) the outer instance: plain and nested children, and the values they hand to it
    holds_C02 true nc.n s.out.w.trace = true ∧
    -- (2) every inner instance: the leaves and their values
    (∀ c fam kk, c < nc.n → nc.inner c = some (fam, kk) →
      holds_C02 true kk (s.inn c).w.trace = true) ∧
    -- (3) the link
    (∀ c, c < nc.n → (nc.inner c).isSome = true →
      s.gone c = gone s.out.w.trace c ∧
      dropCompleted (s.inn c).w.trace = s.gone c ∧
      Nest.cntDE (s.inn c).w.trace = (if s.gone c then 1 else 0)) := by
  intro s
  obtain ⟨d, hd1, h3, h2⟩ := Nest.nc_prefix nc hk hw hd k
  have ho := Nest.holds_outer h2 hd1
  exact ⟨ho, fun c fam kk hc hin => Nest.holds_inner h2 c hc fam kk hin,
    fun c hc hs => Nest.link_of_inv h3 h2 hd1 ho c hc hs⟩

/-- the executable form: the monitor `Nest.c02At` accepts every operation boundary -/
theorem C02_nest_holds (nc : Nest.NCase) (hk : Nest.kindOk nc = true) (hw : Nest.waitOk nc = true)
    (hd : Nest.dropsOk nc = true) : Nest.holdsC02Nest nc = true := by
  unfold Nest.holdsC02Nest
  simp only [List.all_eq_true, List.mem_range]
  intro k _
  obtain ⟨d, hd1, h3, h2⟩ := Nest.nc_prefix nc hk hw hd k
  exact Nest.c02At_of_inv h3 h2 hd1

/-- what the flat monitor says about a trace whose drop has returned -/
theorem holds_C02_dropped (n : Nat) (t : List Ev) (h : holds_C02 true n t = true)
    (hd : dropCompleted t = true) :
    quietAfterDrop t = true ∧ (∀ c, c < n → (droppedChildren t).count c = 1) ∧
    (∀ v, v ∈ producedVals t →
      (returnedVals t).count v + (droppedVals t).count v = (producedVals t).count v) := by
  unfold holds_C02 at h
  simp only [hd, Bool.not_true, Bool.false_or, Bool.and_eq_true, List.all_eq_true, List.mem_range,
    decide_eq_true_eq, Bool.true_or, if_true] at h
  exact ⟨h.1.1.1.1, h.1.1.1.2, h.1.1.2⟩

/-- "When a combinator is dropped, every child it still owns is dropped before that drop returns",
    through both levels: at every operation boundary at which the drop of the nest has returned,
    every child of the outer instance (plain or nested) has been dropped exactly once, and for
    every nested child the inner instance has performed its drop exactly once, nothing is released
    after it, every leaf has been dropped exactly once and every value a leaf produced was returned
    to the outer instance or dropped exactly once. -/
theorem C02_nest_dropped (nc : Nest.NCase) (hk : Nest.kindOk nc = true)
    (hw : Nest.waitOk nc = true) (hd : Nest.dropsOk nc = true) (k : Nat) :
    let s := (nc.ops.take k).foldl (Nest.step nc) (Nest.init nc)
    dropCompleted s.out.w.trace = true →
    (∀ c, c < nc.n → (droppedChildren s.out.w.trace).count c = 1) ∧
    (∀ c fam kk, c < nc.n → nc.inner c = some (fam, kk) →
      Nest.cntDE (s.inn c).w.trace = 1 ∧ quietAfterDrop (s.inn c).w.trace = true ∧
      (∀ g, g < kk → (droppedChildren (s.inn c).w.trace).count g = 1) ∧
      (∀ v, v ∈ producedVals (s.inn c).w.trace →
        (returnedVals (s.inn c).w.trace).count v + (droppedVals (s.inn c).w.trace).count v
          = (producedVals (s.inn c).w.trace).count v)) := by
  intro s hdc
  obtain ⟨h1, h2, h3⟩ := C02_nest nc hk hw hd k
  have ho := holds_C02_dropped nc.n _ h1 hdc
  refine ⟨ho.2.1, fun c fam kk hc hin => ?_⟩
  have hs : (nc.inner c).isSome = true := by simp [hin]
  obtain ⟨l1, l2, l3⟩ := h3 c hc hs
  have hg : s.gone c = true := by
    rw [l1]; exact Nest.gone_of_count _ c (ho.2.1 c hc)
  rw [hg] at l2 l3
  have hi := holds_C02_dropped kk _ (h2 c fam kk hc hin) l2
  exact ⟨l3, hi.1, hi.2.1, hi.2.2⟩

/-! ### non-vacuity -/

/-- Example 1: outer `join` (array model) over 2 children: child 0 plain, child 1 = an inner `race`
    over the leaves 200, 201.  Poll 2: leaf 201 resolves, the race resolves, the join stores the
    race's output and releases child 1 in place — and with it the race, which drops both its
    leaves.  Poll 3: the join completes and hands both values to the caller.  Then the drop. -/
def C02nest_join_ops : List Op :=
  [.poll 1, .fire 201 0, .poll 2, .fire 0 0, .poll 3, .drop, .fire 200 0, .poll 4]

def C02nest_join (m : Mode) (ops : List Op) : Nest.NCase :=
  { mode := m, outer := .joinSlice, n := 2,
    inner := fun c => if c = 1 then some (.race, 2) else none,
    scripts := fun id =>
      if id = 0 then [⟨.pend, []⟩, ⟨.ready true 5, []⟩]
      else if id = 200 then [⟨.pend, []⟩, ⟨.pend, []⟩]
      else if id = 201 then [⟨.pend, []⟩, ⟨.ready true 7, []⟩]
      else [],
    ops := ops }

/-- the hypotheses are satisfiable: the theorem applies to the example (any mode, any history with
    at most one drop) -/
theorem C02nest_join_kindOk (m : Mode) (ops : List Op) : Nest.kindOk (C02nest_join m ops) = true := rfl
theorem C02nest_join_waitOk (m : Mode) (ops : List Op) : Nest.waitOk (C02nest_join m ops) = true := rfl
example : Nest.dropsOk (C02nest_join .std C02nest_join_ops) = true := by decide
example (m : Mode) : Nest.holdsC02Nest (C02nest_join m C02nest_join_ops) = true :=
  C02_nest_holds _ (C02nest_join_kindOk m _) (C02nest_join_waitOk m _) rfl

example : Nest.holdsC02Nest (C02nest_join .std C02nest_join_ops) = true := by decide
example : Nest.holdsC02Nest (C02nest_join .direct C02nest_join_ops) = true := by decide
/-- the outer instance dropped each child once (in place), the race each leaf once (by its drop
    glue, when the join released it — mid-history, not at the drop of the nest) -/
example : droppedChildren (Nest.run (C02nest_join .std C02nest_join_ops)).out.w.trace = [0, 1] := by
  decide
example : droppedChildren ((Nest.run (C02nest_join .std C02nest_join_ops)).inn 1).w.trace = [1, 0] := by
  decide
example : droppedChildren ((Nest.run (C02nest_join .std (C02nest_join_ops.take 3))).inn 1).w.trace
    = [1, 0] := by decide
example : Nest.cntDE ((Nest.run (C02nest_join .std C02nest_join_ops)).inn 1).w.trace = 1 := by decide
/-- values: leaf 201 produced 7, the race returned it; the nested child handed 9001 to the join,
    the join returned 5 and 9001 to the caller -/
example : producedVals ((Nest.run (C02nest_join .std C02nest_join_ops)).inn 1).w.trace = [7] := by decide
example : returnedVals ((Nest.run (C02nest_join .std C02nest_join_ops)).inn 1).w.trace = [7] := by decide
example : producedVals (Nest.run (C02nest_join .std C02nest_join_ops)).out.w.trace = [5, 9001] := by
  decide
example : returnedVals (Nest.run (C02nest_join .std C02nest_join_ops)).out.w.trace = [5, 9001] := by
  decide
example : dropCompleted (Nest.run (C02nest_join .std C02nest_join_ops)).out.w.trace = true := by decide

/-- Example 2: a drop mid-flight.  After poll 2 of Example 1 the join holds the race's output
    (9001) and still owns child 0; the drop releases the stored value and child 0; the race had
    been dropped before. -/
def C02nest_midflight : List Op := [.poll 1, .fire 201 0, .poll 2, .drop, .poll 3]

example : Nest.holdsC02Nest (C02nest_join .std C02nest_midflight) = true := by decide
example : droppedVals (Nest.run (C02nest_join .std C02nest_midflight)).out.w.trace = [9001] := by decide
example : droppedChildren (Nest.run (C02nest_join .std C02nest_midflight)).out.w.trace = [0, 1] := by
  decide
/-- … and a drop while everything is pending: the drop glue of the join releases both children,
    the nest drops the race with it, the race drops both leaves -/
example : Nest.holdsC02Nest (C02nest_join .std [.poll 1, .drop]) = true := by decide
example : droppedChildren (Nest.run (C02nest_join .std [.poll 1, .drop])).out.w.trace = [1, 0] := by
  decide
example : droppedChildren ((Nest.run (C02nest_join .std [.poll 1, .drop])).inn 1).w.trace = [1, 0] := by
  decide
example : dropCompleted ((Nest.run (C02nest_join .std [.poll 1, .drop])).inn 1).w.trace = true := by
  decide
/-- … and a drop before the first poll -/
example : Nest.holdsC02Nest (C02nest_join .std [.drop]) = true := by decide

/-- Example 3: outer `merge` over one child = an inner `chain` over the leaves 100, 101, dropped
    after the chain yielded the item of leaf 100 and moved on to leaf 101 -/
def C02nest_merge (ops : List Op) : Nest.NCase :=
  { mode := .std, outer := .merge, n := 1,
    inner := fun c => if c = 0 then some (.chain, 2) else none,
    scripts := fun id =>
      if id = 100 then [⟨.item 1, []⟩, ⟨.fin, []⟩]
      else if id = 101 then [⟨.pend, []⟩, ⟨.item 2, []⟩, ⟨.fin, []⟩]
      else [],
    ops := ops }

example : Nest.kindOk (C02nest_merge [.poll 1, .poll 2, .drop, .fire 101 0]) = true := by decide
example : Nest.holdsC02Nest (C02nest_merge [.poll 1, .poll 2, .drop, .fire 101 0]) = true := by decide
example : returnedVals ((Nest.run (C02nest_merge [.poll 1, .poll 2, .drop])).inn 0).w.trace = [1] := by
  decide
example : droppedChildren ((Nest.run (C02nest_merge [.poll 1, .poll 2, .drop])).inn 0).w.trace
    = [1, 0] := by decide
example : droppedChildren (Nest.run (C02nest_merge [.poll 1, .poll 2, .drop])).out.w.trace = [0] := by
  decide

/-- the hypothesis `dropsOk` is needed: the children of a `merge` are plain fields, a second `drop`
    (impossible for a Rust value) releases them a second time -/
example : Nest.dropsOk (C02nest_merge [.poll 1, .drop, .drop]) = false := by decide
example : Nest.holdsC02Nest (C02nest_merge [.poll 1, .drop, .drop]) = false := by decide

/-! the monitor rejects wrong composed states: hand-made states of a nest `join [race]` -/

def C02nest_nc1 : Nest.NCase :=
  { mode := .std, outer := .joinSlice, n := 1, inner := fun c => if c = 0 then some (.race, 1) else none,
    scripts := fun _ => [], ops := [] }

def C02nest_st (outerTrace innerTrace : List Ev) (gone : Bool) : Nest.St :=
  { out := { w := { World.init .std 1 (fun _ => []) with trace := outerTrace }, s := Fix.init 1 1 },
    inn := fun _ => { w := { World.init .direct 1 (fun _ => []) with trace := innerTrace },
                      s := Fix.init 1 0 },
    polls := fun _ => 1, gone := fun _ => gone }

/-- a correct state: the nest was dropped while everything was pending -/
example : Nest.c02At C02nest_nc1 (C02nest_st
    [.dropEnd, .childDropped 0, .dropBegin,
     .pollEnd .pending, .childEnd 0 .pend, .childBegin 0 0 (.sub 0), .pollBegin 7]
    [.dropEnd, .childDropped 0, .dropBegin,
     .pollEnd .pending, .childEnd 0 .pend, .childBegin 0 0 (.par 1), .pollBegin 1] true) = true := by
  decide
/-- the outer instance dropped the nested child but the inner instance never performed its drop
    (its leaf leaks); each trace on its own is accepted by the flat monitor -/
example : Nest.c02At C02nest_nc1 (C02nest_st
    [.dropEnd, .childDropped 0, .dropBegin,
     .pollEnd .pending, .childEnd 0 .pend, .childBegin 0 0 (.sub 0), .pollBegin 7]
    [.pollEnd .pending, .childEnd 0 .pend, .childBegin 0 0 (.par 1), .pollBegin 1] true) = false := by
  decide
/-- the inner instance was dropped although the outer instance still owns the nested child -/
example : Nest.c02At C02nest_nc1 (C02nest_st
    [.pollEnd .pending, .childEnd 0 .pend, .childBegin 0 0 (.sub 0), .pollBegin 7]
    [.dropEnd, .childDropped 0, .dropBegin,
     .pollEnd .pending, .childEnd 0 .pend, .childBegin 0 0 (.par 1), .pollBegin 1] false) = false := by
  decide
/-- the inner instance was dropped twice -/
example : Nest.c02At C02nest_nc1 (C02nest_st
    [.dropEnd, .childDropped 0, .dropBegin,
     .pollEnd .pending, .childEnd 0 .pend, .childBegin 0 0 (.sub 0), .pollBegin 7]
    [.dropEnd, .dropBegin, .dropEnd, .childDropped 0, .dropBegin,
     .pollEnd .pending, .childEnd 0 .pend, .childBegin 0 0 (.par 1), .pollBegin 1] true) = false := by
  decide
/-- the inner instance performed its drop without dropping its leaf -/
example : Nest.c02At C02nest_nc1 (C02nest_st
    [.dropEnd, .childDropped 0, .dropBegin,
     .pollEnd .pending, .childEnd 0 .pend, .childBegin 0 0 (.sub 0), .pollBegin 7]
    [.dropEnd, .dropBegin,
     .pollEnd .pending, .childEnd 0 .pend, .childBegin 0 0 (.par 1), .pollBegin 1] true) = false := by
  decide
/-- the outer instance's drop returned without dropping the nested child -/
example : Nest.c02At C02nest_nc1 (C02nest_st
    [.dropEnd, .dropBegin,
     .pollEnd .pending, .childEnd 0 .pend, .childBegin 0 0 (.sub 0), .pollBegin 7]
    [.pollEnd .pending, .childEnd 0 .pend, .childBegin 0 0 (.par 1), .pollBegin 1] false) = false := by
  decide

end Fc

#print axioms Fc.C02_nest
#print axioms Fc.C02_nest_holds
#print axioms Fc.holds_C02_dropped
#print axioms Fc.C02_nest_dropped
#print axioms Fc.C02nest_join_kindOk
#print axioms Fc.C02nest_join_waitOk
