/-
  C20 (second sentence) for FutureGroup / StreamGroup — "A child that stays Pending forever never
  prevents its siblings from being polled when they are woken, from running to completion, or — for
  race, race_ok, merge and the groups — from having their results delivered."

  Setting: the wake-only executor of Fc/ExecG.lean under EVERY environment schedule
  (Fc/ExecGAny.lean: `pick : Nat → Eng Grp → Nat`, `ExecGAny.runFor pick k 0 e0`; the `_busy`
  variants: `ExecGAny.runForB`, the environment also fires arbitrary further wakers — stale ones, of
  members that have left the group, of ids never inserted — before and after each prod, and the run
  may start at any round number).  The group `e0` is built from the empty group by any history `pre`
  of `insert` / `extend` / `reserve` operations with pairwise distinct member ids (as in
  C01liveG / C01liveGAny); plain and keyed, both waker modes.  Every inserted member is EITHER
  well-behaved (FutureGroup: `Exec.futureScript` — `Pending` finitely often, then the output;
  StreamGroup: `streamScript` — `Pending` / items finitely often, then the end; every `Pending` step
  may invoke arbitrary wakers) OR never-completing (`Exec.pendScript`, Fc/ExecStuck.lean: `Pending`
  steps only, each with arbitrary in-poll wake-ups of arbitrary wakers; once the script is exhausted
  the model answers `Pending` for ever and wakes nobody): `Exec.futOrNever` / `Exec.strOrNever`.
  The scripts of all other ids are arbitrary.

  C01liveGAny (`C01_group_ends_any`) needs every member to be well-behaved.  Here, within the SAME
  bound of `3 * ExecG.stepsLeft e0 + 1` rounds, the run reaches a state `e` that is
    * DRAINED — the latest outcome is `None`; then every member was well-behaved — or
    * AT REST (`ExecG.atRest e`, Fc/ExecGStuck.lean) — the latest outcome is `Pending`, the task has
      not been woken since that poll, and no current member has a scripted step left; then some
      member never completes;
  and in both cases (`C20_group_delivers`, `C20_group_delivers_busy`)
    * `ExecG.stepsLeft e = 0`: every scripted step of every current member has been consumed;
    * every well-behaved member has been RELEASED (`Mon.gone`: its `childDropped` was logged — the
      observation C11 / C12 use, `holds_G`: "finished ⇒ gone") and is no longer a member
      (`ExecGAny.members e`: the ids in the slots of the key set), and its results have been
      DELIVERED: a FutureGroup has yielded the value its script resolves to
      (`[Live.finalVal (scripts c)]`), a StreamGroup every item of its script, in the member's
      order (`Exec.scriptItems (scripts c)`) — as a subsequence of `Mon.yielded` (newest first, hence
      the `reverse`), the values of all `Some` outcomes, as in `C20_merge_delivers`;
    * exactly the never-completing members are still members, none of them released, each with
      latest answer `Pending`.
  `C20_group_atRest_stuck`: at rest `ExecGAny.round` / `roundB` answer `none` under every schedule and
  every busy environment — nothing is left to poll for and nobody can be prodded; the executor is not
  missing a wake-up (C01g) — and the run stays there for ever.

  Proof (FcLemmas/LiveGStuck*.lean).  The two developments are combined: the run lemma of
  FcLemmas/LiveStuck.lean (goal "drained or quiescent", `LiveGStuck.ProgGS` / `ends_auxS`) over the
  group invariants of FcLemmas/LiveGAnyInst.lean (`LGW` / `LGA` → `LGWS` / `LGAS`).  The safety
  invariants C01g (`G.SB` / `G.DB`) and C11 / C12 (`G11.InvE`) are used unchanged: they only ask the
  scripts to be of the group's kind, and `Pending` fits both kinds.  Weakened, exactly as for the
  fixed families: (1) the member clause of `WG` is two-way (well-behaved script / `Pending`-only
  script); (2) a member polled in this poll has consumed a step only if it had one; (3) the task
  waker is only invoked after some member CONSUMED a step (an exhausted member fires nothing);
  (4) `Owed` asks the waiting member to have a step left; (5) "after a `Pending` poll some member is
  waiting" becomes "… or the measure is zero".  The group analogue of `StuckLike` holds by
  inspection of `group.handle`: a `Pending` answer changes nothing and never ends the poll, and a
  slot is vacated only on `Ready` / `None` of its member (`WGS.lf`: a released id has no step left
  and was well-behaved).  The StreamGroup's early `!any_ready → Pending` exit stays harmless: it is
  taken only if no bit is set, and then every member — never-completing ones included — has latest
  answer `Pending` (`IBG.a`); an exhausted never member keeps its bit cleared because nobody is left
  to invoke its waker usefully (a stale invocation at worst causes one empty poll).  Delivery:
  `WGS.dl` (answered so far ++ still scripted = scripted at the start, per id) with C11 / C12's
  `yielded = producedVals`.
-/
import FcLemmas.LiveGStuckMain
import FcProps.C01liveGAny
import FcProps.C20live
import Fc.Holds

namespace Fc
open Mon

/-! ### a run at rest stays at rest -/

/-- at rest nothing is left to do: under every schedule the executor has nothing to poll for and
    nobody to prod, so the state never changes again -/
theorem C20_group_atRest_stuck (e : Eng Grp) (h : ExecG.atRest e = true)
    (pick : Nat → Eng Grp → Nat) (r : Nat) :
    ExecGAny.round pick r e = none ∧ ∀ k, ExecGAny.runFor pick k r e = e :=
  ⟨LiveGStuck.atRest_round h r, fun k => LiveGStuck.atRest_run h k r⟩

/-- … also under every busy environment -/
theorem C20_group_atRest_stuck_busy (e : Eng Grp) (h : ExecG.atRest e = true)
    (pick : Nat → Eng Grp → Nat) (bef aft : Nat → Eng Grp → List (Nat × Nat)) (r : Nat) :
    ExecGAny.roundB pick bef aft r e = none ∧ ∀ k, ExecGAny.runForB pick bef aft k r e = e :=
  ⟨LiveGStuck.atRest_roundB h r, fun k => LiveGStuck.atRest_runB h k r⟩

/-! ### every schedule, any extra wake-ups (`ExecGAny.runForB`) -/

/-- FutureGroup (`stream = false`) and StreamGroup (`stream = true`), plain and keyed, both modes,
    members well-behaved or never-completing, every schedule, every busy environment, every starting
    round number -/
theorem C20_group_delivers_busy (pick : Nat → Eng Grp → Nat)
    (bef aft : Nat → Eng Grp → List (Nat × Nat)) (r : Nat)
    (stream keyed : Bool) (m : Mode) (scripts : Nat → List Step) (pre : List Op)
    (hpre : ∀ op ∈ pre, op.isInsertLike = true)
    (hfresh : (pre.flatMap insertedIds).Nodup)
    (hs : ∀ c ∈ pre.flatMap insertedIds,
      (if stream then Exec.strOrNever (scripts c) else Exec.futOrNever (scripts c)) = true) :
    let e0 := pre.foldl GEng.step (GEng.init stream keyed m scripts)
    ∃ k, k ≤ 3 * ExecG.stepsLeft e0 + 1 ∧
      ∃ e, e = ExecGAny.runForB pick bef aft k r e0 ∧
      (((∀ c ∈ pre.flatMap insertedIds,
            (if stream then streamScript (scripts c) else Exec.futureScript (scripts c)) = true) ∧
          lastOut e.w.trace = some .none) ∨
        ((∃ c ∈ pre.flatMap insertedIds,
            (if stream then streamScript (scripts c) else Exec.futureScript (scripts c)) = false) ∧
          ExecG.atRest e = true)) ∧
      ExecG.stepsLeft e = 0 ∧
      (∀ c ∈ pre.flatMap insertedIds,
        (if stream then streamScript (scripts c) else Exec.futureScript (scripts c)) = true →
        gone e.w.trace c = true ∧ c ∉ ExecGAny.members e ∧
        (if stream then Exec.scriptItems (scripts c) else [Live.finalVal (scripts c)]).reverse.Sublist
          (yielded e.w.trace)) ∧
      (∀ c ∈ pre.flatMap insertedIds,
        (if stream then streamScript (scripts c) else Exec.futureScript (scripts c)) = false →
        c ∈ ExecGAny.members e ∧ gone e.w.trace c = false ∧ lastRes e.w.trace c = some .pend) ∧
      (∀ c ∈ ExecGAny.members e, c ∈ pre.flatMap insertedIds ∧
        (if stream then streamScript (scripts c) else Exec.futureScript (scripts c)) = false) := by
  intro e0
  obtain ⟨k, hk, e, he, h1, h2, h3, h4, h5⟩ := LiveGStuck.group_delivers_busy stream keyed m scripts pre
    hpre hfresh (fun c hc => by rw [LiveGStuck.ok_iff]; exact hs c hc) pick bef aft r
  refine ⟨k, hk, e, he, h1, h2, ?_, h4, h5⟩
  intro c hc hwb
  obtain ⟨g1, g2, g3⟩ := h3 c hc hwb
  refine ⟨g1, g2, ?_⟩
  cases stream with
  | true =>
    simp only [if_true] at hwb ⊢
    rw [← LiveGStuck.scriptVals_stream _ hwb]; exact g3
  | false =>
    simp only [Bool.false_eq_true, if_false] at hwb ⊢
    rw [← LiveGStuck.scriptVals_future _ hwb]; exact g3

/-! ### every schedule (`ExecGAny.runFor`) -/

/-- a member that stays `Pending` for ever never prevents the results of the other members of a
    FutureGroup / StreamGroup from being delivered: within `3 * stepsLeft + 1` rounds the run is
    drained or at rest; either way every scripted step has been consumed, every well-behaved member
    has been released and its output / all its items have been yielded, and exactly the
    never-completing members are left, each `Pending` -/
theorem C20_group_delivers (pick : Nat → Eng Grp → Nat)
    (stream keyed : Bool) (m : Mode) (scripts : Nat → List Step) (pre : List Op)
    (hpre : ∀ op ∈ pre, op.isInsertLike = true)
    (hfresh : (pre.flatMap insertedIds).Nodup)
    (hs : ∀ c ∈ pre.flatMap insertedIds,
      (if stream then Exec.strOrNever (scripts c) else Exec.futOrNever (scripts c)) = true) :
    let e0 := pre.foldl GEng.step (GEng.init stream keyed m scripts)
    ∃ k, k ≤ 3 * ExecG.stepsLeft e0 + 1 ∧
      ∃ e, e = ExecGAny.runFor pick k 0 e0 ∧
      (((∀ c ∈ pre.flatMap insertedIds,
            (if stream then streamScript (scripts c) else Exec.futureScript (scripts c)) = true) ∧
          lastOut e.w.trace = some .none) ∨
        ((∃ c ∈ pre.flatMap insertedIds,
            (if stream then streamScript (scripts c) else Exec.futureScript (scripts c)) = false) ∧
          ExecG.atRest e = true)) ∧
      ExecG.stepsLeft e = 0 ∧
      (∀ c ∈ pre.flatMap insertedIds,
        (if stream then streamScript (scripts c) else Exec.futureScript (scripts c)) = true →
        gone e.w.trace c = true ∧ c ∉ ExecGAny.members e ∧
        (if stream then Exec.scriptItems (scripts c) else [Live.finalVal (scripts c)]).reverse.Sublist
          (yielded e.w.trace)) ∧
      (∀ c ∈ pre.flatMap insertedIds,
        (if stream then streamScript (scripts c) else Exec.futureScript (scripts c)) = false →
        c ∈ ExecGAny.members e ∧ gone e.w.trace c = false ∧ lastRes e.w.trace c = some .pend) ∧
      (∀ c ∈ ExecGAny.members e, c ∈ pre.flatMap insertedIds ∧
        (if stream then streamScript (scripts c) else Exec.futureScript (scripts c)) = false) := by
  intro e0
  simp only [LiveGAny.runFor_eq_runForB]
  exact C20_group_delivers_busy pick _ _ 0 stream keyed m scripts pre hpre hfresh hs

/-- … in the words of C20live: the run reaches a state that is final or in which every scripted step
    of every current member has been consumed -/
theorem C20_group_delivers_steps (pick : Nat → Eng Grp → Nat)
    (stream keyed : Bool) (m : Mode) (scripts : Nat → List Step) (pre : List Op)
    (hpre : ∀ op ∈ pre, op.isInsertLike = true)
    (hfresh : (pre.flatMap insertedIds).Nodup)
    (hs : ∀ c ∈ pre.flatMap insertedIds,
      (if stream then Exec.strOrNever (scripts c) else Exec.futOrNever (scripts c)) = true) :
    let e0 := pre.foldl GEng.step (GEng.init stream keyed m scripts)
    ∃ k, k ≤ 3 * ExecG.stepsLeft e0 + 1 ∧
      (Exec.finalOut (lastOut (ExecGAny.runFor pick k 0 e0).w.trace) = true ∨
        ExecG.atRest (ExecGAny.runFor pick k 0 e0) = true) ∧
      ExecG.stepsLeft (ExecGAny.runFor pick k 0 e0) = 0 := by
  intro e0
  obtain ⟨k, hk, e, he, h1, h2, _⟩ := C20_group_delivers pick stream keyed m scripts pre hpre hfresh hs
  refine ⟨k, hk, ?_, by rw [← he]; exact h2⟩
  rw [← he]
  rcases h1 with ⟨_, h⟩ | ⟨_, h⟩
  · left; rw [h]; rfl
  · exact Or.inr h

/-- if every member is well-behaved this is C01liveGAny's theorem again: the run drains -/
theorem C20_group_delivers_all_wb (pick : Nat → Eng Grp → Nat)
    (stream keyed : Bool) (m : Mode) (scripts : Nat → List Step) (pre : List Op)
    (hpre : ∀ op ∈ pre, op.isInsertLike = true)
    (hfresh : (pre.flatMap insertedIds).Nodup)
    (hs : ∀ c ∈ pre.flatMap insertedIds,
      (if stream then streamScript (scripts c) else Exec.futureScript (scripts c)) = true) :
    let e0 := pre.foldl GEng.step (GEng.init stream keyed m scripts)
    ∃ k, k ≤ 3 * ExecG.stepsLeft e0 + 1 ∧
      lastOut (ExecGAny.runFor pick k 0 e0).w.trace = some .none ∧
      ∀ c ∈ pre.flatMap insertedIds,
        (if stream then Exec.scriptItems (scripts c) else [Live.finalVal (scripts c)]).reverse.Sublist
          (yielded (ExecGAny.runFor pick k 0 e0).w.trace) := by
  intro e0
  obtain ⟨k, hk, e, he, h1, _, h3, _⟩ := C20_group_delivers pick stream keyed m scripts pre hpre hfresh
    (fun c hc => by
      have := hs c hc
      cases stream with
      | true => simp only [if_true] at this ⊢; simp [Exec.strOrNever, this]
      | false => simp only [Bool.false_eq_true, if_false] at this ⊢; simp [Exec.futOrNever, this])
  refine ⟨k, hk, ?_, ?_⟩
  · rw [← he]
    rcases h1 with ⟨_, h⟩ | ⟨⟨c, hc, hf⟩, _⟩
    · exact h
    · rw [hs c hc] at hf; cases hf
  · intro c hc
    rw [← he]
    exact (h3 c hc (hs c hc)).2.2

/-- the deterministic executor of Fc/ExecG.lean is the instance `pick := first waiting member` -/
example (stream keyed : Bool) (m : Mode) (scripts : Nat → List Step) (pre : List Op)
    (hpre : ∀ op ∈ pre, op.isInsertLike = true)
    (hfresh : (pre.flatMap insertedIds).Nodup)
    (hs : ∀ c ∈ pre.flatMap insertedIds,
      (if stream then Exec.strOrNever (scripts c) else Exec.futOrNever (scripts c)) = true) :
    let e0 := pre.foldl GEng.step (GEng.init stream keyed m scripts)
    ∃ k, k ≤ 3 * ExecG.stepsLeft e0 + 1 ∧
      (Exec.finalOut (lastOut (ExecG.runFor k e0).w.trace) = true ∨
        ExecG.atRest (ExecG.runFor k e0) = true) ∧
      ExecG.stepsLeft (ExecG.runFor k e0) = 0 := by
  intro e0
  have h := C20_group_delivers_steps LiveGAny.firstPick stream keyed m scripts pre hpre hfresh hs
  simp only [C01_runFor_firstPick] at h
  exact h

/-! ### non-vacuity -/

/-- a keyed StreamGroup of 3 (`C01liveG_pre`: `reserve 1; insert 7; extend [3, 5]`, keys 0, 1, 2).
    Member 7 — inserted FIRST, slot 0 — NEVER completes: three `Pending` steps that invoke the newest
    waker of member 3, then the newest waker of member 5 and a stale one of member 3, then the waker
    of member 3 (by then a FORMER member) and its own.  Member 3: item 1, `Pending`, item 2, end;
    member 5: `Pending` (waking member 7), item 9, end.  All other scripts panic: never looked at. -/
def C20liveG_str : Nat → List Step := fun c =>
  if c = 7 then [⟨.pend, [(3, 0)]⟩, ⟨.pend, [(5, 0), (3, 1)]⟩, ⟨.pend, [(3, 0), (7, 0)]⟩]
  else if c = 3 then [⟨.item 1, []⟩, ⟨.pend, []⟩, ⟨.item 2, []⟩, ⟨.fin, []⟩]
  else if c = 5 then [⟨.pend, [(7, 0)]⟩, ⟨.item 9, []⟩, ⟨.fin, []⟩]
  else [⟨.panic, []⟩]

def C20liveG_s0 (keyed : Bool) (m : Mode) : Eng Grp :=
  C01liveG_pre.foldl GEng.step (GEng.init true keyed m C20liveG_str)

/-- a schedule that differs from "first waiting member": always member 5, if it can be prodded -/
def C20liveG_pick : Nat → Eng Grp → Nat := fun _ _ => 5

/-- a busy environment: in every environment round, before and after the prod, the newest waker of
    member 3 (sooner or later a FORMER member), a waker of an id that was never inserted, and a stale
    waker of member 5 -/
def C20liveG_busy : Nat → Eng Grp → List (Nat × Nat) := fun _ _ => [(3, 0), (100, 0), (5, 1)]

example : ∀ c ∈ C01liveG_pre.flatMap insertedIds,
    (if true then Exec.strOrNever (C20liveG_str c) else Exec.futOrNever (C20liveG_str c)) = true := by
  decide
example : streamScript (C20liveG_str 7) = false ∧ Exec.pendScript (C20liveG_str 7) = true := by decide
example : C01liveG_pre.flatMap insertedIds = [7, 3, 5] := by decide
example : ExecG.stepsLeft (C20liveG_s0 true .std) = 10 := by decide

set_option maxRecDepth 100000 in
/-- keyed, std mode, first waiting member: at rest (in round 8, well within `3 * 10 + 1`); all items
    of members 3 and 5 were yielded, both were released; member 7 alone is left (`len = 1`, key 0),
    `Pending`; the group's latest outcome is `Pending`; all steps are consumed -/
example : ExecG.atRest (ExecG.runFor 31 (C20liveG_s0 true .std)) = true ∧
    yielded (ExecG.runFor 31 (C20liveG_s0 true .std)).w.trace = [9, 2, 1] ∧
    (ExecG.runFor 31 (C20liveG_s0 true .std)).s.len = 1 ∧
    (ExecG.runFor 31 (C20liveG_s0 true .std)).s.keys = [0] ∧
    ExecGAny.members (ExecG.runFor 31 (C20liveG_s0 true .std)) = [7] ∧
    [3, 5, 7].map (fun c => (gone (ExecG.runFor 31 (C20liveG_s0 true .std)).w.trace c,
        lastRes (ExecG.runFor 31 (C20liveG_s0 true .std)).w.trace c))
      = [(true, some .fin), (true, some .fin), (false, some .pend)] ∧
    lastOut (ExecG.runFor 31 (C20liveG_s0 true .std)).w.trace = some .pending ∧
    ExecG.stepsLeft (ExecG.runFor 31 (C20liveG_s0 true .std)) = 0 := by decide
set_option maxRecDepth 100000 in
/-- … not before round 8, and then for ever -/
example : (List.range 11).map (fun k => ExecG.atRest (ExecG.runFor k (C20liveG_s0 true .std)))
    = [false, false, false, false, false, false, false, false, true, true, true] := by decide
set_option maxRecDepth 100000 in
/-- the stuck case cannot be escaped: no schedule has anything to do -/
example : (ExecGAny.round C20liveG_pick 8 (ExecG.runFor 31 (C20liveG_s0 true .std))).isNone = true ∧
    (ExecGAny.round LiveGAny.firstPick 8 (ExecG.runFor 31 (C20liveG_s0 true .std))).isNone = true ∧
    (ExecGAny.roundB C20liveG_pick C20liveG_busy C20liveG_busy 8
      (ExecG.runFor 31 (C20liveG_s0 true .std))).isNone = true := by decide
set_option maxRecDepth 100000 in
/-- another schedule with the busy environment, the plain (not keyed) group and the direct mode: the
    same end — other interleavings of the same items -/
example : ExecG.atRest (ExecGAny.runForB C20liveG_pick C20liveG_busy C20liveG_busy 31 0
      (C20liveG_s0 true .std)) = true ∧
    yielded (ExecGAny.runForB C20liveG_pick C20liveG_busy C20liveG_busy 31 0
      (C20liveG_s0 true .std)).w.trace = [9, 2, 1] ∧
    ExecGAny.members (ExecGAny.runForB C20liveG_pick C20liveG_busy C20liveG_busy 31 0
      (C20liveG_s0 true .std)) = [7] ∧
    ExecG.atRest (ExecGAny.runFor C20liveG_pick 31 0 (C20liveG_s0 false .direct)) = true ∧
    (yielded (ExecGAny.runFor C20liveG_pick 31 0 (C20liveG_s0 false .direct)).w.trace).length = 3 ∧
    ExecGAny.members (ExecGAny.runFor C20liveG_pick 31 0 (C20liveG_s0 false .direct)) = [7] := by
  decide
set_option maxRecDepth 100000 in
/-- the safety monitors accept the run -/
example : holds_C12 true 12 (ExecG.runFor 31 (C20liveG_s0 true .std)).w.trace = true ∧
    holds_C20 false 12 (ExecG.runFor 31 (C20liveG_s0 true .std)).w.trace = true ∧
    holds_C01 12 (ExecG.runFor 31 (C20liveG_s0 true .std)).w.trace = true := by decide

/-- a FutureGroup of 3 (same building history).  Member 7 — slot 0 — NEVER completes: four `Pending`
    steps; the second, third and fourth invoke the newest waker of member 3, which resolves in the
    very first poll and is released: a STALE waker of a former member (std mode: the sub-waker of the
    vacated slot 1).  Member 3: `Ready 30` at once; member 5: `Pending` (waking member 7), `Pending`,
    `Err 50`. -/
def C20liveG_fut : Nat → List Step := fun c =>
  if c = 7 then [⟨.pend, []⟩, ⟨.pend, [(3, 0)]⟩, ⟨.pend, [(3, 0), (3, 1), (5, 0)]⟩, ⟨.pend, [(3, 0)]⟩]
  else if c = 3 then [⟨.ready true 30, []⟩]
  else if c = 5 then [⟨.pend, [(7, 0)]⟩, ⟨.pend, []⟩, ⟨.ready false 50, []⟩]
  else [⟨.panic, []⟩]

def C20liveG_f0 (keyed : Bool) (m : Mode) : Eng Grp :=
  C01liveG_pre.foldl GEng.step (GEng.init false keyed m C20liveG_fut)

example : ∀ c ∈ C01liveG_pre.flatMap insertedIds,
    (if false then Exec.strOrNever (C20liveG_fut c) else Exec.futOrNever (C20liveG_fut c)) = true := by
  decide
example : Exec.futureScript (C20liveG_fut 7) = false := by decide
example : ExecG.stepsLeft (C20liveG_f0 true .std) = 8 := by decide

set_option maxRecDepth 100000 in
/-- keyed, std mode: at rest within `3 * 8 + 1` rounds; the outputs of members 3 and 5 were yielded,
    both were released, member 7 alone is left, `Pending` -/
example : ExecG.atRest (ExecG.runFor 25 (C20liveG_f0 true .std)) = true ∧
    yielded (ExecG.runFor 25 (C20liveG_f0 true .std)).w.trace = [50, 30] ∧
    (ExecG.runFor 25 (C20liveG_f0 true .std)).s.len = 1 ∧
    ExecGAny.members (ExecG.runFor 25 (C20liveG_f0 true .std)) = [7] ∧
    [3, 5, 7].map (fun c => (gone (ExecG.runFor 25 (C20liveG_f0 true .std)).w.trace c,
        lastRes (ExecG.runFor 25 (C20liveG_f0 true .std)).w.trace c))
      = [(true, some (.ready true 30)), (true, some (.ready false 50)), (false, some .pend)] ∧
    holds_C11 true 12 (ExecG.runFor 25 (C20liveG_f0 true .std)).w.trace = true := by decide
set_option maxRecDepth 100000 in
/-- the first three polls: member 3 resolves and is released in poll 1; in poll 3 member 7's second
    step invokes the stale waker of the former member 3 — `sub 1`, the sub-waker of the vacated
    slot 1 — which reaches the task (`woke 3`); the poll it causes (poll 4) finds nobody to poll -/
example : ((ExecG.runFor 25 (C20liveG_f0 true .std)).w.trace.reverse.drop 3).take 21
    = [.pollBegin 1, .childBegin 7 0 (.sub 0), .childEnd 7 .pend, .childBegin 3 1 (.sub 1),
       .childEnd 3 (.ready true 30), .childDropped 3, .pollEnd (.some 1 [30]),
       .pollBegin 2, .childBegin 5 2 (.sub 2), .fired 7 0 (some (.sub 0)), .woke 2, .childEnd 5 .pend,
       .pollEnd .pending,
       .pollBegin 3, .childBegin 7 0 (.sub 0), .fired 3 0 (some (.sub 1)), .woke 3, .childEnd 7 .pend,
       .pollEnd .pending,
       .pollBegin 4, .pollEnd .pending] := by decide
set_option maxRecDepth 100000 in
/-- the stuck case cannot be escaped -/
example : (ExecGAny.round C20liveG_pick 9 (ExecG.runFor 25 (C20liveG_f0 true .std))).isNone = true ∧
    (ExecGAny.roundB C20liveG_pick C20liveG_busy C20liveG_busy 9
      (ExecG.runFor 25 (C20liveG_f0 true .std))).isNone = true := by decide
set_option maxRecDepth 100000 in
/-- plain group, direct mode, the schedule "member 5" and the busy environment: the same end -/
example : ExecG.atRest (ExecGAny.runForB C20liveG_pick C20liveG_busy C20liveG_busy 25 0
      (C20liveG_f0 false .direct)) = true ∧
    yielded (ExecGAny.runForB C20liveG_pick C20liveG_busy C20liveG_busy 25 0
      (C20liveG_f0 false .direct)).w.trace = [50, 30] ∧
    ExecGAny.members (ExecGAny.runForB C20liveG_pick C20liveG_busy C20liveG_busy 25 0
      (C20liveG_f0 false .direct)) = [7] := by decide

/-- a group whose ONLY member never completes and never wakes anybody (empty script): at rest after
    the first poll -/
def C20liveG_only : Nat → List Step := fun _ => []
set_option maxRecDepth 100000 in
example : ExecG.atRest (ExecG.runFor 1 ([Op.insert 4].foldl GEng.step
      (GEng.init true false .std C20liveG_only))) = true ∧
    ExecG.stepsLeft ([Op.insert 4].foldl GEng.step (GEng.init true false .std C20liveG_only)) = 0 := by
  decide

end Fc

#print axioms Fc.C20_group_atRest_stuck
#print axioms Fc.C20_group_atRest_stuck_busy
#print axioms Fc.C20_group_delivers_busy
#print axioms Fc.C20_group_delivers
#print axioms Fc.C20_group_delivers_steps
#print axioms Fc.C20_group_delivers_all_wb
