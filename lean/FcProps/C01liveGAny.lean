/-
  C01 (second sentence) — liveness of FutureGroup / StreamGroup for EVERY environment schedule, and
  with membership changes between drains.

  Setting (Fc/ExecGAny.lean).  As in C01liveG a group is built from the empty group by a history of
  `insert` / `extend` / `reserve` operations with pairwise distinct member ids whose scripts are
  well-behaved (FutureGroup: `Pending` finitely often, then the output; StreamGroup: `Pending` / an
  item finitely often in any mix, then the end; every `Pending` step may invoke arbitrary — current,
  stale, foreign — wakers of arbitrary ids while the poll runs; the scripts of all other ids are
  arbitrary).  The executor is the wake-only executor of Fc/ExecG.lean: it polls (fresh task waker)
  only if the task was woken since the previous poll began, or it was never polled, or the previous
  poll yielded an item.  What C01liveG fixed — "the environment prods the FIRST waiting member" — is
  now a parameter:

    * `pick : Nat → Eng Grp → Nat` (round number ↦ state ↦ member id): when the task has not been
      woken the environment prods the member `pick r e` — invokes the waker it was handed in its most
      recent poll — provided that id is a current member whose latest answer is `Pending` and that has
      a scripted step left; otherwise it falls back to the first waiting member
      (`ExecGAny.choose`).  `ExecGAny.runFor pick k r e`: up to `k` rounds from round number `r`.
    * the busy environment `ExecGAny.runForB pick bef aft k r e`: in every environment round it
      additionally fires the wakers `bef r e` before and `aft r e` after the prod — arbitrary lists of
      `(id, age)`: any id (a member, a member that has resolved / ended and left the group, an id
      that was never inserted), any age (0 = newest, larger = STALE wakers handed in earlier polls).

  Theorems.
    `C01_group_ends_any`   for every `pick`, the run reaches the final `None` within
                           `3 * stepsLeft + 1` rounds (the bound of C01liveG);
    `C01_group_ends_busy`  the same for every `pick`, `bef`, `aft` and starting round number;
    `C01_runFor_firstPick` / `C01_runFor_eq_runForB`  sanity: with the schedule "first waiting
                           member" the executor is `ExecG.runFor` of C01liveG, and `runFor` is
                           `runForB` without extra wake-ups; C01liveG's theorem is the instance
                           (`C01_group_ends_again`).

  Membership changes between drains.  Once the run has reached `None` (`Exec.finalOut`) the executor
  stops.  A consumer may then insert further members into the drained group and poll it again: an
  empty group answers `Poll::Ready(None)`, a later insert makes it pollable again (future_group.rs /
  stream_group.rs `poll_next_inner`; model: `group.pre` answers `None` only while `len = 0`, a poll
  after `None` is NOT misuse — checked below on concrete cases).  An insert logs no `pollEnd`, so
  after the refill the latest outcome is still `None` and the wake-only rule alone would never poll
  (`ExecGAny.round … = none`, checked below): the consumer's decision to resume is modelled by
  `ExecGAny.runRefill` / `runRefillB`, whose FIRST round polls unconditionally (`ExecGAny.restart`,
  fresh task waker) and whose further rounds are those of `runFor` / `runForB`.

    `C01_group_refill_ends`       `e0` built by `pre₁`; `e₁ := runFor pick₁ k₁ 0 e0` with latest
                                  outcome `None` (such `k₁` exist by `C01_group_ends_any`); `pre₂` a
                                  second building history whose ids are distinct from each other and
                                  from those of `pre₁`, with well-behaved scripts; then for every
                                  `pick₂` the resumed run from `pre₂.foldl GEng.step e₁` reaches
                                  `None` within `3 * stepsLeft + 1` rounds of THAT state;
    `C01_group_refill_ends_busy`  the same with busy environments in both drains;
    `C01_group_drain_refill_drain` both drains in one statement.
  The new members land in vacant slots of the slab — after a drain these are REUSED slots, whose
  previous occupants' wakers are still around (std mode: the very same sub-waker `sub k` the new
  occupant of slot `k` will be handed) and may be invoked by the scripts and by the busy
  environment; such a wake-up is at worst spurious.  (The general step is
  `LiveGAny.refill_lrw`; it can be iterated over any number of generations.)

  Proof (FcLemmas/LiveGAny*.lean).  No new fact about the group policy was needed for the schedules:
  C01g / C11 / C12 / the member invariant `WG` are stated for every wake-up `(c, a)` — also of ids
  that are not members and of stale ages — and the prodded id only has to be SOME waiting member
  (`LiveGAny.ProgA`, `prog_lga`).  For the refill: the run invariant without the facts about the
  latest outcome (`LGW`) also holds in the drained state, where the group has no member (C11 / C12:
  `None` ⇒ `len = 0`); a group without members does not depend on the scripts (`lgw_setS`), so the
  script restriction of LiveGRestr is exchanged from the first generation's ids to the second's; a
  poll leaves the scripts of ids that are not members alone (`poll_frame`), so the second
  generation's scripts are still intact; and an id that was never inserted was never polled, holds
  no waker and was never released, so `insert` treats it — reused slot or not — like a member of a
  new group (`bw_insert`).
-/
import FcLemmas.LiveGAnyRefill
import FcProps.C01liveG
import Fc.Holds

namespace Fc
open Mon

/-! ### every schedule -/

/-- liveness of FutureGroup (`stream = false`) and StreamGroup (`stream = true`), every schedule -/
theorem C01_group_ends_any (pick : Nat → Eng Grp → Nat)
    (stream keyed : Bool) (m : Mode) (scripts : Nat → List Step) (pre : List Op)
    (hpre : ∀ op ∈ pre, op.isInsertLike = true)
    (hfresh : (pre.flatMap insertedIds).Nodup)
    (hs : ∀ c ∈ pre.flatMap insertedIds,
      (if stream then streamScript (scripts c) else Exec.futureScript (scripts c)) = true) :
    let e0 := pre.foldl GEng.step (GEng.init stream keyed m scripts)
    ∃ k, k ≤ 3 * ExecG.stepsLeft e0 + 1 ∧
      Mon.lastOut (ExecGAny.runFor pick k 0 e0).w.trace = some .none := by
  intro e0
  obtain ⟨k, hk, hv⟩ := LiveGAny.group_ends_busy stream keyed m scripts pre hpre hfresh hs pick
    (fun _ _ => []) (fun _ _ => []) 0
  exact ⟨k, hk, by rw [LiveGAny.runFor_eq_runForB]; exact hv⟩

/-- every schedule, every busy environment (extra wake-ups `bef` / `aft` around the prod: stale
    wakers, wakers of former members, of ids never inserted), every starting round number -/
theorem C01_group_ends_busy (pick : Nat → Eng Grp → Nat)
    (bef aft : Nat → Eng Grp → List (Nat × Nat)) (r : Nat)
    (stream keyed : Bool) (m : Mode) (scripts : Nat → List Step) (pre : List Op)
    (hpre : ∀ op ∈ pre, op.isInsertLike = true)
    (hfresh : (pre.flatMap insertedIds).Nodup)
    (hs : ∀ c ∈ pre.flatMap insertedIds,
      (if stream then streamScript (scripts c) else Exec.futureScript (scripts c)) = true) :
    let e0 := pre.foldl GEng.step (GEng.init stream keyed m scripts)
    ∃ k, k ≤ 3 * ExecG.stepsLeft e0 + 1 ∧
      Mon.lastOut (ExecGAny.runForB pick bef aft k r e0).w.trace = some .none :=
  LiveGAny.group_ends_busy stream keyed m scripts pre hpre hfresh hs pick bef aft r

/-! ### sanity: the executors coincide -/

/-- with the schedule "first waiting member" the executor is the one of C01liveG -/
theorem C01_runFor_firstPick (k r : Nat) (e : Eng Grp) :
    ExecGAny.runFor LiveGAny.firstPick k r e = ExecG.runFor k e :=
  LiveGAny.runFor_firstPick k r e

/-- the plain executor is the busy one without extra wake-ups -/
theorem C01_runFor_eq_runForB (pick : Nat → Eng Grp → Nat) (k r : Nat) (e : Eng Grp) :
    ExecGAny.runFor pick k r e = ExecGAny.runForB pick (fun _ _ => []) (fun _ _ => []) k r e :=
  LiveGAny.runFor_eq_runForB pick k r e

theorem C01_runRefill_eq_runRefillB (pick : Nat → Eng Grp → Nat) (k r : Nat) (e : Eng Grp) :
    ExecGAny.runRefill pick k r e
      = ExecGAny.runRefillB pick (fun _ _ => []) (fun _ _ => []) k r e :=
  LiveGAny.runRefill_eq_runRefillB pick k r e

/-- C01liveG's theorem is the instance `pick = firstPick` of `C01_group_ends_any` -/
theorem C01_group_ends_again (stream keyed : Bool) (m : Mode) (scripts : Nat → List Step)
    (pre : List Op) (hpre : ∀ op ∈ pre, op.isInsertLike = true)
    (hfresh : (pre.flatMap insertedIds).Nodup)
    (hs : ∀ c ∈ pre.flatMap insertedIds,
      (if stream then streamScript (scripts c) else Exec.futureScript (scripts c)) = true) :
    let e0 := pre.foldl GEng.step (GEng.init stream keyed m scripts)
    ∃ k, k ≤ 3 * ExecG.stepsLeft e0 + 1 ∧
      Mon.lastOut (ExecG.runFor k e0).w.trace = some .none := by
  intro e0
  obtain ⟨k, hk, hv⟩ := C01_group_ends_any LiveGAny.firstPick stream keyed m scripts pre hpre hfresh hs
  exact ⟨k, hk, by rw [← C01_runFor_firstPick k 0]; exact hv⟩

/-! ### membership changes between drains -/

/-- a drained group, refilled with fresh well-behaved members and polled again, drains again —
    busy environments in both drains -/
theorem C01_group_refill_ends_busy (stream keyed : Bool) (m : Mode) (scripts : Nat → List Step)
    (pre₁ pre₂ : List Op)
    (hpre₁ : ∀ op ∈ pre₁, op.isInsertLike = true) (hpre₂ : ∀ op ∈ pre₂, op.isInsertLike = true)
    (hfresh : ((pre₁ ++ pre₂).flatMap insertedIds).Nodup)
    (hs : ∀ c ∈ (pre₁ ++ pre₂).flatMap insertedIds,
      (if stream then streamScript (scripts c) else Exec.futureScript (scripts c)) = true)
    (pick₁ : Nat → Eng Grp → Nat) (bef₁ aft₁ : Nat → Eng Grp → List (Nat × Nat)) (k₁ r₁ : Nat) :
    let e0 := pre₁.foldl GEng.step (GEng.init stream keyed m scripts)
    let e₁ := ExecGAny.runForB pick₁ bef₁ aft₁ k₁ r₁ e0
    Mon.lastOut e₁.w.trace = some .none →
    let e₂ := pre₂.foldl GEng.step e₁
    ∀ (pick₂ : Nat → Eng Grp → Nat) (bef₂ aft₂ : Nat → Eng Grp → List (Nat × Nat)) (r₂ : Nat),
      ∃ k, k ≤ 3 * ExecG.stepsLeft e₂ + 1 ∧
        Mon.lastOut (ExecGAny.runRefillB pick₂ bef₂ aft₂ k r₂ e₂).w.trace = some .none := by
  intro e0 e₁ hdr e₂ pick₂ bef₂ aft₂ r₂
  exact LiveGAny.group_refill_ends_busy stream keyed m scripts pre₁ pre₂ hpre₁ hpre₂ hfresh hs
    pick₁ bef₁ aft₁ k₁ r₁ hdr pick₂ bef₂ aft₂ r₂

/-- the same for the plain executor (no extra wake-ups) -/
theorem C01_group_refill_ends (stream keyed : Bool) (m : Mode) (scripts : Nat → List Step)
    (pre₁ pre₂ : List Op)
    (hpre₁ : ∀ op ∈ pre₁, op.isInsertLike = true) (hpre₂ : ∀ op ∈ pre₂, op.isInsertLike = true)
    (hfresh : ((pre₁ ++ pre₂).flatMap insertedIds).Nodup)
    (hs : ∀ c ∈ (pre₁ ++ pre₂).flatMap insertedIds,
      (if stream then streamScript (scripts c) else Exec.futureScript (scripts c)) = true)
    (pick₁ : Nat → Eng Grp → Nat) (k₁ : Nat) :
    let e0 := pre₁.foldl GEng.step (GEng.init stream keyed m scripts)
    let e₁ := ExecGAny.runFor pick₁ k₁ 0 e0
    Mon.lastOut e₁.w.trace = some .none →
    let e₂ := pre₂.foldl GEng.step e₁
    ∀ (pick₂ : Nat → Eng Grp → Nat) (r₂ : Nat),
      ∃ k, k ≤ 3 * ExecG.stepsLeft e₂ + 1 ∧
        Mon.lastOut (ExecGAny.runRefill pick₂ k r₂ e₂).w.trace = some .none := by
  intro e0 e₁ hdr e₂ pick₂ r₂
  have hdr' : Mon.lastOut (ExecGAny.runForB pick₁ (fun _ _ => []) (fun _ _ => []) k₁ 0 e0).w.trace
      = some .none := by rw [← LiveGAny.runFor_eq_runForB]; exact hdr
  obtain ⟨k, hk, hv⟩ := C01_group_refill_ends_busy stream keyed m scripts pre₁ pre₂ hpre₁ hpre₂ hfresh hs
    pick₁ (fun _ _ => []) (fun _ _ => []) k₁ 0 hdr' pick₂ (fun _ _ => []) (fun _ _ => []) r₂
  refine ⟨k, ?_, ?_⟩
  · have : ExecGAny.runFor pick₁ k₁ 0 e0
        = ExecGAny.runForB pick₁ (fun _ _ => []) (fun _ _ => []) k₁ 0 e0 :=
      LiveGAny.runFor_eq_runForB pick₁ k₁ 0 e0
    show k ≤ 3 * ExecG.stepsLeft (pre₂.foldl GEng.step (ExecGAny.runFor pick₁ k₁ 0 e0)) + 1
    rw [this]; exact hk
  · show Mon.lastOut (ExecGAny.runRefill pick₂ k r₂
      (pre₂.foldl GEng.step (ExecGAny.runFor pick₁ k₁ 0 e0))).w.trace = some .none
    rw [LiveGAny.runRefill_eq_runRefillB, LiveGAny.runFor_eq_runForB]; exact hv

/-- both drains in one statement: the first run drains within its bound, and from wherever it has
    drained, every refill drains again within the bound of the refilled state -/
theorem C01_group_drain_refill_drain (stream keyed : Bool) (m : Mode) (scripts : Nat → List Step)
    (pre₁ pre₂ : List Op)
    (hpre₁ : ∀ op ∈ pre₁, op.isInsertLike = true) (hpre₂ : ∀ op ∈ pre₂, op.isInsertLike = true)
    (hfresh : ((pre₁ ++ pre₂).flatMap insertedIds).Nodup)
    (hs : ∀ c ∈ (pre₁ ++ pre₂).flatMap insertedIds,
      (if stream then streamScript (scripts c) else Exec.futureScript (scripts c)) = true)
    (pick₁ pick₂ : Nat → Eng Grp → Nat) :
    let e0 := pre₁.foldl GEng.step (GEng.init stream keyed m scripts)
    ∃ k₁, k₁ ≤ 3 * ExecG.stepsLeft e0 + 1 ∧
      Mon.lastOut (ExecGAny.runFor pick₁ k₁ 0 e0).w.trace = some .none ∧
      ∃ k₂, k₂ ≤ 3 * ExecG.stepsLeft (pre₂.foldl GEng.step (ExecGAny.runFor pick₁ k₁ 0 e0)) + 1 ∧
        Mon.lastOut (ExecGAny.runRefill pick₂ k₂ k₁
          (pre₂.foldl GEng.step (ExecGAny.runFor pick₁ k₁ 0 e0))).w.trace = some .none := by
  intro e0
  have hnd₁ : (pre₁.flatMap insertedIds).Nodup := by
    rw [List.flatMap_append, List.nodup_append] at hfresh; exact hfresh.1
  obtain ⟨k₁, hk₁, hv₁⟩ := C01_group_ends_any pick₁ stream keyed m scripts pre₁ hpre₁ hnd₁
    (fun c hc => hs c (by rw [List.flatMap_append]; exact List.mem_append_left _ hc))
  exact ⟨k₁, hk₁, hv₁, C01_group_refill_ends stream keyed m scripts pre₁ pre₂ hpre₁ hpre₂ hfresh hs
    pick₁ k₁ hv₁ pick₂ k₁⟩

/-! ### non-vacuity -/

/-- two generations of a keyed StreamGroup.  First generation (`C01liveG_pre`: `reserve 1; insert 7;
    extend [3, 5]`, keys 0, 1, 2) as in C01liveG.  Second generation: member 9 — `Pending` while
    invoking the newest waker of the FORMER member 3 and an old waker of the former member 5, item 4,
    `Pending` while invoking the waker of the former member 7, end; member 11 — `Pending`, end.  All
    other scripts panic: they are never looked at. -/
def C01liveGAny_sc : Nat → List Step := fun c =>
  if c = 3 then [⟨.item 1, []⟩, ⟨.pend, []⟩, ⟨.item 2, []⟩, ⟨.fin, []⟩]
  else if c = 7 then [⟨.fin, []⟩]
  else if c = 5 then [⟨.pend, [(7, 0)]⟩, ⟨.pend, [(7, 0), (5, 0)]⟩, ⟨.item 9, []⟩, ⟨.fin, []⟩]
  else if c = 9 then [⟨.pend, [(3, 0), (5, 1)]⟩, ⟨.item 4, []⟩, ⟨.pend, [(7, 0)]⟩, ⟨.fin, []⟩]
  else if c = 11 then [⟨.pend, []⟩, ⟨.fin, []⟩]
  else [⟨.panic, []⟩]

def C01liveGAny_pre2 : List Op := [.insert 9, .insert 11]

/-- a schedule that differs from "first waiting member": always member 5, if it can be prodded -/
def C01liveGAny_pick : Nat → Eng Grp → Nat := fun _ _ => 5

/-- a busy environment: in every environment round, before and after the prod, the newest waker of
    member 3 (after the first drain: a FORMER member, whose slot 1 is reused by member 9) and a waker
    of an id that was never inserted -/
def C01liveGAny_busy : Nat → Eng Grp → List (Nat × Nat) := fun _ _ => [(3, 0), (100, 0)]

def C01liveGAny_e0 (m : Mode) : Eng Grp :=
  C01liveG_pre.foldl GEng.step (GEng.init true true m C01liveGAny_sc)
/-- after the first drain (10 rounds) under the schedule "member 5" -/
def C01liveGAny_e1 (m : Mode) : Eng Grp := ExecGAny.runFor C01liveGAny_pick 10 0 (C01liveGAny_e0 m)
/-- refilled -/
def C01liveGAny_e2 (m : Mode) : Eng Grp := C01liveGAny_pre2.foldl GEng.step (C01liveGAny_e1 m)

example : ∀ op ∈ C01liveG_pre ++ C01liveGAny_pre2, op.isInsertLike = true := by decide
example : ((C01liveG_pre ++ C01liveGAny_pre2).flatMap insertedIds).Nodup := by decide
example : ∀ c ∈ (C01liveG_pre ++ C01liveGAny_pre2).flatMap insertedIds,
    streamScript (C01liveGAny_sc c) = true := by decide

set_option maxRecDepth 100000 in
/-- the schedule matters: under "member 5" the first drain also takes 10 rounds, but the items come
    in another order than under "first waiting member" (C01liveG: `[9, 2, 1]`) -/
example : Mon.lastOut (C01liveGAny_e1 .std).w.trace = some .none ∧
    Mon.yielded (C01liveGAny_e1 .std).w.trace = [2, 9, 1] ∧
    Mon.yielded (ExecG.runFor 10 (C01liveGAny_e0 .std)).w.trace = [9, 2, 1] ∧
    (C01liveGAny_e1 .std).w.trace ≠ (ExecG.runFor 10 (C01liveGAny_e0 .std)).w.trace := by
  decide
set_option maxRecDepth 100000 in
example : ∀ k, k ≤ 9 → Exec.finalOut (Mon.lastOut
    (ExecGAny.runFor C01liveGAny_pick k 0 (C01liveGAny_e0 .std)).w.trace) = false := by decide
set_option maxRecDepth 100000 in
/-- … and it is `ExecG.runFor` when the schedule is "first waiting member" -/
example : ExecGAny.runFor LiveGAny.firstPick 10 0 (C01liveGAny_e0 .std)
    = ExecG.runFor 10 (C01liveGAny_e0 .std) := C01_runFor_firstPick 10 0 _

set_option maxRecDepth 100000 in
/-- the drained group: no member; polling it again is not misuse, it answers `None` again -/
example : (C01liveGAny_e1 .std).s.len = 0 ∧ (C01liveGAny_e1 .std).s.keys = [] ∧
    Mon.lastOut (ExecGAny.restart (C01liveGAny_e1 .std)).w.trace = some .none := by decide
set_option maxRecDepth 100000 in
/-- the refill lands in REUSED slots: member 9 in slot 1 (where member 3 was), member 11 in slot 2
    (where member 5 was); 6 scripted steps are ahead -/
example : Mon.keyOf (C01liveGAny_e1 .std).w.trace 3 = some 1 ∧
    Mon.keyOf (C01liveGAny_e1 .std).w.trace 5 = some 2 ∧
    (C01liveGAny_e2 .std).s.member 1 = some 9 ∧ (C01liveGAny_e2 .std).s.member 2 = some 11 ∧
    (C01liveGAny_e2 .std).s.keys = [1, 2] ∧ ExecG.stepsLeft (C01liveGAny_e2 .std) = 6 := by decide
set_option maxRecDepth 100000 in
/-- after the refill the latest outcome is still `None`: the wake-only rule alone does not poll
    (whatever the schedule) — hence the restart -/
example : Mon.lastOut (C01liveGAny_e2 .std).w.trace = some .none ∧
    (ExecGAny.round C01liveGAny_pick 0 (C01liveGAny_e2 .std)).isNone = true ∧
    (ExecGAny.round LiveGAny.firstPick 0 (C01liveGAny_e2 .std)).isNone = true := by decide
set_option maxRecDepth 100000 in
/-- the restart behaves as a real consumer's poll: it polls the new members in their slots and
    returns `Pending`; member 9's first step has invoked the stale waker of the former occupant of its
    own slot (`sub 1`), which woke the task -/
example : (ExecGAny.restart (C01liveGAny_e2 .std)).w.trace.take 9
    = [.pollEnd .pending, .childEnd 11 .pend, .childBegin 11 2 (.sub 2), .childEnd 9 .pend,
       .fired 5 1 (some (.sub 2)), .woke 9, .fired 3 0 (some (.sub 1)), .childBegin 9 1 (.sub 1),
       .pollBegin 9] := by decide

set_option maxRecDepth 100000 in
/-- the second drain under the busy environment: `None` in round 7 (≤ 3 * 6 + 1), not earlier; the
    new members' items are yielded after the old ones; C12 and C01 hold on the whole trace -/
example : Mon.lastOut (ExecGAny.runRefillB C01liveGAny_pick C01liveGAny_busy C01liveGAny_busy 7 0
      (C01liveGAny_e2 .std)).w.trace = some .none ∧
    Mon.yielded (ExecGAny.runRefillB C01liveGAny_pick C01liveGAny_busy C01liveGAny_busy 7 0
      (C01liveGAny_e2 .std)).w.trace = [4, 2, 9, 1] ∧
    Mon.holds_C12 true 12 (ExecGAny.runRefillB C01liveGAny_pick C01liveGAny_busy C01liveGAny_busy 7 0
      (C01liveGAny_e2 .std)).w.trace = true ∧
    Mon.holds_C01 12 (ExecGAny.runRefillB C01liveGAny_pick C01liveGAny_busy C01liveGAny_busy 7 0
      (C01liveGAny_e2 .std)).w.trace = true := by decide
set_option maxRecDepth 100000 in
example : ∀ k, k ≤ 5 → Exec.finalOut (Mon.lastOut
    (ExecGAny.runRefillB C01liveGAny_pick C01liveGAny_busy C01liveGAny_busy (k + 1) 0
      (C01liveGAny_e2 .std)).w.trace) = false := by decide
set_option maxRecDepth 100000 in
/-- the busy environment did fire the stale waker of the already finished member 3 (`sub 1`, now
    the waker of slot 1's new occupant 9) — it reached the task (`woke 11`) — and the waker of the
    never-inserted id 100 (nothing to invoke) -/
example : (ExecGAny.runRefillB C01liveGAny_pick C01liveGAny_busy C01liveGAny_busy 7 0
      (C01liveGAny_e2 .std)).w.trace.contains (.fired 3 0 (some (.sub 1))) = true ∧
    (ExecGAny.runRefillB C01liveGAny_pick C01liveGAny_busy C01liveGAny_busy 7 0
      (C01liveGAny_e2 .std)).w.trace.contains (.woke 11) = true ∧
    (ExecGAny.runRefillB C01liveGAny_pick C01liveGAny_busy C01liveGAny_busy 7 0
      (C01liveGAny_e2 .std)).w.trace.contains (.fired 100 0 none) = true ∧
    Mon.gone (C01liveGAny_e2 .std).w.trace 3 = true := by decide
set_option maxRecDepth 100000 in
/-- the plain executor and the direct mode: the second drain ends as well -/
example : Mon.lastOut (ExecGAny.runRefill C01liveGAny_pick 7 0 (C01liveGAny_e2 .std)).w.trace
      = some .none ∧
    Mon.lastOut (C01liveGAny_e1 .direct).w.trace = some .none ∧
    Mon.lastOut (ExecGAny.runRefillB C01liveGAny_pick C01liveGAny_busy C01liveGAny_busy 19 0
      (C01liveGAny_e2 .direct)).w.trace = some .none := by decide

/-- a FutureGroup (not keyed), two generations; the second one only `extend`s.  Member 9 invokes the
    wakers of the former members 3 and 7 -/
def C01liveGAny_fut : Nat → List Step := fun c =>
  if c = 3 then [⟨.pend, []⟩, ⟨.ready true 30, []⟩]
  else if c = 7 then [⟨.ready true 70, []⟩]
  else if c = 5 then [⟨.pend, [(7, 0)]⟩, ⟨.pend, [(7, 0), (3, 1)]⟩, ⟨.ready false 50, []⟩]
  else if c = 9 then [⟨.pend, [(3, 0), (7, 0)]⟩, ⟨.ready true 90, []⟩]
  else if c = 11 then [⟨.ready true 110, []⟩]
  else [⟨.fin, []⟩]

def C01liveGAny_f1 (m : Mode) : Eng Grp :=
  ExecGAny.runFor C01liveGAny_pick 19 0
    (C01liveG_pre.foldl GEng.step (GEng.init false false m C01liveGAny_fut))
def C01liveGAny_f2 (m : Mode) : Eng Grp := [Op.extend [11, 9]].foldl GEng.step (C01liveGAny_f1 m)

example : ∀ c ∈ (C01liveG_pre ++ [Op.extend [11, 9]]).flatMap insertedIds,
    Exec.futureScript (C01liveGAny_fut c) = true := by decide
set_option maxRecDepth 100000 in
example : Mon.lastOut (C01liveGAny_f1 .std).w.trace = some .none ∧
    ExecG.stepsLeft (C01liveGAny_f2 .std) = 3 ∧
    Mon.lastOut (ExecGAny.runRefillB C01liveGAny_pick C01liveGAny_busy C01liveGAny_busy 10 0
      (C01liveGAny_f2 .std)).w.trace = some .none ∧
    Mon.yielded (ExecGAny.runRefillB C01liveGAny_pick C01liveGAny_busy C01liveGAny_busy 10 0
      (C01liveGAny_f2 .std)).w.trace = [90, 110, 30, 50, 70] ∧
    Mon.holds_C11 false 12 (ExecGAny.runRefillB C01liveGAny_pick C01liveGAny_busy C01liveGAny_busy 10 0
      (C01liveGAny_f2 .std)).w.trace = true := by decide

/-- the hypothesis on the second generation is needed: a new member that stays `Pending` for ever
    leaves the resumed executor stuck -/
def C01liveGAny_stuck : Nat → List Step := fun c =>
  if c = 9 then [⟨.pend, []⟩] else C01liveGAny_sc c

def C01liveGAny_s2 : Eng Grp :=
  C01liveGAny_pre2.foldl GEng.step (ExecGAny.runFor C01liveGAny_pick 10 0
    (C01liveG_pre.foldl GEng.step (GEng.init true true .std C01liveGAny_stuck)))

example : streamScript (C01liveGAny_stuck 9) = false := by decide
set_option maxRecDepth 100000 in
example : Mon.lastOut (ExecGAny.runRefill C01liveGAny_pick 30 0 C01liveGAny_s2).w.trace
      = some .pending ∧
    (ExecGAny.round C01liveGAny_pick 0
      (ExecGAny.runRefill C01liveGAny_pick 30 0 C01liveGAny_s2)).isNone = true := by decide

end Fc

#print axioms Fc.C01_group_ends_any
#print axioms Fc.C01_group_ends_busy
#print axioms Fc.C01_runFor_firstPick
#print axioms Fc.C01_runFor_eq_runForB
#print axioms Fc.C01_runRefill_eq_runRefillB
#print axioms Fc.C01_group_ends_again
#print axioms Fc.C01_group_refill_ends_busy
#print axioms Fc.C01_group_refill_ends
#print axioms Fc.C01_group_drain_refill_drain
