/-
  C01 (second sentence) — liveness of FutureGroup / StreamGroup under the wake-only executor.

  Setting (Fc/ExecG.lean, the group version of Fc/Exec.lean): a group is built from the empty group
  by any history `pre` of `insert` / `extend` / `reserve` operations (`Op.isInsertLike`; no poll, no
  wake-up, no remove, no drop in between) in which every member id is inserted at most once
  (`insertedIds`, as in `Case.insertsFresh`).  Then the executor takes over: it polls the group —
  with a FRESH task waker on every poll — only if the task has been woken since the previous poll
  began (`Mon.wokeSince`), or it was never polled, or the previous poll yielded an output / an item
  (`Exec.shouldPoll`: the consumer of the group's stream asks for the next one at once).  Otherwise
  the environment lets the first waiting member in key order (latest answer `Pending`, scripted
  steps left: `ExecG.firstWaiting`) make progress by invoking the waker that member was handed in its
  most recent poll (`e.fire c 0`).  `ExecG.round` is one such step (`none`: final outcome, or stuck);
  `ExecG.runFor k` runs up to `k` rounds.  Nothing is inserted or removed while the executor runs.

  A well-behaved member of a FutureGroup (`Exec.futureScript`) answers `Pending` any finite number of
  times, then resolves; a well-behaved member of a StreamGroup (`streamScript`) answers `Pending` or
  an item any finite number of times in any mix, then ends.  Every `Pending` step may invoke
  arbitrary (current, stale, foreign) wakers of arbitrary members while the poll runs.  Only the
  scripts of the INSERTED ids are constrained; the scripts of all other ids are arbitrary.

  Theorem: for both groups, plain and keyed, both waker strategies, every such building history and
  all such scripts, the run reaches the final `None` — the group's stream ends, no schedule of this
  executor leaves the group pending with no wake-up outstanding — within `3 * stepsLeft + 1` rounds
  (`ExecG.stepsLeft` = scripted steps of the members at the hand-over).  WHAT was yielded before the
  `None` is characterised by C11 / C12 (each member's output / items exactly once, under its key);
  they hold along these runs, a run of the executor being an operation history.

  On the bound: the constant `+ 1` is needed (`C01_group_ends_bound0_false`: the empty group has no
  steps, but it takes one poll to see the `None`).  The coefficient 3 is what the general argument
  gives (a productive poll, one poll that polls nothing, one prod per step); in a group a stale
  wake-up can waste a poll only once per vacated slot (the bit of a vacant slot stays set), and all
  examples tried need at most `2 * stepsLeft + 1` rounds (not proved).

  The proof (FcLemmas/LiveG*.lean) instantiates the argument of C01live3 (restated for `Eng Grp` in
  `LiveGRun`) with the safety theorems as invariants along the run:
    C01g (`G.SB` / `G.DB` ⇒ `quiet`) ⇒ after the environment prods a waiting member the next round
        polls;
    C20g (part of the same invariants) ⇒ that poll polls the prodded member, hence consumes a step;
    C11 / C12 (`G11.Inv`) ⇒ a poll that returns `Pending` leaves a member in the group;
    slab / link invariants (`G.Slab`, `G.Link`) ⇒ eligible slots hold members, a member sits in one
        slot, a member that resolved / ended is removed and never polled again;
  plus the new ingredients: members that follow a well-behaved script never panic and have a step
  left while they are members; a poll that polls no member does not wake the task; a poll that
  yields has polled a member; and the readiness-bit invariant (`LiveG.IBG`): a member that was never
  polled (insert arms the slot) or whose latest answer is an item (the StreamGroup re-arms the slot)
  has its bit set — hence when a poll returns `Pending`, be it through the early `!any_ready` exit or
  after a complete scan, EVERY member is waiting and one can be prodded.  The safety invariants ask
  all scripts of the World to be of the group's kind; `LiveGRestr` shows that a group never looks at
  the scripts of ids that are not its members, which removes that assumption.
-/
import FcLemmas.LiveGMain
import Fc.Holds

namespace Fc
open Mon

/-- liveness of FutureGroup (`stream = false`) and StreamGroup (`stream = true`) -/
theorem C01_group_ends (stream keyed : Bool) (m : Mode) (scripts : Nat → List Step) (pre : List Op)
    (hpre : ∀ op ∈ pre, op.isInsertLike = true)
    (hfresh : (pre.flatMap insertedIds).Nodup)
    (hs : ∀ c ∈ pre.flatMap insertedIds,
      (if stream then streamScript (scripts c) else Exec.futureScript (scripts c)) = true) :
    let e0 := pre.foldl GEng.step (GEng.init stream keyed m scripts)
    ∃ k, k ≤ 3 * ExecG.stepsLeft e0 + 1 ∧
      Mon.lastOut (ExecG.runFor k e0).w.trace = some .none :=
  LiveG.group_ends stream keyed m scripts pre hpre hfresh hs

/-- FutureGroup: every member a well-behaved future -/
theorem C01_futureGroup_ends (keyed : Bool) (m : Mode) (scripts : Nat → List Step) (pre : List Op)
    (hpre : ∀ op ∈ pre, op.isInsertLike = true)
    (hfresh : (pre.flatMap insertedIds).Nodup)
    (hs : ∀ c ∈ pre.flatMap insertedIds, Exec.futureScript (scripts c) = true) :
    let e0 := pre.foldl GEng.step (GEng.init false keyed m scripts)
    ∃ k, k ≤ 3 * ExecG.stepsLeft e0 + 1 ∧
      Mon.lastOut (ExecG.runFor k e0).w.trace = some .none :=
  C01_group_ends false keyed m scripts pre hpre hfresh hs

/-- StreamGroup: every member a well-behaved stream -/
theorem C01_streamGroup_ends (keyed : Bool) (m : Mode) (scripts : Nat → List Step) (pre : List Op)
    (hpre : ∀ op ∈ pre, op.isInsertLike = true)
    (hfresh : (pre.flatMap insertedIds).Nodup)
    (hs : ∀ c ∈ pre.flatMap insertedIds, streamScript (scripts c) = true) :
    let e0 := pre.foldl GEng.step (GEng.init true keyed m scripts)
    ∃ k, k ≤ 3 * ExecG.stepsLeft e0 + 1 ∧
      Mon.lastOut (ExecG.runFor k e0).w.trace = some .none :=
  C01_group_ends true keyed m scripts pre hpre hfresh hs

/-- the same for a `Case` of a group family whose history only builds the group -/
theorem C01_group_ends_case (c : Case) (_hg : c.fam.isGroup = true)
    (hpre : ∀ op ∈ c.ops, op.isInsertLike = true) (hfresh : Case.insertsFresh c)
    (hs : ∀ ch ∈ c.ops.flatMap insertedIds,
      (if c.fam = .strGroup then streamScript (c.scripts ch) else Exec.futureScript (c.scripts ch))
        = true) :
    ∃ k, k ≤ 3 * ExecG.stepsLeft c.finalGrp + 1 ∧
      Mon.lastOut (ExecG.runFor k c.finalGrp).w.trace = some .none := by
  unfold Case.finalGrp
  refine C01_group_ends (decide (c.fam = .strGroup)) c.keyed c.mode c.scripts c.ops hpre hfresh ?_
  intro ch hch
  have := hs ch hch
  by_cases hf : c.fam = .strGroup
  · simpa [hf] using this
  · simpa [hf] using this

/-! ### the constant `+ 1` is needed -/

/-- the statement with the bound `3 * stepsLeft` -/
def C01_group_ends_bound0_statement : Prop :=
  ∀ (stream keyed : Bool) (m : Mode) (scripts : Nat → List Step) (pre : List Op),
    (∀ op ∈ pre, op.isInsertLike = true) → (pre.flatMap insertedIds).Nodup →
    (∀ c ∈ pre.flatMap insertedIds,
      (if stream then streamScript (scripts c) else Exec.futureScript (scripts c)) = true) →
    ∃ k, k ≤ 3 * ExecG.stepsLeft (pre.foldl GEng.step (GEng.init stream keyed m scripts)) ∧
      Mon.lastOut (ExecG.runFor k (pre.foldl GEng.step (GEng.init stream keyed m scripts))).w.trace
        = some .none

/-- the empty group: no steps, but it takes one round (the first poll) to see the `None` -/
theorem C01_group_ends_bound0_false : ¬ C01_group_ends_bound0_statement := by
  intro h
  obtain ⟨k, hk, hv⟩ := h true false .std (fun _ => []) [] (by decide) (by decide) (by decide)
  have hS : ExecG.stepsLeft (([] : List Op).foldl GEng.step (GEng.init true false .std (fun _ => [])))
      = 0 := by decide
  rw [hS] at hk
  have hk0 : k = 0 := by omega
  subst hk0
  revert hv
  decide

/-! ### non-vacuity -/

/-- a keyed StreamGroup built by `reserve 1; insert 7; extend [3, 5]` (keys 0, 1, 2):
    member 7 ends at once; member 3: item 1, Pending, item 2, end; member 5: two Pending steps that
    invoke the STALE waker of member 7 (which has left the group; the second one also wakes member 5
    itself), item 9, end.  The scripts of all other ids panic — they are never looked at. -/
def C01liveG_stream : Nat → List Step := fun c =>
  if c = 3 then [⟨.item 1, []⟩, ⟨.pend, []⟩, ⟨.item 2, []⟩, ⟨.fin, []⟩]
  else if c = 7 then [⟨.fin, []⟩]
  else if c = 5 then [⟨.pend, [(7, 0)]⟩, ⟨.pend, [(7, 0), (5, 0)]⟩, ⟨.item 9, []⟩, ⟨.fin, []⟩]
  else [⟨.panic, []⟩]

def C01liveG_pre : List Op := [.reserve 1, .insert 7, .extend [3, 5]]

/-- the state at the hand-over -/
def C01liveG_e0 (stream : Bool) (m : Mode) (sc : Nat → List Step) : Eng Grp :=
  C01liveG_pre.foldl GEng.step (GEng.init stream true m sc)

example : ∀ op ∈ C01liveG_pre, op.isInsertLike = true := by decide
example : (C01liveG_pre.flatMap insertedIds).Nodup := by decide
example : ∀ c ∈ C01liveG_pre.flatMap insertedIds, streamScript (C01liveG_stream c) = true := by decide
example : ExecG.stepsLeft (C01liveG_e0 true .std C01liveG_stream) = 9 := by decide

set_option maxRecDepth 100000 in
/-- std mode: the run ends with `pollEnd none` in round 10 (8 polls, one of which — after the stale
    wake-up — polls nothing, and 2 prods), not earlier … -/
example : (ExecG.runFor 40 (C01liveG_e0 true .std C01liveG_stream)).w.trace.head?
      = some (.pollEnd .none) ∧
    Exec.pollCount (ExecG.runFor 40 (C01liveG_e0 true .std C01liveG_stream)).w.trace = 8 := by
  decide
set_option maxRecDepth 100000 in
example : ∀ k, k ≤ 9 → Exec.finalOut (Mon.lastOut
    (ExecG.runFor k (C01liveG_e0 true .std C01liveG_stream)).w.trace) = false := by decide
set_option maxRecDepth 100000 in
/-- … having yielded every item of every member (newest first), as C12 and C01 demand -/
example : Mon.yielded (ExecG.runFor 40 (C01liveG_e0 true .std C01liveG_stream)).w.trace = [9, 2, 1] ∧
    Mon.holds_C12 true 8 (ExecG.runFor 40 (C01liveG_e0 true .std C01liveG_stream)).w.trace = true ∧
    Mon.holds_C01 8 (ExecG.runFor 40 (C01liveG_e0 true .std C01liveG_stream)).w.trace = true := by
  decide
set_option maxRecDepth 100000 in
/-- the stale wake-up of the vacated slot 0 reaches the task (`woke 2`), the poll it causes polls no
    member -/
example : (ExecG.runFor 40 (C01liveG_e0 true .std C01liveG_stream)).w.trace.contains
      (.fired 7 0 (some (.sub 0))) = true ∧
    (ExecG.runFor 40 (C01liveG_e0 true .std C01liveG_stream)).w.trace.contains (.woke 2) = true := by
  decide
set_option maxRecDepth 100000 in
/-- direct mode: another interleaving (7 rounds), the same items -/
example : (ExecG.runFor 40 (C01liveG_e0 true .direct C01liveG_stream)).w.trace.head?
      = some (.pollEnd .none) ∧
    Mon.yielded (ExecG.runFor 40 (C01liveG_e0 true .direct C01liveG_stream)).w.trace = [9, 2, 1] := by
  decide

/-- the same building history for a FutureGroup: member 7 resolves at once, member 3 after one
    Pending, member 5 after two Pending steps that invoke stale wakers (of member 7, and an old
    waker of member 3) -/
def C01liveG_future : Nat → List Step := fun c =>
  if c = 3 then [⟨.pend, []⟩, ⟨.ready true 30, []⟩]
  else if c = 7 then [⟨.ready true 70, []⟩]
  else if c = 5 then [⟨.pend, [(7, 0)]⟩, ⟨.pend, [(7, 0), (3, 1)]⟩, ⟨.ready false 50, []⟩]
  else [⟨.fin, []⟩]

example : ∀ c ∈ C01liveG_pre.flatMap insertedIds, Exec.futureScript (C01liveG_future c) = true := by
  decide
example : ExecG.stepsLeft (C01liveG_e0 false .std C01liveG_future) = 6 := by decide
set_option maxRecDepth 100000 in
/-- 6 steps, 12 rounds in std mode (9 polls, 3 prods), each output exactly once -/
example : (ExecG.runFor 40 (C01liveG_e0 false .std C01liveG_future)).w.trace.head?
      = some (.pollEnd .none) ∧
    Mon.yielded (ExecG.runFor 40 (C01liveG_e0 false .std C01liveG_future)).w.trace = [50, 30, 70] ∧
    Mon.holds_C11 true 8 (ExecG.runFor 40 (C01liveG_e0 false .std C01liveG_future)).w.trace = true := by
  decide
set_option maxRecDepth 100000 in
example : ∀ k, k ≤ 11 → Exec.finalOut (Mon.lastOut
    (ExecG.runFor k (C01liveG_e0 false .std C01liveG_future)).w.trace) = false := by decide
set_option maxRecDepth 100000 in
example : (ExecG.runFor 40 (C01liveG_e0 false .direct C01liveG_future)).w.trace.head?
      = some (.pollEnd .none) ∧
    Mon.yielded (ExecG.runFor 40 (C01liveG_e0 false .direct C01liveG_future)).w.trace = [50, 30, 70] := by
  decide

/-- the hypothesis is needed: a member that stays Pending for ever (its script is not well-behaved)
    leaves the executor with nothing to do while the group is pending -/
def C01liveG_stuck : Nat → List Step := fun c =>
  if c = 3 then [⟨.pend, []⟩] else if c = 7 then [⟨.fin, []⟩]
  else if c = 5 then [⟨.item 4, []⟩, ⟨.fin, []⟩] else []

example : streamScript (C01liveG_stuck 3) = false := by decide
set_option maxRecDepth 100000 in
example : Mon.lastOut (ExecG.runFor 30 (C01liveG_e0 true .std C01liveG_stuck)).w.trace
      = some .pending ∧
    (ExecG.round (ExecG.runFor 30 (C01liveG_e0 true .std C01liveG_stuck))).isNone = true ∧
    Mon.yielded (ExecG.runFor 30 (C01liveG_e0 true .std C01liveG_stuck)).w.trace = [4] := by
  decide

end Fc

#print axioms Fc.C01_group_ends
#print axioms Fc.C01_futureGroup_ends
#print axioms Fc.C01_streamGroup_ends
#print axioms Fc.C01_group_ends_case
#print axioms Fc.C01_group_ends_bound0_false
