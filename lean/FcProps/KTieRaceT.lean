/-
  Kernel tie, fixed families, TUPLE container — `(A, B, …).race()` / `FutureExt::race` (src/future/race/tuple.rs,
  `impl_race_tuple!`, the structs `Race1 … Race12`), direct strategy, policy `race`.  The TUPLE counterpart of
  FcProps/KTieRaceA.lean (array) and FcProps/KTieRaceV.lean (Vec).  Source of the translation: rustc's macro expansion of
  the current tuple.rs, normalised over a const generic `N` by tools/tuple_norm.py (all twelve arities agree) →
  tools/rs2lean.py → FcGen/KSrcTup5.lean, namespace `RaceT`.

  `TieRaceT.poll_tie` proves `TieRaceT.poll_tie_statement` of FcProps/KTieRaceTup.lean, UNCHANGED: for every arity `N`
  and every translated `Race` value `g` that is well-formed (`WfR N g`: it has `N` children, the indexer's maximum is `N`,
  and `0 < N`) and not yet `done`, and every environment whose children are scripted futures (`FutStepsF`), the poll
  function TRANSLATED FROM THE SOURCE (`RaceT.Race.poll N`) does not panic, returns a well-formed `g'`, and agrees with
  one `Eng.poll race` of the model on: number of children, indexer offset, `done` flag, the remaining scripts, the wakers
  handed out, and the whole event trace (the model's trace is the translated code's trace plus the closing `pollEnd` of
  the returned value).

  The proof is the array proof (FcProps/KTieRaceA.lean), line by line.  What differs in the translated code, and where
  the proof sees it:
    * the child poll sits under the folded dispatch `if i < N` (the expansion's `if i == Indexes::F as usize { … }`
      chain).  It is true of every index the loop sees — `forCtl_scan` is run with the index predicate `· < N`, and
      `N` is the number of children by `WfR.kn` — so the iteration hypothesis `hi` discharges the guard; the `else`
      branch ("no future has this index": the loop would silently go on) is unreachable under `WfR`;
    * the non-`Ready` arm is the wildcard `_ => continue`, not `Pending => continue`: no difference after the poll
      result has been rewritten (`pollFut_tie`);
    * the struct's fields come in the order `done, indexer, futures`: invisible, the proofs address the generated
      structure through the `role…` abbreviations only;
    * the translated file contains the constructor: `new_wf` shows that `Race::new` on `0 < N` children yields a value
      satisfying the hypotheses of `poll_tie` (`WfR N`, not `done`) over these children, with offset 0.  (The array and
      Vec props files have neither `poll_tie_strong` nor `new_wf` — their translated files contain `Race::poll` only —
      so `new_wf` is the one companion added here; the statement of `poll_tie` already returns `WfR N g'`, which with the
      `dead` clause is all the next call needs from the combinator.)
  Helpers:
    * ported (they mention the translated structure): the loop invariants `TieRaceT.Inv`, `TieRaceT.Fin`
      (FcLemmas/KTieRaceTInv.lean);
    * imported unchanged (container-independent): `TieDirect.*` (FcLemmas/KTieFamEnv.lean), `TieLoop.*`
      (FcLemmas/KTieFamLoop.lean), and the model-side lemmas `TieRaceV.visit_race_pend`, `visit_race_ready`,
      `poll_race_live`, `close_race_some`, `close_race_none` (FcLemmas/KTieFamRace.lean).
-/
import FcProps.KTieRaceTup
import FcLemmas.KTieRaceTInv

set_option linter.unusedSimpArgs false
set_option linter.unusedVariables false

namespace Fc
open Rs Src

namespace TieRaceT
open RaceT TieDirect TieLoop
open TieRaceV (visit_race_pend visit_race_ready poll_race_live close_race_some close_race_none)

local macro "unroles" : tactic =>
  `(tactic| try simp only [absR, Race.roleKids, Race.roleIndexer, Race.roleDone] at *)

theorem poll_tie : poll_tie_statement := by
  intro N g b w hwf hfs hd
  -- the arity `N` is the number of children
  obtain ⟨rfl, hmx, hpos⟩ := hwf
  obtain ⟨ix', it, hiter, hoff, hmax, hcol⟩ := iter_collect g.roleIndexer (by rw [hmx]; exact hpos)
  rw [hmx] at hoff hmax hcol
  have hlive : (absR g b).s.dead = false := hd
  rw [poll_race_live _ _ hlive]
  -- the model's run of the loop
  generalize hl : (absR g b).s.rot = l
  generalize he0 : ({ w := ((absR g b).w.emit (.pollBegin w)).setWaker w, s := (absR g b).s.bump } : Eng Fix) = e0
  suffices hs : ∃ y : Race × World × Rs.Poll Nat,
      Race.poll g.roleKids.len g w (((absR g b).w.emit (.pollBegin w)).setWaker w) = some y ∧
      (WfR g.roleKids.len y.1 ∧
        (absR y.1 b).s.n = (Eng.close race (Eng.scan race l e0)).s.n ∧
        (absR y.1 b).s.off = (Eng.close race (Eng.scan race l e0)).s.off ∧
        (absR y.1 b).s.dead = (Eng.close race (Eng.scan race l e0)).s.dead ∧
        y.2.1.scripts = (Eng.close race (Eng.scan race l e0)).w.scripts ∧
        y.2.1.handed = (Eng.close race (Eng.scan race l e0)).w.handed ∧
        (Eng.close race (Eng.scan race l e0)).w.trace = .pollEnd (outcomeOfRace y.2.2) :: y.2.1.trace) by
    obtain ⟨⟨g', env', ret⟩, h1, h2⟩ := hs
    exact ⟨g', env', ret, h1, h2⟩
  unfold Race.poll
  have hl' : l = (List.range g.roleKids.len).map (fun k => (k + g.roleIndexer.roleOffset) % g.roleKids.len) := by
    rw [← hl]; rfl
  unroles
  simp only [hd, hiter, hcol, Bool.not_false, if_true, Option.pure_def, Option.bind_eq_bind, Option.bind_some]
  rw [← hl']
  refine bind_spec _ _
    (LoopPost race outcomeOfRace (Inv g.roleKids.len ix'.roleOffset w) (Fin g.roleKids.len ix'.roleOffset) l e0) _ ?_ ?_
  · refine forCtl_scan race outcomeOfRace _ _ (fun i => i < g.roleKids.len) _ ?_ l ?_ _ e0 ?_
    · -- one iteration = one `visit`
      rintro ⟨self, env'⟩ e i hi ⟨hw, hn, ho, hdd, hk, hio, him, hdn, hm, hp, hf⟩
      -- (`hi : i < N` is the folded dispatch guard `if i < N` of the tuple's expansion)
      obtain ⟨env, es⟩ := e
      simp only at hw hn ho hdd hk hio him hdn hm hp hf
      subst hw
      have hik : i < self.roleKids.len := by rw [hk]; exact hi
      rcases futSteps_resOf env hf i with hr | ⟨ok, v, hr⟩
      · have hpf := (pollFut_tie env i w hm hp).1 hr
        refine ⟨(self, env.pollChild i i), .next, ?_, Or.inl ⟨rfl, ?_, ?_⟩⟩
        · unroles
          simp [Kids.get, hi, hik, expect, hpf]
        · rw [visit_race_pend _ _ hm hr]
        · rw [visit_race_pend _ _ hm hr]
          exact ⟨rfl, hn, ho, hdd, hk, hio, him, hdn, by rw [pollChild_mode]; exact hm,
            by rw [pollChild_parent]; exact hp, futSteps_pollChild _ hf _ _⟩
      · have hpf := (pollFut_tie env i w hm hp).2 ok v hr
        refine ⟨?s', .ret (.ready v), ?h1, Or.inr ⟨_, rfl, ?h2, ?h3⟩⟩
        case h1 =>
          unroles
          simp only [Kids.get, hi, hik, expect, hpf, decide_true, if_true, Option.bind_some]
          rfl
        case h2 => rw [visit_race_ready _ _ ok v hm hr]; rfl
        case h3 =>
          rw [visit_race_ready _ _ ok v hm hr]
          exact ⟨rfl, hn, ho, rfl, hk, hio, him, rfl⟩
    · -- the indices the loop sees are positions of children
      intro i hi
      rw [hl'] at hi
      simp only [List.mem_map, List.mem_range] at hi
      obtain ⟨k, -, rfl⟩ := hi
      exact Nat.mod_lt _ hpos
    · -- the state in front of the loop
      subst he0
      exact ⟨rfl, rfl, hoff.symm, hd, rfl, rfl, hmax, rfl, rfl, rfl, hfs⟩
  · -- after the loop
    rintro ⟨⟨self, env⟩, r⟩ hpost
    unfold LoopPost at hpost
    generalize Eng.scan race l e0 = sc at hpost ⊢
    obtain ⟨se, so⟩ := sc
    rcases hpost with ⟨hr, hso, hw, hn, ho, hdd, hk, hio, him, hdn, -, -, -⟩ |
      ⟨v, hr, hso, hw, hn, ho, hdd, hk, hio, him, hdn⟩
    · -- the scan ran through: `Pending`
      simp only at hr hso hw hn ho hdd hk hio him hdn
      subst hr hso
      rw [close_race_none]
      refine ⟨(self, env, .pending), rfl, ⟨hk, him, hpos⟩, hk.trans hn.symm,
        hio.trans ho.symm, hdn.trans hdd.symm, ?_, ?_, ?_⟩
      · rw [← hw]; rfl
      · rw [← hw]; rfl
      · rw [← hw]; rfl
    · -- an iteration returned
      simp only at hr hso hw hn ho hdd hk hio him hdn
      subst hr hso
      rw [close_race_some]
      refine ⟨(self, env, v), rfl, ⟨hk, him, hpos⟩, hk.trans hn.symm,
        hio.trans ho.symm, hdn.trans hdd.symm, ?_, ?_, ?_⟩
      · rw [← hw]; rfl
      · rw [← hw]; rfl
      · rw [← hw]; rfl

/-- `Race::new` on a tuple of `0 < N` futures builds a well-formed, not yet `done` race over these children, the
    indexer at offset 0: the hypotheses `WfR N`, `roleDone = false` of `poll_tie` hold initially.  (`0 < N` is needed for
    `WfR.pos` only — `Race::new` itself does not panic for `N = 0`; the crate has no `Race0`.) -/
theorem new_wf (N : Nat) (kids : Rs.Kids) (hk : kids.len = N) (hN : 0 < N) :
    ∃ g, Race.new N kids = some g ∧ WfR N g ∧ g.roleDone = false ∧ g.roleKids = kids ∧
      g.roleIndexer.roleOffset = 0 := by
  simp only [Race.new, Idx.Indexer.new, Option.bind_eq_bind, Option.bind_some, Option.pure_def]
  exact ⟨_, rfl, ⟨hk, rfl, hN⟩, rfl, rfl, rfl⟩

/-- the first poll of a freshly built race: `new_wf` feeds `poll_tie` -/
theorem new_poll_tie (N : Nat) (kids : Rs.Kids) (b : Eng Fix) (w : Nat) (hk : kids.len = N) (hN : 0 < N)
    (hS : FutStepsF b.w) :
    ∃ g g' env' ret, Race.new N kids = some g ∧
      Race.poll N g w (((absR g b).w.emit (.pollBegin w)).setWaker w) = some (g', env', ret) ∧
      WfR N g' ∧
      (Eng.poll race (absR g b) w).w.trace = .pollEnd (outcomeOfRace ret) :: env'.trace := by
  obtain ⟨g, hg, hwf, hd, -, -⟩ := new_wf N kids hk hN
  obtain ⟨g', env', ret, h1, h2, -, -, -, -, -, h8⟩ := poll_tie N g b w hwf hS hd
  exact ⟨g, g', env', ret, hg, h1, h2, h8⟩

/-! ### a concrete run: the hypotheses hold, the conclusion is checked by evaluation -/

def scr : Nat → List Step := fun c =>
  if c = 0 then [⟨.pend, []⟩, ⟨.pend, []⟩]
  else if c = 1 then [⟨.pend, [(1, 0)]⟩, ⟨.ready true 9, []⟩] else [⟨.pend, []⟩]

def b0 : Eng Fix := { w := World.init .direct 3 scr, s := Fix.init 3 0 }
/-- three children, `Indexer::new(3)`, not done (fields in the struct's order: `done`, `indexer`, the children) -/
def g0 : Race := ⟨false, ⟨0, 3⟩, ⟨3⟩⟩
/-- the same after one poll: the offset is 1 -/
def g1 : Race := ⟨false, ⟨1, 3⟩, ⟨3⟩⟩
def b1 : Eng Fix := Eng.poll race (absR g0 b0) 1

/-- `g0` is `Race::new((f0, f1, f2))` -/
example : Race.new 3 ⟨3⟩ = some g0 := rfl
example : ∃ g, Race.new 3 ⟨3⟩ = some g ∧ WfR 3 g ∧ g.roleDone = false ∧ g.roleKids = ⟨3⟩ ∧
    g.roleIndexer.roleOffset = 0 := new_wf 3 ⟨3⟩ rfl (by decide)
example : WfR 3 g0 := ⟨rfl, rfl, by decide⟩
example : WfR 3 g1 ∧ g1.roleDone = false := ⟨⟨rfl, rfl, by decide⟩, rfl⟩
example : g0.roleDone = false := rfl
example : FutStepsF b0.w := by
  intro c st h
  simp only [b0, World.init, scr] at h
  split at h
  · simp at h; rcases h with rfl | rfl <;> simp
  · split at h
    · simp at h; rcases h with rfl | rfl <;> simp
    · simp at h; subst h; simp

/-- everything the theorem's conclusion compares, as a Boolean -/
def agrees (N : Nat) (g : Race) (b : Eng Fix) (w : Nat) : Option Bool :=
  (Race.poll N g w (((absR g b).w.emit (.pollBegin w)).setWaker w)).map fun y =>
    decide ((absR y.1 b).s.n = (Eng.poll race (absR g b) w).s.n) &&
    decide ((absR y.1 b).s.off = (Eng.poll race (absR g b) w).s.off) &&
    decide ((absR y.1 b).s.dead = (Eng.poll race (absR g b) w).s.dead) &&
    decide ((Eng.poll race (absR g b) w).w.trace = .pollEnd (outcomeOfRace y.2.2) :: y.2.1.trace) &&
    decide ((List.range 4).map (fun c => (y.2.1.scripts c).map fun st => (st.res, st.fires)) =
      (List.range 4).map (fun c => ((Eng.poll race (absR g b) w).w.scripts c).map fun st => (st.res, st.fires))) &&
    decide ((List.range 4).map y.2.1.handed = (List.range 4).map (Eng.poll race (absR g b) w).w.handed)

/-- first poll: all three children are pending, child 1 wakes the task while it is polled -/
example : agrees 3 g0 b0 1 = some true := by decide
/-- the same through the constructor: `Race::new((f0, f1, f2))`, then the first poll -/
example : (Race.new 3 ⟨3⟩).bind (fun g => agrees 3 g b0 1) = some true := by decide
example : (Eng.poll race (absR g0 b0) 1).w.trace =
    [.pollEnd .pending, .childEnd 2 .pend, .childBegin 2 2 (.par 1), .childEnd 1 .pend, .woke 1,
     .fired 1 0 (some (.par 1)), .childBegin 1 1 (.par 1), .childEnd 0 .pend, .childBegin 0 0 (.par 1),
     .pollBegin 1] := by decide
/-- second poll: the scan starts at child 1, which resolves with 9; `done` is set -/
example : agrees 3 g1 b1 2 = some true := by decide
example : ((Race.poll 3 g1 2 (((absR g1 b1).w.emit (.pollBegin 2)).setWaker 2)).map
    fun y => (y.1.roleDone, outcomeOfRace y.2.2)) = some (true, .ready true [9]) := by decide
/-- the hypothesis `FutStepsF` is needed: a child answering like a stream is ill-typed for `Future::poll`, the
    translated code panics there -/
example : (Race.poll 3 g0 1 (World.init .direct 3 (fun _ => [⟨.item 5, []⟩]))).isNone = true := by decide
/-- so is `g.roleDone = false`: polling a race that has returned panics ("Futures must not be polled after completing") -/
example : (Race.poll 3 ⟨true, ⟨1, 3⟩, ⟨3⟩⟩ 1 b0.w).isNone = true := by decide
/-- and `WfR.kn`: with FEWER children than the arity the indexer yields an index without a child (`expect` panics) -/
example : (Race.poll 3 ⟨false, ⟨0, 3⟩, ⟨2⟩⟩ 1 b0.w).isNone = true := by decide
/-- the unreachable `else` of the folded dispatch, reached: a value with three children and `Indexer::new(3)` read at
    arity 2 (`WfR 2` fails).  The loop sees the indices 0, 1, 2; `if i < N` sends index 2 to the `else` branch, which
    goes on silently: no panic, but child 2 is never polled — the translated code's trace has 7 events (two child polls)
    where the model's has 10 (three child polls and `pollEnd`), so the trace clause of the conclusion fails -/
example : ((Race.poll 2 ⟨false, ⟨0, 3⟩, ⟨3⟩⟩ 1 (((absR ⟨false, ⟨0, 3⟩, ⟨3⟩⟩ b0).w.emit (.pollBegin 1)).setWaker 1)).map
    fun y => (y.2.1.trace.length, (Eng.poll race (absR ⟨false, ⟨0, 3⟩, ⟨3⟩⟩ b0) 1).w.trace.length)) = some (7, 10) := by
  decide
example : agrees 2 ⟨false, ⟨0, 3⟩, ⟨3⟩⟩ b0 1 = some false := by decide
/-- so is `WfR.pos`: with no children `Indexer::iter` divides by zero -/
example : (Race.poll 0 ⟨false, ⟨0, 0⟩, ⟨0⟩⟩ 1 (World.init .direct 0 scr)).isNone = true := by decide

end TieRaceT

#print axioms TieRaceT.poll_tie
#print axioms TieRaceT.new_wf
#print axioms TieRaceT.new_poll_tie

end Fc
