/-
  Kernel tie, `Vec<Fut>::race_ok()` (src/future/race_ok/vec/mod.rs + src/utils/poll_state/maybe_done.rs), direct strategy,
  policy `raceOk false true`.

  `TieRaceOkV.poll_tie`, `drop_tie`, `drop_failed_tie`, `new_wf` prove the statements of FcProps/KTieRaceOkVec.lean: for every
  translated `RaceOk` value `g` that is well-formed (`WfK N g`: `N` slots, slot `i` holds child `i`, still running, or the
  error child `i` failed with), every environment whose children are scripted futures (`FutStepsF`) and a model that has not
  completed, the poll function TRANSLATED FROM THE SOURCE (`RaceOkV.RaceOk.poll`, which calls the translated
  `MaybeDone::poll` / `take_ok` / `take_err`, FcGen/KSrcFam6.lean) does not panic and agrees with one
  `Eng.poll (raceOk false true)` of the model on: the returned value, number of children / counter / state table / stored
  errors (until the aggregate is returned), when the combinator is finished, the remaining scripts, the wakers handed out and
  the whole event trace (the model's trace is the translated code's trace plus the closing `pollEnd`; a finished child is
  dropped right after the poll that finished it, the aggregate lists the errors by position and drops nothing).

  TWO FIRST STATEMENTS WERE FALSE and are kept with their refutations:
  * `poll_tie_statement_v0` (`v0_false`): the poll that returns the aggregate replaces the slice by the empty one, so the
    struct has no slots afterwards where the model keeps `n` (and resets the states).  Corrected: equality of
    `n` / `cnt` / `st` / `out` until the aggregate; for the aggregate "the slice is empty" against "every state is `None`".
    Not observable: the combinator is finished; dropping it releases nothing on either side (`drop_failed_tie`).
  * `drop_tie_statement_v0` (`drop_v0_false`): the drop glue releases the slots in index order, the model lists the stored
    errors first and the running children after them.  Corrected: the same events up to their order (`List.Perm`) — each
    stored error and each running child exactly once.  (The harness compares drops as multisets for this reason.)

  Proof structure (helpers in FcLemmas/KTieRaceOkV{Model,Poll,Drop}.lean; reused: FcLemmas/KTieFamEnv.lean,
  FcLemmas/KTieLoopCore.lean, FcLemmas/KTieListFacts.lean):
    (a) `TieDirect.pollChild_tie`   `Rs.pollChild … (Wk.par cx)` with the dummy wake function = `World.pollChild c c`;
    (b) `md_poll_pend/ready/done`, `md_take_ok_*`, `md_take_err_err`, `md_drop_*`: the translated `MaybeDone` functions on a
        slot given by `MaybeDone.view` (what it holds);
    (c) `rv_visit_skip/pend/ok/err`   `Eng.visit (raceOk false true)` in the four cases the loop body distinguishes;
    (d) `forCtl_scan_idx`: `Rs.forCtl` over `0..n` refines `Eng.scan`, with an invariant that knows the position (the loop
        carries the local `all_done` = "every slot visited so far holds an output");
    (e) after the loop: `all_done` ⇔ the model's `cnt = n`; `collectMut` of `take_err` over a full row is the model's `outs`;
        the local `elems` dropped at the end of the block holds only `Gone`s (`rv_foldl_noop`);
    (f) `rv_drop_fold`, `rv_split_perm`: the drop glue, and the permutation.
  The proofs address the generated structure through `roleElems` and the slots through `view` / `ofView` only.
-/
import FcProps.KTieRaceOkVec
import FcLemmas.KTieRaceOkVPoll
import FcLemmas.KTieRaceOkVDrop

set_option linter.unusedSimpArgs false
set_option linter.unusedVariables false

namespace Fc
open Rs Src

namespace TieRaceOkV
open RaceOkV

/-- the statement, plus: the scripts stay scripted futures (for the environment and for the model's world, which is the
    `b` of the next poll) -/
theorem poll_tie_strong (N : Nat) (g : RaceOk) (b : Eng Fix) (w : Nat)
    (hW : WfK N g) (hS : FutStepsF b.w) (hd : b.s.dead = false) :
    ∃ g' env' ret,
      RaceOk.poll g w (((absK g b).w.emit (.pollBegin w)).setWaker w) = some (g', env', ret) ∧
      (ret = .pending → WfK N g') ∧
      ((∀ es, ret ≠ .ready (.err es)) →
        (absK g' b).s.n = (Eng.poll (raceOk false true) (absK g b) w).s.n ∧
        (absK g' b).s.cnt = (Eng.poll (raceOk false true) (absK g b) w).s.cnt ∧
        (absK g' b).s.st = (Eng.poll (raceOk false true) (absK g b) w).s.st ∧
        (absK g' b).s.out = (Eng.poll (raceOk false true) (absK g b) w).s.out) ∧
      ((∃ es, ret = .ready (.err es)) →
        g'.roleElems.len = 0 ∧ ∀ i, (Eng.poll (raceOk false true) (absK g b) w).s.st i = .none) ∧
      ((Eng.poll (raceOk false true) (absK g b) w).s.dead = true ↔ ret ≠ .pending) ∧
      env'.scripts = (Eng.poll (raceOk false true) (absK g b) w).w.scripts ∧
      env'.handed = (Eng.poll (raceOk false true) (absK g b) w).w.handed ∧
      (Eng.poll (raceOk false true) (absK g b) w).w.trace = .pollEnd (outcomeOfRaceOk ret) :: env'.trace ∧
      (FutStepsF env' ∧ FutStepsF (Eng.poll (raceOk false true) (absK g b) w).w) := by
  obtain ⟨g', env', ret, h1, h2⟩ := rv_poll_core N g b w hW hS hd
  exact ⟨g', env', ret, h1, h2⟩

theorem poll_tie : poll_tie_statement := by
  intro N g b w hW hS hd
  obtain ⟨g', env', ret, h1, a1, a2, a3, a4, a5, a6, a7, _⟩ := poll_tie_strong N g b w hW hS hd
  exact ⟨g', env', ret, h1, a1, a2, a3, a4, a5, a6, a7⟩

/-- dropping a race_ok that has not completed: every stored error and every running child exactly once -/
theorem drop_tie : drop_tie_statement := by
  intro N g b hW
  obtain ⟨evs, h1, h2⟩ := rv_drop_core N g b.s ((absK g b).w.emit .dropBegin) hW
  refine ⟨evs, h1, h2, ?_⟩
  simp [Eng.drop, World.emits, World.emit]

/-- after the aggregate: the empty slice, nothing to release -/
theorem drop_failed_tie : drop_failed_tie_statement := by
  intro g env h
  unfold RaceOk.dropGlue Rs.PVec.foldEach
  simp only [RaceOk.roleElems] at h
  simp [h]

theorem new_wf : new_wf_statement := rv_new_wf

/-! ### concrete runs: the hypotheses hold, the conclusions are checked by evaluation -/

/-- all three children fail (7, 8, 9), in the second poll / the first / the second -/
def scr : Nat → List Step := fun c =>
  if c = 0 then [⟨.pend, []⟩, ⟨.ready false 7, []⟩]
  else if c = 1 then [⟨.ready false 8, [(0, 0)]⟩]
  else [⟨.pend, [(2, 0)]⟩, ⟨.ready false 9, []⟩]
/-- the same, but child 2 succeeds with 9 in its second poll -/
def scrOk : Nat → List Step := fun c =>
  if c = 0 then [⟨.pend, []⟩, ⟨.ready false 7, []⟩]
  else if c = 1 then [⟨.ready false 8, [(0, 0)]⟩]
  else [⟨.pend, [(2, 0)]⟩, ⟨.ready true 9, []⟩]
def mk (s : Nat → List Step) : Eng Fix := { w := World.init .direct 3 s, s := Fix.init 3 0 }
/-- what `race_ok()` builds on three children -/
def g0 : RaceOk := ⟨⟨3, fun j => MaybeDone.ofView (some (.inl j))⟩⟩
/-- the same after the first poll of `scr` / `scrOk`: slot 1 stores the error 8 -/
def g1 : RaceOk := ⟨⟨3, fun j => if j = 1 then MaybeDone.ofView (some (.inr (.err 8))) else MaybeDone.ofView (some (.inl j))⟩⟩
def b1 (s : Nat → List Step) : Eng Fix := Eng.poll (raceOk false true) (absK g0 (mk s)) 1

theorem wf_g0 : WfK 3 g0 := ⟨rfl, fun i _ => Or.inl (md_view_ofView (some (.inl i)))⟩
theorem wf_g1 : WfK 3 g1 := by
  refine ⟨rfl, ?_⟩
  intro i hi
  have : i = 0 ∨ i = 1 ∨ i = 2 := by omega
  rcases this with rfl | rfl | rfl
  · exact Or.inl rfl
  · exact Or.inr ⟨8, rfl⟩
  · exact Or.inl rfl
example : (mk scr).s.dead = false := rfl
example : (b1 scr).s.dead = false := by decide
example : (b1 scrOk).s.dead = false := by decide
theorem fs_scr : FutStepsF (mk scr).w := by
  intro c st h
  simp only [mk, World.init, scr] at h
  split at h
  · simp at h; rcases h with rfl | rfl <;> simp
  · split at h
    · simp at h; subst h; simp
    · simp at h; rcases h with rfl | rfl <;> simp
example : FutStepsF (mk scrOk).w := by
  intro c st h
  simp only [mk, World.init, scrOk] at h
  split at h
  · simp at h; rcases h with rfl | rfl <;> simp
  · split at h
    · simp at h; subst h; simp
    · simp at h; rcases h with rfl | rfl <;> simp

/-- what the translated poll leaves in the slots, listed: length, state and stored value per slot -/
def tables (g : RaceOk) : Nat × List PS × List (Option Nat) :=
  (g.roleElems.len, (List.range g.roleElems.len).map (absS g (Fix.init 0 0)).st,
   (List.range g.roleElems.len).map (absS g (Fix.init 0 0)).out)

/-- everything the theorem's conclusion compares (for a poll that does not return the aggregate), as a Boolean, and the
    outcome -/
def agrees (N : Nat) (g : RaceOk) (b : Eng Fix) (w : Nat) : Option (Bool × Outcome) :=
  let m := Eng.poll (raceOk false true) (absK g b) w
  (RaceOk.poll g w (((absK g b).w.emit (.pollBegin w)).setWaker w)).map fun y =>
    ((match y.2.2 with
      | .ready (.err _) => decide (y.1.roleElems.len = 0) && decide ((List.range N).map m.s.st = (List.range N).map (fun _ => PS.none))
      | _ => decide ((absK y.1 b).s.n = m.s.n) && decide ((absK y.1 b).s.cnt = m.s.cnt) &&
             decide ((List.range N).map (absK y.1 b).s.st = (List.range N).map m.s.st) &&
             decide ((List.range N).map (absK y.1 b).s.out = (List.range N).map m.s.out)) &&
    decide (m.s.dead = true ↔ outcomeOfRaceOk y.2.2 ≠ .pending) &&
    decide (m.w.trace = .pollEnd (outcomeOfRaceOk y.2.2) :: y.2.1.trace) &&
    decide ((List.range 4).map (fun c => (y.2.1.scripts c).map fun st => (st.res, st.fires)) =
      (List.range 4).map (fun c => (m.w.scripts c).map fun st => (st.res, st.fires))) &&
    decide ((List.range 4).map y.2.1.handed = (List.range 4).map m.w.handed), outcomeOfRaceOk y.2.2)

/-- `race_ok()` on three children builds `g0` -/
example : (RaceOk.race_ok ⟨3⟩).map tables = some (tables g0) := by decide
/-- first poll: child 0 pending, child 1 fails with 8 (it wakes the task while it is polled) and is dropped at once,
    child 2 pending: `Pending` -/
example : agrees 3 g0 (mk scr) 1 = some (true, .pending) := by decide
example : (Eng.poll (raceOk false true) (absK g0 (mk scr)) 1).w.trace =
    [.pollEnd .pending, .childEnd 2 .pend, .woke 1, .fired 2 0 (some (.par 1)), .childBegin 2 2 (.par 1),
     .childDropped 1, .childEnd 1 (.ready false 8), .woke 1, .fired 0 0 (some (.par 1)), .childBegin 1 1 (.par 1),
     .childEnd 0 .pend, .childBegin 0 0 (.par 1), .pollBegin 1] := by decide
/-- … and it leaves `g1` -/
example : (RaceOk.poll g0 1 (((absK g0 (mk scr)).w.emit (.pollBegin 1)).setWaker 1)).map (fun y => tables y.1)
    = some (tables g1) := by decide
/-- second poll: slot 1 is not polled again, children 0 and 2 fail: the aggregate lists the errors BY POSITION -/
example : agrees 3 g1 (b1 scr) 2 = some (true, .ready false [7, 8, 9]) := by decide
/-- … and the struct holds the empty slice -/
example : (RaceOk.poll g1 2 (((absK g1 (b1 scr)).w.emit (.pollBegin 2)).setWaker 2)).map (fun y => tables y.1)
    = some (0, [], []) := by decide
/-- second poll of the other script: child 0 fails, child 2 succeeds: `Ok(9)` -/
example : agrees 3 g1 (b1 scrOk) 2 = some (true, .ready true [9]) := by decide
/-- … the two stored errors stay in their slots (the drop glue releases them), the winner's slot is `Gone` -/
example : (RaceOk.poll g1 2 (((absK g1 (b1 scrOk)).w.emit (.pollBegin 2)).setWaker 2)).map (fun y => tables y.1)
    = some (3, [.ready, .ready, .none], [some 7, some 8, none]) := by decide
/-- dropping `g1`: child 0, the stored error 8, child 2 — in slot order -/
example : ((RaceOk.dropGlue g1 ((absK g1 (b1 scr)).w.emit .dropBegin)).trace.take 4) =
    [.childDropped 2, .valDropped 8, .childDropped 0, .dropBegin] := by decide
/-- … where the model lists the stored error first -/
example : ((Eng.drop (raceOk false true) (absK g1 (b1 scr))).w.trace.take 5) =
    [.dropEnd, .childDropped 2, .childDropped 0, .valDropped 8, .dropBegin] := by decide
/-- N = 0: the aggregate of no errors at once, on both sides -/
example : agrees 0 ⟨⟨0, fun _ => MaybeDone.ofView none⟩⟩
    { w := World.init .direct 0 scr, s := Fix.init 0 0 } 1 = some (true, .ready false []) := by decide
/-- the hypothesis `FutStepsF` is needed: a child answering like a stream is ill-typed for `Future::poll`, the translated
    code panics there -/
example : (RaceOk.poll g0 1 (World.init .direct 3 (fun _ => [⟨.item 5, []⟩]))).isNone = true := by decide
/-- so is `WfK.rs`: a slot whose value was taken (`Gone`) panics when polled ("MaybeDone polled after value taken") -/
example : (RaceOk.poll ⟨⟨1, fun _ => MaybeDone.ofView none⟩⟩ 1 (World.init .direct 1 scr)).isNone = true := by decide
/-- beyond the statement (`dead = true`): polled again after the aggregate, the crate answers the EMPTY aggregate again
    (the loop runs over no slots, `all_done` stays `true`) where the model reports misuse -/
example : (RaceOk.poll ⟨⟨0, fun _ => MaybeDone.ofView none⟩⟩ 1 (World.init .direct 3 scr)).map
    (fun y => outcomeOfRaceOk y.2.2) = some (.ready false []) := by decide

/-! ### the first statements are false -/

/-- the poll that returns the aggregate leaves a struct of length 0, the model keeps `n = 3` -/
theorem v0_false : ¬ poll_tie_statement_v0 := by
  intro h
  obtain ⟨g', env', ret, hp, hn, _⟩ := h 3 g1 (b1 scr) 2 wf_g1 (by
    have := (poll_tie_strong 3 g0 (mk scr) 1 wf_g0 fs_scr rfl)
    obtain ⟨_, _, _, _, _, _, _, _, _, _, _, _, h2⟩ := this
    exact h2) (by decide)
  have h1 : (RaceOk.poll g1 2 (((absK g1 (b1 scr)).w.emit (.pollBegin 2)).setWaker 2)).map
      (fun y => y.1.roleElems.len) = some 0 := by decide
  have h2 : (Eng.poll (raceOk false true) (absK g1 (b1 scr)) 2).s.n = 3 := by decide
  rw [hp] at h1
  have h1' : g'.roleElems.len = 0 := by simpa using h1
  have hn' : g'.roleElems.len = 3 := hn.trans h2
  omega

/-- the drop glue works in slot order, the model lists the stored errors first -/
theorem drop_v0_false : ¬ drop_tie_statement_v0 := by
  intro h
  have := h 3 g1 (mk scr) wf_g1
  revert this
  decide

end TieRaceOkV

#print axioms TieRaceOkV.poll_tie_strong
#print axioms TieRaceOkV.poll_tie
#print axioms TieRaceOkV.drop_tie
#print axioms TieRaceOkV.drop_failed_tie
#print axioms TieRaceOkV.new_wf
#print axioms TieRaceOkV.v0_false
#print axioms TieRaceOkV.drop_v0_false
#print axioms TieRaceOkV.wf_g0
#print axioms TieRaceOkV.wf_g1
#print axioms TieRaceOkV.fs_scr

end Fc
