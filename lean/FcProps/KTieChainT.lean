/-
  Kernel tie, fixed families — `(A, B, …).chain()` (src/stream/chain/tuple.rs, `impl_chain_for_tuple!`), direct
  strategy, policy `chain`.  The tuple counterpart of FcProps/KTieChainA.lean, ported from it.

  `TieChainT.poll_tie` proves `TieChainT.poll_tie_statement` of FcProps/KTieChainTup.lean, unchanged: for every number
  of inputs `N` (the const generic over which tools/tuple_norm.py normalises rustc's expansion of the twelve arities),
  every translated `Chain` value `g` that is well-formed (`WfC N`: there are `N` inputs, `index ≤ N`) and not yet
  `done`, and every environment whose children are scripted streams (`StreamStepsF`), the `poll_next` function
  TRANSLATED FROM THE SOURCE (`ChainT.Chain.poll_next N`, FcGen/KSrcTup6.lean; the Rust `loop` is `Rs.loopFuel` with
  fuel `N + index + 1`) does not panic — in particular the `assert!(index < N)` standing for the `_ => unreachable!()`
  arm of the dispatch over the tuple's fields never fires — and does not run out of fuel, returns a well-formed `g'`,
  and agrees with one `Eng.poll chain` of the model on: number of inputs, current index, `done` flag, the remaining
  scripts, the wakers handed out, and the whole event trace (the model's trace is the translated code's trace plus the
  closing `pollEnd` of the returned value).
  `poll_tie_strong` adds what is needed to apply the theorem to the next poll: `StreamStepsF env'`, same inputs.
  `new_wf`: the translated constructor `Chain::new` (which the tuple unit, unlike the array and Vec units, does
  translate) yields a well-formed, not-`done` value over the given inputs, at index 0 — for every `N`, also `N = 0`.
  (`Chain` has no `PinnedDrop` in the source and KTieChainTup.lean states no drop tie for it: there is no `drop_tie`.)

  Differences from the array: the struct has no `len` field, the number of inputs is the parameter `N` itself (so
  `absC` takes `N`, and `N` occurs in the loop body: end test `N == index`, `assert!(index < N)`); the match arms of the
  body come in another order (immaterial: `BodySpec` is by cases on the answer).

  Proof structure (helpers in FcLemmas/KTieChainEnv.lean — shared with the Vec and array proofs, it does not mention
  the container — and FcLemmas/KTieChainTLoop.lean):
    (a) `TieDirect.pollChild_tie` (race's direct-strategy lemma) lifted to `Rs.pollStream`:
        `ch_pollStream_pend/item/fin`   `Rs.pollStream … (Wk.par cx)` = `World.pollChild c c`;
    (b) `ch_visit_pend/item/fin`, `ch_poll_live`, `ch_close_some/none`   the model side unfolded for chain;
    (c) `BodySpec N`  what one iteration of the translated loop body does, by cases, through roles only;
        `poll_tie_strong` below proves it for the body taken from the generated definition by unification;
    (d) `ch_loop`    `Rs.loopFuel` with that body refines `Eng.close chain ∘ Eng.scan chain` over
        `List.range' index (N - index)` (induction on the number of inputs still to visit; fuel suffices).
  The proofs address the generated structure through its `role…` abbreviations only.
-/
import FcProps.KTieChainTup
import FcLemmas.KTieChainTLoop
import FcLemmas.KTieLoopCore

set_option linter.unusedSimpArgs false
set_option linter.unusedVariables false

namespace Fc
open Rs Src

namespace TieChainT
open ChainT TieDirect TieLoop TieChainEnv

local macro "unroles" : tactic =>
  `(tactic| try simp only [absC, Chain.roleKids, Chain.roleCount, Chain.roleDone] at *)

/-- the statement, plus: the environment handed back is again one of scripted streams (so the theorem applies to the
    next poll as well) and the inputs are unchanged -/
theorem poll_tie_strong (N : Nat) (g : Chain) (b : Eng Fix) (w : Nat) (hwf : WfC N g) (hfs : StreamStepsF b.w)
    (hd : g.roleDone = false) :
    ∃ g' env' ret,
      Chain.poll_next N g w (((absC N g b).w.emit (.pollBegin w)).setWaker w) = some (g', env', ret) ∧
      (WfC N g' ∧
      (absC N g' b).s.n = (Eng.poll chain (absC N g b) w).s.n ∧
      (absC N g' b).s.cnt = (Eng.poll chain (absC N g b) w).s.cnt ∧
      (absC N g' b).s.dead = (Eng.poll chain (absC N g b) w).s.dead ∧
      env'.scripts = (Eng.poll chain (absC N g b) w).w.scripts ∧
      env'.handed = (Eng.poll chain (absC N g b) w).w.handed ∧
      (Eng.poll chain (absC N g b) w).w.trace = .pollEnd (outcomeOfStream ret) :: env'.trace) ∧
      StreamStepsF env' ∧ g'.roleKids = g.roleKids := by
  obtain ⟨hkn, hix⟩ := hwf
  have hlive : (absC N g b).s.dead = false := hd
  rw [ch_poll_live _ _ hlive]
  generalize he0 : ({ w := ((absC N g b).w.emit (.pollBegin w)).setWaker w, s := (absC N g b).s } : Eng Fix) = e0
  have hcnt : (absC N g b).s.cnt = g.roleCount := rfl
  have hn : (absC N g b).s.n = N := rfl
  rw [hcnt, hn]
  generalize hE : Eng.close chain (Eng.scan chain (List.range' g.roleCount (N - g.roleCount)) e0) = E
  suffices hs : ∃ y : Chain × World × Rs.Poll (Option Nat),
      Chain.poll_next N g w (((absC N g b).w.emit (.pollBegin w)).setWaker w) = some y ∧
      (WfC N y.1 ∧ (absC N y.1 b).s.n = E.s.n ∧ (absC N y.1 b).s.cnt = E.s.cnt ∧ (absC N y.1 b).s.dead = E.s.dead ∧
        y.2.1.scripts = E.w.scripts ∧ y.2.1.handed = E.w.handed ∧
        E.w.trace = .pollEnd (outcomeOfStream y.2.2) :: y.2.1.trace) ∧
        StreamStepsF y.2.1 ∧ y.1.roleKids = g.roleKids by
    obtain ⟨⟨g', env', ret⟩, h1, h2⟩ := hs
    exact ⟨g', env', ret, h1, h2⟩
  unfold Chain.poll_next
  have hd' := hd
  unroles
  simp only [hd', Bool.not_false, if_true, Option.pure_def, Option.bind_eq_bind, Option.bind_some]
  refine bind_spec _ _ (Post N E) _ ?_ ?_
  · -- the loop
    rw [← hE]
    refine ch_loop w N _ ?hb (N - g.roleCount) g _ e0 _ ?_ ?_ hkn hd ?_ ?_ ?_ ?_ rfl rfl hfs
    case hb =>
      refine ⟨?_, ?_, ?_, ?_⟩
      · intro g env h
        unroles
        simp only [h, beq_self_eq_true, if_true]
        exact ⟨_, rfl, rfl, rfl, rfl⟩
      · intro g env env' hlN hlt hp
        have hb : (N == g.roleCount) = false := by simp; omega
        unroles
        simp [hb, hlN, Kids.get, hlt, expect, hp]
      · intro g env env' v hlN hlt hp
        have hb : (N == g.roleCount) = false := by simp; omega
        unroles
        simp [hb, hlN, Kids.get, hlt, expect, hp]
      · intro g env env' hlN hlt hp
        have hb : (N == g.roleCount) = false := by simp; omega
        refine ⟨?g', ?h, ?_, ?_, ?_⟩
        case h =>
          unroles
          simp only [hb, hlN, decide_true, Kids.get, hlt, expect, hp, uadd, Bool.false_eq_true, if_false, if_true,
            Option.pure_def, Option.bind_eq_bind, Option.bind_some]
          rfl
        all_goals rfl
    · unroles; omega
    · unroles; omega
    · subst he0; rfl
    · subst he0; rfl
    · subst he0; rfl
    · subst he0; exact hd
  · -- after the loop
    rintro ⟨⟨self, env⟩, r⟩ ⟨v, hr, hk, hi, hEn, hEc, hEd, hsc, hha, htr, hss⟩
    simp only at hr hk hi hEn hEc hEd hsc hha htr hss
    subst hr
    refine ⟨(self, env, v), rfl, ⟨⟨hk, hi⟩, hEn.symm, hEc.symm, hEd.symm, hsc, hha, htr⟩, hss, ?_⟩
    -- `Rs.Kids` is its length
    exact kids_ext _ _ (hk.trans hkn.symm)

theorem poll_tie : poll_tie_statement := by
  intro N g b w hwf hfs hd
  obtain ⟨g', env', ret, h1, h2, -, -⟩ := poll_tie_strong N g b w hwf hfs hd
  exact ⟨g', env', ret, h1, h2⟩

/-- the translated constructor: well-formed for every `N`, not done, over the given inputs, at the first one -/
theorem new_wf (N : Nat) (kids : Rs.Kids) (hk : kids.len = N) :
    ∃ g, Chain.new N kids = some g ∧ WfC N g ∧ g.roleDone = false ∧ g.roleKids = kids ∧ g.roleCount = 0 :=
  ⟨_, rfl, ⟨hk, Nat.zero_le _⟩, rfl, rfl, rfl⟩

end TieChainT

/-! ## non-vacuity: a concrete instance of the hypotheses, and the conclusions checked by evaluation -/
namespace TieChainTEx
open ChainT TieChainT

/-- three streams; inputs 0 and 1 end at once, input 2 yields 5 and then ends -/
def sc : Nat → List Step := fun c =>
  if c = 0 then [⟨.fin, []⟩] else if c = 1 then [⟨.fin, []⟩] else if c = 2 then [⟨.item 5, []⟩, ⟨.fin, []⟩] else []

def b0 : Eng Fix := { w := World.init .direct 3 sc, s := Fix.init 3 3 }

example : StreamStepsF b0.w := by
  intro c st h
  simp only [b0, World.init, sc] at h
  split at h
  · simp at h; subst h; simp
  · split at h
    · simp at h; subst h; simp
    · split at h
      · simp at h; rcases h with rfl | rfl <;> simp
      · simp at h

/-- the hypotheses of `poll_tie` hold of `Chain::new` -/
example : ∃ g, Chain.new 3 ⟨3⟩ = some g ∧ WfC 3 g ∧ g.roleDone = false ∧ g.roleKids = ⟨3⟩ ∧ g.roleCount = 0 :=
  new_wf 3 ⟨3⟩ rfl
/-- also of the empty tuple's shape (`N = 0`; the macro has no such arity, the normalised source does not mind) -/
example : ∃ g, Chain.new 0 ⟨0⟩ = some g ∧ WfC 0 g ∧ g.roleDone = false ∧ g.roleKids = ⟨0⟩ ∧ g.roleCount = 0 :=
  new_wf 0 ⟨0⟩ rfl

/-- First poll of `Chain::new(3 streams)`: inputs 0 and 1 end, input 2 yields 5 — three turns of
    the `loop` in one `poll_next`, the index moves from 0 to 2; traces and indices agree.  Second poll: input 2 ends,
    nothing is left: the end test `N == index` holds, `done` is set on both sides, `Ready(None)` -/
example :
    (do let g ← Chain.new 3 ⟨3⟩
        let (g', env', ret) ← Chain.poll_next 3 g 1 (((absC 3 g b0).w.emit (.pollBegin 1)).setWaker 1)
        let m := Eng.poll chain (absC 3 g b0) 1
        let b1 : Eng Fix := { b0 with w := env'.emit (.pollEnd (outcomeOfStream ret)) }
        let (g2, env2, ret2) ← Chain.poll_next 3 g' 2 (((absC 3 g' b1).w.emit (.pollBegin 2)).setWaker 2)
        let m2 := Eng.poll chain (absC 3 g' b1) 2
        pure (decide (m.w.trace = .pollEnd (outcomeOfStream ret) :: env'.trace) && decide (outcomeOfStream ret = .some 0 [5]) &&
              decide ((absC 3 g' b0).s.cnt = m.s.cnt ∧ m.s.cnt = 2 ∧ g'.roleDone = false) &&
              decide (m2.w.trace = .pollEnd (outcomeOfStream ret2) :: env2.trace) && decide (outcomeOfStream ret2 = .none) &&
              decide (g2.roleDone = true ∧ m2.s.dead = true ∧ g2.roleCount = 3 ∧ m2.s.cnt = 3)))
      = some true := by decide

/-- the trace of the first poll, spelled out (newest first) -/
example :
    (do let g ← Chain.new 3 ⟨3⟩
        pure (Eng.poll chain (absC 3 g b0) 1).w.trace) =
      some [.pollEnd (.some 0 [5]), .childEnd 2 (.item 5), .childBegin 2 2 (.par 1), .childEnd 1 .fin,
        .childBegin 1 1 (.par 1), .childEnd 0 .fin, .childBegin 0 0 (.par 1), .pollBegin 1] := by decide

/-- everything else the theorem's conclusion compares, on the first poll: number of inputs, remaining scripts, wakers -/
example :
    (do let g ← Chain.new 3 ⟨3⟩
        let (g', env', _) ← Chain.poll_next 3 g 1 (((absC 3 g b0).w.emit (.pollBegin 1)).setWaker 1)
        let m := Eng.poll chain (absC 3 g b0) 1
        pure (decide ((absC 3 g' b0).s.n = m.s.n ∧ (absC 3 g' b0).s.dead = m.s.dead) &&
              decide ((List.range 4).map (fun c => (env'.scripts c).map fun st => (st.res, st.fires)) =
                (List.range 4).map (fun c => (m.w.scripts c).map fun st => (st.res, st.fires))) &&
              decide ((List.range 4).map env'.handed = (List.range 4).map m.w.handed)))
      = some true := by decide

/-- the hypothesis `StreamStepsF` is needed: a child answering like a future is ill-typed for `Stream::poll_next`, the
    translated code panics there -/
example : (Chain.poll_next 3 ⟨0, false, ⟨3⟩⟩ 1 (World.init .direct 3 (fun _ => [⟨.ready true 5, []⟩]))).isNone = true := by
  decide
/-- so is `WfC.kn`: with `N = 2` but one input actually present the field access panics -/
example : (Chain.poll_next 2 ⟨1, false, ⟨1⟩⟩ 1 (World.init .direct 1 sc)).isNone = true := by decide
/-- and `WfC.ix`: with the index beyond `N` the end test `N == index` never holds and `assert!(index < N)` — the
    `unreachable!()` arm of the source's dispatch — fires -/
example : (Chain.poll_next 3 ⟨4, false, ⟨3⟩⟩ 1 (World.init .direct 3 sc)).isNone = true := by decide
/-- and `roleDone = false`: polling a finished chain is the `assert!` at the top of `poll_next` -/
example : (Chain.poll_next 3 ⟨3, true, ⟨3⟩⟩ 1 (World.init .direct 3 sc)).isNone = true := by decide

end TieChainTEx

#print axioms TieChainT.poll_tie_strong
#print axioms TieChainT.poll_tie
#print axioms TieChainT.new_wf

end Fc
