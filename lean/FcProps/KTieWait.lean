/-
  Kernel tie, `wait_until` — `WaitUntil::poll` (src/future/wait_until.rs) and `WaitUntil::poll_next`
  (src/stream/wait_until.rs), direct strategy, policies `waitUntilF` / `waitUntilS`.

  `TieWaitF.poll_tie`, `TieWaitF.poll_completed`, `TieWaitS.poll_tie` prove the three statements of
  FcProps/KTieWaitUntil.lean, unchanged.

  Future.  For every translated `WaitUntil` value `g` whose two children are numbered like the model's (`WfW`: deadline
  0, inner future 1) and that is not completed, and every environment of scripted futures (`FutStepsF`), the `poll`
  function TRANSLATED FROM THE SOURCE (`WaitF.WaitUntil.poll`, FcGen/KSrcWait.lean; the Rust `loop` over the `State`
  enum is `Rs.loopFuel` with fuel 4) does not panic and does not run out of fuel, returns a well-formed `g'`, and agrees
  with one `Eng.poll waitUntilF` of the model on: where the state machine stands (`cnt`, `dead`), the remaining scripts,
  the wakers handed out, and the whole event trace — including the `valDropped` of the deadline's output right after the
  deadline's poll, BEFORE the inner future is polled (`ready!(deadline.poll(cx));` drops it at the end of the statement).
  Polling a completed `WaitUntil` panics (`poll_completed`).

  Stream.  Same for `WaitS.WaitUntil.poll_next` against `Eng.poll waitUntilS`, with the deadline scripted as a future
  and the inner stream as a stream (`StepsW`), a live model state whose one-slot buffer is empty; here the `valDropped`
  of the deadline's output comes AFTER the inner stream's first poll (the value lives in the `match` scrutinee's
  temporary), which is what the model's buffer `out 0` reproduces.  The model's `dead` becomes `true` exactly when the
  translated function returns `Ready(None)`.

  The `_strong` variants add what is needed to apply the theorems to the next poll (the environment handed back is
  again well-behaved).

  Proof structure (helpers in FcLemmas/KTieWaitEnv.lean, KTieWaitLoop.lean, KTieWaitStream.lean):
    (a) `TieDirect.pollFut_tie`, `TieChainEnv.ch_pollStream_*`   a child poll with the caller's waker = `World.pollChild c c`;
    (b) `wf_visit_*`, `ws_visit_*`, `wf_poll_live`, `ws_poll_live`   the model side unfolded;
    (c) `TieWaitF.BodySpec`   one turn of the translated loop by cases on `State.toNat` and the child's answer, proved
        below for the body taken from the generated definition by unification; `wf_loop_deadline`, `wf_loop_inner`
        the loop against `close ∘ scan`;  `TieWaitS.pn_*`, `ws_run_timer`, `ws_run_stream`   the same for the stream.
  The proofs address the generated structures through their `role…` abbreviations and `State.toNat` only.
-/
import FcProps.KTieWaitUntil
import FcLemmas.KTieWaitLoop
import FcLemmas.KTieWaitStream
import FcLemmas.KTieLoopCore

set_option linter.unusedSimpArgs false
set_option linter.unusedVariables false

namespace Fc
open Rs Src

namespace TieWaitF
open WaitF TieDirect TieLoop TieWaitEnv

local macro "unroles" : tactic =>
  `(tactic| try simp only [WaitUntil.roleInner, WaitUntil.roleDeadline, WaitUntil.roleState] at *)

/-- the statement, plus: the environment handed back is again one of scripted futures -/
theorem poll_tie_strong (g : WaitUntil) (b : Eng Fix) (w : Nat) (hwf : WfW g) (hfs : FutStepsF b.w)
    (hst : g.roleState.toNat ≠ 2) :
    ∃ g' env' ret,
      WaitUntil.poll g w (((absW g b).w.emit (.pollBegin w)).setWaker w) = some (g', env', ret) ∧
      (WfW g' ∧
      (absW g' b).s.cnt = (Eng.poll waitUntilF (absW g b) w).s.cnt ∧
      (absW g' b).s.dead = (Eng.poll waitUntilF (absW g b) w).s.dead ∧
      env'.scripts = (Eng.poll waitUntilF (absW g b) w).w.scripts ∧
      env'.handed = (Eng.poll waitUntilF (absW g b) w).w.handed ∧
      (Eng.poll waitUntilF (absW g b) w).w.trace = .pollEnd (outcomeOfRace ret) :: env'.trace) ∧
      FutStepsF env' := by
  have hlive : (absW g b).s.dead = false := by simp [absW, hst]
  rw [wf_poll_live _ _ hlive rfl]
  generalize he0 : ({ w := ((absW g b).w.emit (.pollBegin w)).setWaker w, s := (absW g b).s } : Eng Fix) = e0
  have hcnt : (absW g b).s.cnt = if g.roleState.toNat = 0 then 0 else 1 := rfl
  have hc0 : (absW g b).s.cnt = e0.s.cnt := by subst he0; rfl
  rw [hc0]
  generalize hE : Eng.close waitUntilF (Eng.scan waitUntilF (if e0.s.cnt = 0 then [0, 1] else [1]) e0) = E
  suffices hs : ∃ y : WaitUntil × World × Rs.Poll Nat,
      WaitUntil.poll g w (((absW g b).w.emit (.pollBegin w)).setWaker w) = some y ∧
      (WfW y.1 ∧ (absW y.1 b).s.cnt = E.s.cnt ∧ (absW y.1 b).s.dead = E.s.dead ∧
        y.2.1.scripts = E.w.scripts ∧ y.2.1.handed = E.w.handed ∧
        E.w.trace = .pollEnd (outcomeOfRace y.2.2) :: y.2.1.trace) ∧ FutStepsF y.2.1 by
    obtain ⟨⟨g', env', ret⟩, h1, h2⟩ := hs
    exact ⟨g', env', ret, h1, h2⟩
  unfold WaitUntil.poll
  simp only [Option.pure_def, Option.bind_eq_bind]
  refine bind_spec _ _ (Post E) _ ?_ ?_
  · -- the loop
    rw [← hE]
    refine wf_loop w _ ?hb g _ e0 _ ?_ hwf hst ?_ ?_ ?_ ?_ ?_ ?_
    case hb =>
      refine ⟨?_, ?_, ?_, ?_, ?_⟩
      · intro g env env' hst hp
        cases hs : g.roleState <;> unroles <;> simp [hs, State.toNat] at hst <;> simp [hs, hp]
      · intro g env env' v hst hp
        cases hs : g.roleState <;> unroles <;> simp [hs, State.toNat] at hst <;> simp [hs, hp, State.toNat]
      · intro g env env' hst hp
        cases hs : g.roleState <;> unroles <;> simp [hs, State.toNat] at hst <;> simp [hs, hp]
      · intro g env env' v hst hp
        cases hs : g.roleState <;> unroles <;> simp [hs, State.toNat] at hst <;> simp [hs, hp, State.toNat]
      · intro g env hst
        cases hs : g.roleState <;> unroles <;> simp [hs, State.toNat] at hst <;> simp [hs]
    · omega
    · subst he0; rfl
    · subst he0; rfl
    · subst he0; exact hlive
    · rfl
    · rfl
    · exact hfs
  · -- after the loop
    rintro ⟨⟨self, env⟩, r⟩ ⟨v, hr, hwf', hEc, hEd, hsc, hha, htr, hss⟩
    simp only at hr hwf' hEc hEd hsc hha htr hss
    subst hr
    exact ⟨(self, env, v), rfl, ⟨hwf', hEc.symm, hEd.symm, hsc, hha, htr⟩, hss⟩

theorem poll_tie : poll_tie_statement := by
  intro g b w hwf hfs hst
  obtain ⟨g', env', ret, h1, h2, -⟩ := poll_tie_strong g b w hwf hfs hst
  obtain ⟨a, b', c, d, e, f⟩ := h2
  exact ⟨g', env', ret, h1, a, b', c, d, e, f⟩

/-- polling a completed `WaitUntil` panics ("future polled after completing") -/
theorem poll_completed : poll_completed_statement := by
  intro g w env hst
  unfold WaitUntil.poll
  cases hs : g.roleState <;> unroles <;> simp [hs, State.toNat] at hst <;> simp [Rs.loopFuel, hs]

/-! ### a concrete run: the hypotheses hold, the conclusion is checked by evaluation -/

/-- the deadline (child 0) is pending once (and wakes the task itself), then resolves with 5; the inner future
    (child 1) is pending once, then resolves with 9 -/
def scr : Nat → List Step := fun c =>
  if c = 0 then [⟨.pend, [(0, 0)]⟩, ⟨.ready true 5, []⟩]
  else if c = 1 then [⟨.pend, []⟩, ⟨.ready true 9, []⟩] else []

def b0 : Eng Fix := { w := World.init .direct 2 scr, s := Fix.init 2 0 }
/-- the initial state of the enum = its first variant (not named here: harmless renames must not matter) -/
def s0 : State := by constructor
/-- inner future 1, deadline 0, initial state -/
def g0 : WaitUntil := ⟨1, 0, s0⟩

example : WfW g0 := ⟨rfl, rfl⟩
example : g0.roleState.toNat = 0 := rfl
example : FutStepsF b0.w := by
  intro c st h
  simp only [b0, World.init, scr] at h
  split at h
  · simp at h; rcases h with rfl | rfl <;> simp
  · split at h
    · simp at h; rcases h with rfl | rfl <;> simp
    · simp at h

/-- everything the theorem's conclusion compares, as a Boolean -/
def agrees (g : WaitUntil) (b : Eng Fix) (w : Nat) : Option Bool :=
  (WaitUntil.poll g w (((absW g b).w.emit (.pollBegin w)).setWaker w)).map fun y =>
    decide ((absW y.1 b).s.cnt = (Eng.poll waitUntilF (absW g b) w).s.cnt) &&
    decide ((absW y.1 b).s.dead = (Eng.poll waitUntilF (absW g b) w).s.dead) &&
    decide ((Eng.poll waitUntilF (absW g b) w).w.trace = .pollEnd (outcomeOfRace y.2.2) :: y.2.1.trace) &&
    decide ((List.range 3).map (fun c => (y.2.1.scripts c).map fun st => (st.res, st.fires)) =
      (List.range 3).map (fun c => ((Eng.poll waitUntilF (absW g b) w).w.scripts c).map fun st => (st.res, st.fires))) &&
    decide ((List.range 3).map y.2.1.handed = (List.range 3).map (Eng.poll waitUntilF (absW g b) w).w.handed)

/-- the translated code, iterated: the state after the polls with the given task wakers (newest first) -/
def runT : List Nat → Option (WaitUntil × World)
  | [] => some (g0, b0.w)
  | w :: ws => do
    let (g, env) ← runT ws
    let (g', env', r) ← WaitUntil.poll g w ((env.emit (.pollBegin w)).setWaker w)
    pure (g', env'.emit (.pollEnd (outcomeOfRace r)))

/-- where the translated code stands after the given polls -/
def gAfter (ws : List Nat) : WaitUntil := ((runT ws).map (·.1)).getD g0

/-- first poll: the deadline is pending (and wakes the task) -/
example : agrees g0 b0 1 = some true := by decide
example : (gAfter [1]).roleState.toNat = 0 := by decide
def b1 : Eng Fix := Eng.poll waitUntilF (absW g0 b0) 1
/-- second poll — THE POLL IN WHICH THE DEADLINE RESOLVES: two turns of the `loop`; the deadline's output 5 is dropped
    right after the deadline's poll, before the inner future is polled; the inner future is pending -/
example : agrees (gAfter [1]) b1 2 = some true := by decide
example : (Eng.poll waitUntilF (absW (gAfter [1]) b1) 2).w.trace.take 7 =
    [.pollEnd .pending, .childEnd 1 .pend, .childBegin 1 1 (.par 2), .valDropped 5,
     .childEnd 0 (.ready true 5), .childBegin 0 0 (.par 2), .pollBegin 2] := by decide
example : (runT [2, 1]).map (fun x => (x.1.roleState.toNat, x.2.trace.take 7)) =
    some (1, [.pollEnd .pending, .childEnd 1 .pend, .childBegin 1 1 (.par 2), .valDropped 5,
     .childEnd 0 (.ready true 5), .childBegin 0 0 (.par 2), .pollBegin 2]) := by decide
def b2 : Eng Fix := Eng.poll waitUntilF (absW (gAfter [1]) b1) 2
/-- `gAfter`, `b2` are where the translated code itself stands after two polls -/
example : (runT [2, 1]).map (fun x => decide (x.2.trace = b2.w.trace)) = some true := by decide
/-- third poll (a later one): only the inner future is polled, it resolves with 9: completed -/
example : agrees (gAfter [2, 1]) b2 3 = some true := by decide
example : (runT [3, 2, 1]).map (fun x => (x.1.roleState.toNat, x.2.trace.take 4)) =
    some (2, [.pollEnd (.ready true [9]), .childEnd 1 (.ready true 9), .childBegin 1 1 (.par 3), .pollBegin 3]) := by
  decide
example : (Eng.poll waitUntilF (absW (gAfter [2, 1]) b2) 3).s.dead = true := by decide
/-- fourth poll: the `panic!` of the completed state (`poll_completed`) -/
example : (runT [4, 3, 2, 1]).isNone = true := by decide
/-- the hypothesis `FutStepsF` is needed: a child answering like a stream is ill-typed for `Future::poll`, the
    translated code panics there -/
example : (WaitUntil.poll g0 1 (World.init .direct 2 (fun _ => [⟨.item 5, []⟩]))).isNone = true := by decide

end TieWaitF

namespace TieWaitS
open WaitS TieDirect TieWaitEnv

/-- the statement, plus: the environment handed back is again well-behaved (`StepsW`) -/
theorem poll_tie_strong (g : WaitUntil) (b : Eng Fix) (w : Nat) (hwf : WfW g) (hfs : StepsW b.w)
    (hd : b.s.dead = false) (ho : b.s.out 0 = none) :
    ∃ g' env' ret,
      WaitUntil.poll_next g w (((absW g b).w.emit (.pollBegin w)).setWaker w) = some (g', env', ret) ∧
      (WfW g' ∧
      (absW g' b).s.cnt = (Eng.poll waitUntilS (absW g b) w).s.cnt ∧
      (Eng.poll waitUntilS (absW g b) w).s.out 0 = none ∧
      ((Eng.poll waitUntilS (absW g b) w).s.dead = true ↔ ret = .ready none) ∧
      env'.scripts = (Eng.poll waitUntilS (absW g b) w).w.scripts ∧
      env'.handed = (Eng.poll waitUntilS (absW g b) w).w.handed ∧
      (Eng.poll waitUntilS (absW g b) w).w.trace = .pollEnd (outcomeOfStream ret) :: env'.trace) ∧
      StepsW env' := by
  have hlive : (absW g b).s.dead = false := hd
  rw [ws_poll_live _ _ hlive rfl]
  have hcnt : (absW g b).s.cnt = g.roleState.toNat := rfl
  have hlt := state_lt g.roleState
  suffices hs : ∃ y : Ret,
      WaitUntil.poll_next g w (((absW g b).w.emit (.pollBegin w)).setWaker w) = some y ∧
      Post (Eng.close waitUntilS (Eng.scan waitUntilS (if (absW g b).s.cnt = 0 then [0, 1] else [1])
        { w := ((absW g b).w.emit (.pollBegin w)).setWaker w, s := (absW g b).s })) y by
    obtain ⟨⟨g', env', ret⟩, h1, hwf', hc, hout, hdd, hsc, hha, htr, hss⟩ := hs
    exact ⟨g', env', ret, h1, ⟨hwf', hc.symm, hout, hdd, hsc, hha, htr⟩, hss⟩
  by_cases h0 : g.roleState.toNat = 0
  · have hc : (absW g b).s.cnt = 0 := hcnt.trans h0
    simp only [hc, if_true]
    exact ws_run_timer w g { w := ((absW g b).w.emit (.pollBegin w)).setWaker w, s := (absW g b).s }
      hwf h0 hc ho hlive rfl rfl hfs
  · have h1 : g.roleState.toNat = 1 := by omega
    have hc : (absW g b).s.cnt = 1 := hcnt.trans h1
    simp only [hc, if_false, Nat.one_ne_zero]
    exact ws_run_stream w g { w := ((absW g b).w.emit (.pollBegin w)).setWaker w, s := (absW g b).s }
      hwf h1 hc ho hlive rfl rfl hfs

theorem poll_tie : poll_tie_statement := by
  intro g b w hwf hfs hd ho
  obtain ⟨g', env', ret, h1, h2, -⟩ := poll_tie_strong g b w hwf hfs hd ho
  obtain ⟨a, b', c, d, e, f, h⟩ := h2
  exact ⟨g', env', ret, h1, a, b', c, d, e, f, h⟩

/-! ### a concrete run: the hypotheses hold, the conclusion is checked by evaluation -/

/-- the deadline (child 0) is pending once (and wakes the task itself), then resolves with 5; the inner stream
    (child 1) yields 7, is pending once, ends -/
def scr : Nat → List Step := fun c =>
  if c = 0 then [⟨.pend, [(0, 0)]⟩, ⟨.ready true 5, []⟩]
  else if c = 1 then [⟨.item 7, []⟩, ⟨.pend, []⟩, ⟨.fin, []⟩] else []

def b0 : Eng Fix := { w := World.init .direct 2 scr, s := Fix.init 2 0 }
/-- the initial state of the enum = its first variant (not named here: harmless renames must not matter) -/
def s0 : State := by constructor
/-- inner stream 1, deadline 0, initial state -/
def g0 : WaitUntil := ⟨1, 0, s0⟩

example : WfW g0 := ⟨rfl, rfl⟩
example : g0.roleState.toNat = 0 := rfl
example : b0.s.dead = false ∧ b0.s.out 0 = none := ⟨rfl, rfl⟩
example : StepsW b0.w := by
  refine ⟨?_, ?_⟩
  · intro st h
    simp [b0, World.init, scr] at h
    rcases h with rfl | rfl <;> simp
  · intro c st hc h
    simp only [b0, World.init, scr, hc, if_false] at h
    split at h
    · simp at h; rcases h with rfl | rfl | rfl <;> simp
    · simp at h

/-- everything the theorem's conclusion compares, as a Boolean (`Poll` has no decidable equality: the `dead` clause is
    checked through the outcome) -/
def agrees (g : WaitUntil) (b : Eng Fix) (w : Nat) : Option Bool :=
  (WaitUntil.poll_next g w (((absW g b).w.emit (.pollBegin w)).setWaker w)).map fun y =>
    decide ((absW y.1 b).s.cnt = (Eng.poll waitUntilS (absW g b) w).s.cnt) &&
    decide ((Eng.poll waitUntilS (absW g b) w).s.out 0 = none) &&
    ((Eng.poll waitUntilS (absW g b) w).s.dead == decide (outcomeOfStream y.2.2 = .none)) &&
    decide ((Eng.poll waitUntilS (absW g b) w).w.trace = .pollEnd (outcomeOfStream y.2.2) :: y.2.1.trace) &&
    decide ((List.range 3).map (fun c => (y.2.1.scripts c).map fun st => (st.res, st.fires)) =
      (List.range 3).map (fun c => ((Eng.poll waitUntilS (absW g b) w).w.scripts c).map fun st => (st.res, st.fires))) &&
    decide ((List.range 3).map y.2.1.handed = (List.range 3).map (Eng.poll waitUntilS (absW g b) w).w.handed)

/-- the translated code, iterated: the state after the polls with the given task wakers (newest first) -/
def runT : List Nat → Option (WaitUntil × World)
  | [] => some (g0, b0.w)
  | w :: ws => do
    let (g, env) ← runT ws
    let (g', env', r) ← WaitUntil.poll_next g w ((env.emit (.pollBegin w)).setWaker w)
    pure (g', env'.emit (.pollEnd (outcomeOfStream r)))

/-- where the translated code stands after the given polls -/
def gAfter (ws : List Nat) : WaitUntil := ((runT ws).map (·.1)).getD g0

/-- first poll: the deadline is pending (and wakes the task) -/
example : agrees g0 b0 1 = some true := by decide
example : (gAfter [1]).roleState.toNat = 0 := by decide
def b1 : Eng Fix := Eng.poll waitUntilS (absW g0 b0) 1
example : b1.s.dead = false ∧ b1.s.out 0 = none := by decide
/-- second poll — THE POLL IN WHICH THE DEADLINE RESOLVES: the inner stream is polled in the same call and yields 7;
    the deadline's output 5 is dropped only AFTER the inner stream's poll (end of the `match`) -/
example : agrees (gAfter [1]) b1 2 = some true := by decide
example : (Eng.poll waitUntilS (absW (gAfter [1]) b1) 2).w.trace.take 7 =
    [.pollEnd (.some 0 [7]), .valDropped 5, .childEnd 1 (.item 7), .childBegin 1 1 (.par 2),
     .childEnd 0 (.ready true 5), .childBegin 0 0 (.par 2), .pollBegin 2] := by decide
example : (runT [2, 1]).map (fun x => (x.1.roleState.toNat, x.2.trace.take 7)) =
    some (1, [.pollEnd (.some 0 [7]), .valDropped 5, .childEnd 1 (.item 7), .childBegin 1 1 (.par 2),
     .childEnd 0 (.ready true 5), .childBegin 0 0 (.par 2), .pollBegin 2]) := by decide
def b2 : Eng Fix := Eng.poll waitUntilS (absW (gAfter [1]) b1) 2
example : b2.s.dead = false ∧ b2.s.out 0 = none := by decide
/-- `gAfter`, `b2` are where the translated code itself stands after two polls -/
example : (runT [2, 1]).map (fun x => decide (x.2.trace = b2.w.trace)) = some true := by decide
/-- third poll (a later one): only the inner stream is polled; pending; nothing is dropped any more -/
example : agrees (gAfter [2, 1]) b2 3 = some true := by decide
example : (runT [3, 2, 1]).map (fun x => (x.1.roleState.toNat, x.2.trace.take 4)) =
    some (1, [.pollEnd .pending, .childEnd 1 .pend, .childBegin 1 1 (.par 3), .pollBegin 3]) := by decide
def b3 : Eng Fix := Eng.poll waitUntilS (absW (gAfter [2, 1]) b2) 3
example : b3.s.dead = false ∧ b3.s.out 0 = none := by decide
/-- fourth poll: the inner stream ends, `Ready(None)`, the model is dead -/
example : agrees (gAfter [3, 2, 1]) b3 4 = some true := by decide
example : (Eng.poll waitUntilS (absW (gAfter [3, 2, 1]) b3) 4).s.dead = true := by decide
example : (runT [4, 3, 2, 1]).map (fun x => x.2.trace.take 4) =
    some [.pollEnd .none, .childEnd 1 .fin, .childBegin 1 1 (.par 4), .pollBegin 4] := by decide
/-- the hypothesis `StepsW` is needed: a deadline answering like a stream is ill-typed for `Future::poll`, the
    translated code panics there -/
example : (WaitUntil.poll_next g0 1 (World.init .direct 2 (fun _ => [⟨.item 5, []⟩]))).isNone = true := by decide
/-- so is `b.s.out 0 = none` (the model's buffer is empty between polls): with a stale value in the buffer the model
    would log a `valDropped` the code does not have -/
example : agrees g0 { b0 with s := { b0.s with out := upd b0.s.out 0 (some 3) } } 1 = some false := by decide

end TieWaitS

#print axioms TieWaitF.poll_tie_strong
#print axioms TieWaitF.poll_tie
#print axioms TieWaitF.poll_completed
#print axioms TieWaitS.poll_tie_strong
#print axioms TieWaitS.poll_tie

end Fc
