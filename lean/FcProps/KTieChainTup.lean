/-
  Kernel tie, the TUPLE container of `chain` — `(A, B, …).chain()` and `StreamExt::chain` (src/stream/chain/tuple.rs,
  `impl_chain_for_tuple!`, the structs `Chain1 … Chain12`).  The source of this unit is rustc's macro expansion of the
  CURRENT tuple.rs, normalised by tools/tuple_norm.py over a const generic `N` after checking that the twelve arities agree
  (the children are fields of the struct itself and are read as one array; the dispatch `match *this.index { <mod>::F => {
  let fut = <pin F>; … } … _ => unreachable!() }` over the constants `<mod>::F = Indexes::F as usize` is folded into one
  indexed body behind `assert!(*this.index < N)`; `<mod>::LEN` is `N`; the arm `v @ (Poll::Pending | Poll::Ready(Some(_)))
  => return v` is written as the two arms it stands for) → tools/rs2lean.py → FcGen/KSrcTup6.lean, namespace `ChainT`.
  The translated `Chain::poll_next` (a Rust `loop`, fuel `N + index + 1`) refines one `Eng.poll chain` of the model.  The
  tuple struct has no `len` field: the number of inputs is the const generic.  Proofs: FcProps/KTieChainT.lean.
-/
import FcGen.KSrcTup6
import FcProps.KTieCore

namespace Fc
open Rs Src

namespace TieChainT
open ChainT

/-- chain hands the caller's context to the current input: the model's `direct` strategy -/
def absC (N : Nat) (g : Chain) (b : Eng Fix) : Eng Fix :=
  { w := { b.w with mode := .direct },
    s := { b.s with n := N, cnt := g.roleCount, dead := g.roleDone } }

structure WfC (N : Nat) (g : Chain) : Prop where
  kn : g.roleKids.len = N
  ix : g.roleCount ≤ N

def poll_tie_statement : Prop :=
  ∀ (N : Nat) (g : Chain) (b : Eng Fix) (w : Nat),
    WfC N g → StreamStepsF b.w → g.roleDone = false →
    ∃ g' env' ret,
      Chain.poll_next N g w (((absC N g b).w.emit (.pollBegin w)).setWaker w) = some (g', env', ret) ∧
      WfC N g' ∧
      (absC N g' b).s.n = (Eng.poll chain (absC N g b) w).s.n ∧
      (absC N g' b).s.cnt = (Eng.poll chain (absC N g b) w).s.cnt ∧
      (absC N g' b).s.dead = (Eng.poll chain (absC N g b) w).s.dead ∧
      env'.scripts = (Eng.poll chain (absC N g b) w).w.scripts ∧
      env'.handed = (Eng.poll chain (absC N g b) w).w.handed ∧
      (Eng.poll chain (absC N g b) w).w.trace = .pollEnd (outcomeOfStream ret) :: env'.trace

end TieChainT
end Fc
