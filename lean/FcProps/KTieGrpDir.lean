/-
  Kernel tie, groups, alloc-only build (no `std` feature) — definitions and the statements of the poll loops.
  `FutureGroup` / `StreamGroup` need `alloc`; without `std` the SAME source (future_group.rs, stream_group.rs) is compiled
  against src/utils/wakers/vec/no_std.rs: no flags (`clear_ready` answers `true`, `any_ready` is `true`, `set_ready` and
  `resize` do nothing), every member is handed the caller's own waker — the model's `direct` mode.  tools/rs2lean.py produces
  this flavour from the translated source (FcGen/KSrcGrpD.lean: the text of FcGen/KSrcGrp.lean with the functions translated
  from no_std.rs, FcGen/KSrcDir.lean, and the hand model `WakerVecD`).

  The abstraction reads the readiness set through `TieDir.absV`; `WfG` keeps the clauses about the state table only.
  `core`, `GCore`, `outcomeOf` are those of the std flavour (FcProps/KTieGrp.lean, FcLemmas/KTieGrpPollDefs.lean).
  Proofs: FcProps/KTieGrpD.lean (set view: `with_capacity`, `len`, `is_empty`, `capacity`, `contains_key`, `reserve`,
  `insert`, `remove`), FcProps/KTieGrpPollD.lean (the poll loops).
-/
import FcGen.KSrcGrpD
import FcProps.KTieGrp
import FcProps.KTieDir
import FcLemmas.KTieGrpPollDefs

namespace Fc
open Rs Src

namespace TieGrpFD
open GrpFD

def absF (g : FutureGroup) (b : Eng Grp) : Eng Grp :=
  { w := TieDir.absV g.roleWakers.readiness b.w,
    s := { b.s with capacity := g.roleCapacity, st := fun i => TiePS.abs (g.roleStates.get i),
                    member := g.roleSlab.member, vac := g.roleSlab.vac, entries := g.roleSlab.entries,
                    next := g.roleSlab.next, len := g.roleSlab.len, keys := g.roleKeys.elems } }

structure WfG (g : FutureGroup) : Prop where
  sl : g.roleStates.len = g.roleCapacity
  sh : ∀ j, g.roleCapacity ≤ j → g.roleStates.get j = PS.PollState.none_

/-- the keys are pairwise distinct occupied slab entries below the capacity (C11's structural invariant) -/
structure GoodKeys (g : FutureGroup) : Prop where
  nodup : g.roleKeys.elems.Nodup
  occ : ∀ k ∈ g.roleKeys.elems, k < g.roleCapacity ∧ k < g.roleSlab.entries ∧ ∃ c, g.roleSlab.member k = some c
  emp : g.roleSlab.len = 0 ↔ g.roleKeys.elems = []
  cnt : g.roleSlab.len = g.roleKeys.elems.length

/-- forget the slot annotation of a `childBegin` event.  The environment of translated code names the slot of a child that is
    handed the caller's own waker by the child's number (`Rs.slotOf (.par _) c = c`, Fc/RustEnv.lean), the model's
    `World.pollChild c k` by the key `k` of the member; in a group the two differ (fixed-children families: child = position) -/
def eraseSlot : Ev → Ev
  | .childBegin c _ wk => .childBegin c 0 wk
  | e => e

/-- the statement as first written: the two traces are EQUAL.  False (FcProps/KTieGrpPollDF.lean, `v0_false`): only the slot
    annotation of `childBegin` for a `.par` waker differs -/
def poll_tie_statement_v0 : Prop :=
  ∀ (g : FutureGroup) (b : Eng Grp) (w : Nat),
    WfG g → GoodKeys g → FutSteps b.w →
    b.s.stream = false → b.s.dead = false → b.s.queue = [] →
    ∃ g' env' ret,
      FutureGroup.poll_next_inner g w ((absF g b).w.emit (.pollBegin w)) = some (g', env', ret) ∧
      WfG g' ∧ GoodKeys g' ∧
      core (absF g' b) = core (Eng.poll group (absF g b) w) ∧
      env'.scripts = (Eng.poll group (absF g b) w).w.scripts ∧
      env'.handed = (Eng.poll group (absF g b) w).w.handed ∧
      (Eng.poll group (absF g b) w).w.trace = .pollEnd (outcomeOf b.s.keyed ret) :: env'.trace

/-- the statement: as `poll_tie_statement_v0`, the traces compared up to the slot annotation of `childBegin` events -/
def poll_tie_statement : Prop :=
  ∀ (g : FutureGroup) (b : Eng Grp) (w : Nat),
    WfG g → GoodKeys g → FutSteps b.w →
    b.s.stream = false → b.s.dead = false → b.s.queue = [] →
    ∃ g' env' ret,
      FutureGroup.poll_next_inner g w ((absF g b).w.emit (.pollBegin w)) = some (g', env', ret) ∧
      WfG g' ∧ GoodKeys g' ∧
      core (absF g' b) = core (Eng.poll group (absF g b) w) ∧
      env'.scripts = (Eng.poll group (absF g b) w).w.scripts ∧
      env'.handed = (Eng.poll group (absF g b) w).w.handed ∧
      (Eng.poll group (absF g b) w).w.trace.map eraseSlot
        = (Ev.pollEnd (outcomeOf b.s.keyed ret) :: env'.trace).map eraseSlot

end TieGrpFD

namespace TieGrpSD
open GrpSD

def absS (g : StreamGroup) (b : Eng Grp) : Eng Grp :=
  { w := TieDir.absV g.roleWakers.readiness b.w,
    s := { b.s with capacity := g.roleCapacity, st := fun i => TiePS.abs (g.roleStates.get i),
                    member := g.roleSlab.member, vac := g.roleSlab.vac, entries := g.roleSlab.entries,
                    next := g.roleSlab.next, len := g.roleSlab.len, keys := g.roleKeys.elems, queue := g.roleQueue } }

structure WfG (g : StreamGroup) : Prop where
  sl : g.roleStates.len = g.roleCapacity
  sh : ∀ j, g.roleCapacity ≤ j → g.roleStates.get j = PS.PollState.none_

structure GoodKeys (g : StreamGroup) : Prop where
  nodup : g.roleKeys.elems.Nodup
  occ : ∀ k ∈ g.roleKeys.elems, k < g.roleCapacity ∧ k < g.roleSlab.entries ∧ ∃ c, g.roleSlab.member k = some c
  emp : g.roleSlab.len = 0 ↔ g.roleKeys.elems = []
  cnt : g.roleSlab.len = g.roleKeys.elems.length
  /-- between polls the removal queue is empty -/
  q : g.roleQueue = []

/-- every member is named by the key of its slab entry.  ADDED HYPOTHESIS (counterexample: FcProps/KTieGrpPollDS.lean,
    `v0_false`; the statement as first written is kept there as `poll_tie_statement_v0`).  The slot annotation of
    `childBegin` for a member that is handed the caller's own waker is, in the environment, `Rs.slotOf (.par _) c = c`
    (Fc/RustEnv.lean: the member's own number), whereas the model logs the KEY (`World.pollChild c k`); without this
    hypothesis the trace clause is false (member 200 under key 0: `childBegin 200 200 (par 1)` against
    `childBegin 200 0 (par 1)`).  Everything else of the trace, and every other clause, is unaffected.  Preserved by the
    poll (`poll_tie_inv`). -/
def SlotNamed (g : StreamGroup) : Prop := ∀ k c, g.roleSlab.member k = some c → c = k

def poll_tie_statement : Prop :=
  ∀ (g : StreamGroup) (b : Eng Grp) (w : Nat),
    WfG g → GoodKeys g → SlotNamed g → StreamSteps b.w → b.s.stream = true → b.s.dead = false →
    ∃ g' env' ret,
      StreamGroup.poll_next_inner g w ((absS g b).w.emit (.pollBegin w)) = some (g', env', ret) ∧
      WfG g' ∧ GoodKeys g' ∧
      core (absS g' b) = core (Eng.poll group (absS g b) w) ∧
      env'.scripts = (Eng.poll group (absS g b) w).w.scripts ∧
      env'.handed = (Eng.poll group (absS g b) w).w.handed ∧
      (Eng.poll group (absS g b) w).w.trace = .pollEnd (outcomeOf b.s.keyed ret) :: env'.trace

end TieGrpSD
end Fc
