/-
  C01 (second sentence) — liveness of `join` under a wake-only executor.

  Setting (Fc/Exec.lean): the executor polls the combinator — with a FRESH task waker on every
  poll — only if the task has been woken since the previous poll began (`Mon.wokeSince`), or was
  never polled (`Exec.shouldPoll`).  Otherwise the environment lets the first waiting child (latest
  answer `Pending`, scripted steps left: `Exec.firstWaiting`) make progress by invoking the waker
  that child was handed in its most recent poll (`e.fire c 0`).  `Exec.round` is one such step
  (`none`: final outcome, or stuck); `Exec.runFor P n k` runs up to `k` rounds.
  A well-behaved future (`Exec.futureScript`) answers `Pending` any number of times, each time with
  arbitrary in-poll wake-ups of arbitrary (also stale) wakers of arbitrary children, then `Ready`.

  Theorem: for every number of children, all well-behaved children, both join models and both
  waker strategies, the run reaches `Ready` — no schedule of this executor leaves the join pending
  with no wake-up outstanding — within `3 * stepsLeft + 1` rounds (`stepsLeft` = total number of
  scripted steps), and the container returned holds every child's value at its position.

  The proof (FcLemmas/Live*.lean) reuses the safety theorems as invariants along the run:
    C01 (`quiet`: an owed wake-up of a waiting child means the task was woken) ⇒ after the
        environment prods a waiting child the next round polls;
    C20 (`c20At`: at a `Pending` every child has been polled, and every waiting child whose waker
        had fired when the poll began was polled in it) ⇒ that poll consumes a step of the prodded
        child, and after the first poll every unresolved child is waiting, so one can be prodded;
    C04 (`Pending` iff some child has not resolved; `Ready` carries the resolved values).
  New ingredients: children that follow a `futureScript` never panic, are never polled after
  resolving and have a step left while unresolved; a poll that polls no child does not wake the
  task.  Progress measure: `3 * stepsLeft` minus the phase (about to poll / not woken / prodded).

  On the bound: the tentative bound `2 * stepsLeft + 2` is FALSE in the model (std mode, tuple
  join): a child whose every `Pending` step invokes the stale waker of an already resolved sibling
  causes, per step, one extra poll that polls nothing (the stale wake-up sets the sibling's bit and
  wakes the task), then the prod, then the productive poll — three rounds per step.
  `C01_join_resolves_bound2_false` is the concrete counterexample.
-/
import FcLemmas.LiveRun
import Fc.Holds

namespace Fc
open Mon

/-- liveness of join: the run resolves within `3 * stepsLeft + 1` rounds -/
theorem C01_join_resolves (slice : Bool) (m : Mode) (n : Nat) (scripts : Nat → List Step)
    (hs : ∀ c, c < n → Exec.futureScript (scripts c) = true) :
    ∃ k, k ≤ 3 * Exec.stepsLeft n (FEng.init (if slice then .joinSlice else .joinTuple) m n scripts) + 1 ∧
      ∃ vals, Mon.lastOut (Exec.runFor (if slice then Fc.joinSlice else Fc.joinTuple) n k
                (FEng.init (if slice then .joinSlice else .joinTuple) m n scripts)).w.trace
              = some (.ready true vals) := by
  cases slice
  · simp only [Bool.false_eq_true, if_false]
    obtain ⟨k, hk, hv⟩ := Live.resolves_of_lb Live.joinLike_tuple _
      (Live.lb_init_tuple m n scripts hs) rfl
    exact ⟨k, hk, _, hv⟩
  · simp only [if_true]
    obtain ⟨k, hk, hv⟩ := Live.resolves_of_lb Live.joinLike_slice _
      (Live.lb_init_slice m n scripts hs) rfl
    exact ⟨k, hk, _, hv⟩

/-- … and the container returned holds, at every position, the value that child's script
    resolves to (`Live.finalVal` = the value of the last scripted step) -/
theorem C01_join_resolves_vals (slice : Bool) (m : Mode) (n : Nat) (scripts : Nat → List Step)
    (hs : ∀ c, c < n → Exec.futureScript (scripts c) = true) :
    ∃ k, k ≤ 3 * Exec.stepsLeft n (FEng.init (if slice then .joinSlice else .joinTuple) m n scripts) + 1 ∧
      Mon.lastOut (Exec.runFor (if slice then Fc.joinSlice else Fc.joinTuple) n k
                (FEng.init (if slice then .joinSlice else .joinTuple) m n scripts)).w.trace
              = some (.ready true ((List.range n).map (fun c => Live.finalVal (scripts c)))) := by
  cases slice
  · simp only [Bool.false_eq_true, if_false]
    exact Live.resolves_of_lb Live.joinLike_tuple _ (Live.lb_init_tuple m n scripts hs) rfl
  · simp only [if_true]
    exact Live.resolves_of_lb Live.joinLike_slice _ (Live.lb_init_slice m n scripts hs) rfl

/-- the statement with the tentative bound `2 * stepsLeft + 2` -/
def C01_join_resolves_bound2_statement : Prop :=
  ∀ (slice : Bool) (m : Mode) (n : Nat) (scripts : Nat → List Step),
    (∀ c, c < n → Exec.futureScript (scripts c) = true) →
    ∃ k, k ≤ 2 * Exec.stepsLeft n (FEng.init (if slice then .joinSlice else .joinTuple) m n scripts) + 2 ∧
      ∃ vals, Mon.lastOut (Exec.runFor (if slice then Fc.joinSlice else Fc.joinTuple) n k
                (FEng.init (if slice then .joinSlice else .joinTuple) m n scripts)).w.trace
              = some (.ready true vals)

/-- child 0 resolves at once; each of child 1's seven `Pending` steps invokes child 0's stale waker -/
def C01live_slow : Nat → List Step := fun c =>
  if c = 0 then [⟨.ready true 10, []⟩]
  else if c = 1 then
    [⟨.pend, [(0, 0)]⟩, ⟨.pend, [(0, 0)]⟩, ⟨.pend, [(0, 0)]⟩, ⟨.pend, [(0, 0)]⟩, ⟨.pend, [(0, 0)]⟩,
     ⟨.pend, [(0, 0)]⟩, ⟨.pend, [(0, 0)]⟩, ⟨.ready true 11, []⟩]
  else []

set_option maxRecDepth 100000 in
/-- 9 scripted steps, but after `2 * 9 + 2 = 20` rounds the tuple join (std mode) is still pending;
    it resolves in round 22 -/
theorem C01_join_resolves_bound2_false : ¬ C01_join_resolves_bound2_statement := by
  intro h
  have h1 := h false .std 2 C01live_slow (by decide)
  simp only [Bool.false_eq_true, if_false] at h1
  obtain ⟨k, hk, vals, hv⟩ := h1
  have hS : Exec.stepsLeft 2 (FEng.init .joinTuple .std 2 C01live_slow) = 9 := by decide
  rw [hS] at hk
  have hall : ∀ k, k ≤ 20 → Exec.finalOut (Mon.lastOut
      (Exec.runFor Fc.joinTuple 2 k (FEng.init .joinTuple .std 2 C01live_slow)).w.trace) = false := by
    decide
  have := hall k (by omega)
  rw [hv] at this
  exact Bool.noConfusion this

/-! ### non-vacuity -/

/-- child 0: Pending, Pending with a wake-up of its own waker from inside the poll, Ready 10;
    child 1: Ready 11 at once; child 2: Pending, Ready 12 -/
def C01live_example : Nat → List Step := fun c =>
  if c = 0 then [⟨.pend, []⟩, ⟨.pend, [(0, 0)]⟩, ⟨.ready true 10, []⟩]
  else if c = 1 then [⟨.ready true 11, []⟩]
  else if c = 2 then [⟨.pend, []⟩, ⟨.ready true 12, []⟩] else []

example : ∀ c, c < 3 → Exec.futureScript (C01live_example c) = true := by decide
example : Exec.stepsLeft 3 (FEng.init .joinTuple .std 3 C01live_example) = 6 := by decide

set_option maxRecDepth 100000 in
/-- tuple model, std mode: resolves, every value at its position, after 4 polls and 2 prods -/
example : (Exec.runFor Fc.joinTuple 3 30 (FEng.init .joinTuple .std 3 C01live_example)).w.trace.head?
    = some (.pollEnd (.ready true [10, 11, 12])) := by decide
set_option maxRecDepth 100000 in
example : Exec.pollCount (Exec.runFor Fc.joinTuple 3 30 (FEng.init .joinTuple .std 3 C01live_example)).w.trace
    = 4 := by decide
set_option maxRecDepth 100000 in
example : ((Exec.runFor Fc.joinTuple 3 30 (FEng.init .joinTuple .std 3 C01live_example)).w.trace.filter
    (fun e => match e with | .fired _ _ _ => true | _ => false)).length = 3 := by decide

set_option maxRecDepth 100000 in
/-- array/Vec model, direct mode: every unresolved child is polled on every poll — 3 polls -/
example : (Exec.runFor Fc.joinSlice 3 30 (FEng.init .joinSlice .direct 3 C01live_example)).w.trace.head?
    = some (.pollEnd (.ready true [10, 11, 12])) := by decide
set_option maxRecDepth 100000 in
example : Exec.pollCount (Exec.runFor Fc.joinSlice 3 30 (FEng.init .joinSlice .direct 3 C01live_example)).w.trace
    = 3 := by decide

/-- the hypothesis is needed: a child that stays Pending for ever (its script is not a
    `futureScript`) leaves the executor with nothing to do while the join is pending -/
def C01live_stuck : Nat → List Step := fun c =>
  if c = 0 then [⟨.pend, []⟩] else if c = 1 then [⟨.ready true 11, []⟩] else []

example : Exec.futureScript (C01live_stuck 0) = false := by decide
set_option maxRecDepth 100000 in
example : Mon.lastOut (Exec.runFor Fc.joinTuple 2 30 (FEng.init .joinTuple .std 2 C01live_stuck)).w.trace
      = some .pending ∧
    (Exec.round Fc.joinTuple 2
      (Exec.runFor Fc.joinTuple 2 30 (FEng.init .joinTuple .std 2 C01live_stuck))).isNone = true := by
  decide

end Fc

#print axioms Fc.C01_join_resolves
#print axioms Fc.C01_join_resolves_vals
#print axioms Fc.C01_join_resolves_bound2_false
