/-
  C11 — FutureGroup: every inserted future's output is yielded exactly once, under the key its
  insert returned, unless it was removed first; the accessors describe exactly the live members.

  Monitor `Mon.holds_C11 keyed nch = Mon.holds_G false keyed nch` (Fc/MonGrp.lean), a check at every
  event of the trace against the abstract group read off the trace before it:
  `memberAt t k` = the member of the latest `inserted _ k` unless a `removed k true` or a
  resolving `childEnd` of that member came later; `lenOf t` = inserts − removals − completions;
  `keyOf t c` = the key `c`'s insert returned.
    * `inserted c k`     ⇒ key `k` is vacant (keys of live members are distinct), `c` is new, and we
                           are not inside a poll;
    * `removed k p`      ⇒ `p` says whether `k` held a member, and that member was dropped right then;
    * `childBegin c k _` ⇒ `c` is the live member under `k` (so a removed or resolved member is never
                           polled again) and nothing was delivered earlier in this poll;
    * `answer q a`       ⇒ `len` / `is_empty` / `contains_key(k)` answer `lenOf` / `memberAt`, and
                           `capacity ≥ lenOf`; no group operation panics (`q = 99`);
    * `pollEnd o`        ⇒ `Some(key, v)`: the latest child answer of this poll is `ready v` of a member
                           `c` and (keyed) `key = keyOf c`; `Pending`: the group is not empty and
                           nothing was delivered in this poll; `None`: exactly when the group is empty
                           (so it can be refilled and polled again); `misuse` only after drop / unwind;
                           globally the yielded values ARE the produced values (each output exactly
                           once), and every member `c < nch` that resolved has been dropped.
  Hypotheses: `kindOk` (a future never yields items or ends — Rust's types), `insertsFresh` (every
  inserted future is a new object: the harness generates a fresh id per insert / extend argument).
-/
import FcLemmas.C11
import Fc.Holds

namespace Fc
open Mon

/-- C11 for keyed and unkeyed polling, every history of `insert` / `remove` / `reserve` / `extend` /
    queries / polls with any waker / wake-ups at any time / drop at any point / an injected member
    panic, all member scripts, both waker strategies, every bound `nch` on the member ids. -/
theorem C11_future_group (c : Case) (hf : c.fam = .futGroup) (hk : c.kindOk) (hw : c.insertsFresh)
    (nch : Nat) : holds_C11 c.keyed nch c.trace = true := by
  unfold Case.trace holds_C11 Case.finalGrp
  simp only [hf, Fam.isGroup, if_true]
  have hdec : decide (Fam.futGroup = Fam.strGroup) = false := by decide
  rw [hdec]
  exact G11.main false c.keyed nch c.mode c.scripts c.ops
    (fun ch st hm => by have := hk ch st hm; rw [hf] at this; exact this) hw

/-- `insertsFresh` cannot be dropped: inserting the same object twice breaks the statement
    (the monitor insists that an inserted member is new) -/
def C11_notFresh : Case :=
  { fam := .futGroup, mode := .std, keyed := true, n := 0, scripts := fun _ => [],
    ops := [.insert 5, .insert 5] }
example : ¬ C11_notFresh.insertsFresh := by decide
example : holds_C11 true 8 C11_notFresh.trace = false := by decide

/-- `kindOk` cannot be dropped either: a member "future" that ends like a stream leaves the group
    empty in a poll that answers `Pending` -/
def C11_notKind : Case :=
  { fam := .futGroup, mode := .std, keyed := true, n := 0,
    scripts := fun c => if c = 5 then [⟨.fin, []⟩] else [],
    ops := [.insert 5, .poll 1] }
example : C11_notKind.insertsFresh := by decide
example : holds_C11 true 8 C11_notKind.trace = false := by decide

/-- non-vacuity (keyed): three members inserted (keys 0 1 2), member 11 resolves, member 12 is
    removed (the second `remove` of the same key is stale), `reserve`, member 13 goes into the reused
    key 2, queries in between, polls until `None`, refill through `extend`, polls, drop, misuse. -/
def C11_example : Case :=
  { fam := .futGroup, mode := .std, keyed := true, n := 0,
    scripts := fun c => if c = 10 then [⟨.pend, []⟩, ⟨.ready true 110, []⟩]
                        else if c = 11 then [⟨.ready true 111, []⟩]
                        else if c = 12 then [⟨.pend, [(12, 0)]⟩, ⟨.pend, []⟩]
                        else if c = 13 then [⟨.pend, [(13, 0)]⟩, ⟨.ready true 113, []⟩]
                        else if c = 14 then [⟨.ready true 114, []⟩]
                        else if c = 15 then [⟨.ready true 115, []⟩] else [],
    ops := [.poll 1, .insert 10, .insert 11, .insert 12, .qLen, .qCapacity, .poll 1, .remove 2,
            .remove 2, .qContains 2, .qContains 0, .reserve 2, .insert 13, .qLen, .qIsEmpty, .poll 2,
            .fire 10 0, .poll 2, .poll 3, .poll 3, .qIsEmpty, .extend [14, 15], .poll 4, .poll 4,
            .poll 4, .drop, .poll 5] }

example : C11_example.insertsFresh := by decide
set_option maxRecDepth 100000 in
example : (C11_example.run.filter (fun e => match e with | .pollEnd (.some _ _) => true | _ => false))
    = [.pollEnd (.some 1 [111]), .pollEnd (.some 0 [110]), .pollEnd (.some 2 [113]),
       .pollEnd (.some 0 [115]), .pollEnd (.some 2 [114])] := by decide
set_option maxRecDepth 100000 in
example : (C11_example.run.filter (fun e => match e with
      | .inserted _ _ | .removed _ _ | .answer _ _ => true | _ => false))
    = [.inserted 10 0, .inserted 11 1, .inserted 12 2, .answer 0 3, .answer 3 4, .removed 2 true,
       .removed 2 false, .answer 102 0, .answer 100 1, .inserted 13 2, .answer 0 2, .answer 1 0,
       .answer 1 1, .inserted 14 2, .inserted 15 0] := by decide
set_option maxRecDepth 100000 in
example : (C11_example.run.filter (fun e => e == .pollEnd .none)).length = 3 := by decide
set_option maxRecDepth 100000 in
example : C11_example.run.contains (.childBegin 12 2 (.sub 2)) = false := by decide

/-- the monitor is not trivially true -/
-- an output yielded twice
example : holds_C11 true 4 [.pollEnd (.some 0 [7]), .pollBegin 1, .pollEnd (.some 0 [7]),
    .childDropped 1, .childEnd 1 (.ready true 7), .childBegin 1 0 (.sub 0), .pollBegin 1,
    .inserted 1 0] = false := by decide
-- the wrong key
example : holds_C11 true 4 [.pollEnd (.some 0 [7]), .childDropped 2, .childEnd 2 (.ready true 7),
    .childBegin 2 1 (.sub 1), .pollBegin 1, .inserted 2 1, .inserted 1 0] = false := by decide
example : holds_C11 true 4 [.pollEnd (.some 1 [7]), .childDropped 2, .childEnd 2 (.ready true 7),
    .childBegin 2 1 (.sub 1), .pollBegin 1, .inserted 2 1, .inserted 1 0] = true := by decide
-- `len` wrong after a completion
example : holds_C11 true 4 [.answer 0 2, .pollEnd (.some 1 [7]), .childDropped 2,
    .childEnd 2 (.ready true 7), .childBegin 2 1 (.sub 1), .pollBegin 1, .inserted 2 1,
    .inserted 1 0] = false := by decide
-- a removed member is polled
example : holds_C11 true 4 [.childBegin 1 0 (.sub 0), .pollBegin 1, .removed 0 true, .childDropped 1,
    .inserted 2 1, .inserted 1 0] = false := by decide
-- `None` while a member is live; `Pending` from an empty group
example : holds_C11 true 4 [.pollEnd .none, .pollBegin 1, .inserted 1 0] = false := by decide
example : holds_C11 true 4 [.pollEnd .pending, .pollBegin 1] = false := by decide
-- two live members under one key; a resolved member that is not dropped
example : holds_C11 true 4 [.inserted 2 0, .inserted 1 0] = false := by decide
example : holds_C11 true 4 [.pollEnd (.some 0 [7]), .childEnd 1 (.ready true 7),
    .childBegin 1 0 (.sub 0), .pollBegin 1, .inserted 1 0] = false := by decide

end Fc

#print axioms Fc.C11_future_group
