/-
  C20 (second sentence) — "A child that stays Pending forever never prevents its siblings from being
  polled when they are woken, from running to completion, or — for race, race_ok, merge and the
  groups — from having their results delivered."  (zip is excluded: it deliberately holds an input
  back once its item for the current row is buffered; chain is sequential.)

  Setting: the wake-only executor of Fc/Exec.lean under EVERY environment schedule
  (Fc/ExecAny.lean: `pick : Nat → Eng Fix → Nat`, `ExecAny.runFor P n pick k 0 e0`; the `_busy`
  variants: `ExecAny.runForB`, the environment also fires arbitrary further wakers — stale ones, of
  other children — before and after each prod, and the run may start at any round number).
  Every child is EITHER well-behaved (`Exec.futureScript`: some `Pending` steps with arbitrary
  in-poll wake-ups, then `Ready`; `streamScript`: `Pending`s and items, then the end) OR
  never-completing (`Exec.pendScript`, Fc/ExecStuck.lean: `Pending` steps only, each with arbitrary
  in-poll wake-ups of arbitrary wakers; once the script is exhausted the model answers `Pending` for
  ever and wakes nobody).  `Exec.futOrNever` / `Exec.strOrNever` say "one or the other"
  (`Exec.strOrNever` is defined in FcLemmas/LiveStuckStr.lean, next to `streamScript`, which lives in
  FcLemmas/Live3Obs.lean and cannot be imported into Fc/); `Exec.lastAnswer` = the answer of a
  script's last step, `Exec.scriptItems` = the items a script holds, in order.

  The liveness theorems of FcProps/C01live*.lean need every child to be well-behaved.  Here, within
  the SAME bound of `3 * stepsLeft + 1` rounds, the run reaches
    * its final outcome, or
    * a state AT REST (`Exec.atRest n e`, Fc/ExecStuck.lean): the latest outcome is `Pending`, the
      task has not been woken since, and NO child has a scripted step left
      (`Exec.stepsLeft n e = 0`) — every well-behaved sibling has run to completion (its latest
      answer is the `Ready` / `None` its script ends with), every never-completing child has made
      all the progress it ever makes and is `Pending`, and nobody is left to wake the combinator:
      the run stays there for ever, under every schedule (`C20_atRest_stuck`).
  Per family:
    * `C20_join_progress` (both models): final `Ready` with every value at its position — and then
      every child is well-behaved — or at rest.
    * `C20_try_join_progress` (both models): final `Ok` (then every child is well-behaved), final
      `Err [v]` with `v` the error a well-behaved child's script ends with, or at rest — and at
      rest no well-behaved child's script ends with an error (a failing sibling IS delivered).
    * `C20_race_delivers`: if SOME child is well-behaved the race delivers `Ready [v]`, `v` the value
      of a well-behaved child; only if none is, the run comes to rest.
    * `C20_race_ok_delivers` (three variants): final `Ok [v]` with `v` the `Ok` value a well-behaved
      child's script ends with; or final `Err` (then every child is well-behaved and failed); or at
      rest — and at rest no well-behaved child's script ends with `Ok`: a sibling that succeeds IS
      delivered (`C20_race_ok_delivers_ok`).
    * `C20_merge_delivers`: the merge ends with `None` (then every input is well-behaved) or comes to
      rest (then some input is never-completing); in both cases no step is left, every well-behaved
      input has ended, and for EVERY input the items of its script, in order, form a subsequence
      of the yielded values (`Mon.yielded` is newest first, hence the `reverse`) — C08
      (`yielded = items`) plus "all steps consumed".
    * zip: the statement is FALSE (`C20_zip_counterexample`, `C20_zip_progress_false`): with one
      never-completing input the sibling's item of the current row stays buffered, the sibling is
      not polled again, two of its steps are never consumed and nothing is ever yielded.

  Proof (FcLemmas/LiveStuck.lean: the induction on the round budget for an abstract invariant,
  `ProgS`; LiveStuckFut.lean / LiveStuckFutInst.lean: futures, via `Live2.FutLike` — join gets an
  instance from C04; LiveStuckStr.lean / LiveStuckStrInst.lean: merge).  The invariants of the
  C01live proofs said "an unresolved child has a step left"; here the per-child clause is a
  three-way disjunction (well-behaved and unresolved / well-behaved, resolved, NO step left /
  never-completing), a polled child has consumed a step only if it had one, the task waker is only
  invoked after a step was consumed (an exhausted child fires nothing), and "between polls of a
  live combinator some child is waiting" is replaced by "… or no step is left".  The environment
  never prods an exhausted child (`Exec.firstWaiting` / `ExecAny.isWaiting` ask for a step left).
-/
import FcLemmas.LiveStuckFutInst
import FcLemmas.LiveStuckStrInst
import FcProps.C01liveAny
import Fc.Holds

namespace Fc
open Mon

/-! ### a run at rest stays at rest -/

/-- at rest nothing is left to do: under every schedule the executor has nothing to poll for and
    nobody to prod, so the state never changes again -/
theorem C20_atRest_stuck (P : Policy Fix) (n : Nat) (e : Eng Fix) (h : Exec.atRest n e = true)
    (pick : Nat → Eng Fix → Nat) (r : Nat) :
    ExecAny.round P n pick r e = none ∧ ∀ k, ExecAny.runFor P n pick k r e = e := by
  refine ⟨?_, fun k => LiveStuck.atRest_run h k r⟩
  rw [LiveAny.round_eq_roundB]
  exact LiveStuck.atRest_roundB h r

/-! ### every schedule, any extra wake-ups (`ExecAny.runForB`) -/

theorem C20_join_progress_busy (pick : Nat → Eng Fix → Nat)
    (pre post : Nat → Eng Fix → List (Nat × Nat)) (r : Nat)
    (slice : Bool) (m : Mode) (n : Nat) (scripts : Nat → List Step)
    (hs : ∀ c, c < n → Exec.futOrNever (scripts c) = true) :
    ∃ k, k ≤ 3 * Exec.stepsLeft n (FEng.init (if slice then .joinSlice else .joinTuple) m n scripts) + 1 ∧
      ∃ e, e = ExecAny.runForB (if slice then Fc.joinSlice else Fc.joinTuple) n pick pre post k r
                (FEng.init (if slice then .joinSlice else .joinTuple) m n scripts) ∧
      (((∀ c, c < n → Exec.futureScript (scripts c) = true) ∧
        lastOut e.w.trace = some (.ready true ((List.range n).map (fun c => Live.finalVal (scripts c)))))
      ∨ (Exec.atRest n e = true ∧
          (∀ c, c < n → Exec.futureScript (scripts c) = true →
            ∃ ok, lastRes e.w.trace c = some (.ready ok (Live.finalVal (scripts c)))) ∧
          (∀ c, c < n → Exec.futureScript (scripts c) = false →
            lastRes e.w.trace c = some .pend))) := by
  cases slice
  · simp only [Bool.false_eq_true, if_false]
    exact LiveStuck.joinTuple_progressB pick pre post r m n scripts hs
  · simp only [if_true]
    exact LiveStuck.joinSlice_progressB pick pre post r m n scripts hs

theorem C20_try_join_progress_busy (pick : Nat → Eng Fix → Nat)
    (pre post : Nat → Eng Fix → List (Nat × Nat)) (r : Nat)
    (slice : Bool) (m : Mode) (n : Nat) (scripts : Nat → List Step)
    (hs : ∀ c, c < n → Exec.futOrNever (scripts c) = true) :
    ∃ k, k ≤ 3 * Exec.stepsLeft n (FEng.init (if slice then .tryJoinSlice else .tryJoinTuple) m n scripts) + 1 ∧
      ∃ e, e = ExecAny.runForB (if slice then Fc.tryJoinSlice else Fc.tryJoinTuple) n pick pre post k r
                (FEng.init (if slice then .tryJoinSlice else .tryJoinTuple) m n scripts) ∧
      (((∀ c, c < n → Exec.futureScript (scripts c) = true) ∧
          lastOut e.w.trace = some (.ready true ((List.range n).map (fun c => Live.finalVal (scripts c)))))
      ∨ (∃ c v, c < n ∧ Exec.futureScript (scripts c) = true ∧
          Exec.lastAnswer (scripts c) = some (.ready false v) ∧
          lastOut e.w.trace = some (.ready false [v]))
      ∨ (Exec.atRest n e = true ∧
          (∀ c, c < n → Exec.futureScript (scripts c) = true →
            ∃ ok, lastRes e.w.trace c = some (.ready ok (Live.finalVal (scripts c)))) ∧
          (∀ c, c < n → Exec.futureScript (scripts c) = false →
            lastRes e.w.trace c = some .pend) ∧
          (∀ c v, c < n → Exec.futureScript (scripts c) = true →
            Exec.lastAnswer (scripts c) ≠ some (.ready false v)))) := by
  cases slice
  · simp only [Bool.false_eq_true, if_false]
    exact LiveStuck.tryJoinTuple_progressB pick pre post r m n scripts hs
  · simp only [if_true]
    exact LiveStuck.tryJoinSlice_progressB pick pre post r m n scripts hs

theorem C20_race_delivers_busy (pick : Nat → Eng Fix → Nat)
    (pre post : Nat → Eng Fix → List (Nat × Nat)) (r : Nat)
    (m : Mode) (n : Nat) (hn : 0 < n) (scripts : Nat → List Step)
    (hs : ∀ c, c < n → Exec.futOrNever (scripts c) = true) :
    ∃ k, k ≤ 3 * Exec.stepsLeft n (FEng.init .race m n scripts) + 1 ∧
      ∃ e, e = ExecAny.runForB Fc.race n pick pre post k r (FEng.init .race m n scripts) ∧
      ((∃ c, c < n ∧ Exec.futureScript (scripts c) = true ∧
          lastOut e.w.trace = some (.ready true [Live.finalVal (scripts c)]))
      ∨ ((∀ c, c < n → Exec.futureScript (scripts c) = false) ∧ Exec.atRest n e = true ∧
          (∀ c, c < n → lastRes e.w.trace c = some .pend))) :=
  LiveStuck.race_deliversB pick pre post r m n hn scripts hs

theorem C20_race_ok_delivers_busy (pick : Nat → Eng Fix → Nat)
    (pre post : Nat → Eng Fix → List (Nat × Nat)) (r : Nat)
    (fam : Fam) (hf : fam = .raceOkArr ∨ fam = .raceOkVec ∨ fam = .raceOkTup)
    (m : Mode) (n : Nat) (scripts : Nat → List Step)
    (hs : ∀ c, c < n → Exec.futOrNever (scripts c) = true) :
    ∃ k, k ≤ 3 * Exec.stepsLeft n (FEng.init fam m n scripts) + 1 ∧
      ∃ e, e = ExecAny.runForB fam.policy n pick pre post k r (FEng.init fam m n scripts) ∧
      ((∃ c v, c < n ∧ Exec.futureScript (scripts c) = true ∧
          Exec.lastAnswer (scripts c) = some (.ready true v) ∧
          lastOut e.w.trace = some (.ready true [v]))
      ∨ ((∀ c, c < n → Exec.futureScript (scripts c) = true ∧
              ∃ v, Exec.lastAnswer (scripts c) = some (.ready false v)) ∧
          lastOut e.w.trace = some (.ready false ((List.range n).map (fun c => Live.finalVal (scripts c)))))
      ∨ (Exec.atRest n e = true ∧
          (∀ c, c < n → Exec.futureScript (scripts c) = true →
            ∃ ok, lastRes e.w.trace c = some (.ready ok (Live.finalVal (scripts c)))) ∧
          (∀ c, c < n → Exec.futureScript (scripts c) = false →
            lastRes e.w.trace c = some .pend) ∧
          (∀ c v, c < n → Exec.futureScript (scripts c) = true →
            Exec.lastAnswer (scripts c) ≠ some (.ready true v)))) :=
  LiveStuck.raceOk_deliversB pick pre post r fam hf m n scripts hs

theorem C20_merge_delivers_busy (pick : Nat → Eng Fix → Nat)
    (pre post : Nat → Eng Fix → List (Nat × Nat)) (r : Nat)
    (m : Mode) (n : Nat) (scripts : Nat → List Step)
    (hs : ∀ c, c < n → Exec.strOrNever (scripts c) = true) :
    ∃ k, k ≤ 3 * Exec.stepsLeft n (FEng.init .merge m n scripts) + 1 ∧
      ∃ e, e = ExecAny.runForB Fc.merge n pick pre post k r (FEng.init .merge m n scripts) ∧
      (((∀ c, c < n → streamScript (scripts c) = true) ∧ lastOut e.w.trace = some .none) ∨
        ((∃ c, c < n ∧ streamScript (scripts c) = false) ∧ Exec.atRest n e = true ∧
          (∀ c, c < n → streamScript (scripts c) = false → lastRes e.w.trace c = some .pend))) ∧
      Exec.stepsLeft n e = 0 ∧
      (∀ c, c < n → streamScript (scripts c) = true → lastRes e.w.trace c = some .fin) ∧
      (∀ c, c < n → (Exec.scriptItems (scripts c)).reverse.Sublist (yielded e.w.trace)) :=
  LiveStuck.merge_deliversB pick pre post r m n scripts hs

/-! ### every schedule (`ExecAny.runFor`) -/

/-- join (array/Vec model and tuple model) with never-completing children: within
    `3 * stepsLeft + 1` rounds the run has resolved — every value at its position; then every child
    is well-behaved — or is at rest: no step left, every well-behaved sibling has resolved to the
    value its script ends with, the never-completing children are `Pending` -/
theorem C20_join_progress (pick : Nat → Eng Fix → Nat)
    (slice : Bool) (m : Mode) (n : Nat) (scripts : Nat → List Step)
    (hs : ∀ c, c < n → Exec.futOrNever (scripts c) = true) :
    ∃ k, k ≤ 3 * Exec.stepsLeft n (FEng.init (if slice then .joinSlice else .joinTuple) m n scripts) + 1 ∧
      ∃ e, e = ExecAny.runFor (if slice then Fc.joinSlice else Fc.joinTuple) n pick k 0
                (FEng.init (if slice then .joinSlice else .joinTuple) m n scripts) ∧
      (((∀ c, c < n → Exec.futureScript (scripts c) = true) ∧
        lastOut e.w.trace = some (.ready true ((List.range n).map (fun c => Live.finalVal (scripts c)))))
      ∨ (Exec.atRest n e = true ∧
          (∀ c, c < n → Exec.futureScript (scripts c) = true →
            ∃ ok, lastRes e.w.trace c = some (.ready ok (Live.finalVal (scripts c)))) ∧
          (∀ c, c < n → Exec.futureScript (scripts c) = false →
            lastRes e.w.trace c = some .pend))) := by
  simp only [C01_any_busy_nil]
  exact C20_join_progress_busy pick _ _ 0 slice m n scripts hs

/-- … in the words of the task: the run reaches a state that is final or in which every scripted
    step of every child has been consumed -/
theorem C20_join_progress_steps (pick : Nat → Eng Fix → Nat)
    (slice : Bool) (m : Mode) (n : Nat) (scripts : Nat → List Step)
    (hs : ∀ c, c < n → Exec.futOrNever (scripts c) = true) :
    ∃ k, k ≤ 3 * Exec.stepsLeft n (FEng.init (if slice then .joinSlice else .joinTuple) m n scripts) + 1 ∧
      (Exec.finalOut (lastOut (ExecAny.runFor (if slice then Fc.joinSlice else Fc.joinTuple) n pick k 0
                (FEng.init (if slice then .joinSlice else .joinTuple) m n scripts)).w.trace) = true ∨
       Exec.stepsLeft n (ExecAny.runFor (if slice then Fc.joinSlice else Fc.joinTuple) n pick k 0
                (FEng.init (if slice then .joinSlice else .joinTuple) m n scripts)) = 0) := by
  obtain ⟨k, hk, e, he, h⟩ := C20_join_progress pick slice m n scripts hs
  refine ⟨k, hk, ?_⟩
  rw [← he]
  rcases h with ⟨_, h⟩ | ⟨h, _⟩
  · left; rw [h]; rfl
  · right
    simp only [Exec.atRest, Bool.and_eq_true, beq_iff_eq] at h
    exact h.2

/-- try_join (both models) with never-completing children: `Ok` with every value at its position
    (then every child is well-behaved), or `Err [v]` with `v` the error a well-behaved child's
    script ends with, or at rest — and at rest no well-behaved child's script ends with an error -/
theorem C20_try_join_progress (pick : Nat → Eng Fix → Nat)
    (slice : Bool) (m : Mode) (n : Nat) (scripts : Nat → List Step)
    (hs : ∀ c, c < n → Exec.futOrNever (scripts c) = true) :
    ∃ k, k ≤ 3 * Exec.stepsLeft n (FEng.init (if slice then .tryJoinSlice else .tryJoinTuple) m n scripts) + 1 ∧
      ∃ e, e = ExecAny.runFor (if slice then Fc.tryJoinSlice else Fc.tryJoinTuple) n pick k 0
                (FEng.init (if slice then .tryJoinSlice else .tryJoinTuple) m n scripts) ∧
      (((∀ c, c < n → Exec.futureScript (scripts c) = true) ∧
          lastOut e.w.trace = some (.ready true ((List.range n).map (fun c => Live.finalVal (scripts c)))))
      ∨ (∃ c v, c < n ∧ Exec.futureScript (scripts c) = true ∧
          Exec.lastAnswer (scripts c) = some (.ready false v) ∧
          lastOut e.w.trace = some (.ready false [v]))
      ∨ (Exec.atRest n e = true ∧
          (∀ c, c < n → Exec.futureScript (scripts c) = true →
            ∃ ok, lastRes e.w.trace c = some (.ready ok (Live.finalVal (scripts c)))) ∧
          (∀ c, c < n → Exec.futureScript (scripts c) = false →
            lastRes e.w.trace c = some .pend) ∧
          (∀ c v, c < n → Exec.futureScript (scripts c) = true →
            Exec.lastAnswer (scripts c) ≠ some (.ready false v)))) := by
  simp only [C01_any_busy_nil]
  exact C20_try_join_progress_busy pick _ _ 0 slice m n scripts hs

theorem C20_try_join_progress_steps (pick : Nat → Eng Fix → Nat)
    (slice : Bool) (m : Mode) (n : Nat) (scripts : Nat → List Step)
    (hs : ∀ c, c < n → Exec.futOrNever (scripts c) = true) :
    ∃ k, k ≤ 3 * Exec.stepsLeft n (FEng.init (if slice then .tryJoinSlice else .tryJoinTuple) m n scripts) + 1 ∧
      (Exec.finalOut (lastOut (ExecAny.runFor (if slice then Fc.tryJoinSlice else Fc.tryJoinTuple) n pick k 0
                (FEng.init (if slice then .tryJoinSlice else .tryJoinTuple) m n scripts)).w.trace) = true ∨
       Exec.stepsLeft n (ExecAny.runFor (if slice then Fc.tryJoinSlice else Fc.tryJoinTuple) n pick k 0
                (FEng.init (if slice then .tryJoinSlice else .tryJoinTuple) m n scripts)) = 0) := by
  obtain ⟨k, hk, e, he, h⟩ := C20_try_join_progress pick slice m n scripts hs
  refine ⟨k, hk, ?_⟩
  rw [← he]
  rcases h with ⟨_, h⟩ | ⟨c, v, _, _, _, h⟩ | ⟨h, _⟩
  · left; rw [h]; rfl
  · left; rw [h]; rfl
  · right
    simp only [Exec.atRest, Bool.and_eq_true, beq_iff_eq] at h
    exact h.2

/-- race with never-completing children: the race delivers the value of a well-behaved child —
    or no child is well-behaved and the run comes to rest -/
theorem C20_race_delivers (pick : Nat → Eng Fix → Nat)
    (m : Mode) (n : Nat) (hn : 0 < n) (scripts : Nat → List Step)
    (hs : ∀ c, c < n → Exec.futOrNever (scripts c) = true) :
    ∃ k, k ≤ 3 * Exec.stepsLeft n (FEng.init .race m n scripts) + 1 ∧
      ∃ e, e = ExecAny.runFor Fc.race n pick k 0 (FEng.init .race m n scripts) ∧
      ((∃ c, c < n ∧ Exec.futureScript (scripts c) = true ∧
          lastOut e.w.trace = some (.ready true [Live.finalVal (scripts c)]))
      ∨ ((∀ c, c < n → Exec.futureScript (scripts c) = false) ∧ Exec.atRest n e = true ∧
          (∀ c, c < n → lastRes e.w.trace c = some .pend))) := by
  simp only [C01_any_busy_nil]
  exact C20_race_delivers_busy pick _ _ 0 m n hn scripts hs

/-- … if at least one child is well-behaved, the never-completing siblings do not prevent delivery -/
theorem C20_race_delivers_some (pick : Nat → Eng Fix → Nat)
    (m : Mode) (n : Nat) (scripts : Nat → List Step)
    (hs : ∀ c, c < n → Exec.futOrNever (scripts c) = true)
    (hex : ∃ c, c < n ∧ Exec.futureScript (scripts c) = true) :
    ∃ k, k ≤ 3 * Exec.stepsLeft n (FEng.init .race m n scripts) + 1 ∧
      ∃ c, c < n ∧ Exec.futureScript (scripts c) = true ∧
        lastOut (ExecAny.runFor Fc.race n pick k 0 (FEng.init .race m n scripts)).w.trace
          = some (.ready true [Live.finalVal (scripts c)]) := by
  obtain ⟨c0, hc0, hk0⟩ := hex
  obtain ⟨k, hk, e, he, h⟩ := C20_race_delivers pick m n (by omega) scripts hs
  refine ⟨k, hk, ?_⟩
  rw [← he]
  rcases h with h | ⟨h, _⟩
  · exact h
  · rw [h c0 hc0] at hk0; cases hk0

/-- race_ok (array, Vec and tuple variants) with never-completing children -/
theorem C20_race_ok_delivers (pick : Nat → Eng Fix → Nat)
    (fam : Fam) (hf : fam = .raceOkArr ∨ fam = .raceOkVec ∨ fam = .raceOkTup)
    (m : Mode) (n : Nat) (scripts : Nat → List Step)
    (hs : ∀ c, c < n → Exec.futOrNever (scripts c) = true) :
    ∃ k, k ≤ 3 * Exec.stepsLeft n (FEng.init fam m n scripts) + 1 ∧
      ∃ e, e = ExecAny.runFor fam.policy n pick k 0 (FEng.init fam m n scripts) ∧
      ((∃ c v, c < n ∧ Exec.futureScript (scripts c) = true ∧
          Exec.lastAnswer (scripts c) = some (.ready true v) ∧
          lastOut e.w.trace = some (.ready true [v]))
      ∨ ((∀ c, c < n → Exec.futureScript (scripts c) = true ∧
              ∃ v, Exec.lastAnswer (scripts c) = some (.ready false v)) ∧
          lastOut e.w.trace = some (.ready false ((List.range n).map (fun c => Live.finalVal (scripts c)))))
      ∨ (Exec.atRest n e = true ∧
          (∀ c, c < n → Exec.futureScript (scripts c) = true →
            ∃ ok, lastRes e.w.trace c = some (.ready ok (Live.finalVal (scripts c)))) ∧
          (∀ c, c < n → Exec.futureScript (scripts c) = false →
            lastRes e.w.trace c = some .pend) ∧
          (∀ c v, c < n → Exec.futureScript (scripts c) = true →
            Exec.lastAnswer (scripts c) ≠ some (.ready true v)))) := by
  simp only [C01_any_busy_nil]
  exact C20_race_ok_delivers_busy pick _ _ 0 fam hf m n scripts hs

/-- … if at least one child is well-behaved and its script ends with `Ok`, the race_ok delivers an
    `Ok` — the never-completing (and the failing) siblings do not prevent delivery -/
theorem C20_race_ok_delivers_ok (pick : Nat → Eng Fix → Nat)
    (fam : Fam) (hf : fam = .raceOkArr ∨ fam = .raceOkVec ∨ fam = .raceOkTup)
    (m : Mode) (n : Nat) (scripts : Nat → List Step)
    (hs : ∀ c, c < n → Exec.futOrNever (scripts c) = true)
    (hex : ∃ c v, c < n ∧ Exec.futureScript (scripts c) = true ∧
      Exec.lastAnswer (scripts c) = some (.ready true v)) :
    ∃ k, k ≤ 3 * Exec.stepsLeft n (FEng.init fam m n scripts) + 1 ∧
      ∃ c v, c < n ∧ Exec.futureScript (scripts c) = true ∧
        Exec.lastAnswer (scripts c) = some (.ready true v) ∧
        lastOut (ExecAny.runFor fam.policy n pick k 0 (FEng.init fam m n scripts)).w.trace
          = some (.ready true [v]) := by
  obtain ⟨c0, v0, hc0, hk0, hl0⟩ := hex
  obtain ⟨k, hk, e, he, h⟩ := C20_race_ok_delivers pick fam hf m n scripts hs
  refine ⟨k, hk, ?_⟩
  rw [← he]
  rcases h with h | ⟨h, _⟩ | ⟨_, _, _, h⟩
  · exact h
  · obtain ⟨_, v, hv⟩ := h c0 hc0
    rw [hl0] at hv; cases hv
  · exact absurd hl0 (h c0 v0 hc0 hk0)

/-- merge with never-completing inputs: the run ends with `None` or comes to rest; either way no
    step is left, every well-behaved input has ended, and the items of every input's script, in
    order, are among the yielded values (`yielded` is newest first) -/
theorem C20_merge_delivers (pick : Nat → Eng Fix → Nat)
    (m : Mode) (n : Nat) (scripts : Nat → List Step)
    (hs : ∀ c, c < n → Exec.strOrNever (scripts c) = true) :
    ∃ k, k ≤ 3 * Exec.stepsLeft n (FEng.init .merge m n scripts) + 1 ∧
      ∃ e, e = ExecAny.runFor Fc.merge n pick k 0 (FEng.init .merge m n scripts) ∧
      (((∀ c, c < n → streamScript (scripts c) = true) ∧ lastOut e.w.trace = some .none) ∨
        ((∃ c, c < n ∧ streamScript (scripts c) = false) ∧ Exec.atRest n e = true ∧
          (∀ c, c < n → streamScript (scripts c) = false → lastRes e.w.trace c = some .pend))) ∧
      Exec.stepsLeft n e = 0 ∧
      (∀ c, c < n → streamScript (scripts c) = true → lastRes e.w.trace c = some .fin) ∧
      (∀ c, c < n → (Exec.scriptItems (scripts c)).reverse.Sublist (yielded e.w.trace)) := by
  simp only [C01_any_busy_nil]
  exact C20_merge_delivers_busy pick _ _ 0 m n scripts hs

/-- the deterministic executor of Fc/Exec.lean is the instance `pick := first waiting child`
    (shown for join) -/
example (slice : Bool) (m : Mode) (n : Nat) (scripts : Nat → List Step)
    (hs : ∀ c, c < n → Exec.futOrNever (scripts c) = true) :
    ∃ k, k ≤ 3 * Exec.stepsLeft n (FEng.init (if slice then .joinSlice else .joinTuple) m n scripts) + 1 ∧
      (Exec.finalOut (lastOut (Exec.runFor (if slice then Fc.joinSlice else Fc.joinTuple) n k
                (FEng.init (if slice then .joinSlice else .joinTuple) m n scripts)).w.trace) = true ∨
       Exec.stepsLeft n (Exec.runFor (if slice then Fc.joinSlice else Fc.joinTuple) n k
                (FEng.init (if slice then .joinSlice else .joinTuple) m n scripts)) = 0) := by
  have h := C20_join_progress_steps (fun _ e => (Exec.firstWaiting n e).getD n) slice m n scripts hs
  simp only [C01_any_firstWaiting] at h
  exact h

/-! ### zip: the statement is false -/

/-- input 0: two items, then the end; input 1 never completes -/
def C20live_zip : Nat → List Step := fun c =>
  if c = 0 then [⟨.item 1, []⟩, ⟨.item 2, []⟩, ⟨.fin, []⟩]
  else if c = 1 then [⟨.pend, []⟩] else []

example : ∀ c, c < 2 → Exec.strOrNever (C20live_zip c) = true := by decide

set_option maxRecDepth 100000 in
/-- after the first poll (input 0's item is buffered, input 1 is `Pending`) the run is stuck for
    ever: the outcome is `Pending`, nothing was yielded, and input 0 still has two steps — it is not
    polled again although it would answer at once -/
theorem C20_zip_counterexample (m : Mode) (k : Nat) :
    Exec.finalOut (lastOut (Exec.runFor Fc.zip 2 k (FEng.init .zip m 2 C20live_zip)).w.trace) = false ∧
    Exec.stepsLeft 2 (Exec.runFor Fc.zip 2 k (FEng.init .zip m 2 C20live_zip)) ≠ 0 ∧
    yielded (Exec.runFor Fc.zip 2 k (FEng.init .zip m 2 C20live_zip)).w.trace = [] ∧
    (1 ≤ k → (Exec.runFor Fc.zip 2 k (FEng.init .zip m 2 C20live_zip)).w.scripts 0
        = [⟨.item 2, []⟩, ⟨.fin, []⟩]) := by
  have hsmall : ∀ k, k ≤ 1 →
      Exec.finalOut (lastOut (Exec.runFor Fc.zip 2 k (FEng.init .zip m 2 C20live_zip)).w.trace) = false ∧
      Exec.stepsLeft 2 (Exec.runFor Fc.zip 2 k (FEng.init .zip m 2 C20live_zip)) ≠ 0 ∧
      yielded (Exec.runFor Fc.zip 2 k (FEng.init .zip m 2 C20live_zip)).w.trace = [] ∧
      (1 ≤ k → ((Exec.runFor Fc.zip 2 k (FEng.init .zip m 2 C20live_zip)).w.scripts 0).map (fun s => s.res)
          = [.item 2, .fin] ∧
        ((Exec.runFor Fc.zip 2 k (FEng.init .zip m 2 C20live_zip)).w.scripts 0).all
          (fun s => s.fires.isEmpty) = true) := by cases m <;> decide
  have hstuck : Exec.round Fc.zip 2 (Exec.runFor Fc.zip 2 1 (FEng.init .zip m 2 C20live_zip))
      = none := by
    have : (Exec.round Fc.zip 2 (Exec.runFor Fc.zip 2 1 (FEng.init .zip m 2 C20live_zip))).isNone
        = true := by
      cases m <;> decide
    cases hr : Exec.round Fc.zip 2 (Exec.runFor Fc.zip 2 1 (FEng.init .zip m 2 C20live_zip)) with
    | none => rfl
    | some e' => rw [hr] at this; cases this
  have hred : ∀ k, 1 ≤ k → Exec.runFor Fc.zip 2 k (FEng.init .zip m 2 C20live_zip)
      = Exec.runFor Fc.zip 2 1 (FEng.init .zip m 2 C20live_zip) := by
    intro k hk
    obtain ⟨j, rfl⟩ : ∃ j, k = 1 + j := ⟨k - 1, by omega⟩
    rw [LiveStuck.exec_runFor_add, LiveStuck.exec_runFor_stuck hstuck]
  have hscr : ∀ (l : List Step), l.map (fun s => s.res) = [.item 2, .fin] →
      l.all (fun s => s.fires.isEmpty) = true → l = [⟨.item 2, []⟩, ⟨.fin, []⟩] := by
    intro l h1 h2
    match l, h1, h2 with
    | [⟨r1, f1⟩, ⟨r2, f2⟩], h1, h2 =>
      simp only [List.map_cons, List.map_nil, List.cons.injEq, and_true] at h1
      simp only [List.all_cons, List.all_nil, Bool.and_true, Bool.and_eq_true,
        List.isEmpty_iff] at h2
      obtain ⟨rfl, rfl⟩ := h1
      obtain ⟨rfl, rfl⟩ := h2
      rfl
  by_cases hk : k ≤ 1
  · obtain ⟨h1, h2, h3, h4⟩ := hsmall k hk
    exact ⟨h1, h2, h3, fun h => hscr _ (h4 h).1 (h4 h).2⟩
  · rw [hred k (by omega)]
    obtain ⟨h1, h2, h3, h4⟩ := hsmall 1 (Nat.le_refl _)
    exact ⟨h1, h2, h3, fun _ => hscr _ (h4 (Nat.le_refl _)).1 (h4 (Nat.le_refl _)).2⟩

/-- the progress statement of join / merge, for zip — even for ONE schedule (first waiting child)
    and without any bound on the number of rounds -/
def C20_zip_progress_statement : Prop :=
  ∀ (m : Mode) (n : Nat) (scripts : Nat → List Step),
    (∀ c, c < n → Exec.strOrNever (scripts c) = true) →
    ∃ k, Exec.finalOut (lastOut (Exec.runFor Fc.zip n k (FEng.init .zip m n scripts)).w.trace) = true ∨
      Exec.stepsLeft n (Exec.runFor Fc.zip n k (FEng.init .zip m n scripts)) = 0

/-- … is false: a never-completing input keeps its sibling's steps unconsumed -/
theorem C20_zip_progress_false : ¬ C20_zip_progress_statement := by
  intro h
  obtain ⟨k, hk⟩ := h .std 2 C20live_zip (by decide)
  obtain ⟨h1, h2, _⟩ := C20_zip_counterexample .std k
  rcases hk with hk | hk
  · rw [h1] at hk; cases hk
  · exact h2 hk

/-! ### non-vacuity -/

/-- join of 3: child 0 `Pending, Ready 10`; child 1 NEVER completes — three `Pending` steps that
    fire the newest waker of child 0 and a stale one of child 2, its own stale waker and a waker
    that was never handed out, the newest wakers of child 2 and of itself; child 2
    `Pending, Pending (waking itself), Ready 12` -/
def C20live_join : Nat → List Step := fun c =>
  if c = 0 then [⟨.pend, []⟩, ⟨.ready true 10, []⟩]
  else if c = 1 then [⟨.pend, [(0, 0), (2, 1)]⟩, ⟨.pend, [(1, 1), (0, 5)]⟩, ⟨.pend, [(2, 0), (1, 0)]⟩]
  else if c = 2 then [⟨.pend, []⟩, ⟨.pend, [(2, 0)]⟩, ⟨.ready true 12, []⟩] else []

example : ∀ c, c < 3 → Exec.futOrNever (C20live_join c) = true := by decide
example : Exec.futureScript (C20live_join 1) = false ∧ Exec.pendScript (C20live_join 1) = true := by
  decide
example : Exec.stepsLeft 3 (FEng.init .joinTuple .std 3 C20live_join) = 8 := by decide

set_option maxRecDepth 100000 in
/-- tuple model, std mode, first waiting child: at rest (in round 6, well within `3 * 8 + 1`); the
    two others have resolved, child 1 is `Pending`, the join is `Pending`, all steps are consumed -/
example : Exec.atRest 3 (Exec.runFor Fc.joinTuple 3 25 (FEng.init .joinTuple .std 3 C20live_join)) = true ∧
    (List.range 3).map (lastRes (Exec.runFor Fc.joinTuple 3 25
        (FEng.init .joinTuple .std 3 C20live_join)).w.trace)
      = [some (.ready true 10), some .pend, some (.ready true 12)] ∧
    lastOut (Exec.runFor Fc.joinTuple 3 25 (FEng.init .joinTuple .std 3 C20live_join)).w.trace
      = some .pending ∧
    Exec.stepsLeft 3 (Exec.runFor Fc.joinTuple 3 25 (FEng.init .joinTuple .std 3 C20live_join)) = 0 := by
  decide
set_option maxRecDepth 100000 in
/-- … not before round 6, and then for ever -/
example : (List.range 9).map (fun k => Exec.atRest 3 (Exec.runFor Fc.joinTuple 3 k
      (FEng.init .joinTuple .std 3 C20live_join)))
    = [false, false, false, false, false, false, true, true, true] := by decide
set_option maxRecDepth 100000 in
/-- the wake-ups of the run (newest first): prods and the scripted in-poll wake-ups, child 1's
    stale ones included -/
example : C01any_prods (Exec.runFor Fc.joinTuple 3 25 (FEng.init .joinTuple .std 3 C20live_join)).w.trace
    = [2, 1, 2, 0, 1, 1, 2, 0] := by decide
set_option maxRecDepth 100000 in
/-- another schedule (last waiting child), the array/Vec model in direct mode: the same end -/
example : Exec.atRest 3 (ExecAny.runFor Fc.joinTuple 3 (C01any_pickLast 3) 25 0
      (FEng.init .joinTuple .std 3 C20live_join)) = true ∧
    (List.range 3).map (lastRes (ExecAny.runFor Fc.joinTuple 3 (C01any_pickLast 3) 25 0
        (FEng.init .joinTuple .std 3 C20live_join)).w.trace)
      = [some (.ready true 10), some .pend, some (.ready true 12)] ∧
    Exec.atRest 3 (ExecAny.runFor Fc.joinSlice 3 (C01any_pickLast 3) 25 0
      (FEng.init .joinSlice .direct 3 C20live_join)) = true ∧
    (List.range 3).map (lastRes (ExecAny.runFor Fc.joinSlice 3 (C01any_pickLast 3) 25 0
        (FEng.init .joinSlice .direct 3 C20live_join)).w.trace)
      = [some (.ready true 10), some .pend, some (.ready true 12)] := by decide
set_option maxRecDepth 100000 in
/-- the safety monitors accept the run -/
example : holds_C20 true 3 (Exec.runFor Fc.joinTuple 3 25
      (FEng.init .joinTuple .std 3 C20live_join)).w.trace = true ∧
    holds_C01 3 (Exec.runFor Fc.joinTuple 3 25
      (FEng.init .joinTuple .std 3 C20live_join)).w.trace = true := by decide

/-- merge of 3 (`C01live3_merge` with input 1 replaced by a never-completing one that fires its own
    waker, input 0's newest and a stale one of input 2) -/
def C20live_merge : Nat → List Step := fun c =>
  if c = 0 then [⟨.item 1, []⟩, ⟨.pend, []⟩, ⟨.item 2, []⟩, ⟨.fin, []⟩]
  else if c = 1 then [⟨.pend, [(1, 0)]⟩, ⟨.pend, [(0, 0), (2, 1)]⟩]
  else if c = 2 then
    [⟨.pend, [(0, 0)]⟩, ⟨.item 5, []⟩, ⟨.item 6, []⟩, ⟨.pend, []⟩, ⟨.item 7, []⟩, ⟨.fin, []⟩]
  else []

example : ∀ c, c < 3 → Exec.strOrNever (C20live_merge c) = true := by decide
example : streamScript (C20live_merge 1) = false := by decide

set_option maxRecDepth 100000 in
/-- std mode: at rest, every item of inputs 0 and 2 yielded, both have ended, input 1 is `Pending` -/
example : Exec.atRest 3 (Exec.runFor Fc.merge 3 37 (FEng.init .merge .std 3 C20live_merge)) = true ∧
    yielded (Exec.runFor Fc.merge 3 37 (FEng.init .merge .std 3 C20live_merge)).w.trace
      = [7, 6, 5, 2, 1] ∧
    (List.range 3).map (lastRes (Exec.runFor Fc.merge 3 37
        (FEng.init .merge .std 3 C20live_merge)).w.trace)
      = [some .fin, some .pend, some .fin] := by decide
set_option maxRecDepth 100000 in
/-- direct mode, last waiting child: another interleaving, the same items -/
example : Exec.atRest 3 (ExecAny.runFor Fc.merge 3 (C01any_pickLast 3) 37 0
      (FEng.init .merge .direct 3 C20live_merge)) = true ∧
    (yielded (ExecAny.runFor Fc.merge 3 (C01any_pickLast 3) 37 0
      (FEng.init .merge .direct 3 C20live_merge)).w.trace).length = 5 ∧
    holds_C08 3 (ExecAny.runFor Fc.merge 3 (C01any_pickLast 3) 37 0
      (FEng.init .merge .direct 3 C20live_merge)).w.trace = true := by decide

/-- race of 3: child 0 never completes (and wakes child 1 and itself), child 2 never completes and
    never wakes anybody (empty script), child 1 resolves after two `Pending`s -/
def C20live_race : Nat → List Step := fun c =>
  if c = 0 then [⟨.pend, [(1, 0)]⟩, ⟨.pend, [(0, 0)]⟩]
  else if c = 1 then [⟨.pend, []⟩, ⟨.pend, []⟩, ⟨.ready true 21, []⟩]
  else []

example : ∀ c, c < 3 → Exec.futOrNever (C20live_race c) = true := by decide
set_option maxRecDepth 100000 in
/-- the race delivers child 1's value -/
example : lastOut (Exec.runFor Fc.race 3 16 (FEng.init .race .std 3 C20live_race)).w.trace
    = some (.ready true [21]) := by decide

/-- race of 3 without a well-behaved child: at rest -/
def C20live_race_never : Nat → List Step := fun c =>
  if c = 0 then [⟨.pend, [(1, 0)]⟩, ⟨.pend, [(0, 0)]⟩]
  else if c = 1 then [⟨.pend, []⟩, ⟨.pend, [(0, 1)]⟩]
  else []
set_option maxRecDepth 100000 in
example : Exec.atRest 3 (Exec.runFor Fc.race 3 13 (FEng.init .race .std 3 C20live_race_never)) = true := by
  decide

/-- race_ok / try_join of 3: child 0 fails, child 1 never completes, child 2 succeeds -/
def C20live_ok : Nat → List Step := fun c =>
  if c = 0 then [⟨.pend, []⟩, ⟨.ready false 30, []⟩]
  else if c = 1 then [⟨.pend, [(0, 0)]⟩]
  else if c = 2 then [⟨.pend, []⟩, ⟨.pend, []⟩, ⟨.ready true 32, []⟩] else []

example : ∀ c, c < 3 → Exec.futOrNever (C20live_ok c) = true := by decide
example : Exec.lastAnswer (C20live_ok 2) = some (.ready true 32) := by decide
set_option maxRecDepth 100000 in
/-- race_ok (Vec variant) delivers child 2's `Ok`; try_join (tuple model) delivers child 0's `Err` -/
example : lastOut (Exec.runFor Fam.raceOkVec.policy 3 19 (FEng.init .raceOkVec .std 3 C20live_ok)).w.trace
      = some (.ready true [32]) ∧
    lastOut (Exec.runFor Fc.tryJoinTuple 3 19 (FEng.init .tryJoinTuple .std 3 C20live_ok)).w.trace
      = some (.ready false [30]) := by decide

end Fc

#print axioms Fc.C20_atRest_stuck
#print axioms Fc.C20_join_progress
#print axioms Fc.C20_join_progress_steps
#print axioms Fc.C20_try_join_progress
#print axioms Fc.C20_try_join_progress_steps
#print axioms Fc.C20_race_delivers
#print axioms Fc.C20_race_delivers_some
#print axioms Fc.C20_race_ok_delivers
#print axioms Fc.C20_race_ok_delivers_ok
#print axioms Fc.C20_merge_delivers
#print axioms Fc.C20_join_progress_busy
#print axioms Fc.C20_try_join_progress_busy
#print axioms Fc.C20_race_delivers_busy
#print axioms Fc.C20_race_ok_delivers_busy
#print axioms Fc.C20_merge_delivers_busy
#print axioms Fc.C20_zip_counterexample
#print axioms Fc.C20_zip_progress_false
