/-
  Kernel tie, no_std / alloc-only builds — `join()` over `Vec` and arrays.  Without the `std` feature the SAME family sources are compiled
  against src/utils/wakers/{vec,array}/no_std.rs: the readiness set has no flags (`clear_ready` answers `true`, `any_ready` is
  `true`, `set_ready` does nothing) and `WakerVec::get` / `WakerArray::get` hand out the stored parent waker, so every
  unfinished child is polled on every poll with the caller's own waker — the model's `direct` mode.  tools/rs2lean.py
  produces this flavour from the translated source of the family (FcGen/KSrcFam2D.lean, KSrcArr1D.lean: the text of the std
  flavour with the functions of no_std.rs, translated in FcGen/KSrcDir.lean, in place of those of the std waker module).
  The statements are those of the std flavour (FcProps/KTieJoin.lean, KTieJoinArr.lean) read through `TieDir.absV` / `absA`; the
  clauses about the flag table are gone.  Proofs: FcProps/KTieJoinVD.lean, KTieJoinAD.lean.
-/
import FcGen.KSrcFam2D
import FcGen.KSrcArr1D
import FcProps.KTieCore
import FcProps.KTieDir
import FcProps.KTiePS

namespace Fc
open Rs Src

namespace TieJoinVD
open JoinVD

def absJ (g : Join) (b : Eng Fix) : Eng Fix :=
  { w := TieDir.absV g.roleWakers.readiness b.w,
    s := { b.s with n := g.roleKids.len, st := fun i => TiePS.abs (g.roleStates.get i), out := g.roleItems.get,
                    cnt := g.roleCount, dead := g.roleDone } }

/-- `pending` counts the children whose state is `Pending`; a `Ready` slot holds an output -/
structure WfJ (g : Join) : Prop where
  sl : g.roleStates.len = g.roleKids.len
  ic : g.roleItems.cap = g.roleKids.len
  pc : g.roleCount = ((List.range g.roleKids.len).filter (fun i => g.roleStates.get i = PS.PollState.pending)).length
  rs : ∀ i, i < g.roleKids.len → (g.roleStates.get i = PS.PollState.pending ∨
        (g.roleStates.get i = PS.PollState.ready ∧ ∃ v, g.roleItems.get i = some v))

def poll_tie_statement : Prop :=
  ∀ (g : Join) (b : Eng Fix) (w : Nat),
    WfJ g → FutStepsF b.w → (∀ c i, Wk.sub i ∈ b.w.handed c → i < g.roleKids.len) → g.roleDone = false →
    ∃ g' env' ret,
      Join.poll g w ((absJ g b).w.emit (.pollBegin w)) = some (g', env', ret) ∧
      (ret = .pending → WfJ g') ∧
      (ret = .pending → jcore (absJ g' b) = jcore (Eng.poll joinSlice (absJ g b) w)) ∧
      (ret ≠ .pending → TieJoinV.doneAgree (absJ g' b) (Eng.poll joinSlice (absJ g b) w)) ∧
      env'.scripts = (Eng.poll joinSlice (absJ g b) w).w.scripts ∧
      env'.handed = (Eng.poll joinSlice (absJ g b) w).w.handed ∧
      (Eng.poll joinSlice (absJ g b) w).w.trace = .pollEnd (outcomeOfJoin ret) :: env'.trace

/-- dropping a join that has not completed: the outputs already produced are released, then the children still pending -/
def drop_tie_statement : Prop :=
  ∀ (g : Join) (b : Eng Fix),
    WfJ g → g.roleDone = false →
    ∃ g' env',
      Join.drop g ((absJ g b).w.emit .dropBegin) = some (g', env', ()) ∧
      (Eng.drop joinSlice (absJ g b)).w.trace = .dropEnd :: env'.trace ∧
      env'.scripts = b.w.scripts ∧ env'.handed = b.w.handed

end TieJoinVD

namespace TieJoinAD
open JoinAD

def absJ (g : Join) (b : Eng Fix) : Eng Fix :=
  { w := TieDir.absA g.roleWakers.readiness b.w,
    s := { b.s with n := g.roleKids.len, st := fun i => TiePS.abs (g.roleStates.get i), out := g.roleItems.get,
                    cnt := g.roleCount, dead := g.roleDone } }

/-- the array holds `N` children; `pending` counts those whose state is `Pending`; a `Ready` slot holds an output -/
structure WfJ (N : Nat) (g : Join) : Prop where
  kn : g.roleKids.len = N
  sl : g.roleStates.len = N
  ic : g.roleItems.cap = N
  pc : g.roleCount = ((List.range N).filter (fun i => g.roleStates.get i = PS.PollState.pending)).length
  rs : ∀ i, i < N → (g.roleStates.get i = PS.PollState.pending ∨
        (g.roleStates.get i = PS.PollState.ready ∧ ∃ v, g.roleItems.get i = some v))

def poll_tie_statement : Prop :=
  ∀ (N : Nat) (g : Join) (b : Eng Fix) (w : Nat),
    WfJ N g → FutStepsF b.w → (∀ c i, Wk.sub i ∈ b.w.handed c → i < N) → g.roleDone = false →
    ∃ g' env' ret,
      Join.poll N g w ((absJ g b).w.emit (.pollBegin w)) = some (g', env', ret) ∧
      (ret = .pending → WfJ N g') ∧
      (ret = .pending → jcore (absJ g' b) = jcore (Eng.poll joinSlice (absJ g b) w)) ∧
      (ret ≠ .pending → TieJoinV.doneAgree (absJ g' b) (Eng.poll joinSlice (absJ g b) w)) ∧
      env'.scripts = (Eng.poll joinSlice (absJ g b) w).w.scripts ∧
      env'.handed = (Eng.poll joinSlice (absJ g b) w).w.handed ∧
      (Eng.poll joinSlice (absJ g b) w).w.trace = .pollEnd (outcomeOfJoin ret) :: env'.trace

/-- dropping a join that has not completed: the outputs already produced are released, then the children still pending -/
def drop_tie_statement : Prop :=
  ∀ (N : Nat) (g : Join) (b : Eng Fix),
    WfJ N g → g.roleDone = false →
    ∃ g' env',
      Join.drop N g ((absJ g b).w.emit .dropBegin) = some (g', env', ()) ∧
      (Eng.drop joinSlice (absJ g b)).w.trace = .dropEnd :: env'.trace ∧
      env'.scripts = b.w.scripts ∧ env'.handed = b.w.handed

end TieJoinAD

end Fc
