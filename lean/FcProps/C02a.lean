/-
  C02 — exactly-once ownership, for the families that keep a per-slot state table with stored
  values: join, try_join (array/Vec and tuple models), race_ok (array, Vec, tuple) and zip.

  Monitor `Mon.holds_C02 true n` (Fc/Monitors.lean).  It speaks about histories in which the
  combinator's destructor ran to its end (`dropEnd` occurs); for those it demands
    * nothing is released after the destructor returned (`quietAfterDrop`);
    * every child `c < n` is dropped exactly once (`childDropped c` occurs exactly once — in place,
      when its slot is done, or by the destructor);
    * multiset accounting of values: for every value `v` some child produced (`childEnd _ (ready _ v)`
      or `childEnd _ (item v)`), the number of times `v` was handed to the caller (in a `pollEnd`)
      plus the number of times it was dropped (`valDropped v`) equals the number of times it was
      produced — nothing leaks, nothing is dropped twice, nothing is both returned and dropped;
    * nothing is returned or dropped that no child produced.

  The theorem covers every number of children, all child scripts of the right kind, both waker
  strategies and every operation history: the drop after any number of polls (zero included),
  after completion, after a child's poll panicked (the unwinding leaves the slot table intact and
  the destructor still releases everything), polls and wake-ups after the drop.

  Hypotheses.
    * `hk : c.kindOk` — futures only resolve, streams only yield/end (Rust's types).  Needed: the
      monitor counts every `item v` / `ready _ v` answer as a produced value, and e.g. a join has
      (type-correctly) no place to put an item.
    * `h1` — for race_ok over an array or a tuple and for zip the history contains at most one
      `drop`.  In these three models the children are plain fields, `dropEvs` releases all of them
      whatever the state, so a second `Op.drop` (impossible for a Rust value; the harness never
      does it) would release every child a second time and the monitor is then false
      (`C02_double_drop_rejected` below).  For join, try_join and race_ok over a Vec no such
      hypothesis is needed: a second drop finds an empty table.
-/
import FcLemmas.C02aSim
import Fc.Holds

namespace Fc
open Mon

theorem C02_exactly_once_slots (c : Case)
    (hf : c.fam = .joinSlice ∨ c.fam = .joinTuple ∨ c.fam = .tryJoinSlice ∨ c.fam = .tryJoinTuple ∨
          c.fam = .raceOkArr ∨ c.fam = .raceOkVec ∨ c.fam = .raceOkTup ∨ c.fam = .zip)
    (hk : c.kindOk)
    (h1 : (c.fam = .raceOkArr ∨ c.fam = .raceOkTup ∨ c.fam = .zip) →
          c.ops.countP (fun o => o matches .drop) ≤ 1) :
    holds_C02 true c.n c.trace = true := by
  have hcount : c.ops.countP C02.isDrop = c.ops.countP (fun o => o matches .drop) := by
    first | rfl | (congr 1; funext o; cases o <;> rfl)
  rw [← hcount] at h1
  rcases hf with hf | hf | hf | hf | hf | hf | hf | hf
  · exact C02.main c false (some true) (by rw [hf]; rfl)
      (by rw [hf]; exact C02.sim_joinSlice c.n _ _ (fun _ _ h => h))
      (by rw [hf]; intro b hb; cases hb; rfl) hk (fun h => by cases h)
  · exact C02.main c false (some false) (by rw [hf]; rfl)
      (by rw [hf]; exact C02.sim_joinTuple c.n _ _ (fun _ _ h => h))
      (by rw [hf]; intro b hb; cases hb; rfl) hk (fun h => by cases h)
  · exact C02.main c false (some true) (by rw [hf]; rfl)
      (by rw [hf]; exact C02.sim_tryJoinSlice c.n _ _ (fun _ _ h => h))
      (by rw [hf]; intro b hb; cases hb; rfl) hk (fun h => by cases h)
  · exact C02.main c false (some false) (by rw [hf]; rfl)
      (by rw [hf]; exact C02.sim_tryJoinTuple c.n _ _ (fun _ _ h => h))
      (by rw [hf]; intro b hb; cases hb; rfl) hk (fun h => by cases h)
  · exact C02.main c true (some false) (by rw [hf]; rfl)
      (by rw [hf]; exact C02.sim_raceOk false c.n _ _ (fun _ _ h => h))
      (by rw [hf]; intro b hb; cases hb; rfl) hk (fun _ => h1 (Or.inl hf))
  · exact C02.main c false (some false) (by rw [hf]; rfl)
      (by rw [hf]; exact C02.sim_raceOkVec c.n _ _ (fun _ _ h => h))
      (by rw [hf]; intro b hb; cases hb; rfl) hk (fun h => by cases h)
  · exact C02.main c true (some false) (by rw [hf]; rfl)
      (by rw [hf]; exact C02.sim_raceOk true c.n _ _ (fun _ _ h => h))
      (by rw [hf]; intro b hb; cases hb; rfl) hk (fun _ => h1 (Or.inr (Or.inl hf)))
  · exact C02.main c true none (by rw [hf]; rfl)
      (by rw [hf]; exact C02.sim_zip c.n _ _ (fun _ _ h => h))
      (by intro b hb; cases hb) hk (fun _ => h1 (Or.inr (Or.inr hf)))

/-- the five families that release a finished child in place need no hypothesis on the number of
    `drop` operations -/
theorem C02_exactly_once_slots_any_drops (c : Case)
    (hf : c.fam = .joinSlice ∨ c.fam = .joinTuple ∨ c.fam = .tryJoinSlice ∨ c.fam = .tryJoinTuple ∨
          c.fam = .raceOkVec)
    (hk : c.kindOk) : holds_C02 true c.n c.trace = true := by
  refine C02_exactly_once_slots c ?_ hk ?_
  · rcases hf with h | h | h | h | h <;> simp [h]
  · intro h
    rcases hf with h' | h' | h' | h' | h' <;> rw [h'] at h <;> simp at h

/-! ### non-vacuity -/

/-- try_join over a tuple of three: child 0 resolves `Ok(10)` in the first poll, child 1 fails with
    `Err(66)` in the second, child 2 is still pending; dropped after the error was returned.  The
    error goes to the caller, the buffered `Ok` value and the pending child are released by the
    destructor, the two finished children were released in place. -/
def C02_tryJoin_example : Case :=
  { fam := .tryJoinTuple, mode := .std, keyed := false, n := 3,
    scripts := fun c => if c = 0 then [⟨.ready true 10, []⟩]
                        else if c = 1 then [⟨.pend, []⟩, ⟨.ready false 66, []⟩]
                        else if c = 2 then [⟨.pend, []⟩] else [],
    ops := [.poll 1, .fire 1 0, .poll 2, .drop, .poll 3] }

example : holds_C02 true 3 C02_tryJoin_example.trace = true := by decide
example : C02_tryJoin_example.run.contains (.pollEnd (.ready false [66])) = true := by decide
example : C02_tryJoin_example.run.contains (.valDropped 10) = true := by decide
example : dropCompleted C02_tryJoin_example.trace = true := by decide
example : droppedChildren C02_tryJoin_example.trace = [2, 1, 0] := by decide
example : C02_tryJoin_example.run.getLast? = some (.pollEnd .misuse) := by decide

/-- zip of two streams dropped with a half-filled row: stream 0 yielded 5, stream 1 is pending -/
def C02_zip_example : Case :=
  { fam := .zip, mode := .std, keyed := false, n := 2,
    scripts := fun c => if c = 0 then [⟨.item 5, []⟩, ⟨.item 6, []⟩]
                        else if c = 1 then [⟨.item 7, []⟩, ⟨.pend, []⟩] else [],
    ops := [.poll 1, .poll 2, .drop] }

example : holds_C02 true 2 C02_zip_example.trace = true := by decide
example : C02_zip_example.run.contains (.pollEnd (.some 0 [5, 7])) = true := by decide
example : C02_zip_example.run.contains (.valDropped 6) = true := by decide
example : droppedChildren C02_zip_example.trace = [1, 0] := by decide

/-- join of two whose second child panics after the first resolved: the unwinding keeps the slot
    table, the destructor releases the stored value and the child that panicked -/
def C02_panic_example : Case :=
  { fam := .joinSlice, mode := .std, keyed := false, n := 2,
    scripts := fun c => if c = 0 then [⟨.ready true 3, []⟩]
                        else if c = 1 then [⟨.panic, []⟩] else [],
    ops := [.poll 1, .drop] }

example : holds_C02 true 2 C02_panic_example.trace = true := by decide
example : C02_panic_example.run.contains (.pollEnd .panicked) = true := by decide
example : C02_panic_example.run.contains (.valDropped 3) = true := by decide

/-- hypothesis `h1` is needed: a second `drop` of a zip releases the children again -/
def C02_double_drop_rejected : Case :=
  { C02_zip_example with ops := [.poll 1, .drop, .drop] }
example : holds_C02 true 2 C02_double_drop_rejected.trace = false := by decide
/-- ... but not for the families that release children in place -/
example : holds_C02 true 3 { C02_tryJoin_example with ops := [.poll 1, .drop, .drop] }.trace = true := by
  decide

/-- hypothesis `hk` is needed: a join whose child answered with a stream item "leaks" it -/
example : holds_C02 true 2 { C02_zip_example with fam := .joinSlice, ops := [.poll 1, .drop] }.trace = false := by
  decide

/-- the monitor is not trivially true (traces newest first).  A child dropped twice: -/
example : holds_C02 true 1 [.dropEnd, .childDropped 0, .childDropped 0, .dropBegin] = false := by decide
/-- a child never dropped: -/
example : holds_C02 true 2 [.dropEnd, .childDropped 0, .dropBegin] = false := by decide
/-- a produced value that is neither returned nor dropped (leak): -/
example : holds_C02 true 1 [.dropEnd, .childDropped 0, .dropBegin, .pollEnd .pending,
    .childEnd 0 (.ready true 5), .childBegin 0 0 (.sub 0), .pollBegin 1] = false := by decide
/-- a value returned to the caller and dropped as well: -/
example : holds_C02 true 1 [.dropEnd, .valDropped 5, .dropBegin, .pollEnd (.ready true [5]),
    .childDropped 0, .childEnd 0 (.ready true 5), .childBegin 0 0 (.sub 0), .pollBegin 1] = false := by
  decide
/-- (the same history without the second release is accepted) -/
example : holds_C02 true 1 [.dropEnd, .dropBegin, .pollEnd (.ready true [5]),
    .childDropped 0, .childEnd 0 (.ready true 5), .childBegin 0 0 (.sub 0), .pollBegin 1] = true := by
  decide
/-- a value returned that no child produced: -/
example : holds_C02 true 1 [.dropEnd, .childDropped 0, .dropBegin, .pollEnd (.ready true [7]),
    .pollBegin 1] = false := by decide
/-- something released after the destructor returned: -/
example : holds_C02 true 1 [.childDropped 0, .dropEnd, .dropBegin] = false := by decide

end Fc

#print axioms Fc.C02_exactly_once_slots
#print axioms Fc.C02_exactly_once_slots_any_drops
