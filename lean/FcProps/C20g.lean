/-
  C20 (groups) — Concurrent evaluation, FutureGroup / StreamGroup: every member is started, none
  waits for another.

  Monitor `Mon.holds_C20 (fixed := false) n` (Fc/Monitors.lean): at every `pollEnd Pending`, for
  every owned member c < n (`keyOf t c` is some key and c is not `gone`: inserted, neither completed
  nor removed nor dropped),
    (a) c has been polled at least once — a freshly inserted member is polled by the next poll
        before it may return Pending (insert arms the member's slot), and
    (b) if c was waiting (last result Pending) and its waker had been invoked when this poll began
        (also by a stale waker of a previous occupant of its slot), then c was polled during this poll
  — whatever the other members do (in particular: never complete).

  Hypotheses: as for C01 (`FcProps/C01g.lean`): `c.kindOk` is necessary (`C20_group_needs_kindOk`),
  `Case.insertsFresh` is used by the proof.
-/
import FcLemmas.GrpFinal
import Fc.Holds

namespace Fc
open Mon

/-- the statement without the kind hypothesis — it is FALSE (`C20_group_needs_kindOk`) -/
def C20_concurrent_group_statement : Prop :=
  ∀ (c : Case), c.fam.isGroup = true → Case.insertsFresh c → ∀ n : Nat,
    holds_C20 false n c.trace = true

/-- C20 for FutureGroup and StreamGroup (plain and keyed), both waker strategies: every history of
    inserts (also into reused slots and across capacity growth), removes, reserves, extends,
    queries, polls, wake-ups and the drop; every behaviour of the members. -/
theorem C20_concurrent_group (c : Case) (hg : c.fam.isGroup = true) (hk : c.kindOk)
    (hw : Case.insertsFresh c) (n : Nat) : holds_C20 false n c.trace = true :=
  (G.group_holds c hg hk hw n).2

/-! ### why `kindOk` is needed (same scenario as for C01: a stale `key_removal_queue` entry removes
    the key of a new member, which is then never polled again although its waker fired) -/
def C20g_badKind : Case :=
  { fam := .futGroup, mode := .std, keyed := false, n := 4,
    scripts := fun c => if c = 0 then [⟨.fin, []⟩] else if c = 1 then [⟨.ready true 7, []⟩] else [],
    ops := [.insert 0, .insert 1, .poll 1, .insert 2, .insert 3, .poll 2, .fire 3 0, .poll 3] }

example : holds_C20 false 4 C20g_badKind.trace = false := by decide
example : holds_C20 false 4 ({ C20g_badKind with mode := .direct } : Case).trace = false := by decide
example : holds_C20 false 4 ({ C20g_badKind with fam := .strGroup } : Case).trace = false := by decide

theorem C20_group_needs_kindOk : ¬ C20_concurrent_group_statement := by
  intro h
  have := h C20g_badKind (by decide) (by unfold Case.insertsFresh; decide) 4
  revert this
  decide

/-! ### non-vacuity

  A std-mode StreamGroup: member 1 never yields (its script is empty: Pending forever); member 0
  yields twice and ends, member 2 is inserted into a group with pending members and is polled by
  the very next poll that scans; wake-ups of 0 and 2 (also a stale one of 0 after
  it ended, which arms the vacant slot later reused by member 4) drive the others. -/
def C20g_example : Case :=
  { fam := .strGroup, mode := .std, keyed := true, n := 5,
    scripts := fun c => if c = 0 then [⟨.pend, []⟩, ⟨.item 1, []⟩, ⟨.pend, [(0, 0)]⟩, ⟨.item 2, []⟩,
                                       ⟨.fin, []⟩]
                        else if c = 2 then [⟨.pend, []⟩, ⟨.item 20, []⟩, ⟨.fin, []⟩] else [],
    ops := [.insert 0, .insert 1, .poll 1, .fire 0 0, .poll 2, .poll 3, .insert 2, .poll 4,
            .poll 5, .fire 2 0, .poll 6, .poll 7, .fire 0 0, .insert 3, .insert 4, .poll 8, .poll 9] }

example : C20g_example.fam.isGroup = true := by decide
example : Case.insertsFresh C20g_example := by unfold Case.insertsFresh; decide
example : C20g_example.kindOk := by
  intro ch st h
  unfold C20g_example at h
  simp only at h
  split at h
  · simp at h; rcases h with rfl | rfl | rfl | rfl | rfl <;> rfl
  · split at h
    · simp at h; rcases h with rfl | rfl | rfl <;> rfl
    · simp at h
example : holds_C20 false 5 C20g_example.trace = true := by decide
/-- several polls return Pending, at each of which the monitor checks all owned members -/
example : 3 ≤ (C20g_example.run.filter (fun e => e == .pollEnd .pending)).length := by decide
/-- the others make progress although member 1 never completes -/
example : C20g_example.run.contains (.pollEnd (.some 0 [1])) = true ∧
    C20g_example.run.contains (.pollEnd (.some 0 [2])) = true ∧
    C20g_example.run.contains (.childEnd 0 .fin) = true ∧
    C20g_example.run.contains (.childEnd 2 (.item 20)) = true := by decide
/-- members 3 and 4 land in the slots freed by members 2 and 0 (slot 0 with a stale set bit) and are
    polled by the next poll -/
example : C20g_example.run.contains (.inserted 3 2) = true ∧
    C20g_example.run.contains (.inserted 4 0) = true ∧
    C20g_example.run.contains (.childBegin 4 0 (.sub 0)) = true ∧
    C20g_example.run.contains (.childBegin 3 2 (.sub 2)) = true := by decide

/-- the monitor rejects a Pending poll that did not start a freshly inserted member
    (trace newest first) … -/
example : holds_C20 false 1 [.pollEnd .pending, .pollBegin 1, .inserted 0 0] = false := by decide
/-- … and one that skipped a waiting member whose waker had fired … -/
example : holds_C20 false 2
    [.pollEnd .pending, .pollBegin 2, .fired 0 0 (some (.sub 0)), .pollEnd .pending,
     .childEnd 1 .pend, .childBegin 1 1 (.sub 1), .childEnd 0 .pend, .childBegin 0 0 (.sub 0),
     .pollBegin 1, .inserted 1 1, .inserted 0 0] = false := by decide
/-- … accepts it when the member is polled … -/
example : holds_C20 false 2
    [.pollEnd .pending, .childEnd 0 .pend, .childBegin 0 0 (.sub 0), .pollBegin 2,
     .fired 0 0 (some (.sub 0)), .pollEnd .pending,
     .childEnd 1 .pend, .childBegin 1 1 (.sub 1), .childEnd 0 .pend, .childBegin 0 0 (.sub 0),
     .pollBegin 1, .inserted 1 1, .inserted 0 0] = true := by decide
/-- … or was removed in between -/
example : holds_C20 false 2
    [.pollEnd .pending, .pollBegin 2, .removed 0 true, .childDropped 0,
     .fired 0 0 (some (.sub 0)), .pollEnd .pending,
     .childEnd 1 .pend, .childBegin 1 1 (.sub 1), .childEnd 0 .pend, .childBegin 0 0 (.sub 0),
     .pollBegin 1, .inserted 1 1, .inserted 0 0] = true := by decide

end Fc

#print axioms Fc.C20_concurrent_group
#print axioms Fc.C20_group_needs_kindOk
