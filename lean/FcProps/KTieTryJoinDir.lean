/-
  Kernel tie, no_std / alloc-only builds — `try_join()` over `Vec` and arrays.  Without the `std` feature the SAME family sources are compiled
  against src/utils/wakers/{vec,array}/no_std.rs: the readiness set has no flags (`clear_ready` answers `true`, `any_ready` is
  `true`, `set_ready` does nothing) and `WakerVec::get` / `WakerArray::get` hand out the stored parent waker, so every
  unfinished child is polled on every poll with the caller's own waker — the model's `direct` mode.  tools/rs2lean.py
  produces this flavour from the translated source of the family (FcGen/KSrcFam3D.lean, KSrcArr2D.lean: the text of the std
  flavour with the functions of no_std.rs, translated in FcGen/KSrcDir.lean, in place of those of the std waker module).
  The statements are those of the std flavour (FcProps/KTieTryJoin.lean, KTieTryJoinArr.lean) read through `TieDir.absV` / `absA`; the
  clauses about the flag table are gone.  Proofs: FcProps/KTieTryJoinVD.lean, KTieTryJoinAD.lean.
-/
import FcGen.KSrcFam3D
import FcGen.KSrcArr2D
import FcProps.KTieCore
import FcProps.KTieDir
import FcProps.KTiePS

namespace Fc
open Rs Src

namespace TieTryJoinVD
open TryJoinVD

def absT (g : TryJoin) (b : Eng Fix) : Eng Fix :=
  { w := TieDir.absV g.roleWakers.readiness b.w,
    s := { b.s with n := g.roleKids.len, st := fun i => TiePS.abs (g.roleStates.get i), out := g.roleItems.get,
                    cnt := g.roleCount, dead := g.roleDone } }

/-- `pending` counts the children whose state is `Pending`; a `Ready` slot holds an output -/
structure WfT (g : TryJoin) : Prop where
  sl : g.roleStates.len = g.roleKids.len
  ic : g.roleItems.cap = g.roleKids.len
  pc : g.roleCount = ((List.range g.roleKids.len).filter (fun i => g.roleStates.get i = PS.PollState.pending)).length
  rs : ∀ i, i < g.roleKids.len → (g.roleStates.get i = PS.PollState.pending ∨
        (g.roleStates.get i = PS.PollState.ready ∧ ∃ v, g.roleItems.get i = some v))

/- STATEMENT FIXED (W7): the clause `jcore (absT g' b) = jcore (Eng.poll tryJoinSlice (absT g b) w)` was stated for every
   return value; it is false when the poll completes with `Ready(Ok(_))` (see `jcoreDone` and the counterexample in
   FcProps/KTieTryJoinV.lean).  It is kept verbatim for `Pending` and `Ready(Err(_))`; for `Ready(Ok(_))` it is `jcoreDone`. -/
def poll_tie_statement : Prop :=
  ∀ (g : TryJoin) (b : Eng Fix) (w : Nat),
    WfT g → FutStepsF b.w → (∀ c i, Wk.sub i ∈ b.w.handed c → i < g.roleKids.len) → g.roleDone = false →
    ∃ g' env' ret,
      TryJoin.poll g w ((absT g b).w.emit (.pollBegin w)) = some (g', env', ret) ∧
      (ret = .pending → WfT g') ∧
      ((∀ vs, ret ≠ .ready (.ok vs)) → jcore (absT g' b) = jcore (Eng.poll tryJoinSlice (absT g b) w)) ∧
      ((∃ vs, ret = .ready (.ok vs)) → TieTryJoinV.jcoreDone g.roleKids.len (absT g' b) (Eng.poll tryJoinSlice (absT g b) w)) ∧
      env'.scripts = (Eng.poll tryJoinSlice (absT g b) w).w.scripts ∧
      env'.handed = (Eng.poll tryJoinSlice (absT g b) w).w.handed ∧
      (Eng.poll tryJoinSlice (absT g b) w).w.trace = .pollEnd (outcomeOfTryJoin ret) :: env'.trace

/-- dropping a try_join that has not completed -/
def drop_tie_statement : Prop :=
  ∀ (g : TryJoin) (b : Eng Fix),
    WfT g → g.roleDone = false →
    ∃ g' env',
      TryJoin.drop g ((absT g b).w.emit .dropBegin) = some (g', env', ()) ∧
      (Eng.drop tryJoinSlice (absT g b)).w.trace = .dropEnd :: env'.trace ∧
      env'.scripts = b.w.scripts ∧ env'.handed = b.w.handed

/-- the states a failed try_join is left in (one slot `None`, the others `Pending` or `Ready` with an output) -/
structure WfFailed (g : TryJoin) : Prop where
  sl : g.roleStates.len = g.roleKids.len
  ic : g.roleItems.cap = g.roleKids.len
  rs : ∀ i, i < g.roleKids.len → (g.roleStates.get i = PS.PollState.pending ∨ g.roleStates.get i = PS.PollState.none_ ∨
        (g.roleStates.get i = PS.PollState.ready ∧ ∃ v, g.roleItems.get i = some v))

/-- dropping a try_join after it failed: the values already produced by the other children are released (not returned),
    and the children still pending are dropped -/
def drop_failed_tie_statement : Prop :=
  ∀ (g : TryJoin) (b : Eng Fix),
    WfFailed g →
    ∃ g' env',
      TryJoin.drop g ((absT g b).w.emit .dropBegin) = some (g', env', ()) ∧
      (Eng.drop tryJoinSlice (absT g b)).w.trace = .dropEnd :: env'.trace

end TieTryJoinVD

namespace TieTryJoinAD
open TryJoinAD

def absT (g : TryJoin) (b : Eng Fix) : Eng Fix :=
  { w := TieDir.absA g.roleWakers.readiness b.w,
    s := { b.s with n := g.roleKids.len, st := fun i => TiePS.abs (g.roleStates.get i), out := g.roleItems.get,
                    cnt := g.roleCount, dead := g.roleDone } }

structure WfT (N : Nat) (g : TryJoin) : Prop where
  kn : g.roleKids.len = N
  sl : g.roleStates.len = N
  ic : g.roleItems.cap = N
  pc : g.roleCount = ((List.range N).filter (fun i => g.roleStates.get i = PS.PollState.pending)).length
  rs : ∀ i, i < N → (g.roleStates.get i = PS.PollState.pending ∨
        (g.roleStates.get i = PS.PollState.ready ∧ ∃ v, g.roleItems.get i = some v))

/-- as for the Vec container: `jcore` verbatim for `Pending` and `Ready(Err(_))`, `jcoreDone` for `Ready(Ok(_))` -/
def poll_tie_statement : Prop :=
  ∀ (N : Nat) (g : TryJoin) (b : Eng Fix) (w : Nat),
    WfT N g → FutStepsF b.w → (∀ c i, Wk.sub i ∈ b.w.handed c → i < N) → g.roleDone = false →
    ∃ g' env' ret,
      TryJoin.poll N g w ((absT g b).w.emit (.pollBegin w)) = some (g', env', ret) ∧
      (ret = .pending → WfT N g') ∧
      ((∀ vs, ret ≠ .ready (.ok vs)) → jcore (absT g' b) = jcore (Eng.poll tryJoinSlice (absT g b) w)) ∧
      ((∃ vs, ret = .ready (.ok vs)) → TieTryJoinV.jcoreDone N (absT g' b) (Eng.poll tryJoinSlice (absT g b) w)) ∧
      env'.scripts = (Eng.poll tryJoinSlice (absT g b) w).w.scripts ∧
      env'.handed = (Eng.poll tryJoinSlice (absT g b) w).w.handed ∧
      (Eng.poll tryJoinSlice (absT g b) w).w.trace = .pollEnd (outcomeOfTryJoin ret) :: env'.trace

/-- dropping a try_join that has not completed -/
def drop_tie_statement : Prop :=
  ∀ (N : Nat) (g : TryJoin) (b : Eng Fix),
    WfT N g → g.roleDone = false →
    ∃ g' env',
      TryJoin.drop N g ((absT g b).w.emit .dropBegin) = some (g', env', ()) ∧
      (Eng.drop tryJoinSlice (absT g b)).w.trace = .dropEnd :: env'.trace ∧
      env'.scripts = b.w.scripts ∧ env'.handed = b.w.handed

/-- the states a failed try_join is left in (one slot `None`, the others `Pending` or `Ready` with an output) -/
structure WfFailed (N : Nat) (g : TryJoin) : Prop where
  kn : g.roleKids.len = N
  sl : g.roleStates.len = N
  ic : g.roleItems.cap = N
  rs : ∀ i, i < N → (g.roleStates.get i = PS.PollState.pending ∨ g.roleStates.get i = PS.PollState.none_ ∨
        (g.roleStates.get i = PS.PollState.ready ∧ ∃ v, g.roleItems.get i = some v))

/-- dropping a try_join after it failed: the values already produced by the other children are released (not returned),
    and the children still pending are dropped -/
def drop_failed_tie_statement : Prop :=
  ∀ (N : Nat) (g : TryJoin) (b : Eng Fix),
    WfFailed N g →
    ∃ g' env',
      TryJoin.drop N g ((absT g b).w.emit .dropBegin) = some (g', env', ()) ∧
      (Eng.drop tryJoinSlice (absT g b)).w.trace = .dropEnd :: env'.trace

end TieTryJoinAD

end Fc
