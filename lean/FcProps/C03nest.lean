/-
  C03 — poll discipline, for ONE LEVEL OF NESTING: an outer combinator some of whose children are
  themselves combinators ("inner instances") over scripted leaves (model: Fc/Nest.lean, the
  lock-step composition of the existing engine instances).

  "A child future is never polled again after it returned Ready and a child stream is never
   polled again after it returned None.  Children are polled only from inside a poll of the
   combinator that owns them … once a combinator has produced its final result it has stopped
   polling its children."

  For a nest this is a statement about three things, at every operation boundary of every history
  (`Nest.c03At`, Fc/NestMon.lean; `s` = the state of the nest, `to` = trace of the outer instance,
  `ti` = trace of the inner instance of nested child `c`):

    (1) `holds_C03 false to` — the flat monitor on the OUTER instance's trace: no child of the outer
        instance — plain or nested — is polled after it finished, nor outside a poll of the outer
        instance, nor after the outer instance's final result, nor after it was released, nor after
        the drop;
    (2) `holds_C03 false ti` — the same for every INNER instance and its leaves;
    (3) the LINK that makes this a statement about the nest and not about separate instances
        (`Nest.linkC03`):
          * `cntPB ti = s.polls c = cntCB to c` — the inner instance has received exactly as many
            polls as the outer instance polled child `c` (with (1): every poll of the inner
            instance happens inside a poll of the outer instance in which the outer instance
            polled `c`, while `c` was neither finished nor released);
          * `pollsOk ti` — on its own trace, the inner instance is never polled (`pollBegin`)
            after one of its polls returned the final result (`finalSeen false`), nor after it was
            dropped (`alive`);
          * `s.gone c = (gone to c || !alive to)` — the nest marks `c` released exactly when the
            outer instance dropped child `c` or was dropped itself;
          * `alive ti = !s.gone c` — and exactly then the inner instance has been dropped;
          * `finalSeen false ti = finished to c` — the inner instance has produced its final
            result exactly when the nested child is finished for the outer instance (its last
            answer was `ready` / `fin`).

  Hypothesis `Nest.kindOk nc = true` (Fc/NestMon.lean; a decidable predicate), the counterpart of
  `Case.kindOk`: the outer family and the inner family of every nested child `c < n` is one of the
  13 fixed-children models; a nested child answers with the kind of its inner family, which is the
  kind the outer family expects of that child (`Nest.famOkAt`: e.g. a `join` takes `race`s, a
  `merge` takes `chain`s); the scripted plain children `c < n` and the leaves `g < k` of every
  nested child answer according to their kind.  (Only the ids an instance owns are constrained —
  the script function is shared between the levels; that an instance never looks at the scripts of
  other ids is part of the proof, FcLemmas/NestC03Virt.lean.)

  Proof (FcLemmas/NestC03*.lean): the boundary invariant is
      flat C03 invariant (`C03.I` via the family's `Disc` instance) of the outer instance
    ∧ flat C03 invariant of every inner instance  ∧  `Nest.LK` (the link) for every nested child.
  The flat invariants do not look at the scripts except through `ScriptsOk`, so they survive the
  replacement of the outer instance's scripts by the speculative answers of the inner instances —
  which have the right kind because a family only produces outcomes of its kind (`outOk_policy`).
  The outer poll is analysed per nested child (`Nest.poll_m`): `c` is polled at most once; if it
  is, the monitor's check at that `childBegin c` gives "not finished, not released, alive" at the
  start of the poll, which through the link is exactly what `pollsOk` of the inner instance needs
  for the committed speculative poll (`Eng.poll_shape`: one `pollBegin`, one `pollEnd`).
-/
import FcLemmas.NestC03Inv

namespace Fc
open Mon

/-- C03 for a nest with one level of nesting, at every operation boundary (after every prefix of
    the history): every outer and inner family among join, try_join (array/Vec and tuple models),
    race, race_ok (all variants), merge, zip, chain, wait_until (future / stream); every number of
    children and of leaves, every nesting pattern of matching kinds, all leaf and child scripts of
    the right kind, all histories of top-level polls, wake-ups of children, nested children and
    leaves at any time, the drop at any point (and operations after it); both waker strategies. -/
theorem C03_nest (nc : Nest.NCase) (hk : Nest.kindOk nc = true) (k : Nat) :
    let s := (nc.ops.take k).foldl (Nest.step nc) (Nest.init nc)
    -- (1) the outer instance
    holds_C03 false s.out.w.trace = true ∧
    -- (2) every inner instance
    (∀ c, c < nc.n → (nc.inner c).isSome = true → holds_C03 false (s.inn c).w.trace = true) ∧
    -- (3) the link, for every nested child
    (∀ c, c < nc.n → (nc.inner c).isSome = true →
      Nest.cntPB (s.inn c).w.trace = s.polls c ∧
      Nest.cntCB s.out.w.trace c = s.polls c ∧
      Nest.pollsOk (s.inn c).w.trace = true ∧
      s.gone c = (gone s.out.w.trace c || !alive s.out.w.trace) ∧
      alive (s.inn c).w.trace = !s.gone c ∧
      finalSeen false (s.inn c).w.trace = finished s.out.w.trace c) := by
  intro s
  have h : Nest.NC03 nc s := Nest.nc03_prefix nc hk k
  refine ⟨h.fo.holds, ?_, ?_⟩
  · intro c hc hs
    cases hin : nc.inner c with
    | none => simp [hin] at hs
    | some fk => exact (h.fi c fk.1 fk.2 hc hin).holds
  · intro c hc hs
    have lk := h.lk c hc hs
    exact ⟨lk.pb, lk.cb, lk.po, lk.gn, lk.al, lk.fs⟩

/-- the executable form: the monitor `Nest.c03At` (the conjunction of (1)–(3) for all nested
    children `c < n`) accepts every operation boundary -/
theorem C03_nest_holds (nc : Nest.NCase) (hk : Nest.kindOk nc = true) :
    Nest.holdsC03Nest nc = true := by
  unfold Nest.holdsC03Nest
  simp only [List.all_eq_true, List.mem_range]
  intro k _
  exact Nest.c03At_of_inv (Nest.nc03_prefix nc hk k)

/-- … in particular at the end of the history -/
theorem C03_nest_run (nc : Nest.NCase) (hk : Nest.kindOk nc = true) :
    Nest.c03At nc (Nest.run nc) = true := by
  have := Nest.nc03_prefix nc hk nc.ops.length
  rw [List.take_length] at this
  exact Nest.c03At_of_inv this

/-! ### non-vacuity -/

def isPB : Ev → Bool
  | .pollBegin _ => true
  | _ => false

/-- Example 1: outer `join` (array model) over 2 children: child 0 plain, child 1 = an inner `race`
    over the leaves 200, 201.  Poll 1: everything pends.  Leaf 201 is woken; poll 2: leaf 201
    resolves, the race resolves, the join stores the value and RELEASES child 1 (and with it the
    race) in place.  A stale wake-up of leaf 200 of the released race, then child 0 is woken;
    poll 3: the join completes; poll 4 after completion (misuse); drop; a wake-up after the drop. -/
def C03nest_join_ops : List Op :=
  [.poll 1, .fire 201 0, .poll 2, .fire 200 0, .fire 0 0, .poll 3, .poll 4, .drop, .fire 201 0]

def C03nest_join (m : Mode) (ops : List Op) : Nest.NCase :=
  { mode := m, outer := .joinSlice, n := 2,
    inner := fun c => if c = 1 then some (.race, 2) else none,
    scripts := fun id =>
      if id = 0 then [⟨.pend, []⟩, ⟨.ready true 5, []⟩]
      else if id = 200 then [⟨.pend, []⟩, ⟨.pend, []⟩]
      else if id = 201 then [⟨.pend, []⟩, ⟨.ready true 7, []⟩]
      else [],
    ops := ops }

example : Nest.holdsC03Nest (C03nest_join .std C03nest_join_ops) = true := by decide
example : Nest.holdsC03Nest (C03nest_join .direct C03nest_join_ops) = true := by decide

/-- the hypothesis of the theorem is satisfiable: the example is of the right kind (whatever the
    mode and the history), so the theorem applies to it -/
theorem C03nest_join_kindOk (m : Mode) (ops : List Op) : Nest.kindOk (C03nest_join m ops) = true := rfl

example (m : Mode) (ops : List Op) : Nest.holdsC03Nest (C03nest_join m ops) = true :=
  C03_nest_holds _ (C03nest_join_kindOk m ops)

/-- the race received exactly 2 polls (as many as the join polled child 1), although the join was
    polled 4 times and a leaf of the race was woken after the race had resolved -/
example : ((Nest.run (C03nest_join .std C03nest_join_ops)).inn 1).w.trace.reverse.filter isPB
    = [.pollBegin 1, .pollBegin 2] := by decide
example : Nest.cntCB (Nest.run (C03nest_join .std C03nest_join_ops)).out.w.trace 1 = 2 := by decide
example : Nest.cntPB (Nest.run (C03nest_join .std C03nest_join_ops)).out.w.trace = 4 := by decide
/-- the race resolved in its second poll, the join answered `Ready` in its third -/
example : ((Nest.run (C03nest_join .std C03nest_join_ops)).inn 1).w.trace.contains
    (.pollEnd (.ready true [7])) = true := by decide
example : (Nest.run (C03nest_join .std C03nest_join_ops)).out.w.trace.contains
    (.pollEnd (.ready true [5, 9001])) = true := by decide
example : (Nest.run (C03nest_join .std C03nest_join_ops)).out.w.trace.contains
    (.pollEnd .misuse) = true := by decide
/-- after poll 2 the join has released child 1 and the race has been dropped — once, mid-history,
    and not again by the drop of the nest -/
example : (Nest.run (C03nest_join .std (C03nest_join_ops.take 3))).gone 1 = true := by decide
example : gone (Nest.run (C03nest_join .std (C03nest_join_ops.take 3))).out.w.trace 1 = true := by
  decide
example : alive ((Nest.run (C03nest_join .std (C03nest_join_ops.take 3))).inn 1).w.trace = false := by
  decide
example : Nest.cntDE ((Nest.run (C03nest_join .std C03nest_join_ops)).inn 1).w.trace = 1 := by decide

/-- Example 2: outer `merge` over one child = an inner `chain` over the leaves 100, 101.  The chain
    yields an item of leaf 100, moves on to leaf 101 (pending, woken between polls), yields its
    item, ends; the merge ends with it; a poll after the end; drop. -/
def C03nest_merge_ops : List Op :=
  [.poll 1, .poll 2, .fire 101 0, .poll 3, .poll 4, .poll 5, .drop]

def C03nest_merge (m : Mode) (ops : List Op) : Nest.NCase :=
  { mode := m, outer := .merge, n := 1,
    inner := fun c => if c = 0 then some (.chain, 2) else none,
    scripts := fun id =>
      if id = 100 then [⟨.item 1, []⟩, ⟨.fin, []⟩]
      else if id = 101 then [⟨.pend, []⟩, ⟨.item 2, []⟩, ⟨.fin, []⟩]
      else [],
    ops := ops }

example : Nest.kindOk (C03nest_merge .std C03nest_merge_ops) = true := by decide
example : Nest.holdsC03Nest (C03nest_merge .std C03nest_merge_ops) = true := by decide
example : Nest.holdsC03Nest (C03nest_merge .direct C03nest_merge_ops) = true := by decide
/-- the chain was polled 4 times (polls 1–4 of the merge), not by the poll after the end -/
example : Nest.cntPB ((Nest.run (C03nest_merge .std C03nest_merge_ops)).inn 0).w.trace = 4 := by decide
example : Nest.cntPB (Nest.run (C03nest_merge .std C03nest_merge_ops)).out.w.trace = 5 := by decide
example : ((Nest.run (C03nest_merge .std C03nest_merge_ops)).inn 0).w.trace.contains
    (.pollEnd (.some 0 [2])) = true := by decide
example : ((Nest.run (C03nest_merge .std C03nest_merge_ops)).inn 0).w.trace.contains
    (.pollEnd .none) = true := by decide
example : (Nest.run (C03nest_merge .std C03nest_merge_ops)).out.w.trace.contains
    (.pollEnd .none) = true := by decide
example : finalSeen false ((Nest.run (C03nest_merge .std C03nest_merge_ops)).inn 0).w.trace = true := by
  decide
example : finished (Nest.run (C03nest_merge .std C03nest_merge_ops)).out.w.trace 0 = true := by decide

/-- Example 3: a drop mid-flight (everything pending), followed by a poll and a wake-up of a leaf:
    the race is dropped with the join, exactly once, and is not polled afterwards -/
def C03nest_midflight : List Op := [.poll 1, .fire 201 0, .drop, .poll 2, .fire 200 0]

example : Nest.holdsC03Nest (C03nest_join .std C03nest_midflight) = true := by decide
example : Nest.cntPB ((Nest.run (C03nest_join .std C03nest_midflight)).inn 1).w.trace = 1 := by decide
example : Nest.cntDE ((Nest.run (C03nest_join .std C03nest_midflight)).inn 1).w.trace = 1 := by decide
example : (Nest.run (C03nest_join .std C03nest_midflight)).gone 1 = true := by decide
example : alive ((Nest.run (C03nest_join .std C03nest_midflight)).inn 1).w.trace = false := by decide

/-! the monitors reject wrong composed traces: hand-made states of a nest `join [race]` -/

def C03nest_nc1 : Nest.NCase :=
  { mode := .std, outer := .joinSlice, n := 1, inner := fun c => if c = 0 then some (.race, 1) else none,
    scripts := fun _ => [], ops := [] }

def C03nest_st (outerTrace innerTrace : List Ev) (polls : Nat) (gone : Bool) : Nest.St :=
  { out := { w := { World.init .std 1 (fun _ => []) with trace := outerTrace }, s := Fix.init 1 1 },
    inn := fun _ => { w := { World.init .direct 1 (fun _ => []) with trace := innerTrace },
                      s := Fix.init 1 0 },
    polls := fun _ => polls, gone := fun _ => gone }

/-- a correct composed state: one outer poll that polled the nested child, one inner poll -/
example : Nest.c03At C03nest_nc1 (C03nest_st
    [.pollEnd .pending, .childEnd 0 .pend, .childBegin 0 0 (.sub 0), .pollBegin 7]
    [.pollEnd .pending, .childEnd 0 .pend, .childBegin 0 0 (.par 1), .pollBegin 1] 1 false) = true := by
  decide
/-- the inner instance was polled although the outer instance did not poll the nested child -/
example : Nest.c03At C03nest_nc1 (C03nest_st
    [.pollEnd .pending, .pollBegin 7]
    [.pollEnd .pending, .childEnd 0 .pend, .childBegin 0 0 (.par 1), .pollBegin 1] 0 false) = false := by
  decide
/-- the inner instance was polled again after it had produced its final result (each trace on its
    own is accepted by the flat monitor: the outer instance saw `pend` twice) -/
example : Nest.c03At C03nest_nc1 (C03nest_st
    [.pollEnd .pending, .childEnd 0 .pend, .childBegin 0 0 (.sub 0), .pollBegin 8,
     .pollEnd .pending, .childEnd 0 .pend, .childBegin 0 0 (.sub 0), .pollBegin 7]
    [.pollEnd .misuse, .pollBegin 2,
     .pollEnd (.ready true [3]), .childEnd 0 (.ready true 3), .childBegin 0 0 (.par 1), .pollBegin 1]
    2 false) = false := by decide
example : Nest.pollsOk [.pollEnd .misuse, .pollBegin 2, .pollEnd (.ready true [3]),
    .childEnd 0 (.ready true 3), .childBegin 0 0 (.par 1), .pollBegin 1] = false := by decide
/-- the nested child finished for the outer instance although the inner instance has not produced
    its final result -/
example : Nest.c03At C03nest_nc1 (C03nest_st
    [.pollEnd (.ready true [9000]), .childDropped 0, .childEnd 0 (.ready true 9000),
     .childBegin 0 0 (.sub 0), .pollBegin 7]
    [.pollEnd .pending, .childEnd 0 .pend, .childBegin 0 0 (.par 1), .pollBegin 1] 1 false) = false := by
  decide
/-- the outer instance released the nested child but the inner instance was not dropped -/
example : Nest.c03At C03nest_nc1 (C03nest_st
    [.pollEnd (.ready true [9000]), .childDropped 0, .childEnd 0 (.ready true 9000),
     .childBegin 0 0 (.sub 0), .pollBegin 7]
    [.pollEnd (.ready true [3]), .childEnd 0 (.ready true 3), .childBegin 0 0 (.par 1), .pollBegin 1]
    1 true) = false := by decide
/-- … and the same state with the inner instance dropped is accepted -/
example : Nest.c03At C03nest_nc1 (C03nest_st
    [.pollEnd (.ready true [9000]), .childDropped 0, .childEnd 0 (.ready true 9000),
     .childBegin 0 0 (.sub 0), .pollBegin 7]
    [.dropEnd, .childDropped 0, .dropBegin,
     .pollEnd (.ready true [3]), .childEnd 0 (.ready true 3), .childBegin 0 0 (.par 1), .pollBegin 1]
    1 true) = true := by decide
/-- the inner instance was polled after it had been dropped -/
example : Nest.pollsOk [.pollEnd .misuse, .pollBegin 2, .dropEnd, .childDropped 0, .dropBegin,
    .pollEnd .pending, .childEnd 0 .pend, .childBegin 0 0 (.par 1), .pollBegin 1] = false := by decide
/-- a leaf polled after the inner instance's final result is rejected by conjunct (2) -/
example : Nest.c03At C03nest_nc1 (C03nest_st
    [.pollEnd .pending, .childEnd 0 .pend, .childBegin 0 0 (.sub 0), .pollBegin 7]
    [.childBegin 0 0 (.par 1), .pollEnd (.ready true [3]), .childEnd 0 (.ready true 3),
     .childBegin 0 0 (.par 1), .pollBegin 1] 1 false) = false := by decide

/-- without the kind hypothesis the statement fails: a `join` whose nested child is a `merge`
    (a stream: it answers `fin`, which the monitor counts as finished while the join — which only
    understands `ready` — keeps polling it) -/
def C03nest_wrong_kind : Nest.NCase :=
  { mode := .std, outer := .joinSlice, n := 1, inner := fun c => if c = 0 then some (.merge, 1) else none,
    scripts := fun id => if id = 100 then [⟨.fin, []⟩] else [],
    ops := [.poll 1, .fire 0 0, .poll 2] }

example : Nest.famOkAt C03nest_wrong_kind 0 = false := by decide
example : Nest.kindOk C03nest_wrong_kind = false := by decide
example : Nest.holdsC03Nest C03nest_wrong_kind = false := by decide

end Fc

#print axioms Fc.C03_nest
#print axioms Fc.C03_nest_run
#print axioms Fc.C03_nest_holds
#print axioms Fc.C03nest_join_kindOk
